(* C13 — Declared accounts and path mutations are realized in the image.
   Property theorems only; each is closed by [exact]/[apply] of a lemma proved in
   Proofs/AccountsProofs.v / Proofs/PathMutProofs.v and followed by Print
   Assumptions.  The default shell, home prefix, homeless marker, modes, the
   passwd/group format strings and the mutator table are the ones goextract
   read from accounts.go / passwd.go / group.go / paths.go on this run
   (Generated/C13Consts.v); [maxl] is the filesystems' symlink nesting limit. *)
From Apko Require Import Base.Prelude Model.C13Fs Model.Accounts Model.PathMut Model.C13Build Generated.C13Consts
  Spec.AccountsSpec Spec.PathMutSpec Proofs.AccountsProofs Proofs.AccountsCodec Proofs.PathMutResolve Proofs.AccountsHomes Proofs.PathMutProofs Proofs.PathMutFrame Proofs.PathMutFuel Proofs.PathMutKinds Proofs.PathMutBuild
  Proofs.PathMutWf Proofs.PathMutExact Spec.AccountsClean Proofs.AccountsParsed.
Open Scope string_scope. Open Scope list_scope.

(* the constants in the source are the documented defaults: /bin/sh, /home/,
   /dev/null, 0700, 0755, gid := uid (Validate's own copy of the prefix included) *)
Theorem c13_defaults_pinned :
  default_shell = spec_default_shell /\ home_prefix = spec_home_prefix /\
  validate_home_prefix = spec_home_prefix /\ no_home = spec_no_home /\
  home_perm = spec_home_mode /\ home_parent_perm = spec_parent_mode /\ gid_defaults_to_uid = true.
Proof. exact consts_are_spec. Qed.
Print Assumptions c13_defaults_pinned.

(* c13_passwd_group.  For every tree, account list and run-as name: when the
   passwd half of mutateAccounts succeeds, the pre-existing text parsed to some
   [old], and the file that Create finally opened holds exactly the written form
   of old ++ map user_to_entry users, where every added entry realises its
   configured user (name, ids, shell, home; defaults exactly when unset).
   Likewise etc/group when groups are configured; it is not touched otherwise. *)
Theorem c13_passwd_group : forall maxl f users groups ra f1 f' ra',
  mutate_groups maxl f groups = FOk f1 -> mutate_users maxl f1 users ra = FOk (f', ra') ->
  (exists fa txt old fb fc i,
     read_or_create maxl f1 etc_passwd passwd_open_perm = FOk (fa, txt) /\ parse_users txt = Some old /\
     ensure_homes maxl fa (old ++ List.map user_to_entry users) = FOk fb /\
     openfile maxl maxl fb etc_passwd create_perm = FOk (fc, i) /\
     f' = upd fc i (fun n => trunc_write n (write_users (old ++ List.map user_to_entry users))) /\
     PasswdRealised old users (old ++ List.map user_to_entry users)) /\
  (groups = [] -> f1 = f) /\
  (groups <> [] -> exists fa txt old fb i,
     read_or_create maxl f etc_group group_open_perm = FOk (fa, txt) /\ parse_groups txt = Some old /\
     openfile maxl maxl fa etc_group create_perm = FOk (fb, i) /\
     f1 = upd fb i (fun n => trunc_write n (write_groups (old ++ List.map group_to_entry groups))) /\
     GroupFileRealised old groups (old ++ List.map group_to_entry groups)).
Proof.
  intros maxl f users groups ra f1 f' ra' Hg Hu. split; [|split].
  - destruct (mutate_users_inv _ _ _ _ _ _ Hu) as (fa & txt & old & fb & fc & i & H1 & H2 & H3 & H4 & H5 & _).
    exists fa, txt, old, fb, fc, i. repeat split; auto. exists (List.map user_to_entry users). split; [reflexivity | apply map_realised].
  - intros ->. rewrite mutate_groups_none in Hg. inversion Hg. reflexivity.
  - intro Hne. destruct (mutate_groups_inv _ _ _ _ Hne Hg) as (fa & txt & old & fb & i & H1 & H2 & H3 & H4).
    exists fa, txt, old, fb, i. repeat split; auto. exists (List.map group_to_entry groups). split; [reflexivity | apply map_group_realised].
Qed.
Print Assumptions c13_passwd_group.

Theorem c13_defaults_exactly_when_unset : forall u,
  let e := user_to_entry u in
  (cu_shell u = "" -> ue_shell e = default_shell) /\ (cu_shell u <> "" -> ue_shell e = cu_shell u) /\
  (cu_home u = "" -> ue_home e = (home_prefix ++ cu_name u)%string) /\ (cu_home u <> "" -> ue_home e = cu_home u) /\
  (cu_gid u = None -> ue_gid e = cu_uid u) /\ (forall g, cu_gid u = Some g -> ue_gid e = g) /\
  ue_uid e = cu_uid u /\ ue_name e = cu_name u.
Proof. exact defaults_exactly_when_unset. Qed.
Print Assumptions c13_defaults_exactly_when_unset.

(* c13_codec_roundtrip: the text level.  For every list of well-formed entries
   (no ':' or newline inside a field, no leading blank in the name, no trailing
   blank in the last field, ids below 2^32, line below the scanner's limit —
   [wf_user]/[wf_group], decidable) what UserEntry.Write / GroupEntry.Write
   produce with the formats read from the source is parsed back by
   ReadUserFile / ReadGroupFile to the same entries.  Since fix 4aa2cd2 an empty
   member field is read as NO members, so a group without members comes back as
   written; the one member list that does not is the single empty name [""]
   ([norm_members]: it comes back empty; the text is the same).  Hence the file
   written by mutateAccounts re-reads as the pre-existing entries followed by
   exactly the configured ones. *)
Theorem c13_codec_roundtrip :
  (forall es, forallb wf_user es = true -> parse_users (write_users es) = Some es) /\
  (forall es, forallb wf_group es = true -> parse_groups (write_groups es) = Some (List.map norm_group es)) /\
  (forall es, write_groups (List.map norm_group es) = write_groups es) /\
  (forall e, ge_members e <> [""] -> norm_group e = e) /\
  (forall old users, forallb wf_user old = true -> forallb wf_user (List.map user_to_entry users) = true ->
     parse_users (write_users (old ++ List.map user_to_entry users)) = Some (old ++ List.map user_to_entry users)) /\
  (forall old groups, forallb wf_group old = true -> forallb wf_group (List.map group_to_entry groups) = true ->
     parse_groups (write_groups (old ++ List.map group_to_entry groups)) =
       Some (List.map norm_group (old ++ List.map group_to_entry groups))).
Proof.
  split; [exact parse_write_users|]. split; [exact parse_write_groups|]. split; [exact write_groups_norm|].
  split; [intros [n p g ms] H; unfold norm_group; cbn in *; rewrite norm_members_id; auto|].
  split; [exact reread_users | exact reread_groups].
Qed.
Print Assumptions c13_codec_roundtrip.
Example c13_codec_example :
  wf_user (user_to_entry (mkCU "app" 4294967295 None "" "")) = true /\
  wf_group (group_to_entry (mkCG "g" 5 ["a"; "b"])) = true /\ wf_group (group_to_entry (mkCG "h" 6 [])) = true.
Proof. repeat split; vm_compute; reflexivity. Qed.

(* c13_run_as.  run-as becomes the uid of the FIRST entry of that name in
   old ++ configured — so a package-provided entry wins over a configured one —
   and is unchanged when no entry matches (or when it is empty). *)
Theorem c13_run_as : forall maxl f users ra f' ra',
  mutate_users maxl f users ra = FOk (f', ra') ->
  exists fa txt old, read_or_create maxl f etc_passwd passwd_open_perm = FOk (fa, txt) /\ parse_users txt = Some old /\
    RunAsResolved ra (old ++ List.map user_to_entry users) ra' /\
    (forall e, ra <> "" -> first_named ra old = Some e -> ra' = dec (ue_uid e)) /\
    (first_named ra (old ++ List.map user_to_entry users) = None -> ra' = ra).
Proof.
  intros maxl f users ra f' ra' H.
  destruct (mutate_users_inv _ _ _ _ _ _ H) as (fa & txt & old & fb & fc & i & H1 & H2 & _ & _ & _ & HR).
  exists fa, txt, old. repeat split; auto.
  - intros e Hne Hf. eapply run_as_prefers_old; eauto.
  - intro Hn. eapply run_as_unchanged; eauto.
Qed.
Print Assumptions c13_run_as.

(* c13_homes.  For every tree and entry: a /dev/null home is skipped; an
   existing directory (also through a symlink) leaves the whole filesystem
   untouched; an existing non-directory is an error; a MISSING home (its cleaned
   path free of "." / "..", which every absolute home is) is created so that
   - Stat(home) afterwards finds the very node Mkdir made: an empty directory
     with mode 0700 owned by the entry's uid:gid;
   - nothing that existed before is changed (kind, mode, owner, link target,
     content); directories only gain entries ([fs_ext]);
   - every other node that was added is a 0755 directory owned by root (the
     missing parents). *)
Theorem c13_homes : forall maxl f e,
  let h := home_path (ue_home e) in
  (ue_home e = no_home -> ensure_home maxl f e = FOk f) /\
  (forall n, stat maxl f h = FOk n -> is_dir n = true -> ensure_home maxl f e = FOk f) /\
  (forall n, ue_home e <> no_home -> stat maxl f h = FOk n -> is_dir n = false -> ensure_home maxl f e = FErr) /\
  (is_abs (ue_home e) = true -> forallb tidy (p_comps h) = true) /\
  (forall f', ue_home e <> no_home -> forallb tidy (p_comps h) = true ->
     stat maxl f h = FNotExist -> ensure_home maxl f e = FOk f' ->
     exists i, (List.length f <= i)%nat /\ gn maxl f' h = FOk i /\
       stat maxl f' h = FOk (mkNode KDir home_perm (ue_uid e) (ue_gid e) "" "" [] "") /\
       fs_ext f f' /\
       (forall j n, (List.length f <= j)%nat -> j <> i -> get f' j = Some n -> fresh_dir home_parent_perm n)).
Proof.
  intros maxl f e h. split; [apply ensure_home_homeless|]. split; [intros; eapply ensure_home_existing_dir; eauto|].
  split; [intros; eapply ensure_home_non_directory; eauto|]. split; [apply home_path_abs_tidy|].
  intros f' H1 H2 H3 H4. exact (ensure_home_created maxl f e f' H1 H2 H3 H4).
Qed.
Print Assumptions c13_homes.

(* c13_homes_sequence.  The whole loop of mutateAccounts over pre-existing and
   configured entries (absolute homes): an entry whose home was missing when
   its turn came — i.e. was not shipped by a package and not made for an
   earlier entry — has at the END of the loop a directory with mode 0700 and
   its own uid:gid under its home path, whatever was created afterwards; and
   the loop as a whole changes nothing that existed. *)
Theorem c13_homes_sequence : forall maxl pre e post f fk f',
  forallb abs_home (pre ++ e :: post) = true ->
  ensure_homes maxl f (pre ++ e :: post) = FOk f' ->
  ensure_homes maxl f pre = FOk fk ->
  ue_home e <> no_home -> stat maxl fk (home_path (ue_home e)) = FNotExist ->
  fs_ext f f' /\
  exists n, stat maxl f' (home_path (ue_home e)) = FOk n /\
            nkind n = KDir /\ nperm n = home_perm /\ nuid n = ue_uid e /\ ngid n = ue_gid e.
Proof. exact ensure_homes_final. Qed.
Print Assumptions c13_homes_sequence.

(* the former finding C13-F3 (fixed by 82f3aa3, filepath.Clean): a missing home
   declared as "/srv/ts/" is the 0700 directory itself, nothing is nested in it *)
Theorem c13_homes_trailing_slash_fixed :
  exists e f', ue_home e = "/srv/ts/" /\ ensure_home 40 tree_with_etc e = FOk f' /\
    stat 40 tree_with_etc (path_of (ue_home e)) = FNotExist /\
    home_realised_b (ue_uid e) (ue_gid e) None
      (option_map sinfo_of (match stat 40 f' (path_of (ue_home e)) with FOk n => Some n | _ => None end)) = true /\
    stat 40 f' (path_of "/srv/ts/ts") = FNotExist.
Proof. exact home_trailing_slash_fixed. Qed.
Print Assumptions c13_homes_trailing_slash_fixed.

(* c13_mutations_last: mode and owner, for the mutation applied last.  For every
   tree and sequence: if mutatePaths succeeds on ms ++ [m], the node that m's path
   RESOLVES to in the final tree carries m's declared permission value and owner
   — whatever the type (each supported mutator is followed by Chmod+Chown of the
   path).  Holds for every permission value; the layer keeps it only below
   0o1000 (c13_layer_mode).  For a symlink mutation the resolved node is the
   link's TARGET (c13_symlink_owner_refuted, finding C13-F2).  The kind of what
   sits at the path is c13_mutations_kinds, the recursive case
   c13_mutations_recursive, what happens to everything else c13_mutations_frame. *)
Theorem c13_mutations_last : forall maxl f ms m f',
  mutate_paths maxl f (ms ++ [m]) = FOk f' ->
  exists n, stat maxl f' (path_of (m_path m)) = FOk n /\
            nperm n = m_perm m /\ nuid n = m_uid m /\ ngid n = m_gid m.
Proof. exact last_mutation_post. Qed.
Print Assumptions c13_mutations_last.

(* c13_mutations_kinds.  After a successful mutation of each type (any tree):
   - directory: the path resolves to a DIRECTORY node carrying the declared mode
     and owner (the tree's root being a directory, as in every filesystem the
     code builds);
   - symlink: the entry stored under the path itself is a symbolic link whose
     target is the declared source;
   - hardlink: the entry stored under the path and the declared source resolve to
     ONE AND THE SAME node (so they share mode, owner and content for ever);
   - empty-file: an entry that is neither a directory nor a link was opened and
     its own buffer is empty; a reader then sees the backing package entry if
     there is one (finding C13-F4), nothing otherwise — unless truncation lets go
     of the entry ([tarfs_trunc_detaches], read from pkg/tarfs/fs.go; false today).
   Not proved: that the empty-file path resolves to that very node (openFile and
   getNode resolve a final symbolic link by different rules), nor that it is a
   regular file rather than a device node. *)
Theorem c13_mutations_kinds : forall maxl f m f',
  mutate_one maxl f m = FOk f' ->
  (m_type m = "directory" -> (exists rn, get f root_ino = Some rn /\ is_dir rn = true) ->
     exists t n, gn maxl f' (path_of (m_path m)) = FOk t /\ get f' t = Some n /\ nkind n = KDir /\
                 nperm n = m_perm m /\ nuid n = m_uid m /\ ngid n = m_gid m) /\
  (m_type m = "symlink" ->
     exists n, direct maxl f' (path_of (m_path m)) = FOk n /\ nkind n = KSym /\ ntarget n = m_source m) /\
  (m_type m = "hardlink" ->
     exists t, direct_idx maxl f' (path_of (m_path m)) = FOk t /\ gn maxl f' (path_of (m_source m)) = FOk t).
Proof.
  intros maxl f m f' H. split; [intros Ht Hr; eapply directory_kind; eauto|].
  split; [intro Ht; eapply symlink_kind; eauto | intro Ht; eapply hardlink_same_node; eauto].
Qed.
Print Assumptions c13_mutations_kinds.

Theorem c13_empty_file : forall maxl f m f1,
  mutate_empty_file maxl f m = FOk f1 ->
  exists o n, get f1 o = Some n /\ ndata n = "" /\ edata n = nback n /\ nkind n <> KDir /\ nkind n <> KSym /\
              (tarfs_trunc_detaches = true -> nback n = "").
Proof. exact empty_file_emptied. Qed.
Print Assumptions c13_empty_file.

(* c13_mutations_recursive.  A recursive directory mutation: with t the node the
   path resolves to once MkdirAll has run, EVERY node below t — reached through
   directory entries that are not symbolic links, at any depth — ends with the
   declared mode and owner ([below], Proofs/PathMutKinds.v).  (A symbolic-link
   entry is not descended; Chmod/Chown go through it to its target, which
   c13_mutations_frame accounts for: whatever else changes gets the declared
   values too.) *)
Theorem c13_mutations_recursive : forall maxl f m f',
  m_type m = "directory" -> m_recursive m = true -> mutate_one maxl f m = FOk f' ->
  exists f0 t, mkdirall maxl f (path_of (m_path m)) (m_perm m) = FOk f0 /\ gn maxl f0 (path_of (m_path m)) = FOk t /\
    forall j, below f0 t j -> has_attrs_at (m_perm m) (m_uid m) (m_gid m) f' j.
Proof. exact directory_recursive_covers. Qed.
Print Assumptions c13_mutations_recursive.

(* c13_mutations_frame.  What a mutation, and a whole declared sequence, may
   change in the nodes that existed before it — for every tree (symbolic links,
   shared hard-link inodes and all), every sequence, every permission value:
   - no node disappears or changes its kind, link target or backing package entry;
   - a mode / owner that differs afterwards is one DECLARED by a mutation of the
     sequence; content that differs has become empty ([changes], Proofs/PathMutFrame.v);
   - one mutation that is neither empty-file nor a recursive directory changes
     mode, owner or content of at most ONE old node: the node its own path
     resolves to afterwards; for a sequence of such mutations the only old nodes
     that may differ are [targets]: what each mutation's path resolved to right
     after it was applied.  In particular a node that is no mutation's target —
     such as the 0700 home made by the accounts step when the declared paths lie
     BELOW it — keeps mode, owner and content.
   Directory listings are not constrained here (created parents and the paths'
   own entries are added, a hardlink mutation replaces the entry at its path). *)
Theorem c13_mutations_frame : forall maxl,
  (forall f m f', mutate_one maxl f m = FOk f' ->
     exists t S, gn maxl f' (path_of (m_path m)) = FOk t /\
       changes (AP_of m) (AO_of m) (t :: S) f f' /\ (simple m = true -> S = [])) /\
  (forall ms f f', mutate_paths maxl f ms = FOk f' ->
     (exists S, changes (AP_seq ms) (AO_seq ms) S f f') /\
     (forallb simple ms = true -> changes (AP_seq ms) (AO_seq ms) (targets maxl f ms) f f')) /\
  (forall ms f f' i n, mutate_paths maxl f ms = FOk f' -> forallb simple ms = true ->
     get f i = Some n -> ~ In i (targets maxl f ms) ->
     exists n', get f' i = Some n' /\ nkind n' = nkind n /\ nperm n' = nperm n /\ nuid n' = nuid n /\
                ngid n' = ngid n /\ ndata n' = ndata n /\ ntarget n' = ntarget n).
Proof.
  intro maxl. split; [exact (mutate_one_frame maxl)|]. split; [exact (mutate_paths_frame maxl)|].
  intros ms f f' i n H Hs Hi Hn. destruct (mutate_paths_frame maxl ms f f' H) as (_ & C). destruct (C Hs) as (_ & C').
  destruct (C' i n Hi) as (n' & G & (K & T & _ & _ & _ & _ & F)). destruct (F Hn) as (P & U & Gd & D).
  exists n'. repeat split; assumption.
Qed.
Print Assumptions c13_mutations_frame.

(* c13_fuel.  The model's own fuel is never what decides: getNode never answers
   "out of fuel"; on a well-formed heap ([wf]: directory entries that lead to a
   directory lead to a later-allocated node, no name twice in a listing — true of
   the empty tree and kept by MkdirAll/Mkdir/OpenFile/Symlink, by Chmod/Chown and
   by the walk itself) the walk of a recursive directory mutation with the fuel
   mutateDirectory gives it (heap size + 1) never runs out, mutateDirectory never
   answers "out of fuel", and [dump] with more fuel lists nothing more.  What [wf]
   excludes is a hard-linked directory, on which fs.WalkDir itself never ends. *)
Theorem c13_fuel :
  (forall d f cs, getnode d f cs <> FFuel) /\
  (forall p, wf (empty_fs p)) /\
  (forall maxl perm ps f cur trav f', wf f -> mkdirall_from maxl f cur trav ps perm = FOk f' -> wf f') /\
  (forall f g, same_listing f g -> wf f -> wf g) /\
  (forall maxl f p isdir perm u g, wf f -> walk maxl (S (List.length f)) f p isdir perm u g <> FFuel) /\
  (forall maxl perm u g fuel f p isdir f', walk maxl fuel f p isdir perm u g = FOk f' -> same_listing f f') /\
  (forall maxl f m, wf f -> mutate_directory maxl f m <> FFuel) /\
  (forall f k, f <> [] -> dir_edges_up f -> dump_from (S (List.length f) + k) f root_ino "" = dump f).
Proof.
  split; [exact getnode_no_fuel|]. split; [exact wf_empty|]. split; [exact mkdirall_from_wf|].
  split; [exact wf_same_listing|]. split; [exact walk_fuel_suffices|]. split; [exact walk_listing|].
  split; [exact mutate_directory_no_fuel | exact dump_fuel_suffices].
Qed.
Print Assumptions c13_fuel.

(* c13_pipeline_order.  buildImage, as written in the source on this run, shapes
   the tree the packages produced in this order: mutateAccounts, then
   etc/apko.json, then mutatePaths (the other steps, wherever they stand, are
   outside C13).  So a path mutation nested under a configured user's home
   finds the home already made by the accounts step, and "the home already
   existed" can only mean: before this build's own declarations. *)
Theorem c13_pipeline_order :
  filter c13_step build_image_steps = ["mutateAccounts"; "WriteEtcApkoConfig"; "mutatePaths"] /\
  forall maxl f users groups ra muts,
    build_image maxl f users groups ra muts =
    fdo r <- mutate_accounts maxl f users groups ra;
    fdo f2 <- write_apko_config maxl (fst r);
    fdo f3 <- mutate_paths maxl f2 muts;
    FOk (f3, snd r).
Proof. split; [exact steps_order_pinned | exact build_image_unfold]. Qed.
Print Assumptions c13_pipeline_order.

(* a mutation type that is not in pathMutators is rejected *)
Theorem c13_unknown_type_rejected : forall maxl f m,
  assoc (m_type m) path_mutators = None -> mutate_one maxl f m = FErr.
Proof. exact unknown_type_rejected. Qed.
Print Assumptions c13_unknown_type_rejected.

(* the layer: tar.FileInfoHeader keeps exactly the modes up to 0o777 *)
Theorem c13_layer_mode : forall p, layer_mode p = p <-> (p <= 511)%N.
Proof. exact layer_mode_exact_iff. Qed.
Print Assumptions c13_layer_mode.

(* c13_special_bits [refuted], finding C13-F1: [directory /tmp 0o1777] succeeds,
   the tree stores 0o1777, the layer entry says 0o777 *)
Theorem c13_special_bits_refuted :
  exists m f', m_perm m = 1023%N /\
    mutate_paths 40 (empty_fs 493) [m] = FOk f' /\
    (exists n, stat 40 f' (path_of (m_path m)) = FOk n /\ nperm n = m_perm m) /\
    exists l, In l (layer_of f') /\ d_path l = "tmp" /\ d_perm l = 511%N /\ d_perm l <> m_perm m.
Proof. exact special_bits_refuted. Qed.
Print Assumptions c13_special_bits_refuted.

(* finding C13-F2: the owner declared on a symlink mutation is given to the
   link's target; the link stays 0:0 and the validator flags it *)
Theorem c13_symlink_owner_refuted :
  exists f m f', m_type m = "symlink" /\ mutate_paths 40 f [m] = FOk f' /\
    (exists l, direct 40 f' (path_of (m_path m)) = FOk l /\ nkind l = KSym /\ ntarget l = m_source m /\
               nuid l = 0%N /\ nuid l <> m_uid m) /\
    (exists t, stat 40 f' (path_of (m_source m)) = FOk t /\ nuid t = m_uid m /\ ngid t = m_gid m /\ nperm t = m_perm m) /\
    realised_tags m (mkStep (match direct 40 f' (path_of (m_path m)) with FOk n => Some (dentry_of "" n) | _ => None end)
                            None 0 None []) = ["viol:symlink-owner-not-applied"].
Proof. exact symlink_owner_refuted. Qed.
Print Assumptions c13_symlink_owner_refuted.

(* the boolean validators run on the implementation's observed results decide
   exactly the readable statements of the two Spec files *)
Theorem c13_validators_decide :
  (forall old users new, passwd_realised_b old users new = true <-> PasswdRealised old users new) /\
  (forall ra es r, run_as_resolved_b ra es r = true <-> RunAsResolved ra es r) /\
  (forall u g b a, home_realised_b u g b a = true <-> HomeRealised u g b a) /\
  (forall m o, In (m_type m) ["directory"; "empty-file"; "hardlink"; "symlink"; "permissions"] ->
               (realised_tags m o = [] <-> Realised m o)) /\
  (forall m l, layer_tags m l = [] <-> LayerRealised m l).
Proof.
  split; [exact passwd_realised_b_iff|]. split; [exact run_as_resolved_b_iff|].
  split; [exact home_realised_b_iff|]. split; [exact realised_tags_iff | exact layer_tags_iff].
Qed.
Print Assumptions c13_validators_decide.

(* non-vacuity: a home that is really created, with its parent *)
Example c13_home_created :
  exists f', ensure_home 40 tree_with_etc (mkUE "app" "x" 1000 1000 "" "/home/app" "/bin/sh") = FOk f' /\
    option_map sinfo_of (match stat 40 f' (path_of "/home/app") with FOk n => Some n | _ => None end)
      = Some (mkSinfo KDir spec_home_mode 1000 1000) /\
    option_map sinfo_of (match stat 40 f' (path_of "/home") with FOk n => Some n | _ => None end)
      = Some (mkSinfo KDir spec_parent_mode 0 0).
Proof. exact home_created_example. Qed.

(* non-vacuity of c13_passwd_group / c13_run_as: a colliding name, the
   package-provided entry wins *)
Example c13_accounts_example :
  exists f' , mutate_accounts 40
      [mkNode KDir 493 0 0 "" "" [("etc", 1%nat)] ""; mkNode KDir 493 0 0 "" "" [("passwd", 2%nat)] "";
       mkNode KFile 420 0 0 "" (write_users [mkUE "app" "x" 77 77 "pkg" "/dev/null" "/bin/sh"]) [] ""]
      [mkCU "app" 1000 None "" ""] [mkCG "g" 5 ["app"]] "app" = FOk (f', "77") /\
    match gnode 40 f' etc_passwd with FOk n => Some (ndata n) | _ => None end = Some (write_users [mkUE "app" "x" 77 77 "pkg" "/dev/null" "/bin/sh";
                                          mkUE "app" "x" 1000 1000 "Account created by apko" "/home/app" "/bin/sh"]).
Proof. eexists. split; vm_compute; reflexivity. Qed.

(* non-vacuity of c13_pipeline_order / c13_mutations_frame / c13_homes_sequence: the
   configuration of seeded change C13-3 on the model — user app (home not
   shipped), a declared directory BELOW the home: the home is the accounts
   step's 0700 directory of app, the declared directory is as declared *)
Example c13_pipeline_example :
  exists f' ra, build_image 40 tree_with_etc [mkCU "app" 1000 None "" ""] [mkCG "app" 1000 []] ""
                  [mkMut "directory" "/home/app/.cache" "" 493 1000 1000 false] = FOk (f', ra) /\
    option_map sinfo_of (match stat 40 f' (path_of "/home/app") with FOk n => Some n | _ => None end)
      = Some (mkSinfo KDir spec_home_mode 1000 1000) /\
    option_map sinfo_of (match stat 40 f' (path_of "/home/app/.cache") with FOk n => Some n | _ => None end)
      = Some (mkSinfo KDir 493 1000 1000) /\
    option_map sinfo_of (match stat 40 f' (path_of apko_config_path) with FOk n => Some n | _ => None end)
      = Some (mkSinfo KFile apko_config_perm 0 0).
Proof. eexists. eexists. split; [vm_compute; reflexivity|]. repeat split; vm_compute; reflexivity. Qed.

(* ======================= session 6: exactness, order, well-formedness ======================= *)

(* c13_empty_file_path.  The path-level statement for empty-file.  For every tree
   and every empty-file mutation whose path is written without "." / ".." — a
   TRAILING SLASH is allowed: mutateEmptyFile cleans the path (fix 10a6051, was
   finding C13-F6; [empty_file_path_cleaned] is read from the source and the proof
   below uses its value) — and which in the result is not the NAME OF A SYMBOLIC
   LINK (openFile follows such a link by its own rules: not covered): with p the
   path without its trailing slash, the entry stored under p and what the
   declared path resolves to are ONE node t, and that node
   - is neither a directory nor a link; it is a regular file when it was
     created by this mutation, and keeps its kind when it existed (a regular
     file — also one backed by a package's tar entry on tarfs — or a device);
   - has an empty buffer, and reads as empty once truncation lets go of the tar
     entry ([tarfs_trunc_detaches], read from pkg/tarfs/fs.go: true since fix
     5efa993, so a package-backed file is empty as well);
   - carries the declared mode and owner. *)
Theorem c13_empty_file_path : forall maxl f m f',
  m_type m = "empty-file" -> mutate_one maxl f m = FOk f' ->
  let p0 := path_of (m_path m) in
  let p := mkPath (p_abs p0) (p_comps p0) false in
  forallb tidy (p_comps p0) = true ->
  (forall l, direct maxl f' p = FOk l -> nkind l <> KSym) ->
  exists t n, gn maxl f' p0 = FOk t /\ direct_idx maxl f' p = FOk t /\ get f' t = Some n /\
    ndata n = "" /\ edata n = nback n /\ (tarfs_trunc_detaches = true -> edata n = "") /\
    nperm n = m_perm m /\ nuid n = m_uid m /\ ngid n = m_gid m /\
    nkind n <> KDir /\ nkind n <> KSym /\
    (List.length f <= t -> nkind n = KFile)%nat /\
    (forall n0, get f t = Some n0 -> nkind n = nkind n0).
Proof. intros maxl f m f' Hty H p0 p Ht Hs. exact (empty_file_path maxl f m f' Hty H Ht (or_introl eq_refl) Hs). Qed.
Print Assumptions c13_empty_file_path.
(* satisfiable: a fresh file, a package-backed file of tarfs (truncation detaches today), a path with a trailing slash *)
Example c13_empty_file_path_example :
  tarfs_trunc_detaches = true /\ empty_file_path_cleaned = true /\
  let f := [mkNode KDir 493 0 0 "" "" [("lib", 1%nat)] ""; mkNode KDir 493 0 0 "" "" [("a.so", 2%nat)] ""; mkNode KFile 420 0 0 "" "" [] "ELF"] in
  forall m, In m [mkMut "empty-file" "/lib/a.so" "" 384 5 6 false; mkMut "empty-file" "/etc/new/f" "" 416 0 0 false;
                  mkMut "empty-file" "/srv/keep/" "" 416 5 6 false] ->
    match mutate_one 40 f m with
    | FOk f' => match stat 40 f' (path_of (m_path m)) with
                | FOk n => nkind n = KFile /\ edata n = "" /\ nperm n = m_perm m /\ nuid n = m_uid m
                | _ => False end
    | _ => False end.
Proof. split; [reflexivity|]. split; [reflexivity|]. intros f m [<-|[<-|[<-|[]]]]; vm_compute; repeat split. Qed.

(* c13_empty_file_trailing_slash_fixed (was finding C13-F6, fixed by 10a6051): the
   old witness {type: empty-file, path: /x/y/} now creates the FILE /x/y with the
   declared mode and owner, nothing nested, validator satisfied *)
Theorem c13_empty_file_trailing_slash_fixed :
  exists m f', m_type m = "empty-file" /\ m_path m = "/x/y/" /\ p_trail (path_of (m_path m)) = true /\
    mutate_paths 40 (empty_fs 493) [m] = FOk f' /\
    (exists n, stat 40 f' (path_of (m_path m)) = FOk n /\ nkind n = KFile /\ edata n = "" /\
               nperm n = m_perm m /\ nuid n = m_uid m /\ ngid n = m_gid m) /\
    stat 40 f' (path_of "/x/y/y") = FNotExist /\
    realised_tags m (mkStep None (match stat 40 f' (path_of (m_path m)) with FOk n => Some (sinfo_of n) | _ => None end) 0 None []) = [].
Proof. exact empty_file_trailing_slash_fixed. Qed.
Print Assumptions c13_empty_file_trailing_slash_fixed.

(* HYPOTHETICAL (not today's source): were the declared path handed to
   filepath.Dir/Base as written ([mutate_empty_file_uncleaned], the shape before
   fix 10a6051, which IS the model whenever goextract finds no Clean), /x/y/ would
   become a directory with the declared attributes and the file would be
   /x/y/y; the validator's tag for it stays armed *)
Theorem c13_hypothetical_uncleaned_empty_file_nests :
  (exists m f', m_type m = "empty-file" /\ m_path m = "/x/y/" /\
    mutate_empty_file_uncleaned 40 (empty_fs 493) m = FOk f' /\
    (exists n, stat 40 f' (path_of (m_path m)) = FOk n /\ nkind n = KDir /\ nperm n = m_perm m /\ nuid n = m_uid m) /\
    (exists n, stat 40 f' (path_of "/x/y/y") = FOk n /\ nkind n = KFile /\ nperm n = create_perm /\ nuid n = 0%N) /\
    realised_tags m (mkStep None (match stat 40 f' (path_of (m_path m)) with FOk n => Some (sinfo_of n) | _ => None end) 0 None [])
      = ["viol:empty-file-trailing-slash-nests-file"]) /\
  (empty_file_path_cleaned = false -> forall maxl f m, m_type m = "empty-file" ->
     mutate_one maxl f m = mutate_empty_file_uncleaned maxl f m).
Proof. split; [exact hypothetical_uncleaned_empty_file_nests | exact uncleaned_is_model]. Qed.
Print Assumptions c13_hypothetical_uncleaned_empty_file_nests.

(* c13_recursive_exact.  Only `directory` honours `recursive` (mutatePermissions
   ignores the flag).  For every tree without a doubly-listed name
   ([no_shadow], kept by every operation: c13_wf_preserved) and every recursive
   directory mutation, with f0 the tree after MkdirAll and t what the path
   resolves to there, [reach maxl f0 p t] is EXACTLY the set of nodes the
   mutation touches:
   - reach = t itself, every node below t through entries that are not symbolic
     links (any depth; contains [below] of c13_mutations_recursive), and the
     nodes that the symbolic-link entries met on the way RESOLVE to (fs.WalkDir
     does not descend a link, but the callback's Chmod/Chown go through it — so
     a node outside the directory changes when a link inside points at it);
   - every node in reach ends with exactly the declared mode and owner;
   - every node NOT in reach is, field for field, what it was after MkdirAll —
     and MkdirAll changes no existing node's kind, mode, owner, target or
     content (fs_ext) and adds only directories with the declared mode. *)
Theorem c13_recursive_exact : forall maxl f m f',
  no_shadow f -> m_type m = "directory" -> m_recursive m = true -> mutate_one maxl f m = FOk f' ->
  let p := path_of (m_path m) in
  exists f0 t, mkdirall maxl f p (m_perm m) = FOk f0 /\ gn maxl f0 p = FOk t /\
    fs_ext f f0 /\ (forall i n, (List.length f <= i)%nat -> get f0 i = Some n -> fresh_dir (m_perm m) n) /\
    (forall j, reach maxl f0 p t j -> has_attrs_at (m_perm m) (m_uid m) (m_gid m) f' j) /\
    (forall j, ~ reach maxl f0 p t j -> get f' j = get f0 j) /\
    (forall j, below f0 t j -> reach maxl f0 p t j).
Proof. exact directory_recursive_exact. Qed.
Print Assumptions c13_recursive_exact.
(* satisfiable, and the link case is real: /d holds a link to /out; /out changes, /other does not *)
Example c13_recursive_exact_example :
  let f := [mkNode KDir 493 0 0 "" "" [("d", 1%nat); ("out", 3%nat); ("other", 4%nat)] ""; mkNode KDir 493 0 0 "" "" [("l", 2%nat)] "";
            mkNode KSym 511 0 0 "/out" "" [] ""; mkNode KFile 420 0 0 "" "o" [] ""; mkNode KFile 420 0 0 "" "x" [] ""] in
  no_shadow f /\
  match mutate_one 40 f (mkMut "directory" "/d" "" 448 7 8 true) with
  | FOk f' => option_map sinfo_of (get f' 3%nat) = Some (mkSinfo KFile 448 7 8) /\ get f' 4%nat = get f 4%nat /\
              option_map sinfo_of (get f' 2%nat) = Some (mkSinfo KSym 511 0 0)
  | _ => False end.
Proof.
  intro f. split; [|vm_compute; repeat split].
  intros i n nm c Hi Hin.
  do 5 (destruct i as [|i]; [cbn in Hi; inversion Hi; subst; cbn in Hin;
                             repeat (destruct Hin as [Hin|Hin]; [inversion Hin; subst; reflexivity|]); contradiction|]).
  cbn in Hi. destruct i; discriminate.
Qed.

(* c13_wf_preserved.  Well-formedness needs to be assumed of the INITIAL tree only.
   [no_shadow] (no name twice in a listing) is kept by every mutation, by
   mutatePaths over any list, and — with [dir_edges_up] — by mutateAccounts and
   WriteEtcApkoConfig; the whole [wf] (the directory structure is a tree) is kept
   by a list of mutations provided no hardlink mutation links a DIRECTORY at its
   turn ([no_dir_hardlinks]; memfs/tarfs Link accept a directory, and fs.WalkDir
   need not end on the result), in particular by every list without hardlink
   entries.  Per operation: Proofs/PathMutWf.v (MkdirAll, Mkdir, Chmod, Chown,
   the walk, openFile, Create+write, Symlink, Remove, Link). *)
Theorem c13_wf_preserved : forall maxl,
  (forall f m f', no_shadow f -> mutate_one maxl f m = FOk f' -> no_shadow f') /\
  (forall ms f f', no_shadow f -> mutate_paths maxl f ms = FOk f' -> no_shadow f') /\
  (forall ms f f', wf f -> no_dir_hardlinks maxl f ms -> mutate_paths maxl f ms = FOk f' -> wf f') /\
  (forall ms f, forallb (fun m => negb (String.eqb (m_type m) "hardlink")) ms = true -> no_dir_hardlinks maxl f ms) /\
  (forall f users groups ra f' ra', wf f -> mutate_accounts maxl f users groups ra = FOk (f', ra') -> wf f') /\
  (forall f f', wf f -> write_apko_config maxl f = FOk f' -> wf f') /\
  (forall f old new f', no_shadow f -> link maxl f old new = FOk f' -> no_shadow f') /\
  (forall f p f', wf f -> remove maxl f p = FOk f' -> wf f').
Proof.
  intro maxl. split; [exact (mutate_one_no_shadow maxl)|]. split; [exact (mutate_paths_no_shadow maxl)|].
  split; [exact (mutate_paths_wf maxl)|]. split; [exact (no_hardlinks_no_dir_hardlinks maxl)|].
  split; [exact (mutate_accounts_wf maxl)|]. split; [exact (write_apko_config_wf maxl)|].
  split; [exact (link_no_shadow maxl)|].
  intros f p f' (U & N) H. split; [eapply remove_dir_edges; eauto | eapply remove_no_shadow; eauto].
Qed.
Print Assumptions c13_wf_preserved.

(* c13_mutations_in_order.  mutatePaths applies the declared list IN ORDER, each
   mutation (of whatever type, `permissions` included) on the tree the earlier
   ones left.  For every tree without a doubly-listed name and every list
   ms1 ++ m :: ms2 on which it succeeds: with fk the tree after ms1 ++ [m] and t
   the node m's path resolves to there,
   - t carries m's declared mode and owner in fk, and
   - still at the end, unless a LATER mutation touches t ([touched_seq]: t is what
     a later mutation's own path resolves to right after it, the file a later
     empty-file opened, or a node in [reach] of a later recursive directory);
   - a later mutation m' whose path resolves to the same node overrides m: the
     final mode and owner of t are those of the LAST mutation that resolves to t
     (second statement: instance of the first for m').
   More generally no node changes mode, owner, content, kind or link target
   except the ones touched ([mutate_paths_untouched]); for lists of simple
   mutations the touched nodes are [targets] of c13_mutations_frame.
   This is the statement that deferring `permissions` entries to the end of the
   list (seeded change C13-5) falsifies: see c13_in_order_example. *)
Theorem c13_mutations_in_order : forall maxl,
  (forall ms1 m ms2 f f', no_shadow f -> mutate_paths maxl f (ms1 ++ m :: ms2) = FOk f' ->
     exists fk t, mutate_paths maxl f (ms1 ++ [m]) = FOk fk /\ mutate_paths maxl fk ms2 = FOk f' /\
       gn maxl fk (path_of (m_path m)) = FOk t /\
       has_attrs_at (m_perm m) (m_uid m) (m_gid m) fk t /\
       (~ touched_seq maxl fk ms2 t -> has_attrs_at (m_perm m) (m_uid m) (m_gid m) f' t)) /\
  (forall ms1 m ms2 m' ms3 f f', no_shadow f -> mutate_paths maxl f (ms1 ++ m :: ms2 ++ m' :: ms3) = FOk f' ->
     exists f1 f2 t t', mutate_paths maxl f (ms1 ++ [m]) = FOk f1 /\ gn maxl f1 (path_of (m_path m)) = FOk t /\
       mutate_paths maxl f ((ms1 ++ m :: ms2) ++ [m']) = FOk f2 /\ gn maxl f2 (path_of (m_path m')) = FOk t' /\
       (t' = t -> ~ touched_seq maxl f2 ms3 t -> has_attrs_at (m_perm m') (m_uid m') (m_gid m') f' t)) /\
  (forall ms f f' j a, no_shadow f -> mutate_paths maxl f ms = FOk f' -> get f j = Some a -> ~ touched_seq maxl f ms j ->
     exists a', get f' j = Some a' /\ same_attrs a a') /\
  (forall ms f j, forallb simple ms = true -> touched_seq maxl f ms j -> In j (targets maxl f ms)).
Proof.
  intro maxl. split; [exact (mutations_in_order maxl)|]. split; [|split; [exact (mutate_paths_untouched maxl) | exact (touched_seq_simple maxl)]].
  intros ms1 m ms2 m' ms3 f f' NS H.
  assert (H' : mutate_paths maxl f ((ms1 ++ m :: ms2) ++ m' :: ms3) = FOk f') by (rewrite <- app_assoc; exact H).
  destruct (mutations_in_order maxl _ _ _ _ _ NS H') as (f2 & t' & K2 & R2 & G2 & _ & F2).
  rewrite <- app_assoc in K2. cbn [app] in K2.
  assert (K1 : exists f1, mutate_paths maxl f (ms1 ++ [m]) = FOk f1).
  { replace (ms1 ++ m :: ms2 ++ [m']) with ((ms1 ++ [m]) ++ ms2 ++ [m']) in K2 by (rewrite <- app_assoc; reflexivity).
    rewrite mutate_paths_app_gen in K2. destruct (mutate_paths maxl f (ms1 ++ [m])) as [f1| | |]; try discriminate. eauto. }
  destruct K1 as (f1 & K1).
  destruct (mutate_paths_app maxl _ _ _ _ K1) as (f0 & _ & Hm). destruct (mutate_one_post maxl _ _ _ Hm) as (n & Hs & _).
  unfold stat, gnode in Hs. destruct (gn maxl f1 (path_of (m_path m))) as [t| | |] eqn:Gt; try discriminate.
  exists f1, f2, t, t'. split; [exact K1|]. split; [exact Gt|]. split; [rewrite <- app_assoc; exact K2|]. split; [exact G2|].
  intros E Hnt. subst t'. apply F2. exact Hnt.
Qed.
Print Assumptions c13_mutations_in_order.
(* the configuration class of seeded change C13-5 on the model: a `permissions`
   entry followed by a directory mutation of the same path — the LATER one decides
   (0755 root), not the permissions entry (0700 5:5) *)
Example c13_in_order_example :
  let f := [mkNode KDir 493 0 0 "" "" [("d", 1%nat)] ""; mkNode KDir 493 0 0 "" "" [] ""] in
  let ms := [mkMut "permissions" "/d" "" 448 5 5 false; mkMut "directory" "/d" "" 493 0 0 false] in
  match mutate_paths 40 f ms with
  | FOk f' => option_map sinfo_of (get f' 1%nat) = Some (mkSinfo KDir 493 0 0) /\
              targets 40 f ms = [1%nat; 1%nat]
  | _ => False end.
Proof. vm_compute. split; reflexivity. Qed.

(* c13_parsed_wellformed.  Entries obtained by PARSING any passwd / group text are
   well-formed in everything but the length of the line they are re-written as
   (fields without ':' and newline, no blank before the name or after the last
   field, ids below 2^32; members without ','), so: whatever text the packages
   ship, if it parses, and the CONFIGURED entries' fields are clean, and the
   written lines stay below the scanner's limit, the file mutateAccounts writes
   reads back as exactly old ++ configured (groups: up to the [""] member
   list).  The length condition cannot be dropped: an id written "-1" comes back
   as 4294967295 ([parsed_line_may_grow]). *)
Theorem c13_parsed_wellformed :
  (forall txt es, parse_users txt = Some es -> forallb wf_user_fields es = true) /\
  (forall txt es, parse_groups txt = Some es -> forallb wf_group_fields es = true) /\
  (forall e, wf_user e = wf_user_fields e && short_user e) /\ (forall e, wf_group e = wf_group_fields e && short_group e) /\
  (forall txt old users, parse_users txt = Some old -> forallb clean_user users = true ->
     forallb short_user (old ++ List.map user_to_entry users) = true ->
     parse_users (write_users (old ++ List.map user_to_entry users)) = Some (old ++ List.map user_to_entry users)) /\
  (forall txt old groups, parse_groups txt = Some old -> forallb clean_group groups = true ->
     forallb short_group (old ++ List.map group_to_entry groups) = true ->
     parse_groups (write_groups (old ++ List.map group_to_entry groups)) =
       Some (List.map norm_group (old ++ List.map group_to_entry groups))) /\
  (exists line e, parse_user line = Some e /\ (String.length line < String.length (user_line e))%nat).
Proof.
  split; [exact parsed_users_wf|]. split; [exact parsed_groups_wf|]. split; [exact wf_user_split|]. split; [exact wf_group_split|].
  split; [exact clean_accounts_reread|]. split; [|exact parsed_line_may_grow].
  intros txt old groups Hp Hc Hs. eapply reread_parsed_groups; eauto.
  rewrite forallb_forall in *. intros e He. apply in_map_iff in He. destruct He as (g & <- & Hg). apply (Hc g Hg).
Qed.
Print Assumptions c13_parsed_wellformed.
Example c13_parsed_wellformed_example :
  clean_user (mkCU "app" 1000 None "" "") = true /\ clean_group (mkCG "g" 5 ["a"; "b"]) = true /\
  exists old, parse_users (String.append "root:x:0:0:root:/root:/bin/ash" (String nl "")) = Some old /\
              forallb short_user (old ++ [user_to_entry (mkCU "app" 1000 None "" "")]) = true.
Proof. split; [reflexivity|]. split; [reflexivity|]. eexists. split; [vm_compute; reflexivity | vm_compute; reflexivity]. Qed.

(* c13_group_collisions.  What the accounts writer does when a configured group
   collides with an entry that is already in etc/group — same name and another
   gid, same gid and another name, same name AND gid (with other or the same
   members), or an earlier identical configured group: NOTHING special.
   appendGroup appends: every pre-existing entry stays at its position, each
   configured group's entry stands after all of them, in configuration order,
   with exactly its configured name, gid and member list (nothing merged, nothing
   dropped), and the text is the old entries' text followed by the configured
   entries' text.  (Seeded change C13-6 — skip a configured group that is already
   there under the same name and gid — falsifies the length and the position
   statements.) *)
Theorem c13_group_collisions : forall maxl f groups f',
  groups <> [] -> mutate_groups maxl f groups = FOk f' ->
  exists fa txt old fb i,
    read_or_create maxl f etc_group group_open_perm = FOk (fa, txt) /\ parse_groups txt = Some old /\
    openfile maxl maxl fa etc_group create_perm = FOk (fb, i) /\
    let final := old ++ List.map group_to_entry groups in
    f' = upd fb i (fun n => trunc_write n (write_groups final)) /\
    write_groups final = (write_groups old ++ write_groups (List.map group_to_entry groups))%string /\
    List.length final = (List.length old + List.length groups)%nat /\
    (forall k e, nth_error old k = Some e -> nth_error final k = Some e) /\
    (forall k g, nth_error groups k = Some g ->
       nth_error final (List.length old + k)%nat = Some (mkGE (cg_name g) group_password (cg_gid g) (cg_members g))).
Proof. exact group_collisions. Qed.
Print Assumptions c13_group_collisions.
(* the three collision kinds on a concrete file *)
Example c13_group_collisions_example :
  let old := [mkGE "bin" "x" 1 ["root"; "bin"]] in
  let tree := [mkNode KDir 493 0 0 "" "" [("etc", 1%nat)] ""; mkNode KDir 493 0 0 "" "" [("group", 2%nat)] "";
               mkNode KFile 420 0 0 "" (write_groups old) [] ""] in
  forall g, In g [mkCG "bin" 1 ["app"]; mkCG "bin" 7 []; mkCG "other" 1 ["bin"]] ->
    match mutate_groups 40 tree [g] with
    | FOk f' => match gnode 40 f' etc_group with
                | FOk n => ndata n = (write_groups old ++ write_group (group_to_entry g))%string
                | _ => False end
    | _ => False end.
Proof. exact group_collision_examples. Qed.

(* c13_validated_accounts (was finding C13-F5, fixed by 3dfd539).  Validate, accounts
   part, as modelled from the source: a user needs a name and a uid other than 0,
   a group a name, and no field may hold a character of the sets goextract reads
   from Validate's strings.ContainsAny tests ([validate_forbidden]; the proof
   evaluates them: ':' and every ASCII blank, newline included, for user names,
   shells, group names and members, ',' too for members, ':' and newline for
   homes).  Hence for every configuration Validate ACCEPTS (ids within uint32,
   which the Go types guarantee): every configured entry is clean, and — whatever
   text the packages ship, provided it parses and the written lines stay below
   the scanner's limit — etc/passwd and etc/group as written by mutateAccounts
   re-read as exactly old ++ configured (groups up to the [""] member list): no
   entry nobody configured, no unreadable line.  The old witnesses are refused. *)
Theorem c13_validated_accounts :
  (forall users groups, validate_accounts users groups = true -> ids_in_range users groups ->
     forallb clean_user users = true /\ forallb clean_group groups = true) /\
  (forall utxt gtxt oldu oldg users groups,
     validate_accounts users groups = true -> ids_in_range users groups ->
     parse_users utxt = Some oldu -> parse_groups gtxt = Some oldg ->
     forallb short_user (oldu ++ List.map user_to_entry users) = true ->
     forallb short_group (oldg ++ List.map group_to_entry groups) = true ->
     parse_users (write_users (oldu ++ List.map user_to_entry users)) = Some (oldu ++ List.map user_to_entry users) /\
     parse_groups (write_groups (oldg ++ List.map group_to_entry groups)) =
       Some (List.map norm_group (oldg ++ List.map group_to_entry groups))) /\
  (validate_accounts [inject_user] [] = false /\ validate_accounts [colon_user] [] = false /\
   validate_accounts [mkCU " app" 1000 None "" "/home/app"] [] = false /\ validate_accounts [mkCU "svc" 1001 None "/bin/sh " ""] [] = false /\
   validate_accounts [] [mkCG "g:h" 7 []] = false /\ validate_accounts [] [mkCG "g" 7 ["a,b"]] = false /\
   validate_accounts [] [mkCG "g" 7 [String.append "a" (String nl "root:x:0:app")]] = false).
Proof. split; [exact validated_accounts_clean|]. split; [exact validated_accounts_reread | exact separators_refused]. Qed.
Print Assumptions c13_validated_accounts.
Example c13_validated_accounts_example :
  validate_accounts [mkCU "app" 1000 None "" ""; mkCU "svc" 1001 (Some 2000%N) "/sbin/nologin" "/var/lib/my svc"] [mkCG "g" 5 ["app"; "svc"]] = true /\
  ids_in_range [mkCU "app" 1000 None "" ""] [mkCG "g" 5 ["app"]].
Proof.
  split; [vm_compute; reflexivity|]. split.
  - intros u [<-|[]]. split; [reflexivity | intros g E; discriminate].
  - intros g [<-|[]]. reflexivity.
Qed.

(* HYPOTHETICAL (not the build pipeline): a configuration that did NOT go through
   today's Validate — mutateAccounts called directly, or Validate without its
   character tests ([validate_basic], the shape before fix 3dfd539).
   mutateAccounts itself still writes fields verbatim: a shell holding a newline
   then adds a uid-0 entry nobody configured, a name holding ':' makes the file
   unreadable.  Validate is the only protection; the validator's tag
   account-field-breaks-passwd-syntax stays armed for it. *)
Theorem c13_hypothetical_unvalidated_separators :
  validate_basic [inject_user] [] = true /\ validate_basic [colon_user] [] = true /\
  clean_user inject_user = false /\ clean_user colon_user = false /\
  (exists txt, passwd_after [inject_user] = Some txt /\
     parse_users txt = Some [user_to_entry (mkCU "app" 1000 None "/bin/sh" ""); mkUE "root2" "x" 0 0 "" "/root" "/bin/sh"] /\
     parse_users txt <> Some (List.map user_to_entry [inject_user])) /\
  (exists txt, passwd_after [colon_user] = Some txt /\ parse_users txt = None).
Proof. exact hypothetical_unvalidated_separators. Qed.
Print Assumptions c13_hypothetical_unvalidated_separators.

(* c13_base_image_accounts_skipped.  Builds on a base image (contents.baseimage,
   experimental; reachable through the Go API only — the YAML loader refuses
   accounts and paths next to a base image).  buildImage guards the accounts
   step with `Contents.BaseImage == nil`: goextract finds the `if` around the call
   of mutateAccounts by shape and [accounts_skipped_with_base_image] says whether
   its condition is that test (the proof uses its value: removing or changing the
   guard breaks it).  With [build_image_b] = the pipeline with that guard:
   - without a base image it IS the pipeline of c13_pipeline_order;
   - WITH a base image the configured users and groups play no part at all: the
     result is etc/apko.json followed by the declared path mutations on the tree as
     it was, run-as is handed on UNRESOLVED, so etc/passwd / etc/group (the base
     image's accounts) are kept verbatim unless a declared mutation names them and
     no home directory is made — i.e. for such builds "the configured users and
     groups are in the image" does NOT hold: they are silently dropped. *)
Theorem c13_base_image_accounts_skipped :
  accounts_skipped_with_base_image = true /\
  (forall maxl f users groups ra muts,
     build_image_b maxl false f users groups ra muts = build_image maxl f users groups ra muts) /\
  (forall maxl f users groups ra muts,
     build_image_b maxl true f users groups ra muts =
     fdo f2 <- write_apko_config maxl f; fdo f3 <- mutate_paths maxl f2 muts; FOk (f3, ra)) /\
  (forall maxl f users groups ra f' ra',
     build_image_b maxl true f users groups ra [] = FOk (f', ra') -> ra' = ra /\ write_apko_config maxl f = FOk f').
Proof.
  split; [reflexivity|]. split; [exact build_image_b_false|]. split; [exact build_image_b_true | exact build_image_b_true_no_paths].
Qed.
Print Assumptions c13_base_image_accounts_skipped.
(* non-vacuity: the configuration of c13_pipeline_example on a base image — the
   passwd text stays the base's, app's home is NOT made, run-as stays the name *)
Example c13_base_image_example :
  let base := [mkNode KDir 493 0 0 "" "" [("etc", 1%nat)] ""; mkNode KDir 493 0 0 "" "" [("passwd", 2%nat)] "";
               mkNode KFile 420 0 0 "" (write_users [mkUE "root" "x" 0 0 "root" "/root" "/bin/sh"]) [] ""] in
  exists f', build_image_b 40 true base [mkCU "app" 1000 None "" ""] [mkCG "app" 1000 []] "app" [] = FOk (f', "app") /\
    match gnode 40 f' etc_passwd with FOk n => Some (ndata n) | _ => None end = Some (write_users [mkUE "root" "x" 0 0 "root" "/root" "/bin/sh"]) /\
    stat 40 f' (path_of "/home/app") = FNotExist /\ stat 40 f' (path_of "/etc/group") = FNotExist.
Proof. eexists. split; [vm_compute; reflexivity|]. repeat split; vm_compute; reflexivity. Qed.
