(* C14 — Multi-arch builds select only packages available on every architecture.
   Property theorems only; proofs are in Proofs/C14Proofs.v, Proofs/ResolveTheorems.v.

   disqualify_difference by_arch = Model/Resolver.v: disqualifyDifference, the set
   every architecture's resolution starts from (dq_for by_arch a = its part for
   architecture a); resolve U W dq0 = GetPackagesWithDependencies. *)
From Apko Require Import Base.Prelude Generated.VersionConsts Generated.C03Version Model.Version Model.Resolver
  Spec.ResolveSpec Proofs.ResolveProofs Proofs.ResolveProofs2 Proofs.C14Proofs Proofs.ResolveTheorems.
Open Scope string_scope. Open Scope list_scope. Open Scope nat_scope.

(* the validator run on the implementation's install sets decides the specification *)
Theorem c14_validator_decides : forall others S, foreign_check others S = [] <-> NoForeign others S.
Proof. exact foreign_check_spec. Qed.
Print Assumptions c14_validator_decides.

(* the up-front difference marks exactly the packages whose (name, version) is
   missing from some OTHER architecture — and nothing when there is one architecture *)
Theorem c14_dq_complete : forall by_arch a i,
  In (a, i) (disqualify_difference by_arch) <->
  List.length by_arch <> 1 /\
  exists U, In (a, U) by_arch /\ i < List.length U /\
    exists b V, In (b, V) by_arch /\ b <> a /\ ~ Available V (nth i U dummy_pkg).
Proof. exact disqualify_difference_spec. Qed.
Print Assumptions c14_dq_complete.
Example c14_dq_example : disqualify_difference BA_F1 = [("x86_64", 2)].
Proof. vm_compute. reflexivity. Qed.

(* every member that filterPackages selected is outside the initial set: a
   member inside it can only be a package with install_if (added by the
   install_if loop, which consults no disqualification) *)
Theorem c14_filtered_members : forall U W dq0 S j,
  resolve U W dq0 = Ok S -> In j S -> In j dq0 -> p_install_if (nth j U dummy_pkg) <> [].
Proof. exact members_filtered. Qed.
Print Assumptions c14_filtered_members.

(* REFUTED: C14-F1, install_if members bypass the cross-architecture filter
   (witness BA_F1 = {x86_64: [w->a, a, a-x(install_if a)], aarch64: [w->a, a]},
   replayed on the real code by the harness corpus) *)
Theorem c14_no_foreign_version_refuted :
  exists by_arch a U W S,
    In (a, U) by_arch /\ resolve U W (dq_for by_arch a) = Ok S /\
    ~ NoForeign (others_of by_arch a) (pkgs_of U S) /\
    In "foreign-version/install-if-member" (foreign_check (others_of by_arch a) (pkgs_of U S)).
Proof. exact no_foreign_refuted_lemma. Qed.
Print Assumptions c14_no_foreign_version_refuted.

(* PARTIAL: without install_if packages in the resolved architecture's universe,
   no member is missing from another architecture — whatever the other
   architectures look like, however deep the divergence *)
Theorem c14_no_foreign_version_partial : forall by_arch a U W S,
  In (a, U) by_arch -> (forall p, In p U -> p_install_if p = []) ->
  resolve U W (dq_for by_arch a) = Ok S ->
  NoForeign (others_of by_arch a) (pkgs_of U S).
Proof. exact no_foreign_partial_lemma. Qed.
Print Assumptions c14_no_foreign_version_partial.
Example c14_partial_example :
  let ba := [("x86_64", [wp "app" "1" ["lib"] [] []; wp "lib" "1" [] [] []; wp "lib" "2" [] [] []]);
             ("aarch64", [wp "app" "1" ["lib"] [] []; wp "lib" "1" [] [] []])] in
  resolve (snd (nth 0 ba ("", []))) ["app"] (dq_for ba "x86_64") = Ok [1; 0] /\
  resolve (snd (nth 0 ba ("", []))) ["app"] [] = Ok [2; 0].
Proof. vm_compute. split; reflexivity. Qed.

(* with at most one architecture the initial set is empty and the resolution
   is the plain one.  Stated for a FRESH disqualification cache: the cache is
   keyed by the concatenated index list, not by the grouping (finding C08-F2),
   so after an earlier call that grouped the same index objects differently the
   real code can hand back that call's set; the caches belong to C08. *)
Theorem c14_single_arch_unaffected : forall by_arch, List.length by_arch <= 1 ->
  disqualify_difference by_arch = [] /\
  forall a U W, resolve U W (dq_for by_arch a) = resolve U W [].
Proof. exact single_arch_lemma. Qed.
Print Assumptions c14_single_arch_unaffected.
