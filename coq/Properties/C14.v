(* C14 — Multi-arch builds select only packages available on every architecture.
   Property theorems only; proofs are in Proofs/C14Proofs.v, Proofs/ResolveTheorems.v.

   disqualify_difference by_arch = Model/Resolver.v: disqualifyDifference, the set
   every architecture's resolution starts from (dq_for by_arch a = its part for
   architecture a); resolve U W dq0 = GetPackagesWithDependencies. *)
From Apko Require Import Base.Prelude Generated.VersionConsts Generated.C03Version Model.Version Model.Resolver
  Spec.ResolveSpec Proofs.ResolveProofs Proofs.ResolveProofs2 Proofs.C14Proofs Proofs.ResolveTheorems.
Open Scope string_scope. Open Scope list_scope. Open Scope nat_scope.

(* the validator run on the implementation's install sets decides the specification *)
Theorem c14_validator_decides : forall others S, foreign_check others S = [] <-> NoForeign others S.
Proof. exact foreign_check_spec. Qed.
Print Assumptions c14_validator_decides.

(* the up-front difference marks exactly the packages whose (name, version) is
   missing from some OTHER architecture — and nothing when there is one architecture *)
Theorem c14_dq_complete : forall by_arch a i,
  In (a, i) (disqualify_difference by_arch) <->
  List.length by_arch <> 1 /\
  exists U, In (a, U) by_arch /\ i < List.length U /\
    exists b V, In (b, V) by_arch /\ b <> a /\ ~ Available V (nth i U dummy_pkg).
Proof. exact disqualify_difference_spec. Qed.
Print Assumptions c14_dq_complete.
Example c14_dq_example : disqualify_difference BA_F1 = [("x86_64", 2)].
Proof. vm_compute. reflexivity. Qed.

(* every member that filterPackages selected is outside the initial set: a
   member inside it can only be a package with install_if (added by the
   install_if loop, which consults no disqualification) *)
Theorem c14_filtered_members : forall U W dq0 S j,
  resolve U W dq0 = Ok S -> In j S -> In j dq0 -> p_install_if (nth j U dummy_pkg) <> [].
Proof. exact members_filtered. Qed.
Print Assumptions c14_filtered_members.

(* REFUTED: C14-F1, install_if members bypass the cross-architecture filter
   (witness BA_F1 = {x86_64: [w->a, a, a-x(install_if a)], aarch64: [w->a, a]},
   replayed on the real code by the harness corpus) *)
Theorem c14_no_foreign_version_refuted :
  exists by_arch a U W S,
    In (a, U) by_arch /\ resolve U W (dq_for by_arch a) = Ok S /\
    ~ NoForeign (others_of by_arch a) (pkgs_of U S) /\
    In "foreign-version/install-if-member" (foreign_check (others_of by_arch a) (pkgs_of U S)).
Proof. exact no_foreign_refuted_lemma. Qed.
Print Assumptions c14_no_foreign_version_refuted.

(* PARTIAL: without install_if packages in the resolved architecture's universe,
   no member is missing from another architecture — whatever the other
   architectures look like, however deep the divergence *)
Theorem c14_no_foreign_version_partial : forall by_arch a U W S,
  In (a, U) by_arch -> (forall p, In p U -> p_install_if p = []) ->
  resolve U W (dq_for by_arch a) = Ok S ->
  NoForeign (others_of by_arch a) (pkgs_of U S).
Proof. exact no_foreign_partial_lemma. Qed.
Print Assumptions c14_no_foreign_version_partial.
Example c14_partial_example :
  let ba := [("x86_64", [wp "app" "1" ["lib"] [] []; wp "lib" "1" [] [] []; wp "lib" "2" [] [] []]);
             ("aarch64", [wp "app" "1" ["lib"] [] []; wp "lib" "1" [] [] []])] in
  resolve (snd (nth 0 ba ("", []))) ["app"] (dq_for ba "x86_64") = Ok [1; 0] /\
  resolve (snd (nth 0 ba ("", []))) ["app"] [] = Ok [2; 0].
Proof. vm_compute. split; reflexivity. Qed.

(* with at most one architecture the initial set is empty and the resolution
   is the plain one.  (About disqualify_difference itself; that the cache hands
   every call the difference of its own grouping, whatever was resolved before,
   is c14_cache_own_grouping - until fix 3541d7b an earlier call that grouped the
   same index objects differently could leak its set: finding C08-F2.) *)
Theorem c14_single_arch_unaffected : forall by_arch, List.length by_arch <= 1 ->
  disqualify_difference by_arch = [] /\
  forall a U W, resolve U W (dq_for by_arch a) = resolve U W [].
Proof. exact single_arch_lemma. Qed.
Print Assumptions c14_single_arch_unaffected.

(* ==== the wiring: build.NewMultiArch, APK.ResolveWorld, disqualifyDifference on
   package objects, the disqualification cache (Model/MultiArch.v) =================

   repos a            the index OBJECTS the APK of architecture a resolves with
   arch_universe      what they contain, flattened (the universe of Model/Resolver.v)
   contexts archs     one build context per distinct requested architecture
   by_arch_of order   the ByArch map NewMultiArch hands to every APK, filled by
                      visiting the contexts in [order] (Go map iteration: ANY order);
                      its key function byarch_key is Generated.C14Wiring: the
                      expression in the source, evaluated
   wired_dq           the part of disqualifyDifference's result that names the
                      resolver's own package objects = the set its resolution starts from
   resolve_world      APK.ResolveWorld (sibling loop + GetPackagesWithDependencies) *)
From Coq Require Import Permutation.
From Apko Require Import Generated.C14Wiring Model.MultiArch Proofs.MultiArchProofs Proofs.MultiArchWitness.

(* what the hand-written model assumes about the source it transcribes; the
   translator refuses (broken tie) when a shape is not recognised, this theorem
   fixes the recognised shapes to the ones modelled *)
Theorem c14_source_shape :
  wiring_shape =
  [("contexts-keyed-by", "the architecture");
   ("context-options", "clone of the shared options + WithArch(arch)");
   ("byarch-assigned", "the one map, to every context");
   ("resolveworld-ranges-over", "ByArch of the receiver");
   ("resolveworld-own-architecture", "the index objects the resolver was built from");
   ("resolveworld-siblings", "GetRepositoryIndexes of the sibling, under the ByArch key");
   ("resolveworld-passes", "the collected map as allArchs");
   ("resolve-and-calculate-world", "through ResolveWorld");
   ("initial-set", "globalDisqualifyCache.Get of the allArchs parameter");
   ("dq-one-architecture", "returns the empty set");
   ("dq-loops", "all ordered pairs of distinct architectures");
   ("dq-compares", "Name+Version");
   ("dq-marks", "every package of the architecture's own resolver (nameMap), by package object");
   ("dq-cache-key", "concatenation of the map's values, sorted by Name(), compared by index object");
   ("dq-cache-node", "find:entry-with-an-equal-grouping; equal:same-architectures-and-the-same-index-objects-in-the-same-order; fill:appends-an-entry-with-a-copy-of-the-grouping");
   ("dq-cache-hit", "a clone of the stored set");
   ("dq-cache-miss", "disqualifyDifference of the call's own map, stored under the key");
   ("dq-cache-critical-section", "the whole call: Lock, defer Unlock first, no other Unlock")].
Proof. reflexivity. Qed.
Print Assumptions c14_source_shape.

(* (d) distinct apko architectures have distinct ByArch keys: a finite
   enumeration over types.AllArchs (9 architectures, 81 pairs, read from the
   source), lifted with forallb_forall *)
Theorem c14_byarch_keys_distinct : forall a b,
  In a apko_archs -> In b apko_archs -> byarch_key a = byarch_key b -> a = b.
Proof. exact apko_keys_distinct. Qed.
Print Assumptions c14_byarch_keys_distinct.

(* ... so no sibling is dropped from ByArch, whatever the order in which the
   contexts are visited: one entry per architecture, each under its own key *)
Theorem c14_no_sibling_dropped : forall archs order,
  incl archs apko_archs -> Permutation order (contexts archs) ->
  List.length (by_arch_of order) = List.length (contexts archs) /\
  (forall a, In a archs -> alookup (byarch_key a) (by_arch_of order) = Some a) /\
  (forall k a, In (k, a) (by_arch_of order) -> In a archs /\ k = byarch_key a).
Proof. exact no_sibling_dropped_apko. Qed.
Print Assumptions c14_no_sibling_dropped.
Example c14_keys_example :
  by_arch_of ["arm/v7"; "amd64"; "arm/v6"] = [("arm/v7", "arm/v7"); ("amd64", "amd64"); ("arm/v6", "arm/v6")] /\
  contexts ["amd64"; "arm/v6"; "amd64"; "arm/v7"] = ["arm/v6"; "amd64"; "arm/v7"].
Proof. vm_compute. split; reflexivity. Qed.
(* a key that identifies the two 32-bit ARM variants loses one of them, which
   then resolves unfiltered (seeded change C14-3) *)
Example c14_keys_hypothesis_matters :
  by_arch_with oci_key ["amd64"; "arm/v6"; "arm/v7"] = [("amd64", "amd64"); ("arm", "arm/v7")].
Proof. vm_compute. reflexivity. Qed.

(* (a) for EVERY list of requested architectures (any number, duplicates allowed),
   every order in which NewMultiArch visits its contexts and every content of the
   indexes: package i of architecture a's universe is in the set a's resolution
   starts from iff SOME other requested architecture lacks exactly its
   name+version.  Both directions; the right-hand side mentions neither the
   order nor the keys.  Hypotheses: the keys of the requested architectures are
   distinct (c14_byarch_keys_distinct gives that for apko's architectures) and
   every architecture's index objects are its own (repos_separate). *)
Theorem c14_dq_symmetric_complete : forall archs order repos a i,
  Permutation order (contexts archs) -> NoDup (List.map byarch_key (contexts archs)) ->
  repos_separate repos archs -> In a archs ->
  (In i (wired_dq repos (by_arch_of order) a (repos a)) <->
   i < List.length (arch_universe repos a) /\
   exists b, In b archs /\ b <> a /\ ~ Available (arch_universe repos b) (nth i (arch_universe repos a) dummy_pkg)).
Proof. exact build_dq_symmetric_complete. Qed.
Print Assumptions c14_dq_symmetric_complete.
Example c14_dq_symmetric_example :
  let repos := repos_of [("amd64", [NI 0 "" [mp "lib" "1" [] [] []; mp "lib" "2" [] [] []]]);
                         ("arm/v6", [NI 1 "" [mp "lib" "1" [] [] []; mp "lib" "2" [] [] []]]);
                         ("arm/v7", [NI 2 "" [mp "lib" "1" [] [] []]])] in
  wired_dq repos (by_arch_of ["amd64"; "arm/v6"; "arm/v7"]) "amd64" (repos "amd64") = [1] /\
  wired_dq repos (by_arch_of ["arm/v7"; "arm/v6"; "amd64"]) "arm/v6" (repos "arm/v6") = [1] /\
  wired_dq repos (by_arch_of ["arm/v6"; "amd64"; "arm/v7"]) "arm/v7" (repos "arm/v7") = [].
Proof. vm_compute. repeat split; reflexivity. Qed.
(* the hypothesis "its own objects" is what fix f441d90 established *)
Example c14_own_objects_matter :
  let own := [NI 0 "" [mp "lib" "1" [] [] []; mp "lib" "2" [] [] []]] in
  let reloaded := [NI 7 "" [mp "lib" "1" [] [] []; mp "lib" "2" [] [] []]] in
  let load := repos_of [("amd64", reloaded); ("arm64", [NI 1 "" [mp "lib" "1" [] [] []]])] in
  wired_dq load (by_arch_of ["amd64"; "arm64"]) "amd64" own = [1] /\
  own_dq own (dq_objs (collect_all_archs load "amd64" reloaded (by_arch_of ["amd64"; "arm64"]))) = [].
Proof. exact own_objects_matter. Qed.

(* "resolving a single architecture is unaffected", through the wiring: one
   requested architecture (however often it is listed) starts from the empty
   set and its resolution IS the plain one *)
Theorem c14_single_arch_wiring : forall archs order repos a,
  Permutation order (contexts archs) -> In a archs -> (forall b, In b archs -> b = a) ->
  NoDup (List.map ni_id (repos a)) ->
  wired_dq repos (by_arch_of order) a (repos a) = [] /\
  forall world, snd (resolve_world [] repos (by_arch_of order) a (repos a) world) = resolve (arch_universe repos a) world [].
Proof. exact single_arch_wiring. Qed.
Print Assumptions c14_single_arch_wiring.

(* (b) every member of a successful per-architecture resolution that is not an
   install_if package is available, at that version, on EVERY requested
   architecture *)
Theorem c14_filtered_members_multi : forall archs order repos world a S j,
  Permutation order (contexts archs) -> NoDup (List.map byarch_key (contexts archs)) ->
  repos_separate repos archs -> In a archs ->
  snd (resolve_world [] repos (by_arch_of order) a (repos a) world) = Ok S -> In j S ->
  p_install_if (nth j (arch_universe repos a) dummy_pkg) = [] ->
  forall b, In b archs -> Available (arch_universe repos b) (nth j (arch_universe repos a) dummy_pkg).
Proof. exact build_filtered_members. Qed.
Print Assumptions c14_filtered_members_multi.
Example c14_filtered_members_multi_example :
  let repos := repos_of [("amd64", [NI 0 "" [mp "app" "1" ["lib"] [] []; mp "lib" "1" [] [] []; mp "lib" "2" [] [] []]]);
                         ("arm64", [NI 1 "" [mp "app" "1" ["lib"] [] []; mp "lib" "1" [] [] []]])] in
  snd (resolve_world [] repos (by_arch_of ["amd64"; "arm64"]) "amd64" (repos "amd64") ["app"]) = Ok [1; 0] /\
  snd (resolve_world [] repos (by_arch_of ["amd64"]) "amd64" (repos "amd64") ["app"]) = Ok [2; 0].
Proof. vm_compute. split; reflexivity. Qed.

(* REFUTED without the install_if proviso: C14-F1 seen through NewMultiArch +
   ResolveWorld (amd64: [w->a, a, a-x(install_if a)], arm64: [w->a, a]) *)
Theorem c14_filtered_members_multi_refuted :
  exists archs order repos world a S j b,
    Permutation order (contexts archs) /\ NoDup (List.map byarch_key (contexts archs)) /\
    repos_separate repos archs /\ In a archs /\ In b archs /\
    snd (resolve_world [] repos (by_arch_of order) a (repos a) world) = Ok S /\ In j S /\
    ~ Available (arch_universe repos b) (nth j (arch_universe repos a) dummy_pkg) /\
    In "foreign-version/install-if-member"
       (foreign_check [arch_universe repos b] (List.map (fun j => nth j (arch_universe repos a) dummy_pkg) S)).
Proof. exact filtered_members_multi_refuted_lemma. Qed.
Print Assumptions c14_filtered_members_multi_refuted.

(* (c) REFUTED: "a name selected on two architectures has the same version on
   both" fails even when both architectures offer exactly the same packages
   with the same metadata: amd64 lists lib-1.0-r0 before lib-1.0, arm64 the
   other way round; the two versions compare equal, bestPackage keeps the first
   of equally good candidates, so amd64 installs lib-1.0-r0 and arm64 lib-1.0.
   No version is missing anywhere (the property's own statement holds); the
   builds disagree nevertheless.  Replayed on the real code (multiarch corpus). *)
Theorem c14_same_world_same_versions_refuted :
  exists archs order repos world a b Sa Sb ja jb,
    Permutation order (contexts archs) /\ NoDup (List.map byarch_key (contexts archs)) /\
    repos_separate repos archs /\ In a archs /\ In b archs /\
    same_offer (arch_universe repos a) (arch_universe repos b) /\
    snd (resolve_world [] repos (by_arch_of order) a (repos a) world) = Ok Sa /\
    snd (resolve_world [] repos (by_arch_of order) b (repos b) world) = Ok Sb /\
    In ja Sa /\ In jb Sb /\
    p_name (nth ja (arch_universe repos a) dummy_pkg) = p_name (nth jb (arch_universe repos b) dummy_pkg) /\
    p_version (nth ja (arch_universe repos a) dummy_pkg) <> p_version (nth jb (arch_universe repos b) dummy_pkg).
Proof. exact same_versions_refuted_lemma. Qed.
Print Assumptions c14_same_world_same_versions_refuted.

(* (c) PARTIAL — what does hold: the two versions of a name selected on two
   architectures (neither package an install_if package) BOTH exist on every
   requested architecture, and they coincide wherever one of the two
   architectures offers the name in a single version.  Missing: equality in
   general — it fails on versions that compare equal (above), on repositories
   pinned differently and on per-architecture dependency metadata. *)
Theorem c14_same_world_same_versions_partial : forall archs order repos world a b Sa Sb ja jb,
  Permutation order (contexts archs) -> NoDup (List.map byarch_key (contexts archs)) ->
  repos_separate repos archs -> In a archs -> In b archs ->
  snd (resolve_world [] repos (by_arch_of order) a (repos a) world) = Ok Sa ->
  snd (resolve_world [] repos (by_arch_of order) b (repos b) world) = Ok Sb ->
  In ja Sa -> In jb Sb ->
  let pa := nth ja (arch_universe repos a) dummy_pkg in
  let pb := nth jb (arch_universe repos b) dummy_pkg in
  p_name pa = p_name pb -> p_install_if pa = [] -> p_install_if pb = [] ->
  (forall c, In c archs -> Available (arch_universe repos c) pa /\ Available (arch_universe repos c) pb) /\
  ((forall q q', In q (arch_universe repos b) -> In q' (arch_universe repos b) ->
                 p_name q = p_name q' -> p_version q = p_version q') ->
   p_version pa = p_version pb).
Proof. exact same_versions_partial. Qed.
Print Assumptions c14_same_world_same_versions_partial.

(* the disqualification cache seen from C14 (since fix 3541d7b a node of the trie keeps
   one entry per grouping; was finding C08-F2): after ANY history of calls, EVERY
   call is handed exactly the members a fresh disqualifyDifference of its own map
   computes.  go_map: the listings are Go maps (distinct architectures); coherent:
   index objects with one identity are one object. *)
Theorem c14_cache_own_grouping : forall hist aa,
  go_map aa -> Forall go_map hist -> coherent (aa :: hist) ->
  forall o, In o (snd (dq_cache_get (run_calls hist) aa)) <-> In o (dq_objs aa).
Proof. exact cache_own_grouping. Qed.
Print Assumptions c14_cache_own_grouping.
(* the listing order of the request (Go map iteration: it decides the order of the
   concatenation and with it, for indexes with EQUAL names - every unpinned
   repository, the configuration NewMultiArch produces - the path walked in the
   trie): whatever the order in which the map is listed, after any history, the
   call is handed the members of its own map.  A lookup that walks another path
   than the call that stored the entry misses and recomputes; it can never be
   handed another grouping's set. *)
Theorem c14_cache_listing_order_irrelevant : forall hist aa aa',
  Permutation aa' aa -> go_map aa -> Forall go_map hist -> coherent (aa :: hist) ->
  forall o, In o (snd (dq_cache_get (run_calls hist) aa')) <-> In o (dq_objs aa).
Proof. exact cache_listing_order. Qed.
Print Assumptions c14_cache_listing_order_irrelevant.
(* two listings of one map of unnamed indexes have different keys: the second call misses, stores a second entry and is handed the same set *)
Example c14_cache_listing_order_example :
  let i0 := NI 0 "" [mp "only" "1" [] [] []; mp "common" "1" [] [] []] in
  let i1 := NI 1 "" [mp "common" "1" [] [] []] in
  let a := [("x", [i0]); ("y", [i1])] in
  let b := [("y", [i1]); ("x", [i0])] in
  dq_cache_key a = [0; 1] /\ dq_cache_key b = [1; 0] /\
  List.length (run_calls [a; b]) = 2 /\
  snd (dq_cache_get (run_calls [a]) b) = [(0, 0)] /\ snd (dq_cache_get (run_calls [a; b]) a) = [(0, 0)].
Proof. vm_compute. repeat split; reflexivity. Qed.

(* concurrent per-architecture resolutions (MultiArch.BuildPackageLists / BuildLayers:
   one call per architecture at the same time).  Get is ONE critical section
   (c14_source_shape: dq-cache-critical-section), so an execution of concurrent
   calls is some ORDER of whole Gets: for every such order and every position in
   it, the call is handed exactly the members of its own map - no call can see an
   entry that is not complete.  (Seeded change C14-9 publishes an empty entry
   before the difference is computed: the translator refuses that shape and the
   conc stage replays the schedule on the real code.) *)
Theorem c14_concurrent_calls_serialised : forall calls sched pre aa post,
  Permutation sched calls -> Forall go_map calls -> coherent calls ->
  sched = pre ++ aa :: post ->
  forall o, In o (snd (dq_cache_get (run_calls pre) aa)) <-> In o (dq_objs aa).
Proof. exact concurrent_calls_serialised. Qed.
Print Assumptions c14_concurrent_calls_serialised.
Example c14_cache_example :
  dq_cache_key F2_multi = [0; 1] /\ dq_cache_key F2_single = [0; 1] /\
  same_grouping (grouping_of F2_multi) (grouping_of F2_single) = false /\
  dq_objs F2_multi = [(0, 0)] /\ dq_objs F2_single = [] /\
  snd (dq_cache_get (run_calls [F2_multi]) F2_single) = [] /\
  snd (dq_cache_get (run_calls [F2_single]) F2_multi) = [(0, 0)] /\
  snd (dq_cache_get (run_calls [F2_multi; F2_single]) F2_multi) = [(0, 0)] /\
  List.length (run_calls [F2_multi; [("y", [F2_i1]); ("x", [F2_i0])]]) = 1.
Proof. exact cache_own_grouping_values. Qed.
Example c14_cache_own_grouping_hypotheses : go_map F2_single /\ Forall go_map [F2_multi] /\ coherent [F2_single; F2_multi].
Proof. exact F2_hypotheses. Qed.

(* REFUTED for the lookup by the key alone (the code before the fix; this was finding
   C08-F2: {x:[i0], y:[i1]} then {x:[i0, i1]}): non-vacuity of the entry per grouping.
   The real code is replayed on these histories in every run (dqcache corpus). *)
Theorem c14_cache_keyed_by_concatenation_refuted :
  exists hist aa,
    go_map aa /\ Forall go_map hist /\ coherent (aa :: hist) /\
    exists o, ~ (In o (snd (dq_cache_get_by_key (run_calls_by_key hist) aa)) <-> In o (dq_objs aa)).
Proof. exact cache_keyed_by_concatenation_refuted. Qed.
Print Assumptions c14_cache_keyed_by_concatenation_refuted.

(* the message stored with a disqualified package names an architecture that
   lacks it (which one, when several do, follows map iteration) *)
Theorem c14_dq_reason_names_a_lacking_sibling : forall aa a p m,
  In m (dq_reasons aa a p) <->
  List.length aa <> 1 /\ exists b ixs, In (b, ixs) aa /\ b <> a /\ ~ Available (flatten ixs) p /\
                                     m = dq_message (pkg_filename p) b.
Proof. exact dq_reasons_spec. Qed.
Print Assumptions c14_dq_reason_names_a_lacking_sibling.
Example c14_dq_reason_example :
  dq_reasons [("amd64", [NI 0 "" [mp "lib" "2" [] [] []]]); ("arm/v6", [NI 1 "" []]); ("arm/v7", [NI 2 "" []])]
             "amd64" (mp "lib" "2" [] [] []) =
  [String.append "package " (String.append (quote "lib-2.apk") (String.append " not available for arch " (quote "arm/v6")));
   String.append "package " (String.append (quote "lib-2.apk") (String.append " not available for arch " (quote "arm/v7")))].
Proof. vm_compute. reflexivity. Qed.
