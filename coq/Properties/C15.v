(* C15 — untrusted input never crashes or hangs the tool. Property theorems
   only (proofs in Proofs/ParsersProofs.v). The line-oriented readers are the
   models of Model/Formats.v (shared with C16), written with checked slicing;
   [Returns r] = r is neither a panic nor fuel exhaustion. Every reader is a
   structural recursion over the list of lines bufio.Scanner delivers, itself a
   structural recursion over the input: Coq's termination checker is the proof
   that no loop runs without consuming input. Decoders from libraries (gzip,
   tar, yaml, json, ini, base64) are not modelled; they are exercised by the
   harness's malformed streams (exploration, not proof). *)
From Coq Require Import Relations.Relation_Operators.
From Apko Require Import Base.Prelude Base.C16Lib Model.Formats Model.Parsers Model.Parsers2 Spec.ParsersSpec
  Proofs.ParsersProofs Proofs.ReadersProofs Proofs.SortTermination Proofs.Parsers2Proofs Generated.FieldLetters Generated.Regexes Generated.C15Sites.

(* ParsePackageIndex: for every base64 decoder, every token limit and every input *)
Theorem c15_no_panic_parse_index : forall dec s, Returns (parse_index dec s).
Proof. intros. exact (parse_index_max_returns dec index_max_token s). Qed.
Print Assumptions c15_no_panic_parse_index.

(* ParseInstalled incl. parseInstalledPerms (fix c54994b; before it "P\n" panicked) *)
Theorem c15_no_panic_parse_installed : forall dec s, Returns (parse_installed dec s).
Proof. intros. exact (parse_installed_max_returns dec installed_max_token s). Qed.
Print Assumptions c15_no_panic_parse_installed.

Theorem c15_no_panic_load_users : forall s, Returns (load_users s).
Proof. intros. exact (load_file_returns parse_user default_max_token s parse_user_returns). Qed.
Print Assumptions c15_no_panic_load_users.

Theorem c15_no_panic_load_groups : forall s, Returns (load_groups s).
Proof. intros. exact (load_file_returns parse_group default_max_token s parse_group_returns). Qed.
Print Assumptions c15_no_panic_load_groups.

(* ParseVersion reads actuals[1..13] after testing len(actuals) == 14, and
   actuals[4][0] after testing its length; the version regex in the source has
   exactly 13 groups. ResolvePackageNameVersionPin only tests len(parts[0]) < 2
   before reading [1] [3] [4] [6]: safe because the name regex in the source has
   6 groups (an edit that removes a group turns this theorem false). *)
Theorem c15_no_panic_parse_version : forall matched letter_len, Returns (parse_version_skel matched letter_len).
Proof. exact parse_version_skel_returns. Qed.
Print Assumptions c15_no_panic_parse_version.

Theorem c15_no_panic_resolve_pin : forall matched, Returns (resolve_pin_skel matched).
Proof. exact resolve_pin_skel_returns. Qed.
Print Assumptions c15_no_panic_resolve_pin.

Theorem c15_no_panic_cached_package : forall chk, Returns (cached_package_slice chk).
Proof. exact cached_package_slice_returns. Qed.
Print Assumptions c15_no_panic_cached_package.

(* the hidden-file test of both install loops (fix 6e06851; header.Name[0] used to
   panic on an entry with an empty name): every name, started or not *)
Theorem c15_no_panic_install_entry_name : forall started name, Returns (install_hidden_test started name).
Proof. exact install_hidden_test_returns. Qed.
Print Assumptions c15_no_panic_install_entry_name.

(* standardizePath (fix 5614ee6; p[0] used to panic on the empty path) *)
Theorem c15_no_panic_standardize_path : forall p, Returns (standardize_path p).
Proof. exact standardize_path_returns. Qed.
Print Assumptions c15_no_panic_standardize_path.

(* the layering budget of the configuration (fix d47e591; make([]*group, 0, budget)
   used to panic on a negative or huge budget): every integer *)
Theorem c15_no_panic_layer_budget : forall b, Returns (make_groups b).
Proof. exact make_groups_returns. Qed.
Print Assumptions c15_no_panic_layer_budget.
(* ... and buildLayers in the source does test the budget before grouping *)
Theorem c15_layer_budget_guard_pinned : layer_budget_guards = ["budget < 0"%string].
Proof. reflexivity. Qed.
Print Assumptions c15_layer_budget_guard_pinned.

(* sortTarHeaders before fix f716198 (HYPOTHETICAL: [sort_headers_raw] is not the code any more): on a file
   list with a directory entry named "./" the entry was its own child and the recursion never ended whatever
   the fuel (in Go: stack overflow; was finding C15-F4). The code today: c15_sort_headers_fix_terminates. *)
Theorem c15_sort_headers_before_fix_hypothetical :
  (forall fuel, sort_children fuel (dir_children [dot_dir]) (all_headers [dot_dir]) ["."%string] = OutOfFuel) /\
  sort_headers_raw [dot_dir] = OutOfFuel /\ sort_headers [dot_dir] = Ok [].
Proof. split; [exact sort_children_dot_diverges|split; vm_compute; reflexivity]. Qed.
Print Assumptions c15_sort_headers_before_fix_hypothetical.

(* ======================================================================== *)
(* Session 3: more readers inside the model (Model/Parsers.v, second half).   *)

(* readReleaseData (os-release): every byte string, with the token limit the source has *)
Theorem c15_no_panic_read_release : forall s, Returns (read_release s).
Proof. intro s. exact (read_release_max_returns release_max_token s). Qed.
Print Assumptions c15_no_panic_read_release.

(* GetRepositoryIndexes, "@tag url" lines: parts[0][1:] and parts[1] behind len(parts) < 2.
   Safe because strings.Fields never returns an empty field and "@" is no white space:
   both are proved of the model of Fields (UTF-8 aware), not assumed. *)
Theorem c15_no_panic_repo_line : forall line, Returns (repo_line line).
Proof. exact repo_line_returns. Qed.
Print Assumptions c15_no_panic_repo_line.
Theorem c15_fields_never_empty : forall s, Forall (fun f => f <> ""%string) (go_fields s).
Proof. exact go_fields_nonempty. Qed.
Print Assumptions c15_fields_never_empty.

(* unify's constraint splitter: orig[:idx], orig[idx:] with idx from strings.IndexAny *)
Theorem c15_no_panic_unify_split : forall orig, Returns (unify_split orig).
Proof. exact unify_split_returns. Qed.
Print Assumptions c15_no_panic_unify_split.
Theorem c15_index_any_in_range : forall chars s i, index_any chars s = Some i -> (i < String.length s)%nat.
Proof. exact index_any_bound. Qed.
Print Assumptions c15_index_any_in_range.
(* unify reads inputs[0]: safe with at least one architecture; the missing part: with
   original packages and NO architecture it panics (c15_unify_no_input_refuted). The
   command line never calls it so (it falls back to all architectures); the exported
   LockImageConfiguration can. *)
Theorem c15_unify_first_input_partial : forall n_orig n_inputs, (1 <= n_inputs)%nat -> Returns (unify_inputs n_orig n_inputs).
Proof. exact unify_inputs_returns. Qed.
Print Assumptions c15_unify_first_input_partial.
Theorem c15_unify_no_input_refuted : exists n_orig, unify_inputs n_orig 0 = Panic.
Proof. exists 1%nat. exact (unify_inputs_empty_panics 1 (le_n 1)). Qed.
Print Assumptions c15_unify_no_input_refuted.
Theorem c15_no_panic_lock_provided : forall n_parts len0, Returns (lock_provided_skel n_parts len0).
Proof. exact lock_provided_skel_returns. Qed.
Print Assumptions c15_no_panic_lock_provided.

(* checksumFromHeader: every record value, every pair of decoders; the three copies in the
   source all test and trim "Q1" and contain no index or slice expression *)
Theorem c15_no_panic_checksum_from_header : forall b64 hex pax, Returns (checksum_from_header b64 hex pax).
Proof. intros. exact (checksum_from_header_with_returns b64 hex "Q1" "Q1" pax). Qed.
Print Assumptions c15_no_panic_checksum_from_header.
Theorem c15_checksum_header_copies_pinned :
  map snd checksum_header_copies = [("Q1", "Q1", []); ("Q1", "Q1", []); ("Q1", "Q1", [])]%string.
Proof. reflexivity. Qed.
Print Assumptions c15_checksum_header_copies_pinned.

(* ExpandApk: for EVERY number of gzip members (not only those the loop can produce) the
   switch read from the source yields indices inside the three slices or an error *)
Theorem c15_no_panic_expand_indices : forall n, Returns (expand_select n).
Proof. exact expand_select_returns. Qed.
Print Assumptions c15_no_panic_expand_indices.
(* ... the same for any table that passes the test [table_safe], which the source's does *)
Theorem c15_expand_table_safe : table_safe expand_switch expand_switch_default_errors expand_sig_guarded = true.
Proof. exact expand_table_safe. Qed.
Print Assumptions c15_expand_table_safe.
(* the member loop and the selection together, on every sequence of members *)
Theorem c15_no_panic_expand_apk : forall ms garbage, Returns (expand_apk ms garbage).
Proof. exact expand_apk_returns. Qed.
Print Assumptions c15_no_panic_expand_apk.
Theorem c15_expand_member_count : forall ms garbage n,
  expand_loop ms garbage None (-1)%Z (Z.of_nat (fst expand_max_streams)) O = Ok n -> (n <= 3)%nat.
Proof. exact expand_count_bound. Qed.
Print Assumptions c15_expand_member_count.

(* Split returns two or three parts; ParsePackageInfo's split[0] / split[1] are in range *)
Theorem c15_no_panic_split_pkginfo : forall ms n, split_parts ms = Ok n -> Returns (pkginfo_select n).
Proof. exact pkginfo_after_split. Qed.
Print Assumptions c15_no_panic_split_pkginfo.

(* parseInstalledPerms, the signature-name test and b[readBytes:] of parseRepositoryIndex,
   ParseArchitectures *)
Theorem c15_no_panic_parse_installed_perms : forall s, Returns (parse_perms s).
Proof. exact parse_perms_returns. Qed.
Print Assumptions c15_no_panic_parse_installed_perms.
Theorem c15_no_panic_signature_name : forall matched, Returns (sig_name_skel matched).
Proof. exact sig_name_skel_returns. Qed.
Print Assumptions c15_no_panic_signature_name.
Theorem c15_no_panic_index_data_slice : forall size pos, Returns (index_data_slice size pos).
Proof. exact index_data_slice_returns. Qed.
Print Assumptions c15_no_panic_index_data_slice.
Theorem c15_no_panic_parse_archs : forall n, Returns (parse_archs_skel n).
Proof. exact parse_archs_skel_returns. Qed.
Print Assumptions c15_no_panic_parse_archs.

(* the index / slice expressions and length guards of the transcribed functions, as the
   source has them today (names of locals erased, each list sorted): an edit that adds, removes or changes one
   makes this statement false, and the search for a failing input starts *)
Theorem c15_sites_pinned :
  (repo_line_sites, repo_line_len_guards) = (["_[0]"; "_[0][1:]"; "_[1]"], ["len(_) < 2"])%string /\
  (unify_sites, unify_trim_suffix_calls) = (["_[0]"; "_[0]"; "_[0]"; "_[1:]"; "_[:_]"; "_[_:]"; "_[_:]"], 2%nat)%string /\
  (lock_provides_sites, lock_provides_len_guards) = (["_[0]"; "_[0]"; "_[0][1]"], ["len(_) == 0"; "len(_[0]) < 2"])%string /\
  (pkginfo_sites, pkginfo_len_guards, split_appends) = (["_[0]"; "_[1]"], ["len(_) == 3"], (2, 1)%nat)%string /\
  (perms_sites, perms_len_guards) = (["_[0]"; "_[1]"; "_[2]"], ["len(_) != 3"])%string /\
  (repo_index_sites, repo_index_len_guards) = (["_[1]"; "_[2]"; "_[_:]"], ["len(_) != 3"; "len(_) == 0"; "len(_) == 0"])%string /\
  (parse_archs_sites, parse_archs_len_guards) = (["_[0]"; "_[0]"; "_[0]"], ["len(_) == 1"; "len(_) == 1"])%string /\
  (release_sites, release_len_guards, release_sets_scanner_buffer) = ([], [], false) /\
  (expand_signed_cond, expand_sig_index_guarded, expand_max_streams, expand_sign_prefix) = ("sig >= 0", (3, 0)%nat, (2, 3)%nat, ".SIGN.")%string /\
  (* fix 3bc1979: the arm for two streams refuses a package whose first stream is a signature *)
  expand_switch_arm_guards = [(2, 3)%Z].
Proof. repeat split. Qed.
Print Assumptions c15_sites_pinned.

(* ---- the scanner's token limit: a line that does not fit (with its terminator) in the
   limit the source sets is an ERROR of the reader, never a silently shortened result
   (this was finding C16-F4 for ParseInstalled, fixed by a01caf8) ---------------------- *)
Theorem c15_long_line_is_error_index : forall dec s, too_long index_max_token s -> parse_index dec s = Err.
Proof. intros dec s. exact (long_line_index dec index_max_token s eq_refl). Qed.
Print Assumptions c15_long_line_is_error_index.
Theorem c15_long_line_is_error_installed : forall dec s, too_long installed_max_token s -> parse_installed dec s = Err.
Proof. intros dec s. exact (long_line_installed dec installed_max_token s eq_refl). Qed.
Print Assumptions c15_long_line_is_error_installed.
Theorem c15_long_line_is_error_users : forall s, too_long default_max_token s -> load_users s = Err.
Proof. intro s. exact (long_line_load_file parse_user default_max_token s parse_user_returns). Qed.
Print Assumptions c15_long_line_is_error_users.
Theorem c15_long_line_is_error_groups : forall s, too_long default_max_token s -> load_groups s = Err.
Proof. intro s. exact (long_line_load_file parse_group default_max_token s parse_group_returns). Qed.
Print Assumptions c15_long_line_is_error_groups.
Theorem c15_long_line_is_error_release : forall s, too_long release_max_token s -> read_release s = Err.
Proof. intro s. exact (long_line_release release_max_token s eq_refl). Qed.
Print Assumptions c15_long_line_is_error_release.
Example c15_too_long_satisfiable : forall max, (1 <= max)%N -> too_long max (srepeat "x" (N.to_nat max)).
Proof. exact too_long_example. Qed.

(* ---- no loop without consuming input: sortTarHeaders (fix f716198: an entry whose cleaned name is "." is
   skipped). On EVERY header list — duplicates, orphans, files used as directories, "./" entries included —
   and for every order in which Go ranges over the map, the fuel S (S (len kept headers)) suffices. ------------- *)
Theorem c15_consumes_sort_headers : forall hs ord, Returns (sort_headers_ord ord hs).
Proof. exact sort_headers_ord_returns. Qed.
Print Assumptions c15_consumes_sort_headers.
Theorem c15_sort_headers_fix_terminates : forall hs, Returns (sort_headers hs).
Proof. exact sort_headers_returns. Qed.
Print Assumptions c15_sort_headers_fix_terminates.
(* the fix changed nothing on the lists the code handled before it (no entry that cleans to ".") *)
Theorem c15_sort_headers_fix_conservative : forall hs,
  (forall h, In h hs -> clean (h_name h) <> "."%string) -> sort_headers hs = sort_headers_raw hs.
Proof. exact sort_headers_raw_same. Qed.
Print Assumptions c15_sort_headers_fix_conservative.

(* ---- ImageConfiguration.Load: the include chain, abstract form (a file = its include field). Before fix
   43ae291 (HYPOTHETICAL: [load_chain] is not the code any more) a configuration that includes itself, or two
   that include each other, were loaded without end (was finding C15-F6). The code today: the next two theorems. *)
Theorem c15_include_before_fix_hypothetical :
  (forall fuel, load_chain fuel [("apko.yaml", "apko.yaml")]%string "apko.yaml" = OutOfFuel) /\
  (forall fuel, load_chain fuel [("a", "b"); ("b", "a")]%string "a" = OutOfFuel).
Proof. split; [intro; apply load_chain_self_diverges; discriminate|intro fuel; exact (proj1 (load_chain_two_diverges fuel))]. Qed.
Print Assumptions c15_include_before_fix_hypothetical.
(* the code since fix 43ae291 (refuse a path that is already being loaded) ends on
   every set of files, with one step per file, and whenever it returns a chain today's code
   returns the same one; conversely it returns every chain without repetition that today's code returns *)
Theorem c15_include_fix_terminates : forall fs path, Returns (load_chain_fixed (S (List.length fs)) fs [] path).
Proof. intros. apply load_chain_fixed_returns; [constructor|intros x []|cbn; lia]. Qed.
Print Assumptions c15_include_fix_terminates.
Theorem c15_include_fix_conservative : forall fuel fs path l,
  (load_chain_fixed fuel fs [] path = Ok l -> load_chain fuel fs path = Ok l) /\
  (load_chain fuel fs path = Ok l -> NoDup l -> load_chain_fixed fuel fs [] path = Ok l).
Proof.
  intros. split; [apply load_chain_fixed_ok|]. intros H N. apply load_chain_fixed_same; [exact H|intros x _ []|exact N].
Qed.
Print Assumptions c15_include_fix_conservative.

(* ======================================================================== *)
(* Session 4 (Model/Parsers2.v).                                              *)

(* ---- ImageConfiguration.Load on a file tree, with paths.ResolvePath (the requested path itself if it
   exists seen from the working directory, else the first include path under which it does) and, since fix
   43ae291, the list of resolved paths being loaded: [load_config] is the code today. It returns — a result or
   an error — on EVERY tree, every list of include paths and every request, within one unit of fuel per file
   plus two (the fix compares resolved paths AS TEXT: a cycle through k spellings of one file is refused after
   at most k more loads). *)
Theorem c15_include_load_terminates_on_trees : forall fs incs p,
  Returns (load_config (S (S (List.length (cf_files fs)))) fs incs p).
Proof. exact load_config_returns. Qed.
Print Assumptions c15_include_load_terminates_on_trees.
(* bounded work: whatever the loader returns with any fuel it returns with fuel |files| + 2 *)
Theorem c15_include_chain_fuel_bound : forall fs incs p fuel r,
  load_config fuel fs incs p = r -> r <> OutOfFuel -> load_config (S (S (List.length (cf_files fs)))) fs incs p = r.
Proof. exact load_config_bound. Qed.
Print Assumptions c15_include_chain_fuel_bound.
(* a request from which the resolved paths lead back to one of themselves — whatever the spellings along the
   way — is answered with an ERROR *)
Theorem c15_include_cycle_is_error : forall fs incs p rp rq,
  resolve_path fs incs p = Some rp ->
  clos_refl_trans _ (rnext (resolve_path fs incs) (file_content fs)) rp rq ->
  clos_trans _ (rnext (resolve_path fs incs) (file_content fs)) rq rq ->
  load_config (S (S (List.length (cf_files fs)))) fs incs p = Err.
Proof. exact load_config_cycle_is_error. Qed.
Print Assumptions c15_include_cycle_is_error.
(* on the spelled trees (a.yaml -> ./a.yaml; a.yaml -> sub/../a.yaml; a file found through the include path that
   includes its own base name; a.yaml -> ./b.yaml -> sub/../a.yaml; relative -> absolute -> relative): an error,
   replayed on real trees (stage includes) *)
Theorem c15_include_cycle_spellings_refused :
  load_config 3 fs_dot [] "a.yaml" = Err /\ load_config 3 fs_updown [] "a.yaml" = Err /\
  load_config 3 fs_incpath ["inc"%string] "inc/a.yaml" = Err /\ load_config 4 fs_two [] "a.yaml" = Err /\
  load_config 4 fs_abs [] "a.yaml" = Err.
Proof. vm_compute. repeat split. Qed.
Print Assumptions c15_include_cycle_spellings_refused.
(* the fix changed nothing where the loader returned before it (result or error, same fuel), and every
   configuration it returns the loader before it returned as well *)
Theorem c15_include_fix_conservative_on_trees : forall fs incs p fuel,
  (forall r, load_config_unfixed fuel fs incs p = r -> r <> OutOfFuel -> load_config fuel fs incs p = r) /\
  (forall l, load_config fuel fs incs p = Ok l -> load_config_unfixed fuel fs incs p = Ok l).
Proof. intros. split; [intros r; apply load_config_conservative|intros l; apply load_config_ok]. Qed.
Print Assumptions c15_include_fix_conservative_on_trees.
(* HYPOTHETICAL (the loader before fix 43ae291, [chain_r] / [load_config_unfixed]; was finding C15-F6): for ANY
   resolver and ANY way of reading a file, a resolved path from which a cycle is reached was loaded without
   end, the spelled trees being instances; and session 3's abstract chain is the instance "every path resolves
   to itself" *)
Theorem c15_include_before_fix_any_spelling_hypothetical : forall resolve content rp rq,
  clos_refl_trans _ (rnext resolve content) rp rq -> clos_trans _ (rnext resolve content) rq rq ->
  forall fuel, chain_r resolve content fuel rp = OutOfFuel.
Proof. exact chain_r_reach_cycle_diverges. Qed.
Print Assumptions c15_include_before_fix_any_spelling_hypothetical.
Theorem c15_include_before_fix_spellings_hypothetical :
  (forall fuel, load_config_unfixed fuel fs_dot [] "a.yaml" = OutOfFuel) /\
  (forall fuel, load_config_unfixed fuel fs_updown [] "a.yaml" = OutOfFuel) /\
  (forall fuel, load_config_unfixed fuel fs_incpath ["inc"%string] "inc/a.yaml" = OutOfFuel) /\
  (forall fuel, load_config_unfixed fuel fs_two [] "a.yaml" = OutOfFuel) /\
  (forall fuel, load_config_unfixed fuel fs_abs [] "a.yaml" = OutOfFuel).
Proof.
  exact (conj spelling_dot_diverges (conj spelling_updown_diverges (conj spelling_incpath_diverges (conj spelling_two_diverges spelling_abs_diverges)))).
Qed.
Print Assumptions c15_include_before_fix_spellings_hypothetical.
Theorem c15_include_abstract_is_instance : forall fs fuel p,
  load_chain fuel fs p = chain_r (fun q => Some q) (fun q => match alookup q fs with Some inc => Some (q, inc) | None => None end) fuel p.
Proof. exact load_chain_is_chain_r. Qed.
Print Assumptions c15_include_abstract_is_instance.

(* ---- the sites that were exploration-only: index < length at every one, for every input ------------ *)
Theorem c15_no_panic_alpine_version : forall matched, Returns (alpine_version_skel matched).
Proof. exact alpine_version_skel_returns. Qed.
Print Assumptions c15_no_panic_alpine_version.
Theorem c15_no_panic_fetch_offline : forall names, Returns (fetch_offline_skel names).
Proof. exact fetch_offline_skel_returns. Qed.
Print Assumptions c15_no_panic_fetch_offline.
Theorem c15_no_panic_etag : forall present vals, Returns (etag_skel present vals).
Proof. exact etag_skel_returns. Qed.
Print Assumptions c15_no_panic_etag.
(* ResolveApk after Split: for every number of parts, and Split hands over two or three *)
Theorem c15_no_panic_resolve_apk : (forall n, Returns (resolve_apk_select n)) /\ (forall ms n, split_parts ms = Ok n -> n = 2%nat \/ n = 3%nat).
Proof. exact (conj resolve_apk_select_returns split_parts_2_or_3). Qed.
Print Assumptions c15_no_panic_resolve_apk.
Theorem c15_no_panic_control_value : forall wanted text, Returns (control_values wanted text).
Proof. exact control_values_returns. Qed.
Print Assumptions c15_no_panic_control_value.
Theorem c15_no_panic_busybox_version : forall n_matches, Returns (busybox_version_skel n_matches).
Proof. exact busybox_version_skel_returns. Qed.
Print Assumptions c15_no_panic_busybox_version.
Theorem c15_no_panic_env_auth : forall env, Returns (env_auth_skel env).
Proof. exact env_auth_skel_returns. Qed.
Print Assumptions c15_no_panic_env_auth.
Theorem c15_no_panic_annotation : forall s, Returns (annotation_skel s).
Proof. exact annotation_skel_returns. Qed.
Print Assumptions c15_no_panic_annotation.
Theorem c15_no_panic_conflict_name : forall c, Returns (conflict_name c).
Proof. exact conflict_name_returns. Qed.
Print Assumptions c15_no_panic_conflict_name.
(* groupByOriginAndSize's cut, for every number of groups and every budget buildLayers lets through
   (c15_layer_budget_guard_pinned); the missing part: budget = math.MinInt64 handed to the function
   directly wraps around (budget-1) and the slice expression panics *)
Theorem c15_layer_cutoff_partial : forall len budget, (0 <= budget < two63z)%Z -> Returns (layer_cutoff len budget).
Proof. exact layer_cutoff_returns. Qed.
Print Assumptions c15_layer_cutoff_partial.
Theorem c15_layer_cutoff_min_int_refuted : exists len, layer_cutoff len (- two63z) = Panic.
Proof. exists 1%Z. exact layer_cutoff_min_int_panics. Qed.
Print Assumptions c15_layer_cutoff_min_int_refuted.
(* RepositoryWithIndex.RepoAbbr (exported, no caller inside apko): a URI without "/" panics *)
Theorem c15_repo_abbr_partial : forall uri, has_char ch_slash uri = true -> Returns (repo_abbr uri).
Proof. exact repo_abbr_returns. Qed.
Print Assumptions c15_repo_abbr_partial.
Theorem c15_repo_abbr_refuted : exists uri, repo_abbr uri = Panic.
Proof. exists "repo"%string. exact repo_abbr_no_slash_panics. Qed.
Print Assumptions c15_repo_abbr_refuted.
Theorem c15_sites_pinned_2 :
  (alpine_version_sites, alpine_version_len_guards, alpine_repo_groups) = (["_[1]"], ["len(_) < 2"], 1%nat)%string /\
  (fetch_offline_sites, fetch_offline_len_guards) = ([], []) /\   (* since fix c5d0145 fetchOffline indexes nothing *)
  (etag_sites, etag_len_guards) = (["_[0]"; "_[0]"], ["len(_) == 0"])%string /\
  (resolve_apk_sites, resolve_apk_len_guards) = (["_[0]"; "_[0]"; "_[1]"; "_[1]"; "_[2]"; "_[:]"], ["len(_) < 2"; "len(_) == 3"])%string /\
  (control_value_sites, control_value_len_guards) = (["_[0]"; "_[1]"], ["len(_) != 2"])%string /\
  (busybox_links_sites, busybox_links_len_guards, busybox_semver_groups) = (["_[0]"; "_[0]"; "_[0][1]"], ["len(_) != 1"; "len(_[0]) < 4"], 5%nat)%string /\
  (env_auth_sites, env_auth_len_guards) = (["_[0]"; "_[1]"; "_[2]"; "_[3]"], ["len(_) != 4"])%string /\
  (remove_label_sites, remove_label_len_guards, remove_label_loop_shape) = (["_[1]"], ["len(_) < 2"], ("HasPrefix @", " ", 2%Z))%string /\
  (annotations_len_guards, constrain_sites, constrain_len_guards) = (["len(_) != 2"], ["_[1:]"], [])%string /\
  (group_by_origin_sites, repo_abbr_sites, repo_abbr_len_guards) = (["_[:_]"; "_[_:]"], ["_[len(_)-2:]"], [])%string /\
  (user_parse_len_guards, group_parse_len_guards) = (["len(_) != 7"], ["len(_) != 4"])%string /\
  (user_parse_sites, group_parse_sites) = (["_[0]"; "_[1]"; "_[2]"; "_[2]"; "_[3]"; "_[3]"; "_[4]"; "_[5]"; "_[6]"], ["_[0]"; "_[1]"; "_[2]"; "_[2]"; "_[3]"; "_[3]"])%string /\
  (parse_index_sites, parse_index_len_guards) = (["_[1:2]"; "_[2:]"; "_[2:]"; "_[:1]"], ["len(_) < 2"; "len(_) == 0"])%string /\
  (parse_installed_sites, parse_installed_len_guards) = (["_[1:2]"; "_[2:]"; "_[2:]"; "_[:1]"; "_[len(_)-1]"; "_[len(_)-1]"], ["len(_) < 2"])%string /\
  (* IndexFromArchive reads its members with io.ReadAll: no index, no slice, and no buffer sized from the header *)
  (index_from_archive_sites, index_from_archive_len_guards, index_archive_sized_reads) = ([], [], 0%nat).
Proof. repeat split. Qed.
Print Assumptions c15_sites_pinned_2.

(* ---- the hang side: bounded work ---------------------------------------------------------------------
   RemoveLabel (`apko lock`: "@label url" repository lines), the one loop over untrusted text that does
   not walk a list: as many turns as the text has bytes are enough, for every text *)
Theorem c15_remove_label_fuel : forall s, Returns (remove_label (String.length s) s).
Proof. exact remove_label_returns. Qed.
Print Assumptions c15_remove_label_fuel.
(* the five scanner loops run once per delivered line: at most |input| + 1 turns, whatever the token limit *)
Theorem c15_scanner_turns_bounded : forall max s, (List.length (fst (scan_lines max s)) <= S (String.length s))%nat.
Proof. exact scan_lines_bounded. Qed.
Print Assumptions c15_scanner_turns_bounded.
(* strings.Fields: one look at every byte, and no more fields than bytes *)
Theorem c15_fields_work_bounded : forall s, List.length (space_mask s 0) = String.length s /\ (List.length (go_fields s) <= String.length s)%nat.
Proof. intro s. exact (conj (space_mask_length s 0) (go_fields_length s)). Qed.
Print Assumptions c15_fields_work_bounded.

(* ---- wave 3: tarfs FS.open (members of an indexed control / data section opened by name: packageInfo's
   ControlFS.Open(".PKGINFO"), the lazy installer, every fs.FS user). The hop counter is the only bound of the
   recursion through hard and symbolic links; goextract reads from the source that the recursive calls of BOTH
   link kinds raise it by at least 1, the limit maxHops and its test. For EVERY archive index and every name the
   chase ends — a member or an error — within maxHops + 2 calls: no cycle, no chain of any length, no mixture of
   the two link kinds makes it run on. *)
Theorem c15_tarfs_open_terminates : forall es name, Returns (tarfs_open_name es name).
Proof. exact tarfs_open_name_returns. Qed.
Print Assumptions c15_tarfs_open_terminates.
Theorem c15_tarfs_open_fuel_bound : forall idx fuel name r,
  tarfs_open fuel idx name 0 = r -> r <> OutOfFuel -> tarfs_open (Nat.max fuel tarfs_fuel) idx name 0 = r.
Proof. intros idx fuel name r H N. apply (tarfs_open_mono idx fuel name 0%Z r H N). apply Nat.le_max_l. Qed.
Print Assumptions c15_tarfs_open_fuel_bound.
Theorem c15_tarfs_hops_pinned :
  (tarfs_hop_incr, tarfs_hops_guard, tarfs_max_hops, tarfs_open_sites) = ((1, 1)%Z, "hops > maxHops"%string, 64%Z, []) /\
  (lock_from_file_sites, lock_from_file_len_guards) = ([], []).
Proof. repeat split. Qed.
Print Assumptions c15_tarfs_hops_pinned.
Example c15_tarfs_open_example :
  let es := [(".PKGINFO", mkTent 1 ".PKGINFO"); ("usr/bin/a", mkTent 1 "b"); ("usr/bin/b", mkTent 2 "/usr/bin/a"); ("usr/bin/c", mkTent 2 "../lib/x");
             ("usr/lib/x", mkTent 0 ""); ("d/", mkTent 5 ""); ("l", mkTent 2 "d/")]%string in
  tarfs_open_name es ".PKGINFO" = Err /\ tarfs_open_name es "usr/bin/a" = Err /\ tarfs_open_name es "usr/bin/c" = Ok "usr/lib/x"%string /\
  tarfs_open_name es "l" = Err /\ tarfs_open_name es "d/" = Ok "d/"%string /\ tarfs_open_name es "nope" = Err.
Proof. vm_compute. repeat split. Qed.

(* ---- final round: the twelve `for { x, err := r.Next() … }` loops over tar entries that goextract finds by
   shape under pkg/ (IndexFromArchive, parseRepositoryIndex, installAPKFiles, updateScriptsTar, ParsePackageInfo,
   controlValue, checkSums, NewAPKFS, seekTo, tarfs.New, BuildIndex, cpio.FromLayer). At every one of them an error
   of Next (io.EOF included) leaves the loop; so for EVERY tar reader whose Next hands over an entry only after
   reading its 512-byte header (archive/tar's contract: [consumes], checked on the hostile corpus in the harness),
   every loop body and every stream length n, the loop ends — a result or an error — within n / 512 + 1 turns. *)
Theorem c15_tar_loops_terminate : forall site next body n,
  In site tar_next_loops -> consumes next -> Returns (site_loop site next body n).
Proof. exact site_loop_returns. Qed.
Print Assumptions c15_tar_loops_terminate.
Theorem c15_tar_loop_turns_bounded : forall next body le fuel n k,
  consumes next -> tar_loop next body le true fuel n 0 = Ok k -> (k <= S (N.to_nat (n / tar_block)))%nat.
Proof. intros next body le fuel n k C H. exact (tar_loop_turns next body le C fuel n 0%nat k H). Qed.
Print Assumptions c15_tar_loop_turns_bounded.
(* what the pin is for (HYPOTHETICAL shape, no site has it): a loop that goes on after an error of Next turns
   forever, because the reader hands it the same error again *)
Theorem c15_tar_loop_ignoring_errors_hypothetical : forall body le fuel n,
  tar_loop (fun _ => TErr) body le false fuel n 0 = OutOfFuel.
Proof. intros. apply tar_loop_ignoring_errors_diverges. Qed.
Print Assumptions c15_tar_loop_ignoring_errors_hypothetical.
Theorem c15_tar_loops_pinned :
  map (fun s => (fst s, snd (snd s))) tar_next_loops =
  [("pkg/apk/apk/apkindex.go:IndexFromArchive#1", true); ("pkg/apk/apk/index.go:parseRepositoryIndex#1", true);
   ("pkg/apk/apk/install.go:APK.installAPKFiles#1", true); ("pkg/apk/apk/installed.go:APK.updateScriptsTar#1", true);
   ("pkg/apk/apk/package.go:ParsePackageInfo#1", true); ("pkg/apk/apk/util.go:controlValue#1", true);
   ("pkg/apk/expandapk/expandapk.go:checkSums#1", true); ("pkg/apk/fs/apkfs.go:NewAPKFS#1", true);
   ("pkg/apk/fs/apkfs.go:apkFSFile.seekTo#1", true); ("pkg/apk/internal/tarfs/tarfs.go:New#1", true);
   ("pkg/build/oci/index.go:BuildIndex#1", true); ("pkg/cpio/layer.go:FromLayer#1", true)]%string.
Proof. reflexivity. Qed.
Print Assumptions c15_tar_loops_pinned.
Example c15_tar_loop_example :
  let next := fun n => if (n =? 0)%N then TEof else if (n <? 512)%N then TErr else TEntry (n - 512)%N in
  consumes next /\ tar_loop next (fun _ => true) true true (tar_fuel 1536) 1536 0 = Ok 4%nat /\
  tar_loop next (fun _ => true) true true (tar_fuel 1300) 1300 0 = Err /\
  tar_loop next (fun r => negb (r =? 512)%N) true true (tar_fuel 1536) 1536 0 = Err.
Proof.
  cbn zeta. split; [|vm_compute; repeat split].
  intros n n'. destruct (n =? 0)%N; [discriminate|]. destruct (n <? 512)%N eqn:E; [discriminate|].
  intro H. inversion H. apply N.ltb_ge in E. unfold tar_block. lia.
Qed.

(* non-vacuity *)
Example c15_member_kinds_example :
  expand_apk [MPlain; MJunk] false = Err /\ expand_apk [MPlain; MZero; MJunk] false = Ok false /\
  expand_apk [MSign; MJunk; MPlain] false = Err /\ expand_apk [MSign; MZero; MEmpty] false = Ok true /\
  expand_apk [MPlain; MEmpty; MJunk] false = Err /\ split_parts [MSign; MJunk; MJunk] = Ok 3%nat /\ split_parts [MJunk] = Err.
Proof. vm_compute. repeat split. Qed.
Example c15_load_config_example :
  load_config 5 (mkCfs ["w"] w_dirs [(["w"; "a.yaml"], ("a", Some "inc/b.yaml")); (["w"; "inc"; "b.yaml"], ("b", Some "c.yaml")); (["w"; "inc"; "c.yaml"], ("c", Some ""))])%string
    ["inc"%string] "./a.yaml" = Ok ["a"; "b"; "c"]%string /\
  (* the kernel, unlike path.Clean, wants every directory on the way to exist *)
  load_config 5 (mkCfs ["w"] w_dirs [(["w"; "a.yaml"], ("a", Some "missing/../a.yaml"))])%string [] "a.yaml" = Err /\
  load_config 3 fs_dot [] "a.yaml" = Err /\ load_config 4 fs_two [] "a.yaml" = Err /\
  load_config_unfixed 5 (mkCfs ["w"] w_dirs [(["w"; "a.yaml"], ("a", Some "b.yaml")); (["w"; "b.yaml"], ("b", Some ""))])%string [] "a.yaml" = Ok ["a"; "b"]%string.
Proof. vm_compute. repeat split. Qed.
Example c15_sites2_examples :
  control_values (fun k => k =? "datahash")%string ("pkgname = a" +++ s_nl +++ "datahash = abc" +++ s_nl +++ "x=y=z" +++ s_nl +++ "datahash=" +++ s_nl) = Ok [("datahash", "abc"); ("datahash", "")]%string /\
  remove_label 9 "@a @b url" = Ok "url"%string /\ remove_label 2 "@a" = Err /\ conflict_name "!" = Ok (Some ""%string) /\
  layer_cutoff 5 0 = Ok 0%Z /\ layer_cutoff 5 3 = Ok 2%Z /\ layer_cutoff 2 3 = Ok 2%Z /\ repo_abbr "https://r/os/x86_64" = Ok "os/x86_64"%string.
Proof. vm_compute. repeat split. Qed.

(* non-vacuity: the readers do return results on well-formed input *)
Example c15_parse_installed_example :
  exists r, parse_installed (fun _ => None) ("P:a" +++ s_nl +++ "F:usr" +++ s_nl +++ "M:0:0:0700" +++ s_nl +++ s_nl) = Ok r /\ List.length r = 1%nat.
Proof. eexists. split; [vm_compute; reflexivity | reflexivity]. Qed.
Example c15_fixed_P_newline : parse_installed (fun _ => None) ("P" +++ s_nl) = Err.
Proof. vm_compute. reflexivity. Qed.
Example c15_read_release_example :
  read_release ("ID=alpine" +++ s_nl +++ "# c" +++ s_nl +++ "NAME=""Alpine Linux""" +++ s_nl) = Ok (mkRel "alpine" "Alpine Linux" "" "").
Proof. vm_compute. reflexivity. Qed.
Example c15_repo_line_example : repo_line ("@edge" +++ sb [194;160]%N +++ "https://r/x  extra") = Ok ("edge", "https://r/x")%string.
Proof. vm_compute. reflexivity. Qed.
Example c15_unify_split_example : unify_split "busybox>=1.36@edge" = Ok ("busybox", ">=1.36", "@edge")%string.
Proof. vm_compute. reflexivity. Qed.
Example c15_expand_examples :
  expand_apk [MSign; MPlain; MPlain] false = Ok true /\ expand_apk [MPlain; MPlain] false = Ok false /\
  expand_apk [MPlain] false = Err /\ expand_apk [] false = Err /\ expand_apk [MSign; MPlain] false = Err /\ expand_apk [MSign; MSign] false = Err /\
  expand_select 1 = Err /\ expand_select (-1) = Err /\ expand_select 4 = Err.
Proof. vm_compute. repeat split. Qed.
Example c15_sort_fix_example :
  sort_headers [dot_dir; mkHdr "./usr/" true 493 0 0 ""; mkHdr "./usr/x" false 420 0 0 ""] =
  Ok [mkHdr "./usr/" true 493 0 0 ""; mkHdr "./usr/x" false 420 0 0 ""].
Proof. vm_compute. reflexivity. Qed.
Example c15_include_chain_example :
  load_chain 5 [("a", "b"); ("b", "c"); ("c", "")]%string "a" = Ok ["a"; "b"; "c"]%string /\
  load_chain_fixed 4 [("a", "b"); ("b", "a")]%string [] "a" = Err.
Proof. vm_compute. split; reflexivity. Qed.
