(* C15 — untrusted input never crashes or hangs the tool. Property theorems
   only (proofs in Proofs/ParsersProofs.v). The line-oriented readers are the
   models of Model/Formats.v (shared with C16), written with checked slicing;
   [Returns r] = r is neither a panic nor fuel exhaustion. Every reader is a
   structural recursion over the list of lines bufio.Scanner delivers, itself a
   structural recursion over the input: Coq's termination checker is the proof
   that no loop runs without consuming input. Decoders from libraries (gzip,
   tar, yaml, json, ini, base64) are not modelled; they are exercised by the
   harness's malformed streams (exploration, not proof). *)
From Apko Require Import Base.Prelude Base.C16Lib Model.Formats Model.Parsers Spec.ParsersSpec
  Proofs.ParsersProofs Generated.FieldLetters Generated.Regexes.

(* ParsePackageIndex: for every base64 decoder, every token limit and every input *)
Theorem c15_no_panic_parse_index : forall dec s, Returns (parse_index dec s).
Proof. intros. exact (parse_index_max_returns dec index_max_token s). Qed.
Print Assumptions c15_no_panic_parse_index.

(* ParseInstalled incl. parseInstalledPerms (fix c54994b; before it "P\n" panicked) *)
Theorem c15_no_panic_parse_installed : forall dec s, Returns (parse_installed dec s).
Proof. intros. exact (parse_installed_max_returns dec installed_max_token s). Qed.
Print Assumptions c15_no_panic_parse_installed.

Theorem c15_no_panic_load_users : forall s, Returns (load_users s).
Proof. intros. exact (load_file_returns parse_user default_max_token s parse_user_returns). Qed.
Print Assumptions c15_no_panic_load_users.

Theorem c15_no_panic_load_groups : forall s, Returns (load_groups s).
Proof. intros. exact (load_file_returns parse_group default_max_token s parse_group_returns). Qed.
Print Assumptions c15_no_panic_load_groups.

(* ParseVersion reads actuals[1..13] after testing len(actuals) == 14, and
   actuals[4][0] after testing its length; the version regex in the source has
   exactly 13 groups. ResolvePackageNameVersionPin only tests len(parts[0]) < 2
   before reading [1] [3] [4] [6]: safe because the name regex in the source has
   6 groups (an edit that removes a group turns this theorem false). *)
Theorem c15_no_panic_parse_version : forall matched letter_len, Returns (parse_version_skel matched letter_len).
Proof. exact parse_version_skel_returns. Qed.
Print Assumptions c15_no_panic_parse_version.

Theorem c15_no_panic_resolve_pin : forall matched, Returns (resolve_pin_skel matched).
Proof. exact resolve_pin_skel_returns. Qed.
Print Assumptions c15_no_panic_resolve_pin.

Theorem c15_no_panic_cached_package : forall chk, Returns (cached_package_slice chk).
Proof. exact cached_package_slice_returns. Qed.
Print Assumptions c15_no_panic_cached_package.

(* the hidden-file test of both install loops (fix 6e06851; header.Name[0] used to
   panic on an entry with an empty name): every name, started or not *)
Theorem c15_no_panic_install_entry_name : forall started name, Returns (install_hidden_test started name).
Proof. exact install_hidden_test_returns. Qed.
Print Assumptions c15_no_panic_install_entry_name.

(* standardizePath (fix 5614ee6; p[0] used to panic on the empty path) *)
Theorem c15_no_panic_standardize_path : forall p, Returns (standardize_path p).
Proof. exact standardize_path_returns. Qed.
Print Assumptions c15_no_panic_standardize_path.

(* the layering budget of the configuration (fix d47e591; make([]*group, 0, budget)
   used to panic on a negative or huge budget): every integer *)
Theorem c15_no_panic_layer_budget : forall b, Returns (make_groups b).
Proof. exact make_groups_returns. Qed.
Print Assumptions c15_no_panic_layer_budget.
(* ... and buildLayers in the source does test the budget before grouping *)
Theorem c15_layer_budget_guard_pinned : layer_budget_guards = ["budget < 0"%string].
Proof. reflexivity. Qed.
Print Assumptions c15_layer_budget_guard_pinned.

(* sortTarHeaders on a file list with a directory entry named "./": the entry is
   its own child, the recursion never ends whatever the fuel (in Go: stack overflow) *)
Theorem c15_sort_headers_self_child_refuted : forall fuel,
  sort_children fuel (dir_children [dot_dir]) (all_headers [dot_dir]) ["."%string] = OutOfFuel.
Proof. exact sort_children_dot_diverges. Qed.
Print Assumptions c15_sort_headers_self_child_refuted.

(* non-vacuity: the readers do return results on well-formed input *)
Example c15_parse_installed_example :
  exists r, parse_installed (fun _ => None) ("P:a" +++ s_nl +++ "F:usr" +++ s_nl +++ "M:0:0:0700" +++ s_nl +++ s_nl) = Ok r /\ List.length r = 1%nat.
Proof. eexists. split; [vm_compute; reflexivity | reflexivity]. Qed.
Example c15_fixed_P_newline : parse_installed (fun _ => None) ("P" +++ s_nl) = Err.
Proof. vm_compute. reflexivity. Qed.
