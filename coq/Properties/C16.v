(* C16 — apko's own text formats round-trip. Property theorems only; proofs
   are in Proofs/FormatsProofs.v. The writers of the model are driven by the
   tables goextract read from apkindex.go / package.go / installed.go /
   passwd.go / group.go on this run (Generated/FieldLetters.v). *)
From Apko Require Import Base.Prelude Base.C16Lib Model.Formats Spec.FormatsSpec
  Proofs.FormatsProofs Proofs.FormatsPasswd Proofs.FormatsPath Proofs.FormatsSort Proofs.FormatsInstalled
  Proofs.FormatsFixpoint Proofs.FormatsFit Proofs.FormatsFields Proofs.FormatsReach Proofs.FormatsReaders Proofs.FormatsDb Generated.FieldLetters.

(* the APKINDEX template in the source is the one the theorems are about *)
Theorem c16_index_template_pinned :
  index_template_rows = expected_index_rows /\ index_template_trailer = s_nl +++ s_nl /\ index_join_sep = " "%string.
Proof. exact index_rows_pinned. Qed.
Print Assumptions c16_index_template_pinned.

(* ---- APKINDEX: write then read ---------------------------------------------
   [enc]/[dec] stand for base64 (encoding/base64 is library code): any pair with
   dec (enc b) = Some b.  [pkg_ok]: sizes and priority fit uint64, build time
   fits int64, list items are non-empty and space-free (what the space-joined
   rows can carry).  [lines_fit]: no written line contains LF, ends in CR, or
   exceeds the reader's token limit (the generated index_max_token).  For EVERY
   list of such records — any number, any field values, named or not — the
   reader returns exactly the named records with every field the property
   lists intact, except replaces (finding C16-F3, refuted form below). *)
Theorem c16_index_roundtrip :
  forall (enc : list N -> string) (dec : string -> option (list N)),
  (forall b, dec (enc b) = Some b) ->
  forall ps, Forall pkg_ok ps ->
  lines_fit index_max_token (flat_map (record_lines enc) (named ps)) ->
  parse_index dec (write_index enc ps) = Ok (map norm_index (named ps)) /\
  (Forall (fun p => p_replaces p = []) ps ->
   IndexRoundTrip ps (parse_index dec (write_index enc ps))).
Proof.
  intros enc dec codec ps H1 H2. split.
  - exact (index_roundtrip enc dec codec ps H1 H2).
  - intro H3. exact (index_roundtrip_spec enc dec codec ps H1 H2 H3).
Qed.
Print Assumptions c16_index_roundtrip.

(* hypotheses are satisfiable on a record with every field populated *)
Example c16_index_roundtrip_ex :
  let enc := fun b : list N => sconcat (map (fun n => fmt_n n +++ ",") b) in
  let p := set_prio 7%N (set_isize 4096%N (set_size 18446744073709551615%N
            (set_installif ["x"; "y=1"] (set_provides ["so:libc.so.6=1"; "cmd:a"] (set_deps ["b>1"; "!c"]
            (set_commit "abc" (set_url "https://e" (set_maint "m <m@e>" (set_origin "o" (set_license "MIT"
            (set_desc "a b c" (set_arch "x86_64" (set_version "1.2.3-r4" (set_name "a" empty_pkg)))))))))))))) in
  pkg_ok p /\ lines_fit index_max_token (flat_map (record_lines enc) (named [p])) /\
  named [p] = [p] /\ p_replaces p = [].
Proof.
  cbn zeta. split; [|split; [|split]].
  - constructor; try (vm_compute; (reflexivity || lia));
      try (repeat constructor; try discriminate).
  - unfold lines_fit. vm_compute flat_map.
    repeat constructor; try (vm_compute; (reflexivity || discriminate || lia)).
  - vm_compute; reflexivity.
  - reflexivity.
Qed.

(* reading a written index and writing it again reproduces the file *)
Theorem c16_index_read_write_fixpoint :
  forall (enc : list N -> string) (dec : string -> option (list N)),
  (forall b, dec (enc b) = Some b) ->
  forall ps, Forall pkg_ok ps ->
  lines_fit index_max_token (flat_map (record_lines enc) (named ps)) ->
  exists l, parse_index dec (write_index enc ps) = Ok l /\ write_index enc l = write_index enc ps.
Proof. exact index_read_write_fixpoint. Qed.
Print Assumptions c16_index_read_write_fixpoint.

(* the full statement (replaces included) is false: finding C16-F3 *)
Theorem c16_index_replaces_refuted :
  let enc := fun _ : list N => ""%string in let dec := fun _ : string => Some (@nil N) in
  dec (enc (p_checksum witness_replaces)) = Some (p_checksum witness_replaces) /\
  ~ IndexRoundTrip [witness_replaces] (parse_index dec (write_index enc [witness_replaces])).
Proof. exact index_replaces_refuted. Qed.
Print Assumptions c16_index_replaces_refuted.

(* the validator the correspondence stage runs on the IMPLEMENTATION's read-back
   decides the readable statement *)
Theorem c16_index_validator_decides : forall orig rb,
  index_rt_tags orig rb = [] <-> IndexRoundTrip orig rb.
Proof. exact index_validator_decides. Qed.
Print Assumptions c16_index_validator_decides.

(* ---- installed database: reading then re-writing ---------------------------
   The full statement ("reading a written lib/apk/db/installed and writing it
   again reproduces it") is false for three recorded reasons: the i: line is
   written in Go's slice syntax (C16-F1), Z: lines are never read (C16-F2), and —
   witness below, finding C16-F7 — a package whose file list names one directory
   twice (legal in a tar stream) gets that directory once per header with ALL its
   children under each, so the record multiplies on every write. *)
Definition witness_dup_files : list hdr :=
  [mkHdr "s/" true 493 0 0 ""; mkHdr "s/d/" true 493 0 0 ""; mkHdr "s/d/x" false 420 0 0 ""; mkHdr "s/d/" true 493 0 0 ""]%string.
Theorem c16_installed_fixpoint_dup_dir_refuted :
  let enc := fun _ : list N => ""%string in let dec := fun _ : string => Some (@nil N) in
  let p := set_version "1" (set_name "a" empty_pkg) in
  exists t p' fs' t',
    write_installed enc dec p witness_dup_files = Ok t /\
    parse_installed dec t = Ok [(p', fs')] /\
    write_installed enc dec p' fs' = Ok t' /\
    List.length fs' = 5 /\
    In "viol:installed-read-write-not-fixpoint"%string (installed_fixpoint_tags t (Ok t')) /\
    dup_dir witness_dup_files = true.
Proof.
  cbn zeta. eexists _, _, _, _.
  split; [vm_compute; reflexivity|]. split; [vm_compute; reflexivity|].
  split; [vm_compute; reflexivity|]. split; [reflexivity|].
  split; [vm_compute; tauto | reflexivity].
Qed.
Print Assumptions c16_installed_fixpoint_dup_dir_refuted.

Open Scope string_scope. Open Scope list_scope.
(* ---- passwd / group --------------------------------------------------------
   The formats, separators and part counts read from passwd.go / group.go on
   this run are the ones the theorems below are about. *)
Theorem c16_passwd_formats_pinned :
  passwd_format = ("%s:%s:%d:%d:%s:%s:%s" +++ s_nl) /\ group_format = ("%s:%s:%d:%s" +++ s_nl) /\
  group_member_sep = "," /\ passwd_split_seps = [":"] /\ group_split_seps = [":"; ","] /\
  passwd_part_count = 7%nat /\ group_part_count = 4%nat.
Proof. exact passwd_formats_pinned. Qed.
Print Assumptions c16_passwd_formats_pinned.

(* [user_ok]: no field contains ':' or LF; the name does not start and the shell
   does not end with an ASCII blank (the reader applies strings.TrimSpace to the
   line; a final CR counts as a blank); uid, gid < 2^32; the line fits bufio's
   default token limit.  For EVERY list of such entries UserFile.Load returns
   exactly what UserFile.Write was given, and writing that again reproduces the
   file. *)
Theorem c16_passwd_roundtrip :
  forall us, Forall user_ok us ->
  load_users (write_users us) = Ok us /\ UsersRoundTrip us (load_users (write_users us)) /\
  (exists l, load_users (write_users us) = Ok l /\ write_users l = write_users us).
Proof.
  intros us H. split; [exact (users_roundtrip us H)|]. split; [exact (users_roundtrip us H)|exact (users_read_write_fixpoint us H)].
Qed.
Print Assumptions c16_passwd_roundtrip.

Example c16_passwd_roundtrip_ex :
  user_ok (mkUser "root" "x" 0 0 "Some Body,,," "/root" "/bin/sh") /\
  user_ok (mkUser "" "" 4294967295 2147483648 "" "" "").
Proof.
  split; constructor; try (split; reflexivity); try reflexivity; vm_compute; (reflexivity || discriminate).
Qed.

(* [group_ok]: name and password as above, members free of ':' LF and ',', the
   name does not start and the last member does not end with a blank, gid < 2^32,
   the line fits.  For EVERY list of such groups GroupFile.Load returns each
   group with its fields intact (an empty member list included, since fix
   C16-F6), except for the one list the format cannot carry: [""], a single
   member with the empty name, is written like the empty list and comes back as
   it ([norm_group]; refuted form below); in every case writing the read-back
   again reproduces the file. *)
Theorem c16_group_roundtrip :
  forall gs, Forall group_ok gs ->
  load_groups (write_groups gs) = Ok (map norm_group gs) /\
  (Forall (fun g => g_members g <> [""]) gs ->
   load_groups (write_groups gs) = Ok gs /\ GroupsRoundTrip gs (load_groups (write_groups gs))) /\
  (exists l, load_groups (write_groups gs) = Ok l /\ write_groups l = write_groups gs).
Proof.
  intros gs H. split; [exact (groups_readback gs H)|]. split.
  - intro H2. split; exact (groups_roundtrip gs H H2).
  - exact (groups_read_write_fixpoint gs H).
Qed.
Print Assumptions c16_group_roundtrip.

Example c16_group_roundtrip_ex :
  group_ok (mkGroup "wheel" "x" 10 ["root"; "u"; ""]) /\ g_members (mkGroup "wheel" "x" 10 ["root"; "u"; ""]) <> [""] /\
  group_ok (mkGroup "" "" 4294967295 []).
Proof.
  split; [|split; [discriminate|]];
    (constructor; try (split; reflexivity); try (repeat constructor); try reflexivity; vm_compute; (reflexivity || discriminate)).
Qed.

(* the statement for ANY member list is false, and no reader could make it true:
   [""] and [] are written as the same bytes *)
Theorem c16_group_single_empty_name_refuted :
  group_ok witness_group /\ ~ GroupsRoundTrip [witness_group] (load_groups (write_groups [witness_group])) /\
  write_groups [witness_group] = write_groups [mkGroup "g" "x" 5 []] /\
  groups_rt_tags [witness_group] (load_groups (write_groups [witness_group])) = ["viol:group-members-changed"].
Proof. exact groups_single_empty_name_refuted. Qed.
Print Assumptions c16_group_single_empty_name_refuted.
(* fixed C16-F6: a group without members comes back without members *)
Theorem c16_group_no_members_roundtrip :
  load_groups (write_groups [mkGroup "g" "x" 5 []]) = Ok [mkGroup "g" "x" 5 []].
Proof. exact groups_no_members_roundtrip. Qed.
Print Assumptions c16_group_no_members_roundtrip.

(* the validators run on the IMPLEMENTATION's read-back decide the readable statements *)
Theorem c16_passwd_validator_decides : forall orig rb, users_rt_tags orig rb = [] <-> UsersRoundTrip orig rb.
Proof. exact users_validator_decides. Qed.
Print Assumptions c16_passwd_validator_decides.
Theorem c16_group_validator_decides : forall orig rb, groups_rt_tags orig rb = [] <-> GroupsRoundTrip orig rb.
Proof. exact groups_validator_decides. Qed.
Print Assumptions c16_group_validator_decides.

(* ---- sortTarHeaders ----------------------------------------------------------
   [sort_envelope hs]: the cleaned names are pairwise different and none is ".";
   every entry passes the validator's own [reachable] test (each ancestor is
   present as a directory entry and the top-level one has a child — outside is
   finding C16-F5; a directory named twice is C16-F7); non-directory names end in
   an ordinary component.  For EVERY such header list, of any size and depth, and
   for every order [ord] in which Go may range over the directoryChildren map:
   the recursion's fuel suffices (the result is [Ok]), the result does not depend
   on [ord], is a permutation of the input, every non-directory entry is
   governed by the directory entry that precedes it (what the F:/R: lines need),
   and the validator run on the implementation's output has nothing to report. *)
Theorem c16_sort_headers :
  forall hs ord, sort_envelope hs -> Permutation.Permutation ord (map fst (dir_children hs)) ->
  exists out, sort_headers_ord ord hs = Ok out /\ sort_headers hs = Ok out /\
    Permutation.Permutation out hs /\ governed None out = true /\ sort_tags hs out = [].
Proof. exact sort_headers_envelope. Qed.
Print Assumptions c16_sort_headers.

(* independence of the iteration order holds for every input, inside the envelope or not; the map Go
   ranges over is filled from the entries sortTarHeaders keeps (since fix f716198: all but an entry that
   cleans to ".") *)
Theorem c16_sort_headers_order_independent :
  forall hs ord, Permutation.Permutation ord (map fst (dir_children (filter not_dot hs))) -> sort_headers_ord ord hs = sort_headers hs.
Proof. exact (fun hs ord => sort_headers_ord_indep ord hs). Qed.
Print Assumptions c16_sort_headers_order_independent.

Example c16_sort_headers_ex :
  let hs := [mkHdr "usr/bin/ls" false 493 0 0 ""; mkHdr "./usr/" true 493 0 0 ""; mkHdr "usr/bin" true 488 3 4 "";
             mkHdr "usr/lib/" true 493 0 0 ""] in
  sort_envelope hs /\ Permutation.Permutation ["usr"; "usr/bin"; "."] (map fst (dir_children hs)).
Proof.
  cbn zeta. split.
  - constructor.
    + vm_compute. repeat constructor; cbn; intuition discriminate.
    + intros h I. cbn in I. repeat destruct I as [<-|I]; try (vm_compute; discriminate). destruct I.
    + intros h I. cbn in I. repeat destruct I as [<-|I]; try (vm_compute; reflexivity). destruct I.
    + intros h I D. cbn in I. repeat destruct I as [<-|I]; try discriminate D; try (vm_compute; repeat split; discriminate). destruct I.
  - vm_compute. apply Permutation.perm_swap || (eapply Permutation.perm_trans; [apply Permutation.perm_swap|]; repeat constructor).
Qed.

(* the validator decides the readable statement *)
Theorem c16_sort_validator_decides : forall input output, sort_tags input output = [] <-> SortedWell input output.
Proof. exact sort_validator_decides. Qed.
Print Assumptions c16_sort_validator_decides.

(* ---- installed database: write then read ---------------------------------------
   The rows of PackageToInstalled, the fmt formats of AddInstalledPackage, the
   mode mask, the two default modes and the function that removes the trailing
   slashes of a directory's name (TrimRight since fix 8e9dafb; a revert to
   TrimSuffix changes the generated definition and breaks this theorem) read from
   the source on this run are the ones the theorems below are about. *)
Theorem c16_installed_tables_pinned :
  installed_pkg_rows = expected_installed_rows /\
  installed_file_formats = ["%c"; "F:%s"; "M:%d:%d:%04o"; "R:%s"; "a:%d:%d:%04o"; "Z:%s"] /\
  installed_mode_mask = 511%Z /\ installed_dir_default_mode = 493%Z /\ installed_file_default_mode = 420%Z /\
  installed_join_and_trailer = [s_nl +++ s_nl; s_nl] /\
  installed_dir_trim_fn = "strings.TrimRight".
Proof. exact installed_tables_pinned. Qed.
Print Assumptions c16_installed_tables_pinned.

(* The full statement (InstalledRoundTrip: every package field and every file
   record incl. its checksum) is false for two recorded reasons; witnesses: *)
(* C16-F1: the i: line is written in Go's slice syntax — even the EMPTY list comes back as ["[]"] *)
Theorem c16_installed_installif_refuted :
  exists t, write_installed wenc whex witness_inst_pkg [] = Ok t /\
    ~ InstalledRoundTrip witness_inst_pkg [] (parse_installed wdec t) /\
    installed_rt_tags witness_inst_pkg [] (parse_installed wdec t) = ["viol:installed-installif-go-slice-format"].
Proof. exact installed_installif_refuted. Qed.
Print Assumptions c16_installed_installif_refuted.
(* C16-F2: the Z: line is written and never read *)
Theorem c16_installed_Z_refuted :
  exists t, write_installed wenc whex witness_inst_pkg witness_z_files = Ok t /\
    ~ InstalledRoundTrip witness_inst_pkg witness_z_files (parse_installed wdec t) /\
    In "viol:installed-Z-not-read" (installed_rt_tags witness_inst_pkg witness_z_files (parse_installed wdec t)).
Proof. exact installed_Z_refuted. Qed.
Print Assumptions c16_installed_Z_refuted.

(* PARTIAL (missing: install_if, C16-F1; per-file checksum, C16-F2).
   [enc]/[dec]: any base64 pair with dec (enc b) = Some b; [hexdec]: any hex
   decoder (the writer fails, writing nothing, when it rejects a checksum).
   [inst_pkg_ok]: sizes/priority fit uint64, build time fits int64, items of the
   space-joined lists are non-empty and space-free.  [sort_envelope]: as for
   c16_sort_headers.  [id_ok]: uid, gid fit int64 (Go int).  The last hypothesis:
   no written line contains LF, ends in CR or exceeds bufio's default token
   (beyond it: finding C16-F4).  For EVERY named package and EVERY file list of
   that kind, ParseInstalled returns exactly one record; every package field
   except install_if survives (install_if comes back as the space-split of Go's
   "[a b]"); and the file list comes back in sortTarHeaders order, each entry
   with its path (the F: spelling for directories, the cleaned path for files:
   both Clean to the original's cleaned path), kind, mode & 0777, uid and gid,
   nothing lost and nothing invented. *)
Theorem c16_installed_roundtrip_partial :
  forall (enc : list N -> string) (dec hexdec : string -> option (list N)),
  (forall b, dec (enc b) = Some b) ->
  forall p files t,
  inst_pkg_ok p -> p_name p <> "" -> sort_envelope files -> Forall id_ok files ->
  write_installed enc hexdec p files = Ok t ->
  (forall sorted ls, sort_headers files = Ok sorted -> installed_record_lines enc hexdec p sorted = Ok ls ->
     lines_fit installed_max_token ls) ->
  exists sorted, sort_headers files = Ok sorted /\
    parse_installed dec t = Ok [(norm_inst p, map rec_clean sorted)] /\
    InstalledRoundTripPartial p files (parse_installed dec t).
Proof. exact installed_roundtrip_partial. Qed.
Print Assumptions c16_installed_roundtrip_partial.

Example c16_installed_roundtrip_partial_ex :
  let p := set_checksum [1%N; 2%N] (set_prio 7%N (set_isize 4096%N (set_size 18446744073709551615%N
            (set_replaces ["r"] (set_installif ["x"; "y=1"] (set_provides ["so:libc.so.6=1"; "cmd:a"] (set_deps ["b>1"; "!c"]
            (set_commit "abc" (set_url "https://e" (set_maint "m <m@e>" (set_origin "o" (set_license "MIT"
            (set_desc "a b c" (set_arch "x86_64" (set_version "1.2.3-r4" (set_name "a" empty_pkg)))))))))))))))) in
  let files := [mkHdr "usr/bin/ls" false 2505 5 6 "Q1abc"; mkHdr "./usr/" true 493 0 0 ""; mkHdr "usr/bin" true 488 3 4 ""] in
  inst_pkg_ok p /\ p_name p <> "" /\ sort_envelope files /\ Forall id_ok files /\
  exists t sorted ls, write_installed wenc whex p files = Ok t /\ sort_headers files = Ok sorted /\
    installed_record_lines wenc whex p sorted = Ok ls /\ lines_fit installed_max_token ls.
Proof.
  cbn zeta. split; [|split; [discriminate|split; [|split]]].
  - constructor; try (vm_compute; (reflexivity || lia)); try (split; vm_compute; congruence);
      repeat constructor; try discriminate.
  - constructor.
    + vm_compute. repeat constructor; cbn; intuition discriminate.
    + intros h I. cbn in I. repeat destruct I as [<-|I]; try (vm_compute; discriminate). destruct I.
    + intros h I. cbn in I. repeat destruct I as [<-|I]; try (vm_compute; reflexivity). destruct I.
    + intros h I D. cbn in I. repeat destruct I as [<-|I]; try discriminate D; try (vm_compute; repeat split; discriminate). destruct I.
  - repeat constructor; vm_compute; congruence.
  - eexists _, _, _. split; [vm_compute; reflexivity|]. split; [vm_compute; reflexivity|]. split; [vm_compute; reflexivity|].
    unfold lines_fit. repeat constructor; try (vm_compute; (reflexivity || discriminate || lia)).
Qed.

(* the validator run on the IMPLEMENTATION's read-back decides the full statement *)
Theorem c16_installed_validator_decides : forall p files rb,
  installed_rt_tags p files rb = [] <-> InstalledRoundTrip p files rb.
Proof. exact installed_validator_decides. Qed.
Print Assumptions c16_installed_validator_decides.

(* each condition of [sort_envelope] is needed: model witnesses for "./" (left out of the
   result since fix f716198, so the result is no permutation of the input; before the fix the
   recursion did not end, finding C15-F4: [sort_headers_raw], hypothetical), a childless top-level entry and an
   orphan (C16-F5), a directory named twice (C16-F7), and a non-directory name
   ending in "/." (written as R:. — no file can be called that) *)
Theorem c16_sort_envelope_needed :
  (sort_headers [mkHdr "./" true 493 0 0 ""] = Ok [] /\ sort_headers_raw [mkHdr "./" true 493 0 0 ""] = OutOfFuel) /\
  sort_headers [mkHdr "dev/" true 493 0 0 ""; mkHdr "usr/" true 493 0 0 ""; mkHdr "usr/bin/" true 493 0 0 ""] =
    Ok [mkHdr "usr/" true 493 0 0 ""; mkHdr "usr/bin/" true 493 0 0 ""] /\
  sort_headers [mkHdr "usr/" true 493 0 0 ""; mkHdr "usr/bin/ls" false 420 0 0 ""; mkHdr "usr/lib/" true 493 0 0 ""] =
    Ok [mkHdr "usr/" true 493 0 0 ""; mkHdr "usr/lib/" true 493 0 0 ""] /\
  sort_headers [mkHdr "s/" true 493 0 0 ""; mkHdr "s/d/" true 493 0 0 ""; mkHdr "s/d/x" false 420 0 0 ""; mkHdr "s/d/" true 493 0 0 ""] =
    Ok [mkHdr "s/" true 493 0 0 ""; mkHdr "s/d/" true 493 0 0 ""; mkHdr "s/d/x" false 420 0 0 ""; mkHdr "s/d/" true 493 0 0 ""; mkHdr "s/d/x" false 420 0 0 ""] /\
  (exists out, sort_headers [mkHdr "a/" true 493 0 0 ""; mkHdr "a/b/" true 493 0 0 ""; mkHdr "a/b/c/." false 420 0 0 ""] = Ok out /\
     Permutation.Permutation out [mkHdr "a/" true 493 0 0 ""; mkHdr "a/b/" true 493 0 0 ""; mkHdr "a/b/c/." false 420 0 0 ""] /\ governed None out = false).
Proof. exact sort_envelope_needed. Qed.
Print Assumptions c16_sort_envelope_needed.

(* ---- hypotheses on the FIELDS instead of on the written lines ---------------------
   [text_fits max k s]: s has no LF, does not end in CR, and nlen s + k <= max
   (k = the letter, the colon and the line terminator, plus "Q1" for checksums).
   [items_fit max k l]: no item has an LF, the last one does not end in CR, and the
   items with one separator each fit.  Numbers need nothing beyond their Go range:
   a uint64 prints in at most 20 digits, an int64 in at most 20 characters, and
   the token limits read from the source leave room for them. *)
Theorem c16_number_lines_fit :
  (forall n, (n < two64)%N -> (nlen (fmt_n n) <= 20)%N) /\
  (forall z, (- Z.of_N two63 <= z < Z.of_N two63)%Z -> (nlen (fmt_z z) <= 20)%N) /\
  (23 <= index_max_token)%N /\ (49 <= installed_max_token)%N.
Proof. exact (conj fmt_n_len64 (conj fmt_z_len64 (conj index_token_room installed_token_room))). Qed.
Print Assumptions c16_number_lines_fit.

(* APKINDEX: the round-trip, its Prop form and the read-write fixpoint, for EVERY
   list of records whose fields fit index_max_token (the limit ParsePackageIndex
   hands to Scanner.Buffer, read by goextract) *)
Theorem c16_index_roundtrip_fields :
  forall (enc : list N -> string) (dec : string -> option (list N)),
  (forall b, dec (enc b) = Some b) ->
  forall ps, Forall pkg_ok ps -> Forall (index_fields_fit enc index_max_token) ps ->
  parse_index dec (write_index enc ps) = Ok (map norm_index (named ps)) /\
  (Forall (fun p => p_replaces p = []) ps -> IndexRoundTrip ps (parse_index dec (write_index enc ps))) /\
  (exists l, parse_index dec (write_index enc ps) = Ok l /\ write_index enc l = write_index enc ps).
Proof. exact index_roundtrip_fields. Qed.
Print Assumptions c16_index_roundtrip_fields.

Definition ex_pkg : pkg :=
  set_checksum [1%N; 2%N] (set_prio 7%N (set_isize 4096%N (set_size 18446744073709551615%N
    (set_replaces ["r"] (set_installif ["x"; "y=1"] (set_provides ["so:libc.so.6=1"; "cmd:a"] (set_deps ["b>1"; "!c"]
    (set_commit "abc" (set_url "https://e" (set_maint "m <m@e>" (set_origin "o" (set_license "MIT"
    (set_desc "a b c" (set_arch "x86_64" (set_version "1.2.3-r4" (set_name "a" empty_pkg)))))))))))))))).
Definition ex_files : list hdr :=
  [mkHdr "usr/bin/ls" false 2505 5 6 "Q1abc"; mkHdr "./usr/" true 493 0 0 ""; mkHdr "usr/bin" true 488 3 4 ""].
Ltac fits_tac := repeat split; try (vm_compute; (reflexivity || discriminate)); try (repeat constructor; vm_compute; reflexivity).
Example c16_index_roundtrip_fields_ex :
  let enc := fun b : list N => sconcat (map (fun n => fmt_n n +++ ",") b) in
  index_fields_fit enc index_max_token ex_pkg.
Proof. cbn zeta. constructor; fits_tac. Qed.

(* installed database, write then read, with the hypotheses on the fields (same
   conclusion and same missing parts as c16_installed_roundtrip_partial) *)
Theorem c16_installed_roundtrip_fields_partial :
  forall (enc : list N -> string) (dec hexdec : string -> option (list N)),
  (forall b, dec (enc b) = Some b) ->
  forall p files t,
  inst_pkg_ok p -> p_name p <> "" -> sort_envelope files -> Forall id_ok files ->
  inst_fields_fit enc installed_max_token p -> Forall (file_fields_fit enc hexdec installed_max_token) files ->
  write_installed enc hexdec p files = Ok t ->
  exists sorted, sort_headers files = Ok sorted /\
    parse_installed dec t = Ok [(norm_inst p, map rec_clean sorted)] /\
    InstalledRoundTripPartial p files (parse_installed dec t).
Proof. exact installed_roundtrip_fields_partial. Qed.
Print Assumptions c16_installed_roundtrip_fields_partial.

(* ---- installed database: reading a written record and writing it again -------------
   FULL inside the envelope, which is, clause by clause:
   * the package: [inst_pkg_ok], named, every field fits ([inst_fields_fit]);
   * no cleaned name occurs twice (a directory named twice: finding C16-F7, refuted
     form c16_installed_fixpoint_dup_dir_refuted) and none is ".";
   * every entry is reachable: each ancestor is present as a directory entry and
     the top-level one has a child (outside: C16-F5, the entry is not written);
   * non-directory names end in an ordinary component;
   * uid/gid fit Go's int; names have no LF/CR and fit, checksums fit
     ([file_fields_fit]).
   (No clause about trailing slashes any more: since fix 8e9dafb the writer removes
   all of them, [dir_trim] is idempotent; regression replay below.)
   For EVERY such package and file list, of any size: ParseInstalled returns one
   record; sortTarHeaders leaves the list it returns alone; the second
   AddInstalledPackage succeeds, and its text is the first one with the Z: lines
   dropped (C16-F2) and the i: line wrapped in one more pair of brackets (C16-F1) —
   every other line identical and in the same order ([InstalledFixpointModIZ], the
   statement the validator installed_fixpoint_tags decides up to those two tags). *)
Theorem c16_installed_fixpoint :
  forall (enc : list N -> string) (dec hexdec : string -> option (list N)),
  (forall b, dec (enc b) = Some b) ->
  forall p files t,
  inst_pkg_ok p -> p_name p <> "" -> inst_fields_fit enc installed_max_token p ->
  NoDup (map (fun h => clean (h_name h)) files) ->
  (forall h, In h files -> clean (h_name h) <> ".") ->
  (forall h, In h files -> reachable (S (String.length (clean (h_name h)))) files (clean (h_name h)) = true) ->
  (forall h, In h files -> h_isdir h = false -> plain_base (h_name h)) ->
  Forall id_ok files -> Forall (file_fields_fit enc hexdec installed_max_token) files ->
  write_installed enc hexdec p files = Ok t ->
  exists sorted fl t',
    sort_headers files = Ok sorted /\ files_lines enc hexdec sorted = Ok fl /\
    t = join s_nl (pkg_to_installed enc p ++ fl) +++ s_nl +++ s_nl /\
    parse_installed dec t = Ok [(norm_inst p, map rec_clean sorted)] /\
    sort_headers (map rec_clean sorted) = Ok (map rec_clean sorted) /\
    write_installed enc hexdec (norm_inst p) (map rec_clean sorted) = Ok t' /\
    t' = join s_nl (pkg_to_installed enc (norm_inst p) ++ drop_z fl) +++ s_nl +++ s_nl /\
    Forall2 line_step (pkg_to_installed enc p) (pkg_to_installed enc (norm_inst p)) /\
    InstalledFixpointModIZ t t'.
Proof.
  intros enc dec hexdec codec p files t Hp Hn Fp N D R B Hid Ff Hw.
  exact (installed_fixpoint_fields enc dec hexdec codec p files t Hp Hn (Build_sort_envelope files N D R B) Hid Fp Ff Hw).
Qed.
Print Assumptions c16_installed_fixpoint.

Example c16_installed_fixpoint_ex :
  inst_pkg_ok ex_pkg /\ p_name ex_pkg <> "" /\ inst_fields_fit wenc installed_max_token ex_pkg /\
  sort_envelope ex_files /\ Forall id_ok ex_files /\ Forall (file_fields_fit wenc whex installed_max_token) ex_files /\
  exists t, write_installed wenc whex ex_pkg ex_files = Ok t.
Proof.
  split; [|split; [discriminate|split; [|split; [|split; [|split]]]]].
  - constructor; try (vm_compute; (reflexivity || lia)); try (split; vm_compute; congruence);
      repeat constructor; try discriminate.
  - constructor; fits_tac.
  - constructor.
    + vm_compute. repeat constructor; cbn; intuition discriminate.
    + intros h I. cbn in I. repeat destruct I as [<-|I]; try (vm_compute; discriminate). destruct I.
    + intros h I. cbn in I. repeat destruct I as [<-|I]; try (vm_compute; reflexivity). destruct I.
    + intros h I D. cbn in I. repeat destruct I as [<-|I]; try discriminate D; try (vm_compute; repeat split; discriminate). destruct I.
  - repeat constructor; vm_compute; congruence.
  - constructor; [|constructor; [|constructor; [|constructor]]]; (constructor; [vm_compute; reflexivity|vm_compute; reflexivity|vm_compute; discriminate|]).
    + right. right. left. fits_tac.
    + left. reflexivity.
    + left. reflexivity.
  - eexists. vm_compute. reflexivity.
Qed.

(* fixed C16-F8 (regression replay, also in the harness corpus): a directory header
   named a// is inside the envelope and is written F:a BOTH times -- before fix
   8e9dafb it was written F:a/ and then F:a *)
Theorem c16_installed_double_slash_fixed :
  sort_envelope witness_two_slashes /\ two_slashes witness_two_slashes = true /\
  exists t t',
    write_installed wenc whex witness_inst_pkg witness_two_slashes = Ok t /\
    parse_installed wdec t = Ok [(norm_inst witness_inst_pkg, [mkHdr "a" true 493 0 0 ""; mkHdr "a/x" false 420 0 0 ""])] /\
    write_installed wenc whex (norm_inst witness_inst_pkg) [mkHdr "a" true 493 0 0 ""; mkHdr "a/x" false 420 0 0 ""] = Ok t' /\
    In "F:a" (split_on ch_nl t) /\ In "F:a" (split_on ch_nl t') /\
    InstalledFixpointModIZ t t'.
Proof. exact installed_double_slash_fixed. Qed.
Print Assumptions c16_installed_double_slash_fixed.

(* the validator run on the IMPLEMENTATION's second text reports nothing but the two
   recorded findings exactly when the readable statement holds *)
Theorem c16_installed_fixpoint_validator_decides : forall orig rewritten,
  InstalledFixpointModIZ orig rewritten <->
  (forall t, In t (installed_fixpoint_tags orig (Ok rewritten)) -> t = s_f1 \/ t = s_f2).
Proof. exact installed_fixpoint_validator. Qed.
Print Assumptions c16_installed_fixpoint_validator_decides.

(* ---- the fuel of the validator's reachability test ------------------------------------
   [reachable] (Spec) walks filepath.Dir steps with fuel S (length c).  No fuel
   does better: whenever SOME fuel finds the entry reachable, that one does; and
   for c other than "." it coincides with the fuel-free inductive reading (every
   ancestor present as a directory entry, the top-level one has a child).  So a
   lost entry is tagged installed-unreachable-entry-dropped (C16-F5) only when it
   is unreachable, and *-record-lost / sort-entry-lost otherwise. *)
Theorem c16_reachable_fuel :
  (forall hs c f, reachable f hs c = true -> reachable (S (String.length c)) hs c = true) /\
  (forall hs c, c <> "." -> (Reach hs c <-> reachable (S (String.length c)) hs c = true)).
Proof. exact (conj reachable_fuel_enough reach_iff_reachable). Qed.
Print Assumptions c16_reachable_fuel.

(* ---- the readers' switch tables -----------------------------------------------------------
   The case letters of ParsePackageIndex and ParseInstalled, the fields each case
   assigns and the line guards, as goextract read them on this run, are the ones
   the model's pkg_field / inst_field / idx_split / inst_split implement (a new
   case letter, or a case assigning another field, breaks this theorem). *)
Theorem c16_reader_cases_pinned :
  index_reader_cases = expected_pkg_cases false /\ installed_reader_cases = expected_pkg_cases true ++ expected_file_cases /\
  index_line_guards = ["len(line) == 0"; "len(line) < 2"; "line[1:2] != "":"""] /\
  installed_line_guards = ["line == """""; "len(line) < 2 || line[1:2] != "":"""].
Proof. exact reader_cases_pinned. Qed.
Print Assumptions c16_reader_cases_pinned.

(* For EVERY token and value: a letter outside the generated switch table is
   ignored (the record / the whole reader state is unchanged), a letter inside it
   never is (the line sets a field or is an error). *)
Theorem c16_reader_unknown_letters :
  forall (dec : string -> option (list N)) tok val,
  (forall p, known_letter index_reader_cases tok = false -> pkg_field dec false tok val p = Ok None) /\
  (forall p, known_letter index_reader_cases tok = true -> pkg_field dec false tok val p <> Ok None) /\
  (forall st, known_letter installed_reader_cases tok = false -> inst_field dec tok val st = Ok st).
Proof.
  intros dec tok val. split; [intro p; exact (proj1 (index_reader_letters dec tok val p))|].
  split; [intro p; exact (proj2 (index_reader_letters dec tok val p))|intro st; exact (installed_reader_unknown dec tok val st)].
Qed.
Print Assumptions c16_reader_unknown_letters.

(* A repeated field: the later line wins whatever the earlier one had set (both
   readers, every package letter) -- except C:, where a later value without the
   "Q1" prefix is skipped and the earlier checksum stays. *)
Theorem c16_reader_repeated_field :
  forall (dec : string -> option (list N)) with_r,
  (forall tok v1 v2 p p1, tok <> "C" -> pkg_field dec with_r tok v1 p = Ok (Some p1) ->
     pkg_field dec with_r tok v2 p1 = pkg_field dec with_r tok v2 p) /\
  (forall v p, has_prefix "Q1" v = false -> pkg_field dec with_r "C" v p = Ok (Some p)).
Proof. intros dec with_r. split; [exact (pkg_field_overwrites dec with_r)|exact (pkg_field_C_unprefixed dec with_r)]. Qed.
Print Assumptions c16_reader_repeated_field.

(* passwd / group: a line is an error unless it has exactly the generated number of
   colon-separated parts -- i.e. exactly 6 (3) colons after TrimSpace: an extra
   colon anywhere (a trailing field, a colon inside a field) or a missing one *)
Theorem c16_passwd_part_counts :
  (forall line, List.length (split_on ":" (trim_space line)) <> passwd_part_count -> parse_user line = Err) /\
  (forall line, List.length (split_on ":" (trim_space line)) <> group_part_count -> parse_group line = Err) /\
  (forall line, List.length (filter (Ascii.eqb ":") (list_ascii_of_string (trim_space line))) <> 6%nat -> parse_user line = Err) /\
  (forall line, List.length (filter (Ascii.eqb ":") (list_ascii_of_string (trim_space line))) <> 3%nat -> parse_group line = Err).
Proof. exact (conj parse_user_parts (conj parse_group_parts (conj parse_user_colons parse_group_colons))). Qed.
Print Assumptions c16_passwd_part_counts.

(* passwd / group on ANY text (last line terminated or not, LF or CRLF): when Load
   succeeds it returns exactly one entry per line of the text -- no line is dropped,
   the unterminated last one included; and the validator run on the implementation's
   result decides that statement *)
Theorem c16_load_one_entry_per_line :
  (forall s l, load_users s = Ok l -> List.length l = text_line_count s) /\
  (forall s l, load_groups s = Ok l -> List.length l = text_line_count s) /\
  (forall A k text (rb : res (list A)), entry_count_tags k text rb = [] <-> (forall l, rb = Ok l -> List.length l = text_line_count text)).
Proof.
  split; [exact (load_file_count parse_user default_max_token)|]. split; [exact (load_file_count parse_group default_max_token)|exact (@entry_count_tags_iff)].
Qed.
Print Assumptions c16_load_one_entry_per_line.

(* ---- lib/apk/db/installed with SEVERAL records ------------------------------------------------
   [write_db]: AddInstalledPackage called for each record in turn on one file (append
   mode).  [rec_ok]: one record inside the envelope of c16_installed_fixpoint (package
   inst_pkg_ok and named, file list in sort_envelope with id_ok, every field fits).
   For EVERY list of such records, of any length: ParseInstalled returns exactly one
   record per written record, in order, each being what it is read as when alone
   ([readback_of]: norm_inst of the package, the sortTarHeaders order of the files
   with the reader's spelling) -- the reader resets its state at the blank line, so
   no directory, file or field of a record leaks into the next; every record can be
   written again, and the new file is the old one without the Z: lines (C16-F2) and
   with other i: lines (C16-F1), every other line identical and in order. *)
Theorem c16_installed_db_roundtrip :
  forall (enc : list N -> string) (dec hexdec : string -> option (list N)),
  (forall b, dec (enc b) = Some b) ->
  forall rs t, Forall (rec_ok enc hexdec) rs -> write_db enc hexdec rs = Ok t ->
  parse_installed dec t = Ok (map readback_of rs) /\
  Forall (fun r => exists sorted, sort_headers (snd r) = Ok sorted /\ readback_of r = (norm_inst (fst r), map rec_clean sorted) /\
                    SamePkgButInstallIf (fst r) (fst (readback_of r)) /\
                    p_installif (fst (readback_of r)) = go_slice_readback (p_installif (fst r)) /\
                    Permutation.Permutation sorted (snd r)) rs.
Proof.
  intros enc dec hexdec codec rs t Hok Hw.
  exact (conj (db_roundtrip enc dec hexdec codec rs t Hok Hw) (db_records_survive enc hexdec rs Hok)).
Qed.
Print Assumptions c16_installed_db_roundtrip.

Theorem c16_installed_db_fixpoint :
  forall (enc : list N -> string) (dec hexdec : string -> option (list N)),
  (forall b, dec (enc b) = Some b) ->
  forall rs t, Forall (rec_ok enc hexdec) rs -> write_db enc hexdec rs = Ok t ->
  exists t', parse_installed dec t = Ok (map readback_of rs) /\
    write_db enc hexdec (map readback_of rs) = Ok t' /\ InstalledFixpointModIZ t t'.
Proof. exact db_fixpoint. Qed.
Print Assumptions c16_installed_db_fixpoint.

Example c16_installed_db_ex :
  let rs := [(ex_pkg, ex_files); (ex_pkg, ex_files)] in
  Forall (rec_ok wenc whex) rs /\ exists t, write_db wenc whex rs = Ok t.
Proof.
  cbn zeta. destruct c16_installed_fixpoint_ex as (A1 & A2 & A3 & A4 & A5 & A6 & _).
  split; [|eexists; vm_compute; reflexivity].
  constructor; [constructor; assumption|constructor; [constructor; assumption|constructor]].
Qed.
