(* C16 — apko's own text formats round-trip. Property theorems only; proofs
   are in Proofs/FormatsProofs.v. The writers of the model are driven by the
   tables goextract read from apkindex.go / package.go / installed.go /
   passwd.go / group.go on this run (Generated/FieldLetters.v). *)
From Apko Require Import Base.Prelude Base.C16Lib Model.Formats Spec.FormatsSpec
  Proofs.FormatsProofs Generated.FieldLetters.

(* the APKINDEX template in the source is the one the theorems are about *)
Theorem c16_index_template_pinned :
  index_template_rows = expected_index_rows /\ index_template_trailer = s_nl +++ s_nl /\ index_join_sep = " "%string.
Proof. exact index_rows_pinned. Qed.
Print Assumptions c16_index_template_pinned.
