(* C16 — apko's own text formats round-trip. Property theorems only; proofs
   are in Proofs/FormatsProofs.v. The writers of the model are driven by the
   tables goextract read from apkindex.go / package.go / installed.go /
   passwd.go / group.go on this run (Generated/FieldLetters.v). *)
From Apko Require Import Base.Prelude Base.C16Lib Model.Formats Spec.FormatsSpec
  Proofs.FormatsProofs Generated.FieldLetters.

(* the APKINDEX template in the source is the one the theorems are about *)
Theorem c16_index_template_pinned :
  index_template_rows = expected_index_rows /\ index_template_trailer = s_nl +++ s_nl /\ index_join_sep = " "%string.
Proof. exact index_rows_pinned. Qed.
Print Assumptions c16_index_template_pinned.

(* ---- APKINDEX: write then read ---------------------------------------------
   [enc]/[dec] stand for base64 (encoding/base64 is library code): any pair with
   dec (enc b) = Some b.  [pkg_ok]: sizes and priority fit uint64, build time
   fits int64, list items are non-empty and space-free (what the space-joined
   rows can carry).  [lines_fit]: no written line contains LF, ends in CR, or
   exceeds the reader's token limit (the generated index_max_token).  For EVERY
   list of such records — any number, any field values, named or not — the
   reader returns exactly the named records with every field the property
   lists intact, except replaces (finding C16-F3, refuted form below). *)
Theorem c16_index_roundtrip :
  forall (enc : list N -> string) (dec : string -> option (list N)),
  (forall b, dec (enc b) = Some b) ->
  forall ps, Forall pkg_ok ps ->
  lines_fit index_max_token (flat_map (record_lines enc) (named ps)) ->
  parse_index dec (write_index enc ps) = Ok (map norm_index (named ps)) /\
  (Forall (fun p => p_replaces p = []) ps ->
   IndexRoundTrip ps (parse_index dec (write_index enc ps))).
Proof.
  intros enc dec codec ps H1 H2. split.
  - exact (index_roundtrip enc dec codec ps H1 H2).
  - intro H3. exact (index_roundtrip_spec enc dec codec ps H1 H2 H3).
Qed.
Print Assumptions c16_index_roundtrip.

(* hypotheses are satisfiable on a record with every field populated *)
Example c16_index_roundtrip_ex :
  let enc := fun b : list N => sconcat (map (fun n => fmt_n n +++ ",") b) in
  let p := set_prio 7%N (set_isize 4096%N (set_size 18446744073709551615%N
            (set_installif ["x"; "y=1"] (set_provides ["so:libc.so.6=1"; "cmd:a"] (set_deps ["b>1"; "!c"]
            (set_commit "abc" (set_url "https://e" (set_maint "m <m@e>" (set_origin "o" (set_license "MIT"
            (set_desc "a b c" (set_arch "x86_64" (set_version "1.2.3-r4" (set_name "a" empty_pkg)))))))))))))) in
  pkg_ok p /\ lines_fit index_max_token (flat_map (record_lines enc) (named [p])) /\
  named [p] = [p] /\ p_replaces p = [].
Proof.
  cbn zeta. split; [|split; [|split]].
  - constructor; try (vm_compute; (reflexivity || lia));
      try (repeat constructor; try discriminate).
  - unfold lines_fit. vm_compute flat_map.
    repeat constructor; try (vm_compute; (reflexivity || discriminate || lia)).
  - vm_compute; reflexivity.
  - reflexivity.
Qed.

(* reading a written index and writing it again reproduces the file *)
Theorem c16_index_read_write_fixpoint :
  forall (enc : list N -> string) (dec : string -> option (list N)),
  (forall b, dec (enc b) = Some b) ->
  forall ps, Forall pkg_ok ps ->
  lines_fit index_max_token (flat_map (record_lines enc) (named ps)) ->
  exists l, parse_index dec (write_index enc ps) = Ok l /\ write_index enc l = write_index enc ps.
Proof. exact index_read_write_fixpoint. Qed.
Print Assumptions c16_index_read_write_fixpoint.

(* the full statement (replaces included) is false: finding C16-F3 *)
Theorem c16_index_replaces_refuted :
  let enc := fun _ : list N => ""%string in let dec := fun _ : string => Some (@nil N) in
  dec (enc (p_checksum witness_replaces)) = Some (p_checksum witness_replaces) /\
  ~ IndexRoundTrip [witness_replaces] (parse_index dec (write_index enc [witness_replaces])).
Proof. exact index_replaces_refuted. Qed.
Print Assumptions c16_index_replaces_refuted.

(* the validator the correspondence stage runs on the IMPLEMENTATION's read-back
   decides the readable statement *)
Theorem c16_index_validator_decides : forall orig rb,
  index_rt_tags orig rb = [] <-> IndexRoundTrip orig rb.
Proof. exact index_validator_decides. Qed.
Print Assumptions c16_index_validator_decides.

(* ---- installed database: reading then re-writing ---------------------------
   The full statement ("reading a written lib/apk/db/installed and writing it
   again reproduces it") is false for three recorded reasons: the i: line is
   written in Go's slice syntax (C16-F1), Z: lines are never read (C16-F2), and —
   witness below, finding C16-F7 — a package whose file list names one directory
   twice (legal in a tar stream) gets that directory once per header with ALL its
   children under each, so the record multiplies on every write. *)
Definition witness_dup_files : list hdr :=
  [mkHdr "s/" true 493 0 0 ""; mkHdr "s/d/" true 493 0 0 ""; mkHdr "s/d/x" false 420 0 0 ""; mkHdr "s/d/" true 493 0 0 ""]%string.
Theorem c16_installed_fixpoint_dup_dir_refuted :
  let enc := fun _ : list N => ""%string in let dec := fun _ : string => Some (@nil N) in
  let p := set_version "1" (set_name "a" empty_pkg) in
  exists t p' fs' t',
    write_installed enc dec p witness_dup_files = Ok t /\
    parse_installed dec t = Ok [(p', fs')] /\
    write_installed enc dec p' fs' = Ok t' /\
    List.length fs' = 5 /\
    In "viol:installed-read-write-not-fixpoint"%string (installed_fixpoint_tags t (Ok t')) /\
    dup_dir witness_dup_files = true.
Proof.
  cbn zeta. eexists _, _, _, _.
  split; [vm_compute; reflexivity|]. split; [vm_compute; reflexivity|].
  split; [vm_compute; reflexivity|]. split; [reflexivity|].
  split; [vm_compute; tauto | reflexivity].
Qed.
Print Assumptions c16_installed_fixpoint_dup_dir_refuted.
