(* C17 — The virtual filesystems behave like a filesystem.
   Property theorems only; proofs are in Proofs/FsProofs.v. *)
From Apko Require Import Base.Prelude Model.MemFS Spec.FsSpec Proofs.FsProofs Generated.FsConsts.

(* An operation of the reference filesystem that reports failure (an error or
   a crash) leaves the state unchanged; MkdirAll is excepted: like mkdir -p it
   keeps the directories made before the failing component. *)
Theorem c17_failure_no_change : forall s o s' r,
  spec_step s o = (s', r) -> is_failure r = true -> is_mkdirall o = false -> s' = s.
Proof. exact spec_failure_no_change. Qed.
Print Assumptions c17_failure_no_change.
