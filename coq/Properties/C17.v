(* C17 — The virtual filesystems behave like a filesystem.
   Property theorems only; proofs are in Proofs/FsProofs.v.  [model_step b]
   is the executable model of pkg/apk/fs/memfs.go (b = MemFS) and
   pkg/tarfs/fs.go (b = TarFS); its symlink limits (getnode_depth,
   openfile_depth) and the reference's budget (spec_max_links) are the
   constants goextract read from those files on this run. *)
From Coq Require Import Sorting.Sorted.
From Apko Require Import Base.Prelude Model.MemFS Spec.FsSpec Model.DirFS Model.SubFS Model.TarEntry Proofs.FsSub Proofs.FsTarEntry Proofs.FsDir Proofs.FsProofs Proofs.FsLaws Proofs.FsWf Proofs.FsAgree Proofs.FsReach Proofs.FsTame Proofs.FsTameOps Proofs.FsTameReach Proofs.FsWeights Proofs.FsDirRooted Generated.FsConsts.
Open Scope string_scope. Open Scope list_scope.

(* the limits the theorems below are about: both files say the same, and it is
   the 40 of path_resolution(7) *)
Theorem c17_link_limits :
  getnode_depth MemFS = spec_max_links /\ openfile_depth MemFS = spec_max_links /\
  getnode_depth TarFS = spec_max_links /\ openfile_depth TarFS = spec_max_links /\ spec_max_links = 40.
Proof. vm_compute. repeat split; reflexivity. Qed.
Print Assumptions c17_link_limits.

(* An operation of the reference filesystem that reports failure (an error or
   a crash) leaves the state unchanged; MkdirAll is excepted: like mkdir -p it
   keeps the directories made before the failing component. *)
Theorem c17_failure_no_change : forall s o s' r,
  spec_step s o = (s', r) -> is_failure r = true -> is_mkdirall o = false -> s' = s.
Proof. exact spec_failure_no_change. Qed.
Print Assumptions c17_failure_no_change.

(* ---- laws of the reference ------------------------------------------------------------ *)
(* well-formedness (every inode number held by a directory entry or an open
   handle exists) holds of the empty filesystem and is preserved by every
   step, hence of every reachable state *)
Theorem c17_wf_invariant :
  wfs init_st /\ (forall s o, wfs s -> wfs (fst (spec_step s o))) /\
  (forall ops, wfs (fst (spec_run init_st ops))).
Proof. split; [exact init_wf | split; [exact spec_step_wf | exact reachable_wf]]. Qed.
Print Assumptions c17_wf_invariant.

(* reads return exactly the bytes last written: a successful Write of p at
   offset o is seen by ReadAt(o, |p|) through any open readable handle on the
   same inode *)
Theorem c17_read_after_write : forall s i p hd s' r, wfs s ->
  nth_error (handles s) i = Some hd -> f_app (h_fl hd) = false -> p <> [] ->
  spec_step s (Write i p) = (s', r) -> is_failure r = false ->
  r = ONum (blen p) /\
  forall j hj, nth_error (handles s') j = Some hj -> h_open hj = true -> readable (h_fl hj) = true ->
    h_ino hj = h_ino hd -> is_dir (heap s') (h_ino hd) = false ->
    spec_step s' (ReadAt j (List.length p) (h_off hd)) = (s', OBytes p).
Proof. exact read_after_write_wf. Qed.
Print Assumptions c17_read_after_write.

(* metadata reads return what was last set *)
Theorem c17_metadata_last_set : forall s p i, wfs s -> s_node (heap s) p = inl i ->
  (forall m s', spec_step s (Chmod p m) = (s', OOk) ->
     spec_step s' (Stat p) = (s', info_of (set_perm m (get (heap s) i)))) /\
  (forall u g s', spec_step s (Chown p u g) = (s', OOk) ->
     spec_step s' (Stat p) = (s', info_of (set_owner u g (get (heap s) i)))) /\
  (forall t s', spec_step s (Chtimes p t) = (s', OOk) ->
     spec_step s' (Stat p) = (s', info_of (set_mtime (Some t) (get (heap s) i)))).
Proof. exact metadata_last_set_wf. Qed.
Print Assumptions c17_metadata_last_set.

(* ---- the reachable-state invariant of the CODE ---------------------------------------------
   [wf s]: every inode number stored in a directory entry or an open handle
   exists and inode 0 is a directory.  It holds of the empty filesystem, is
   preserved by the code's step for BOTH in-memory backends and EVERY operation
   (inside the envelope or not: the refuted corners included), hence by every
   operation sequence ([reach b ops] = fold_left of the step = the state of
   model_run); the reference's step preserves it as well. *)
Theorem c17_wf_invariant_model :
  wf init_st /\
  (forall b s o, wf s -> wf (fst (model_step b s o))) /\
  (forall s o, wf s -> wf (fst (spec_step s o))) /\
  (forall b ops, wf (reach b ops)) /\
  (forall b ops, reach b ops = fst (model_run b init_st ops)).
Proof.
  split; [exact init_wf_model | split; [exact model_step_wf | split; [exact spec_step_wf_root |
  split; [exact reach_wf | exact reach_model_run]]]].
Qed.
Print Assumptions c17_wf_invariant_model.

(* the two laws without any range premise, on every state the code can reach
   (by any operation sequence, corners included) *)
Theorem c17_read_after_write_reachable : forall b ops i p hd s' r,
  let s := reach b ops in
  nth_error (handles s) i = Some hd -> f_app (h_fl hd) = false -> p <> [] ->
  spec_step s (Write i p) = (s', r) -> is_failure r = false ->
  r = ONum (blen p) /\
  forall j hj, nth_error (handles s') j = Some hj -> h_open hj = true -> readable (h_fl hj) = true ->
    h_ino hj = h_ino hd -> is_dir (heap s') (h_ino hd) = false ->
    spec_step s' (ReadAt j (List.length p) (h_off hd)) = (s', OBytes p).
Proof. exact read_after_write_reachable. Qed.
Print Assumptions c17_read_after_write_reachable.

Theorem c17_metadata_last_set_reachable : forall b ops p i,
  let s := reach b ops in
  s_node (heap s) p = inl i ->
  (forall m s', spec_step s (Chmod p m) = (s', OOk) ->
     spec_step s' (Stat p) = (s', info_of (set_perm m (get (heap s) i)))) /\
  (forall u g s', spec_step s (Chown p u g) = (s', OOk) ->
     spec_step s' (Stat p) = (s', info_of (set_owner u g (get (heap s) i)))) /\
  (forall t s', spec_step s (Chtimes p t) = (s', OOk) ->
     spec_step s' (Stat p) = (s', info_of (set_mtime (Some t) (get (heap s) i)))).
Proof. exact metadata_last_set_reachable. Qed.
Print Assumptions c17_metadata_last_set_reachable.

(* and as statements about the code's own steps: on a reachable state, a Write
   inside the envelope is read back by the CODE's ReadAt through any open
   readable handle on the inode (that ReadAt is inside the envelope by itself);
   Chmod/Chown/Chtimes inside the envelope are reported by the code's Stat *)
Theorem c17_model_read_after_write_reachable : forall b ops i p hd s' r,
  let s := reach b ops in
  nth_error (handles s) i = Some hd -> f_app (h_fl hd) = false -> p <> [] ->
  E b s (Write i p) = true ->
  model_step b s (Write i p) = (s', r) -> is_failure r = false ->
  r = ONum (blen p) /\
  forall j hj, nth_error (handles s') j = Some hj -> h_open hj = true -> readable (h_fl hj) = true ->
    h_ino hj = h_ino hd -> is_dir (heap s') (h_ino hd) = false ->
    model_step b s' (ReadAt j (List.length p) (h_off hd)) = (s', OBytes p).
Proof. exact model_read_after_write_reachable. Qed.
Print Assumptions c17_model_read_after_write_reachable.

Theorem c17_model_metadata_last_set_reachable : forall b ops p i,
  let s := reach b ops in
  s_node (heap s) p = inl i ->
  (forall m s', E b s (Chmod p m) = true -> model_step b s (Chmod p m) = (s', OOk) -> E b s' (Stat p) = true ->
     model_step b s' (Stat p) = (s', info_of (set_perm m (get (heap s) i)))) /\
  (forall u g s', E b s (Chown p u g) = true -> model_step b s (Chown p u g) = (s', OOk) -> E b s' (Stat p) = true ->
     model_step b s' (Stat p) = (s', info_of (set_owner u g (get (heap s) i)))) /\
  (forall t s', E b s (Chtimes p t) = true -> model_step b s (Chtimes p t) = (s', OOk) -> E b s' (Stat p) = true ->
     model_step b s' (Stat p) = (s', info_of (set_mtime (Some t) (get (heap s) i)))).
Proof. exact model_metadata_last_set_reachable. Qed.
Print Assumptions c17_model_metadata_last_set_reachable.

(* the hypotheses are satisfiable on a state reached THROUGH corners (a
   write through a read-only handle, Remove of a non-empty
   directory), on both backends *)
Example c17_reachable_laws_nonvacuous : forall b,
  let ops := [Mkdir ["d"] 493%N; WriteFile ["d"; "f"] [1; 2]%N 420%N; OpenFile ["d"; "f"] (mkFl ARd false false false false) 0%N;
              Write 0 [5]%N; Remove ["d"]; WriteFile ["g"] [1]%N 420%N; OpenFile ["g"] (mkFl ARdWr false false false false) 0%N] in
  let s := reach b ops in
  run_in_E b init_st ops = false /\
  (exists hd, nth_error (handles s) 1 = Some hd /\ f_app (h_fl hd) = false /\ E b s (Write 1 [7; 8]%N) = true /\
              is_failure (snd (model_step b s (Write 1 [7; 8]%N))) = false) /\
  s_node (heap s) ["g"] = inl 3 /\ E b s (Chmod ["g"] 384%N) = true.
Proof. intro b; destruct b; vm_compute; repeat split; try reflexivity; eexists; repeat split; reflexivity. Qed.

(* directory listings are complete, strictly ascending in byte order, hence
   duplicate-free; listing changes nothing *)
Theorem c17_readdir_sorted_complete_nodup : forall s p s' l,
  spec_step s (ReadDir p) = (s', ODir l) ->
  exists i, s_node (heap s) p = inl i /\ is_dir (heap s) i = true /\ s' = s /\
    StronglySorted slt (List.map fst l) /\ NoDup (List.map fst l) /\
    (forall nm, In nm (List.map fst l) <-> In nm (List.map fst (n_children (get (heap s) i)))).
Proof. exact readdir_sorted_complete_nodup. Qed.
Print Assumptions c17_readdir_sorted_complete_nodup.

(* hard links share content: the new name is entered for the very inode the
   old name resolves to, and contents and metadata live in the inode *)
Theorem c17_hardlinks_share : forall s old new s',
  spec_step s (Link old new) = (s', OOk) ->
  exists d nm i,
    s_node (heap s) old = inl i /\ s_leaf (heap s) new = inl (d, nm, None) /\ is_dir (heap s) i = false /\
    heap s' = add_child (heap s) d nm i /\ handles s' = handles s /\
    lookup nm (n_children (get (heap s') d)) = Some i.
Proof. exact hardlinks_share. Qed.
Print Assumptions c17_hardlinks_share.

(* symbolic links: resolution is a total function (structural recursion on the
   budget, no fuel); a resolution that would follow more than the budget is an
   error, a loop is an error for every budget, and a resolution that does not
   fail followed at most [budget] links *)
Theorem c17_symlink_budget : forall h follow,
  (forall n c, iter h follow (S n) c <> None -> resolve_cfg n h follow c = RErr EOther) /\
  (forall c, next h follow c = Some c -> forall n, resolve_cfg n h follow c = RErr EOther) /\
  (forall n c, (forall e, resolve_cfg n h follow c <> RErr e) -> exists k, k <= n /\ iter h follow (S k) c = None).
Proof. intros h follow. split; [apply budget_exceeded | split; [apply loop_is_error | apply success_within_budget]]. Qed.
Print Assumptions c17_symlink_budget.

(* with the budget of the source: a chain of spec_max_links links resolves, one more does not *)
Fixpoint chain_ops (k : nat) : list op :=
  match k with
  | O => []
  | S k' => Symlink [match k' with O => "f" | S _ => String.append "l" (string_of_bytes [N.of_nat (48 + k' / 10); N.of_nat (48 + k' mod 10)]) end]
              [String.append "l" (string_of_bytes [N.of_nat (48 + k / 10); N.of_nat (48 + k mod 10)])] :: chain_ops k'
  end.
Example c17_chain_at_the_limit :
  let s40 := fst (spec_run init_st (WriteFile ["f"] [7]%N 420%N :: chain_ops spec_max_links)) in
  let s41 := fst (spec_run init_st (WriteFile ["f"] [7]%N 420%N :: chain_ops (S spec_max_links))) in
  snd (spec_step s40 (ReadFile ["l40"])) = OBytes [7]%N /\ snd (spec_step s41 (ReadFile ["l41"])) = OErr EOther /\
  snd (model_step MemFS s40 (ReadFile ["l40"])) = OBytes [7]%N /\ snd (model_step MemFS s41 (ReadFile ["l41"])) = OErr EOther /\
  snd (model_step TarFS s40 (Stat ["l40"])) = snd (spec_step s40 (Stat ["l40"])) /\
  snd (model_step TarFS s41 (Stat ["l41"])) = OErr EOther.
Proof. vm_compute. repeat split; reflexivity. Qed.

(* the same of the two in-memory filesystems, in every state (inside the
   envelope or not): a failing or panicking operation other than MkdirAll
   changes nothing *)
Theorem c17_model_failure_no_change : forall b s o s' r,
  model_step b s o = (s', r) -> is_failure r = true -> is_mkdirall o = false -> s' = s.
Proof. exact model_failure_no_change. Qed.
Print Assumptions c17_model_failure_no_change.

(* Refinement: in every state (reachable or not) and for every operation inside
   the envelope E, the code's step IS the reference's step — same result, same
   next state (heap and open handles). *)
Theorem c17_refines : forall b s o, E b s o = true -> model_step b s o = spec_step s o.
Proof. exact refines. Qed.
Print Assumptions c17_refines.

(* hence for every operation sequence, of any length, that stays inside the
   envelope: all observations and the final state coincide *)
Theorem c17_refines_run : forall b ops s, run_in_E b s ops = true -> model_run b s ops = spec_run s ops.
Proof. exact refines_run. Qed.
Print Assumptions c17_refines_run.

(* A syntactic sufficient condition for the lookup-agreement clauses of E, for
   whole-path lookups: on a filesystem without symbolic links and for a
   normalised path, getNode and the reference resolution agree (for every
   nesting limit), up to the recorded non-directory-prefix corner; so Stat,
   ReadDir, Chmod, Chown, Chtimes are inside the envelope there.
   PARTIAL by itself (whole-path lookups, no links); the entry-level lookups,
   openFile, MkdirAll and filesystems WITH links are covered by
   c17_lookup_agreement_tame / c17_refines_syntactic below (a link-free heap
   is tame and the zero weight certifies it). *)
Theorem c17_lookup_agreement_nolinks_partial : forall b s p,
  no_links (heap s) -> is_dir (heap s) 0 = true -> clean_path p = true ->
  (get_node b (heap s) p = s_node (heap s) p \/
   (get_node b (heap s) p = inr ENotExist /\ s_node (heap s) p = inr EOther)) /\
  (s_node (heap s) p <> inr EOther ->
   E b s (Stat p) = true /\ E b s (ReadDir p) = true /\
   (forall m, E b s (Chmod p m) = true) /\ (forall u g, E b s (Chown p u g) = true) /\
   (forall t, E b s (Chtimes p t) = true)).
Proof.
  intros b s p NL Hr Hc. split; [apply lookup_agree_nolinks; assumption|].
  intro Hn. apply (node_ops_in_envelope_nolinks b s p NL Hr Hc Hn).
Qed.
Print Assumptions c17_lookup_agreement_nolinks_partial.

(* non-vacuity: a sequence with directories, a relative link through a linked
   directory, a hard link, handles, writes around EOF and a listing stays
   inside the envelope on both backends *)
Definition c17_demo : list op :=
  [ MkdirAll ["a"; "b"] 493%N; Symlink ["a"; "b"] ["l"]; WriteFile ["l"; "f"] [1; 2; 3]%N 420%N;
    Link ["a"; "b"; "f"] ["g"]; OpenFile ["g"] (mkFl ARdWr false false false false) 0%N;
    Seek 0 5%Z 0; Write 0 [9]%N; ReadFile ["a"; "b"; "f"]; Symlink ["f"] ["a"; "b"; "r"]; ReadFile ["l"; "r"];
    ReadDir ["l"]; Chmod ["g"] 384%N; Stat ["l"; "f"]; Remove ["g"]; Remove ["nope"]; Close 0; Read 0 1 ].
Example c17_demo_in_envelope :
  run_in_E MemFS init_st c17_demo = true /\ run_in_E TarFS init_st c17_demo = true /\
  snd (spec_run init_st c17_demo) =
    [ OOk; OOk; OOk; OOk; OOk; ONum 5%Z; ONum 1%Z; OBytes [1; 2; 3; 0; 0; 9]%N; OOk; OBytes [1; 2; 3; 0; 0; 9]%N;
      ODir [("f", KReg); ("r", KSym)]; OOk; OInfo KReg 384%N 6%N 0%Z 0%Z None; OOk; OErr ENotExist; OOk; OErr EClosed ].
Proof. vm_compute. repeat split; reflexivity. Qed.

(* ---- outside the envelope: one refutation per corner --------------------------------
   [after b ops] is the state the code is in after running [ops] from the empty
   filesystem.  Each witness is replayed on the real code by the harness corpus. *)
Definition after (b : backend) (ops : list op) : st := fst (model_run b init_st ops).
Definition leaves (b : backend) (ops : list op) (o : op) (tag : string) : Prop :=
  corner b (after b ops) o = Some tag /\ model_step b (after b ops) o <> spec_step (after b ops) o.
Ltac refute := intros b; destruct b; split; vm_compute; try reflexivity; let H := fresh "H" in (intro H; discriminate H).

(* ---- the syntactic class WITH symbolic links ------------------------------------------------
   [tame_links h] (a boolean on the state): every symbolic link's target is a
   non-empty relative path of ordinary names — no "", ".", ".." component, hence
   no leading "/".  The refuted corners c17_lexical_dotdot (".." in a target) and
   c17_sequential_links (absolute targets) show that neither restriction can go.

   On a tame heap getNode with nesting limit d IS the reference resolution with
   total budget d, for EVERY d and every normalised path, "too many links"
   included (up to the recorded non-directory-prefix corner): a relative
   target is resolved by re-resolving the whole traversed prefix one level
   deeper, so the nesting a path needs equals the number of links the reference
   follows.  No bound on chains is needed for this. *)
Theorem c17_nesting_is_budget_tame : forall h d p,
  tame_links h = true -> is_dir h 0 = true -> clean_path p = true ->
  get_at d h p = rnode (s_resolve d h [0] None p true) \/
  (get_at d h p = inr ENotExist /\ rnode (s_resolve d h [0] None p true) = inr EOther).
Proof. exact get_at_is_budget. Qed.
Print Assumptions c17_nesting_is_budget_tame.

(* hence, with the limits of the source: whole-path lookups (getNode) and
   entry-level lookups (filepath.Dir/Base + getNode) agree with the reference *)
Theorem c17_lookup_agreement_tame : forall b s p,
  tame_links (heap s) = true -> is_dir (heap s) 0 = true ->
  (clean_path p = true ->
     get_node b (heap s) p = s_node (heap s) p \/
     (get_node b (heap s) p = inr ENotExist /\ s_node (heap s) p = inr EOther)) /\
  (clean_leaf_path p = true ->
     m_leaf b (heap s) p = s_leaf (heap s) p \/
     (m_leaf b (heap s) p = inr ENotExist /\ s_leaf (heap s) p = inr EOther) \/
     leaf_nondir_parent (heap s) (m_leaf b (heap s) p) (s_leaf (heap s) p) = true).
Proof. intros b s p T R. split; intro H; [apply node_agree_tame | apply leaf_agree_tame]; assumption. Qed.
Print Assumptions c17_lookup_agreement_tame.

(* openFile and MkdirAll do NOT share the reference's budget (openFile counts the
   final links apart and gives every parent lookup a fresh limit; MkdirAll gives
   every linked component a fresh limit, and so does mkdir -p in the reference,
   but from the physical directory instead of the path text).  They agree as
   long as the reference stays within its budget; a syntactic certificate for
   that: a weight on names such that every name under which a link is entered
   weighs more than the link's whole target ([weights_ok w h], a boolean; [auto_w k h]
   computes a candidate from the state).  Then no resolution of p, from any
   directory, follows more than [pw w p] links: *)
Theorem c17_weight_bounds_links : forall w h, weights_ok w h = true ->
  forall n st nm p f j, pw w p <= n -> s_resolve (n + j) h st nm p f = s_resolve n h st nm p f.
Proof. exact weight_bounds_links. Qed.
Print Assumptions c17_weight_bounds_links.

(* The syntactic refinement theorem.  For a tame state whose root is a
   directory (every reachable state, c17_wf_invariant_model), a weight certificate,
   an operation whose openFile/MkdirAll path weighs at most the budget (other
   operations: no condition), not MkdirAll(".") on tarfs (its loop does not skip
   "."), and provided no clause of the envelope OTHER than the link-agreement
   clauses fails (path normalised, the operation's own corners, the
   non-directory-prefix corner): the link-agreement clauses hold, the operation
   is inside the envelope, and the code's step is the reference's step. *)
Theorem c17_refines_syntactic : forall b s o w,
  tame_links (heap s) = true -> is_dir (heap s) 0 = true ->
  weights_ok w (heap s) = true -> op_weight w o <= spec_max_links -> dot_ok b o = true ->
  (forall tag, corner b s o = Some tag -> tag = t_link) ->
  E b s o = true /\ model_step b s o = spec_step s o.
Proof. exact refines_syntactic. Qed.
Print Assumptions c17_refines_syntactic.

(* on reachable states the root premise is discharged by the invariant *)
Theorem c17_refines_syntactic_reachable : forall b ops o w,
  let s := reach b ops in
  tame_links (heap s) = true -> weights_ok w (heap s) = true -> op_weight w o <= spec_max_links -> dot_ok b o = true ->
  (forall tag, corner b s o = Some tag -> tag = t_link) ->
  model_step b s o = spec_step s o.
Proof.
  intros b ops o w s T W Hw D H.
  exact (proj2 (refines_syntactic b s o w T (proj2 (reach_wf b ops)) W Hw D H)).
Qed.
Print Assumptions c17_refines_syntactic_reachable.

(* the class is closed under the code's steps: if every Symlink operation of a
   sequence carries a tame target ([tame_op], a boolean on operations), every
   state the code reaches is tame — so the refinement needs, of the state, only
   the weight certificate *)
Theorem c17_tame_invariant :
  (forall b s o, tame_op o = true -> tame_links (heap s) = true -> tame_links (heap (fst (model_step b s o))) = true) /\
  (forall b ops, forallb tame_op ops = true -> tame_links (heap (reach b ops)) = true).
Proof. split; [exact model_step_tame | exact reach_tame]. Qed.
Print Assumptions c17_tame_invariant.

Theorem c17_refines_syntactic_ops : forall b ops o w,
  let s := reach b ops in
  forallb tame_op ops = true -> weights_ok w (heap s) = true -> op_weight w o <= spec_max_links -> dot_ok b o = true ->
  (forall tag, corner b s o = Some tag -> tag = t_link) ->
  model_step b s o = spec_step s o.
Proof. exact refines_syntactic_ops. Qed.
Print Assumptions c17_refines_syntactic_ops.

(* non-vacuity: links to directories, links through links, a link whose target
   runs through another link; the conditions hold (with the computed weight)
   and the operations are inside the envelope on both backends *)
Definition c17_tame_demo : list op :=
  [ MkdirAll ["a"; "b"] 493%N; Symlink ["a"; "b"] ["l"]; WriteFile ["l"; "f"] [1; 2; 3]%N 420%N;
    Symlink ["f"] ["a"; "b"; "r"]; Symlink ["l"] ["m"]; Symlink ["m"; "r"] ["k"] ].
Example c17_refines_syntactic_nonvacuous : forall b,
  let s := reach b c17_tame_demo in
  let w := auto_w 4 (heap s) in
  forallb tame_op c17_tame_demo = true /\ tame_links (heap s) = true /\ weights_ok w (heap s) = true /\ List.map w ["a"; "l"; "r"; "m"; "k"] = [0; 1; 1; 2; 4] /\
  forallb (fun o => Nat.leb (op_weight w o) spec_max_links && dot_ok b o &&
                    match corner b s o with None => true | Some _ => false end)
    [ ReadFile ["k"]; ReadFile ["m"; "r"]; OpenFile ["m"; "new"] (mkFl ARdWr false true false false) 420%N;
      MkdirAll ["m"; "x"; "y"] 493%N; Stat ["k"]; Lstat ["a"; "b"; "f"]; Link ["k"] ["a"; "hl"]; Readlink ["k"];
      Mkdir ["m"; "d"] 493%N; Remove ["m"; "r"]; ListXattrs ["k"] ] = true /\
  snd (model_step b s (ReadFile ["k"])) = OBytes [1; 2; 3]%N.
Proof. intro b; destruct b; vm_compute; repeat split; reflexivity. Qed.

(* ---- the weight certificate along sequences; the refinement for sequences given by syntax ----
   The certificate was a premise on the state each operation meets.  For a weight
   [w] chosen in advance it is an invariant of the code's steps — inside the
   envelope or not — as soon as every Symlink operation respects it itself
   ([wt_op w], a boolean on the operation: filepath.Base of the link's path weighs
   more than the whole target).  No other step enters a link under a name: fresh
   directories / files / devices are not links, Link enters the node getNode
   returned, which is never a link, and no step changes the kind or target of an
   existing inode. *)
Theorem c17_weights_invariant :
  (forall b s o w, wf s -> wt_op w o = true -> weights_ok w (heap s) = true ->
     weights_ok w (heap (fst (model_step b s o))) = true) /\
  (forall b w ops, forallb (wt_op w) ops = true -> weights_ok w (heap (reach b ops)) = true).
Proof. split; [exact model_step_weights | exact reach_weights]. Qed.
Print Assumptions c17_weights_invariant.

(* EVERY finite sequence of operations from the empty filesystem whose operations
   lie in the syntactic class [op_in_class b w] — a condition on each operation's
   text alone: Symlink targets tame and lighter than the name they are entered
   under, openFile/MkdirAll paths of weight at most the budget, not MkdirAll(".")
   on tarfs; NO hypothesis on any intermediate state:
   (1) at no step, not even after the sequence went through recorded corners,
       is the symbolic-link clause the first clause of the envelope to fail;
   (2) the whole run is the reference's run (all results, final state), or the
       sequence agrees with the reference up to a first step that is one of the
       OTHER recorded corners (each with its own tag and refutation below). *)
Theorem c17_refines_sequences : forall b w ops, forallb (op_in_class b w) ops = true ->
  (forall pre o post, ops = pre ++ o :: post -> corner b (reach b pre) o <> Some t_link) /\
  (model_run b init_st ops = spec_run init_st ops \/
   exists pre o post tag, ops = pre ++ o :: post /\
     model_run b init_st pre = spec_run init_st pre /\
     corner b (reach b pre) o = Some tag /\ tag <> t_link).
Proof. exact refines_sequences. Qed.
Print Assumptions c17_refines_sequences.

(* the step form, after ANY prefix of tame, weight-respecting operations *)
Theorem c17_refines_class_step : forall b w pre o,
  forallb tame_op pre = true -> forallb (wt_op w) pre = true ->
  op_weight w o <= spec_max_links -> dot_ok b o = true ->
  let s := reach b pre in
  (corner b s o = None /\ model_step b s o = spec_step s o) \/
  (exists tag, corner b s o = Some tag /\ tag <> t_link).
Proof. exact refines_class_step. Qed.
Print Assumptions c17_refines_class_step.

(* non-vacuity: a weight written down in advance; links through links, openFile and
   MkdirAll through them; the sequence is in the class and runs as the reference on
   both backends; with a Remove of a non-empty directory in the middle the class
   still holds and the first departure is that corner, not the link clause *)
Definition c17_seq_w (nm : string) : nat :=
  if String.eqb nm "l" then 1 else if String.eqb nm "r" then 1 else if String.eqb nm "m" then 2
  else if String.eqb nm "k" then 4 else 0.
Definition c17_seq_demo : list op :=
  c17_tame_demo ++
  [ ReadFile ["k"]; ReadFile ["m"; "r"]; OpenFile ["m"; "new"] (mkFl ARdWr false true false false) 420%N;
    MkdirAll ["m"; "x"; "y"] 493%N; Stat ["k"]; Lstat ["a"; "b"; "f"]; Link ["k"] ["a"; "hl"]; Readlink ["k"];
    Mkdir ["m"; "d"] 493%N; Write 0 [7]%N; Remove ["m"; "r"]; ListXattrs ["a"; "hl"]; ReadFile ["k"] ].
Example c17_refines_sequences_nonvacuous : forall b,
  forallb (op_in_class b c17_seq_w) c17_seq_demo = true /\
  model_run b init_st c17_seq_demo = spec_run init_st c17_seq_demo /\
  nth 6 (rev (snd (model_run b init_st c17_seq_demo))) OOk = OOk /\
  nth 0 (rev (snd (model_run b init_st c17_seq_demo))) OOk = OErr ENotExist /\
  let ops2 := c17_tame_demo ++ [Remove ["a"]; Stat ["k"]; MkdirAll ["m"; "z"] 493%N] in
  forallb (op_in_class b c17_seq_w) ops2 = true /\
  corner b (reach b c17_tame_demo) (Remove ["a"]) = Some "remove-nonempty-directory" /\
  model_run b init_st ops2 <> spec_run init_st ops2.
Proof.
  intro b; destruct b; vm_compute; repeat split; try reflexivity; intro H; discriminate H.
Qed.

(* the weight premise cannot be dropped for openFile / MkdirAll although it is
   not needed for getNode: m40 -> ... -> m01 -> d is a chain of spec_max_links
   links and d/l -> f one more.  Stat m40/l: code and reference both say "too
   many links" (inside the envelope).  ReadFile m40/l: the reference says so,
   openFile resolves the parent m40 and then the final link with fresh limits
   and reads the file.  MkdirAll m41/x (m41 -> m40): the reference's mkdir -p
   meets 41 links, the code's MkdirAll resolves the TARGET of m41 with a fresh limit. *)
Definition c17_nm2 (c : string) (k : nat) : string :=
  String.append c (string_of_bytes [N.of_nat (48 + k / 10); N.of_nat (48 + k mod 10)]).
Fixpoint c17_dchain (k : nat) : list op :=
  match k with
  | O => []
  | S k' => Symlink [match k' with O => "d" | S _ => c17_nm2 "m" k' end] [c17_nm2 "m" k] :: c17_dchain k'
  end.
Definition c17_budget_ops : list op :=
  Mkdir ["d"] 493%N :: WriteFile ["d"; "f"] [7]%N 420%N :: Symlink ["f"] ["d"; "l"] :: c17_dchain (S spec_max_links).
Theorem c17_budget_per_lookup_refuted : forall b,
  tame_links (heap (after b c17_budget_ops)) = true /\
  E b (after b c17_budget_ops) (Stat ["m40"; "l"]) = true /\
  snd (model_step b (after b c17_budget_ops) (Stat ["m40"; "l"])) = OErr EOther /\
  leaves b c17_budget_ops (ReadFile ["m40"; "l"]) "symlink-lexical-or-nesting-resolution" /\
  snd (model_step b (after b c17_budget_ops) (ReadFile ["m40"; "l"])) = OBytes [7]%N /\
  snd (spec_step (after b c17_budget_ops) (ReadFile ["m40"; "l"])) = OErr EOther /\
  leaves b c17_budget_ops (MkdirAll ["m41"; "x"] 493%N) "symlink-lexical-or-nesting-resolution" /\
  snd (model_step b (after b c17_budget_ops) (MkdirAll ["m41"; "x"] 493%N)) = OOk /\
  snd (spec_step (after b c17_budget_ops) (MkdirAll ["m41"; "x"] 493%N)) = OErr EExist.
Proof.
  intro b; destruct b; repeat split; try (vm_compute; reflexivity); vm_compute; intro H; discriminate H.
Qed.
Print Assumptions c17_budget_per_lookup_refuted.

(* and the exception for tarfs: MkdirAll(".") makes a directory named "." *)
Theorem c17_tarfs_mkdirall_dot_refuted :
  leaves TarFS [] (MkdirAll ["."] 493%N) "symlink-lexical-or-nesting-resolution" /\
  E MemFS init_st (MkdirAll ["."] 493%N) = true.
Proof. split; [split; vm_compute; [reflexivity | intro H; discriminate H] | vm_compute; reflexivity]. Qed.
Print Assumptions c17_tarfs_mkdirall_dot_refuted.

(* ---- the directory-backed filesystem --------------------------------------------------------
   [dirfs_step] (Model/DirFS.v) is the model of rwosfs.go on a case-sensitive
   host: an overlay memFS (the model above, backend MemFS) next to the host
   directory (one reference step per os.* call), with dirFS's own decisions:
   which side is asked, in which order, whose error wins, whose answer is
   returned.  [dsync d]: overlay and host hold the same tree (contents only on
   the host, extended attributes only in the overlay).

   For a synchronised state and an operation inside [denv] — normalised
   RELATIVE names (they do not climb, filepath.Join leaves them alone), the
   overlay's call inside the envelope E (the symbolic-link conditions are
   there; c17_refines_syntactic gives the syntactic class), Link of a name that
   is not itself a symbolic link — one step of dirFS is the reference's step
   on the host state, result and next state, and the overlay stays
   synchronised; Lstat and the attribute operations, which only the overlay
   answers, are the reference's step on the overlay state. *)
Theorem c17_dirfs_refines : forall d o, dsync d -> denv d o = true ->
  let '(d', r) := dirfs_step d o in
  dsync d' /\
  if ov_only o then d_host d' = d_host d /\ spec_step (d_ov d) o = (d_ov d', r)
  else spec_step (d_host d) o = (d_host d', r).
Proof. exact dirfs_refines. Qed.
Print Assumptions c17_dirfs_refines.

(* sequences of any length from the empty directory: the host goes through
   exactly the reference run of the operations that reach it and every answer
   dirFS gives to them is the reference's *)
Theorem c17_dirfs_run_refines : forall ops, run_in_denv dinit ops = true ->
  dsync (fst (dirfs_run dinit ops)) /\
  d_host (fst (dirfs_run dinit ops)) = fst (spec_run init_st (host_ops ops)) /\
  host_obs ops (snd (dirfs_run dinit ops)) = snd (spec_run init_st (host_ops ops)).
Proof. intros ops H. exact (dirfs_run_refines ops dinit dsync_init H). Qed.
Print Assumptions c17_dirfs_run_refines.

(* the key fact: the reference's tree operations commute with forgetting file
   contents and attributes, so two states with the same tree answer alike *)
Theorem c17_reference_tree_parametric : forall s1 s2 o1 o2,
  sh (heap s1) = sh (heap s2) -> tree_op o1 = true -> tree_op o2 = true -> strip_op o1 = strip_op o2 ->
  sh (heap (fst (spec_step s1 o1))) = sh (heap (fst (spec_step s2 o2))) /\
  strip_out (snd (spec_step s1 o1)) = strip_out (snd (spec_step s2 o2)).
Proof. exact pair_step. Qed.
Print Assumptions c17_reference_tree_parametric.

Definition c17_dirfs_demo : list op :=
  [ Mkdir ["d"] 493%N; WriteFile ["d"; "f"] [1; 2; 3]%N 420%N; Symlink ["d"] ["l"]; Stat ["l"; "f"]; ReadDir ["d"];
    OpenFile ["l"; "g"] (mkFl ARdWr false true false false) 420%N; Write 0 [9]%N; ReadFile ["d"; "g"]; Chmod ["d"; "g"] 384%N; Stat ["d"; "g"];
    Link ["d"; "g"] ["h"]; SetXattr ["h"] "user.a" [7]%N; GetXattr ["d"; "g"] "user.a"; Lstat ["d"]; Readlink ["l"]; Remove ["d"; "f"]; ReadDir ["l"];
    MkdirAll ["d"; "x"; "y"] 493%N; Remove ["nope"]; Close 0; Read 0 1 ].
Example c17_dirfs_demo_in_envelope :
  run_in_denv dinit c17_dirfs_demo = true /\
  snd (dirfs_run dinit c17_dirfs_demo) =
    [ OOk; OOk; OOk; OInfo KReg 420%N 3%N 0%Z 0%Z None; ODir [("f", KReg)]; OOk; ONum 1%Z; OBytes [9]%N; OOk; OInfo KReg 384%N 1%N 0%Z 0%Z None;
      OOk; OOk; OBytes [7]%N; OInfo KDir 493%N 0%N 0%Z 0%Z None; OPath ["d"]; OOk; ODir [("g", KReg)]; OOk; OErr ENotExist; OOk; OErr EClosed ].
Proof. vm_compute. split; reflexivity. Qed.

(* ---- rooted names, Mknod / Readnod, and the syntactic class for dirFS ---------------------------
   Every name the host sees went through filepath.Join(base, name) ([hp]), which
   drops a leading "/" (and turns "/" into "."), while the overlay is asked with
   the name as given.  For a normalised name the reference resolves [hp p] as it
   resolves [p], [hp] is idempotent and does not climb: so the theorem holds for
   ROOTED names as well ([denv_r] = [denv] with relative weakened to normalised),
   now with Mknod (the host's mknod succeeding or answering EEXIST) and Readnod (of a name that is not
   itself a symbolic link: dirFS asks os.Stat first, which follows it).  The
   premise "inode 0 of the host is a directory" holds of every state reached from
   the empty directory (it is what makes "/" and "." the same name). *)
Theorem c17_dirfs_refines_rooted : forall d o, dsync d -> is_dir (heap (d_host d)) 0 = true -> denv_r d o = true ->
  let '(d', r) := dirfs_step d o in
  dsync d' /\
  if ov_only o then d_host d' = d_host d /\ spec_step (d_ov d) o = (d_ov d', r)
  else spec_step (d_host d) o = (d_host d', r).
Proof. exact dirfs_refines_r. Qed.
Print Assumptions c17_dirfs_refines_rooted.

Theorem c17_dirfs_run_refines_rooted : forall ops, run_in_denv_g (E MemFS) dinit ops = true ->
  dsync (fst (dirfs_run dinit ops)) /\
  d_host (fst (dirfs_run dinit ops)) = fst (spec_run init_st (host_ops ops)) /\
  host_obs ops (snd (dirfs_run dinit ops)) = snd (spec_run init_st (host_ops ops)).
Proof. intros ops H. exact (dirfs_run_refines_r ops dinit dsync_init init_wf_model H). Qed.
Print Assumptions c17_dirfs_run_refines_rooted.

(* the overlay's envelope clause replaced by the syntactic class: for a sequence
   whose Symlink operations are tame and respect a weight [w] chosen in advance,
   the overlay is asked only for [syn_ev w]: the weight of the operation's own
   openFile/MkdirAll path within the budget, and no clause of its envelope OTHER
   than the link clause failing.  (What stays semantic is dirFS's own: the host's
   link(2) conditions, MkdirAll not failing and mknod failing at most with EEXIST on the host.) *)
Theorem c17_dirfs_run_refines_class : forall w ops,
  forallb tame_op ops = true -> forallb (wt_op w) ops = true -> run_in_denv_g (syn_ev w) dinit ops = true ->
  dsync (fst (dirfs_run dinit ops)) /\
  d_host (fst (dirfs_run dinit ops)) = fst (spec_run init_st (host_ops ops)) /\
  host_obs ops (snd (dirfs_run dinit ops)) = snd (spec_run init_st (host_ops ops)).
Proof. exact dirfs_run_refines_class. Qed.
Print Assumptions c17_dirfs_run_refines_class.

(* tame links and the weight certificate are invariants of the overlay along EVERY
   dirFS run (in sync or not), so the step form needs them of the operations only *)
Theorem c17_dirfs_overlay_class_invariant : forall w d o,
  ovinv w (d_ov d) -> tame_op o = true -> wt_op w o = true -> ovinv w (d_ov (fst (dirfs_step d o))).
Proof. exact dirfs_step_ovinv. Qed.
Print Assumptions c17_dirfs_overlay_class_invariant.

(* Mknod of a name that is taken (repaired by fix bfd5027; was finding C17-F20: dirFS
   called os.WriteFile(name, nil, 0) whenever unix.Mknod failed, which emptied an
   existing regular file and answered with WriteFile's error on a directory; the old
   witness is kept as a regression replay: corpus scenario dirfs/mknod): the answer
   is ErrExist and NOTHING changes, on the host or in the overlay. *)
Theorem c17_dirfs_mknod_existing_unchanged : forall d p perm dev,
  dsync d -> is_dir (heap (d_host d)) 0 = true -> clean_leaf_path p = true ->
  E MemFS (d_ov d) (Mknod p perm dev) = true ->
  snd (spec_step (d_host d) (Mknod p perm dev)) = OErr EExist ->
  dirfs_step d (Mknod p perm dev) = (d, OErr EExist).
Proof. exact mknod_existing. Qed.
Print Assumptions c17_dirfs_mknod_existing_unchanged.

Example c17_dirfs_mknod_existing_demo :
  let d := fst (dirfs_run dinit [WriteFile ["f"] [97; 98; 99]%N 420%N; Mkdir ["d"] 493%N]) in
  dsync d /\ E MemFS (d_ov d) (Mknod ["f"] 432%N 259%N) = true /\
  dirfs_step d (Mknod ["f"] 432%N 259%N) = (d, OErr EExist) /\
  dirfs_step d (Mknod ["d"] 432%N 259%N) = (d, OErr EExist) /\
  snd (dirfs_step (fst (dirfs_step d (Mknod ["f"] 432%N 259%N))) (ReadFile ["f"])) = OBytes [97; 98; 99]%N /\
  run_in_denv_g (E MemFS) dinit [WriteFile ["f"] [97; 98; 99]%N 420%N; Mknod ["f"] 432%N 259%N; ReadFile ["f"]] = true.
Proof. vm_compute. repeat split; reflexivity. Qed.

Definition c17_dirfs_rooted_demo : list op :=
  [ Mkdir [""; "d"] 493%N; WriteFile [""; "d"; "f"] [1; 2; 3]%N 420%N; Symlink ["d"] [""; "l"]; Stat ["l"; "f"]; ReadDir [""; ""]; ReadDir [""; "d"];
    OpenFile [""; "l"; "g"] (mkFl ARdWr false true false false) 420%N; Write 0 [9]%N; ReadFile ["d"; "g"]; Chmod [""; "d"; "g"] 384%N; Stat ["d"; "g"];
    Link [""; "d"; "g"] [""; "h"]; Mknod [""; "d"; "n"] 432%N 259%N; Readnod ["d"; "n"]; Readnod [""; "d"; "g"]; Readnod ["nope"];
    Lstat [""; "d"]; Readlink [""; "l"]; Remove [""; "d"; "f"]; MkdirAll [""; "d"; "x"; "y"] 493%N; ReadDir ["l"]; Stat [""; ""] ].
Example c17_dirfs_rooted_demo_in_envelope :
  forallb tame_op c17_dirfs_rooted_demo = true /\ forallb (wt_op c17_seq_w) c17_dirfs_rooted_demo = true /\
  run_in_denv_g (syn_ev c17_seq_w) dinit c17_dirfs_rooted_demo = true /\
  run_in_denv dinit c17_dirfs_rooted_demo = false /\
  snd (dirfs_run dinit c17_dirfs_rooted_demo) =
    [ OOk; OOk; OOk; OInfo KReg 420%N 3%N 0%Z 0%Z None; ODir [("d", KDir); ("l", KSym)]; ODir [("f", KReg)]; OOk; ONum 1%Z; OBytes [9]%N; OOk;
      OInfo KReg 384%N 1%N 0%Z 0%Z None; OOk; OOk; ONum 259%Z; OErr EOther; OErr ENotExist; OInfo KDir 493%N 0%N 0%Z 0%Z None; OPath ["d"]; OOk; OOk;
      ODir [("g", KReg); ("n", KDev); ("x", KDir)]; OInfo KDir 493%N 0%N 0%Z 0%Z None ].
Proof. vm_compute. repeat split; reflexivity. Qed.

(* outside [denv] overlay and host drift apart and dirFS is no filesystem any
   more: Remove of a non-empty directory fails on the host (ENOTEMPTY) AFTER the
   overlay has dropped the entry; then Stat d says NotExist (overlay first),
   ReadFile d/f still reads the file (host only) and ReadDir d fails.
   Replayed on the real code: corpus scenario dirfs/overlay-drift. *)
Theorem c17_dirfs_drift_refuted :
  let pre := [Mkdir ["d"] 493%N; WriteFile ["d"; "f"] [1]%N 420%N] in
  let d0 := fst (dirfs_run dinit pre) in
  let d1 := fst (dirfs_step d0 (Remove ["d"])) in
  dsync d0 /\ denv d0 (Remove ["d"]) = false /\ snd (dirfs_step d0 (Remove ["d"])) = OErr EExist /\ ~ dsync d1 /\
  snd (dirfs_step d1 (Stat ["d"])) = OErr ENotExist /\
  snd (spec_step (d_host d1) (Stat ["d"])) = OInfo KDir 493%N 0%N 0%Z 0%Z None /\
  snd (dirfs_step d1 (ReadFile ["d"; "f"])) = OBytes [1]%N /\
  snd (dirfs_step d1 (ReadDir ["d"])) = OErr ENotExist.
Proof. vm_compute. repeat split; try reflexivity. intro H; discriminate H. Qed.
Print Assumptions c17_dirfs_drift_refuted.

(* ---- the sub-filesystem view (sub.go: SubFS) -----------------------------------------------------
   [sub_step b root] (Model/SubFS.v): every method joins its name to the root with
   filepath.Join and calls the parent (Symlink and Link too since fix 44061d3: the
   new name, and Link's old name; a link's target is kept as given).  For a root of
   ordinary names and names without a ".." component, EVERY operation: the step through the
   sub-filesystem IS the parent's step at root/name (the root followed by the
   name's ordinary components), hence the reference's step there inside that
   operation's envelope; and every path the parent is asked about lies under the
   root (lexically: root followed by ordinary names). *)
Theorem c17_subfs_is_parent_at_joined_path : forall b root s o,
  plain_root root = true -> forallb no_dotdot (sub_paths o) = true ->
  sub_step b root s o = model_step b s (at_root root o) /\
  (E b s (at_root root o) = true -> sub_step b root s o = spec_step s (at_root root o)).
Proof. exact sub_step_refines. Qed.
Print Assumptions c17_subfs_is_parent_at_joined_path.

Theorem c17_subfs_confined : forall root o, plain_root root = true -> forallb no_dotdot (sub_paths o) = true ->
  forall p, In p (joined_paths root o) -> exists q, p = root ++ q /\ forallb clean_name q = true.
Proof. exact sub_confined. Qed.
Print Assumptions c17_subfs_confined.

Example c17_subfs_nonvacuous : forall b,
  let s := after b [MkdirAll ["d"; "e"] 493%N; WriteFile ["out"] [7]%N 420%N] in
  let root := ["d"; "e"] in
  plain_root root = true /\
  sub_op root (WriteFile [""; "x"; "."; "f"] [1]%N 420%N) = WriteFile ["d"; "e"; "x"; "f"] [1]%N 420%N /\
  sub_op root (ReadDir ["."]) = ReadDir ["d"; "e"] /\ sub_op root (Stat [""; ""]) = Stat ["d"; "e"] /\
  E b s (at_root root (WriteFile ["f"] [1]%N 420%N)) = true /\
  snd (sub_step b root (fst (sub_step b root s (WriteFile ["f"] [1]%N 420%N))) (ReadDir ["."])) = ODir [("f", KReg)].
Proof. intro b; destruct b; vm_compute; repeat split; reflexivity. Qed.

(* the premise cannot go (replayed on the real SubFS: corpus scenario
   subfs/dotdot-escapes; finding C17-F21): a ".." in the name climbs out of the
   root: through the view rooted at d, WriteFile ../x creates /x in the PARENT, and
   ReadFile ../out reads a file that lies outside the root. *)
Theorem c17_subfs_dotdot_refuted : forall b,
  let s := after b [Mkdir ["d"] 493%N; WriteFile ["out"] [7]%N 420%N] in
  let s1 := fst (sub_step b ["d"] s (WriteFile [".."; "x"] [1]%N 420%N)) in
  sub_op ["d"] (WriteFile [".."; "x"] [1]%N 420%N) = WriteFile ["x"] [1]%N 420%N /\
  snd (sub_step b ["d"] s (WriteFile [".."; "x"] [1]%N 420%N)) = OOk /\
  snd (model_step b s (Stat ["x"])) = OErr ENotExist /\
  snd (model_step b s1 (ReadFile ["x"])) = OBytes [1]%N /\
  snd (model_step b s1 (ReadDir ["d"])) = ODir [] /\
  snd (sub_step b ["d"] s (ReadFile [".."; "out"])) = OBytes [7]%N /\
  ~ (exists q, sjoin ["d"] [".."; "x"] = ["d"] ++ q).
Proof.
  intro b; destruct b; vm_compute; repeat split; try reflexivity; intros [q H]; discriminate H.
Qed.
Print Assumptions c17_subfs_dotdot_refuted.

(* Symlink and Link through the view (repaired by fix 44061d3; was finding C17-F22,
   the old witness is kept as a regression replay: corpus scenario
   subfs/symlink-link-unjoined): they are covered by the two theorems above without
   exception; on the former witness: Symlink f l through the view rooted at d makes
   d/l (Readlink l through the view reads it back, the parent's root has no l), and
   Link f g links d/f, the file ReadFile f through the view reads. *)
Theorem c17_subfs_symlink_link_joined : forall b,
  (forall root t p old new, plain_root root = true -> no_dotdot p = true -> no_dotdot old = true -> no_dotdot new = true ->
     sub_op root (Symlink t p) = at_root root (Symlink t p) /\ sub_op root (Link old new) = at_root root (Link old new)) /\
  let s := after b [Mkdir ["d"] 493%N; WriteFile ["d"; "f"] [1]%N 420%N] in
  let s1 := fst (sub_step b ["d"] s (Symlink ["f"] ["l"])) in
  let s2 := fst (sub_step b ["d"] s1 (Link ["f"] ["g"])) in
  snd (sub_step b ["d"] s (Symlink ["f"] ["l"])) = OOk /\
  snd (sub_step b ["d"] s1 (Readlink ["l"])) = OPath ["f"] /\
  snd (sub_step b ["d"] s1 (ReadFile ["l"])) = OBytes [1]%N /\
  snd (model_step b s1 (Readlink ["l"])) = OErr ENotExist /\
  snd (sub_step b ["d"] s1 (Link ["f"] ["g"])) = OOk /\
  snd (sub_step b ["d"] s2 (ReadFile ["g"])) = OBytes [1]%N /\
  snd (model_step b s2 (ReadDir ["d"])) = ODir [("f", KReg); ("g", KReg); ("l", KSym)] /\
  snd (model_step b s2 (ReadDir [""; ""])) = ODir [("d", KDir)] /\
  sub_step b ["d"] s (Symlink ["f"] ["l"]) = spec_step s (at_root ["d"] (Symlink ["f"] ["l"])).
Proof.
  intro b. split.
  - intros root t p old new Hr Hp Ho Hn. split; apply sub_op_at_root; try exact Hr; cbn [sub_paths forallb]; rewrite ?Hp, ?Ho, ?Hn; reflexivity.
  - destruct b; vm_compute; repeat split; reflexivity.
Qed.
Print Assumptions c17_subfs_symlink_link_joined.

(* ---- the tar-entry channel of pkg/tarfs -----------------------------------------------------------
   [tstep] (Model/TarEntry.v): the tree model of tarfs plus, per inode, the package's
   tar entry (WriteHeader) and, per handle, the opener's file of a read-only open of a
   file that is not loaded yet.  It extends the tree model conservatively: with no
   entry and no opener file the step IS the tree model's step (so everything above
   applies to tarfs as it is used without packages). *)
Theorem c17_tarentry_conservative : forall s o,
  tstep (mkT s [] []) (TOp o) = (mkT (fst (model_step TarFS s o)) [] [], snd (model_step TarFS s o)).
Proof. exact tstep_conservative. Qed.
Print Assumptions c17_tarentry_conservative.

(* reads return the bytes last written, the write being a package's WriteHeader: under
   a fresh name in the root directory the file reads as the entry's bytes and stats
   with the entry's size and mode — in EVERY state (whatever entries, handles and
   opener files exist) *)
Theorem c17_tarentry_read_after_writeheader : forall ts nm c perm,
  let s := t_base ts in
  clean_name nm = true -> is_dir (heap s) 0 = true -> lookup nm (n_children (get (heap s) 0)) = None -> c <> [] ->
  let ts' := fst (tstep ts (TWriteHeader [nm] c perm)) in
  snd (tstep ts (TWriteHeader [nm] c perm)) = ONum 1%Z /\
  snd (tstep ts' (TOp (ReadFile [nm]))) = OBytes c /\
  snd (tstep ts' (TOp (Stat [nm]))) = OInfo KReg perm (N.of_nat (List.length c)) 0%Z 0%Z None.
Proof. exact read_after_writeheader. Qed.
Print Assumptions c17_tarentry_read_after_writeheader.

(* reads of a package-backed file before and after truncation, overwrite (also with
   nothing), a write through a handle, a hard link, and removal of the name under an
   open handle; every result is the reference's on the plain filesystem the state
   stands for ([flat]).  Replayed on the real tarfs: stage tarentry. *)
Definition c17_tarentry_demo : list top :=
  [ TWriteHeader ["f"] [104; 105]%N 420%N; TOp (Stat ["f"]); TOp (ReadFile ["f"]);
    TOp (OpenFile ["f"] (mkFl ARdWr false false false false) 0%N); TOp (Read 0 1); TOp (Write 0 [88]%N); TOp (ReadFile ["f"]);
    TOp (Link ["f"] ["g"]); TOp (WriteFile ["g"] [] 420%N); TOp (ReadFile ["f"]); TOp (Stat ["f"]);
    TWriteHeader ["p"] [1; 2; 3]%N 420%N; TOp (OpenFile ["p"] (mkFl AWr false false false true) 0%N); TOp (ReadFile ["p"]); TOp (Stat ["p"]);
    TWriteHeader ["p"] [1; 2; 3]%N 420%N; TOp (ReadFile ["p"]);
    TWriteHeader ["q"] [7; 8]%N 420%N; TOp (OpenFile ["q"] (mkFl ARd false false false false) 0%N); TOp (Remove ["q"]); TOp (Read 2 5); TOp (Stat ["q"]) ].
Definition out_eqb_simple (a b : out) : bool :=
  match a, b with
  | OOk, OOk => true
  | OErr x, OErr y => eclass_eqb x y
  | OBytes x, OBytes y => list_eqb N.eqb x y
  | ONum x, ONum y => Z.eqb x y
  | OPath x, OPath y => path_eqb x y
  | ODir x, ODir y => list_eqb (pair_eqb String.eqb kind_eqb) x y
  | OInfo k p sz u g t, OInfo k' p' sz' u' g' t' => kind_eqb k k' && N.eqb p p' && N.eqb sz sz' && Z.eqb u u' && Z.eqb g g'
  | _, _ => false
  end.
Fixpoint tar_agrees (ts : tst) (ops : list top) : bool :=
  match ops with
  | [] => true
  | TOp o :: ops' =>
      E TarFS (flat ts) o && out_eqb_simple (snd (spec_step (flat ts) o)) (snd (tstep ts (TOp o))) &&
      tar_agrees (fst (tstep ts (TOp o))) ops'
  | o :: ops' => tar_agrees (fst (tstep ts o)) ops'
  end.
Example c17_tarentry_demo_reads :
  snd (trun tinit c17_tarentry_demo) =
    [ ONum 1%Z; OInfo KReg 420%N 2%N 0%Z 0%Z None; OBytes [104; 105]%N; OOk; OBytes [104]%N; ONum 1%Z; OBytes [104; 88]%N;
      OOk; OOk; OBytes []%N; OInfo KReg 420%N 0%N 0%Z 0%Z None;
      ONum 1%Z; OOk; OBytes []%N; OInfo KReg 420%N 0%N 0%Z 0%Z None; ONum 0%Z; OBytes []%N;
      ONum 1%Z; OOk; OOk; OBytes [7; 8]%N; OErr ENotExist ] /\
  tar_agrees tinit c17_tarentry_demo = true.
Proof. vm_compute. split; reflexivity. Qed.

(* ---- directory, symbolic-link and hard-link headers (WriteHeader of tar.TypeDir / TypeSymlink /
   TypeLink; replayed on the real tarfs: stage tarentry, scenarios dir-headers, symlink-headers,
   hardlink-headers) ----
   A hard-link header is Link on the tree with the entry and opener tables untouched — the new name
   is the same inode, with the same package entry — and inside Link's envelope it is the
   reference's Link ([inst_out]: "installed" for OOk). *)
Theorem c17_tarentry_writeheader_link_is_link : forall ts old new,
  let s := t_base ts in
  tstep ts (TWriteHeaderLink old new) =
    (mkT (fst (model_step TarFS s (Link old new))) (t_te ts) (t_rc ts), inst_out (snd (model_step TarFS s (Link old new)))) /\
  (E TarFS s (Link old new) = true ->
   tstep ts (TWriteHeaderLink old new) =
     (mkT (fst (spec_step s (Link old new))) (t_te ts) (t_rc ts), inst_out (snd (spec_step s (Link old new))))).
Proof. exact writeheader_link_is_link. Qed.
Print Assumptions c17_tarentry_writeheader_link_is_link.

(* a directory header: inside the envelopes of MkdirAll and of Chtimes it is the reference's
   mkdir -p followed by the reference's Chtimes (whose error, if any, is the answer); when mkdir -p
   fails that failure is the answer and what it made stays (as for mkdir -p) *)
Theorem c17_tarentry_writeheader_dir : forall ts p perm t,
  let s := t_base ts in
  E TarFS s (MkdirAll p perm) = true ->
  let s1 := fst (spec_step s (MkdirAll p perm)) in
  (snd (spec_step s (MkdirAll p perm)) = OOk -> E TarFS s1 (Chtimes p t) = true ->
   tstep ts (TWriteHeaderDir p perm t) =
     (mkT (fst (spec_step s1 (Chtimes p t))) (t_te ts) (t_rc ts), inst_out (snd (spec_step s1 (Chtimes p t))))) /\
  (snd (spec_step s (MkdirAll p perm)) <> OOk ->
   tstep ts (TWriteHeaderDir p perm t) = (mkT s1 (t_te ts) (t_rc ts), snd (spec_step s (MkdirAll p perm)))).
Proof. exact writeheader_dir_is_mkdirall_chtimes. Qed.
Print Assumptions c17_tarentry_writeheader_dir.

(* a link header under a fresh name in the root directory, in EVERY state: the link carries the
   header's target (any target), Readlink reads it back, and delivering the same header again is
   "not installed" and changes nothing *)
Theorem c17_tarentry_symlink_after_writeheader : forall ts nm tgt cid,
  let s := t_base ts in
  clean_name nm = true -> is_dir (heap s) 0 = true -> lookup nm (n_children (get (heap s) 0)) = None ->
  let ts' := fst (tstep ts (TWriteHeaderSym [nm] tgt cid)) in
  snd (tstep ts (TWriteHeaderSym [nm] tgt cid)) = ONum 1%Z /\
  snd (tstep ts' (TOp (Readlink [nm]))) = OPath tgt /\
  tstep ts' (TWriteHeaderSym [nm] tgt cid) = (ts', ONum 0%Z).
Proof. exact symlink_after_writeheader. Qed.
Print Assumptions c17_tarentry_symlink_after_writeheader.

(* non-vacuity and the shape of a small package: a directory, a file in it, a link to the file, a
   hard link to it; the hard link shares the package's bytes before and after a write; every FullFS
   step agrees with the reference on the plain filesystem *)
Definition c17_tarentry_headers_demo : list top :=
  [ TWriteHeaderDir ["usr"; "bin"] 493%N 1000000%Z; TOp (Stat ["usr"; "bin"]); TWriteHeader ["usr"; "bin"; "tool"] [1; 2; 3]%N 493%N;
    TWriteHeaderSym ["usr"; "bin"; "t"] ["tool"] [116; 111; 111; 108]%N; TOp (ReadFile ["usr"; "bin"; "t"]); TOp (Readlink ["usr"; "bin"; "t"]);
    TWriteHeaderSym ["usr"; "bin"; "t"] ["tool"] [116; 111; 111; 108]%N;
    TWriteHeaderLink ["usr"; "bin"; "tool"] ["usr"; "bin"; "tool2"]; TOp (ReadFile ["usr"; "bin"; "tool2"]); TOp (Stat ["usr"; "bin"; "tool2"]);
    TOp (WriteFile ["usr"; "bin"; "tool2"] [9]%N 493%N); TOp (ReadFile ["usr"; "bin"; "tool"]);
    TWriteHeaderLink ["nope"] ["x"]; TWriteHeaderDir ["usr"; "bin"; "tool"; "sub"] 493%N 5%Z; TOp (ReadDir ["usr"; "bin"]) ].
Example c17_tarentry_headers_demo_run :
  snd (trun tinit c17_tarentry_headers_demo) =
    [ ONum 1%Z; OInfo KDir 493%N 0%N 0%Z 0%Z (Some 1000000%Z); ONum 1%Z; ONum 1%Z; OBytes [1; 2; 3]%N; OPath ["tool"]; ONum 0%Z;
      ONum 1%Z; OBytes [1; 2; 3]%N; OInfo KReg 493%N 3%N 0%Z 0%Z None; OOk; OBytes [9]%N;
      OErr ENotExist; OErr EOther; ODir [("t", KSym); ("tool", KReg); ("tool2", KReg)] ] /\
  tar_agrees tinit c17_tarentry_headers_demo = true /\
  E TarFS (t_base (fst (trun tinit [TWriteHeaderDir ["usr"; "bin"] 493%N 1000000%Z; TWriteHeader ["usr"; "bin"; "tool"] [1; 2; 3]%N 493%N])))
    (Link ["usr"; "bin"; "tool"] ["usr"; "bin"; "tool2"]) = true /\
  E TarFS init_st (MkdirAll ["usr"; "bin"] 493%N) = true.
Proof. vm_compute. repeat split; reflexivity. Qed.

(* the channel's own corner (finding C17-F24; replayed: tarentry scenarios
   readonly-handle-stale-after-write, readonly-trunc-handle, readonly-handle-no-seek):
   a read-only handle on a file that is not loaded yet is the opener's file.  After
   WriteFile f "new" it still reads the package's bytes where the reference reads
   the new ones; Seek on it fails where the reference seeks. *)
Theorem c17_tarentry_readonly_handle_refuted :
  let ts := fst (trun tinit [TWriteHeader ["f"] [104; 105]%N 420%N; TOp (OpenFile ["f"] (mkFl ARd false false false false) 0%N);
                             TOp (WriteFile ["f"] [110; 101; 119]%N 420%N)]) in
  snd (tstep ts (TOp (Read 0 5))) = OBytes [104; 105]%N /\
  snd (spec_step (flat ts) (Read 0 5)) = OBytes [110; 101; 119]%N /\
  E TarFS (flat ts) (Read 0 5) = true /\
  snd (tstep ts (TOp (ReadFile ["f"]))) = OBytes [110; 101; 119]%N /\
  snd (tstep ts (TOp (Seek 0 0%Z 0))) = OErr EOther /\
  snd (spec_step (flat ts) (Seek 0 0%Z 0)) = ONum 0%Z.
Proof. vm_compute. repeat split; reflexivity. Qed.
Print Assumptions c17_tarentry_readonly_handle_refuted.

Definition fl_rdwr := mkFl ARdWr false false false false.
Definition fl_rd := mkFl ARd false false false false.

Theorem c17_remove_nonempty_refuted : forall b,
  leaves b [Mkdir ["d"] 493%N; WriteFile ["d"; "f"] [1]%N 420%N] (Remove ["d"]) "remove-nonempty-directory".
Proof. refute. Qed.
Print Assumptions c17_remove_nonempty_refuted.

(* ---- repaired by fix commit ba6ef02 (formerly refuted corners) ---------------------------
   Seek: the code's step is the reference's in EVERY state, for every offset and
   whence (a negative resulting position is an error and moves nothing). *)
Theorem c17_seek_is_reference : forall b s i off wh,
  model_step b s (Seek i off wh) = spec_step s (Seek i off wh).
Proof. intros b s i off wh. apply refines. reflexivity. Qed.
Print Assumptions c17_seek_is_reference.

(* the former panic replays now stay inside the envelope, fail with an ordinary
   error and change nothing *)
Theorem c17_negative_positions_rejected : forall b,
  let s := after b [WriteFile ["f"] [1; 2]%N 420%N; OpenFile ["f"] fl_rdwr 0%N] in
  model_step b s (Seek 0 (-3)%Z 0) = (s, OErr EOther) /\
  model_step b s (Seek 0 (-1)%Z 1) = (s, OErr EOther) /\
  model_step b s (Seek 0 (-9)%Z 2) = (s, OErr EOther) /\
  model_step b s (ReadAt 0 2 (-1)%Z) = (s, OErr EOther) /\ E b s (ReadAt 0 2 (-1)%Z) = true /\
  run_in_E b init_st [WriteFile ["f"] [1; 2]%N 420%N; OpenFile ["f"] fl_rdwr 0%N; Seek 0 (-3)%Z 0; Read 0 1;
                      Write 0 [7]%N; ReadAt 0 2 (-1)%Z; ReadFile ["f"]] = true.
Proof. intro b; destruct b; vm_compute; repeat split; reflexivity. Qed.
Print Assumptions c17_negative_positions_rejected.

Theorem c17_entry_under_file_rejected : forall b,
  let s := after b [WriteFile ["f"] [1]%N 420%N] in
  model_step b s (Symlink ["t"] ["f"; "x"]) = (s, OErr EOther) /\ E b s (Symlink ["t"] ["f"; "x"]) = true /\
  model_step b s (Mknod ["f"; "x"] 420%N 259%N) = (s, OErr EOther) /\ E b s (Mknod ["f"; "x"] 420%N 259%N) = true /\
  model_step b s (Link ["f"] ["f"; "x"]) = (s, OErr EOther) /\ E b s (Link ["f"] ["f"; "x"]) = true /\
  model_step b s (Mkdir ["f"; "x"] 493%N) = (s, OErr EOther) /\ E b s (Mkdir ["f"; "x"] 493%N) = true.
Proof. intro b; destruct b; vm_compute; repeat split; reflexivity. Qed.
Print Assumptions c17_entry_under_file_rejected.

Theorem c17_lstat_follows_refuted : forall b,
  leaves b [WriteFile ["f"] [1]%N 420%N; Symlink ["f"] ["l"]] (Lstat ["l"]) "lstat-follows-symlink".
Proof. refute. Qed.
Print Assumptions c17_lstat_follows_refuted.

Theorem c17_nondir_prefix_refuted : forall b,
  leaves b [WriteFile ["f"] [1]%N 420%N] (Stat ["f"; "x"]) "nondir-prefix-reported-notexist".
Proof. refute. Qed.
Print Assumptions c17_nondir_prefix_refuted.

Theorem c17_unnormalised_path_refuted : forall b,
  leaves b [WriteFile ["f"] [1]%N 420%N] (Stat ["."; "f"]) "path-not-normalised" /\
  leaves b [Mkdir ["a"] 493%N] (Stat ["a"; ".."; "a"]) "path-not-normalised".
Proof. intro b. split; revert b; refute. Qed.
Print Assumptions c17_unnormalised_path_refuted.

(* lexical "..": /l -> a/b, /a/b/x -> ../t; the reference reads /a/t through l/x, the code looks for /t *)
Theorem c17_lexical_dotdot_refuted : forall b,
  leaves b [MkdirAll ["a"; "b"] 493%N; Symlink ["a"; "b"] ["l"]; WriteFile ["a"; "t"] [1]%N 420%N;
            Symlink [".."; "t"] ["a"; "b"; "x"]] (ReadFile ["l"; "x"]) "symlink-lexical-or-nesting-resolution".
Proof. refute. Qed.
Print Assumptions c17_lexical_dotdot_refuted.

(* nesting depth instead of total: maxLinks+1 links in sequence resolve in the code *)
Theorem c17_sequential_links_refuted : forall b,
  leaves b [Symlink [""; ""] ["s"]; WriteFile ["f"] [1]%N 420%N]
         (Stat (repeat "s" (S spec_max_links) ++ ["f"])) "symlink-lexical-or-nesting-resolution".
Proof. refute. Qed.
Print Assumptions c17_sequential_links_refuted.

Theorem c17_open_mode_refuted : forall b,
  leaves b [WriteFile ["f"] [1; 2]%N 420%N; OpenFile ["f"] fl_rd 0%N] (Write 0 [7]%N) "open-mode-not-enforced".
Proof. refute. Qed.
Print Assumptions c17_open_mode_refuted.

Theorem c17_append_refuted : forall b,
  leaves b [WriteFile ["f"] [1; 2]%N 420%N] (OpenFile ["f"] (mkFl ARdWr true false false false) 0%N) "append-offset-fixed-at-open" /\
  leaves b [WriteFile ["f"] [1; 2]%N 420%N; OpenFile ["f"] (mkFl ARdWr true false false false) 0%N; Seek 0 0%Z 0]
         (Write 0 [7]%N) "append-offset-fixed-at-open".
Proof. intro b. split; revert b; refute. Qed.
Print Assumptions c17_append_refuted.

Theorem c17_excl_refuted : forall b,
  leaves b [WriteFile ["f"] [1]%N 420%N] (OpenFile ["f"] (mkFl ARdWr false true true false) 420%N) "o-excl-ignored".
Proof. refute. Qed.
Print Assumptions c17_excl_refuted.

Theorem c17_open_directory_refuted : forall b,
  leaves b [Mkdir ["d"] 493%N] (OpenFile ["d"] fl_rd 0%N) "open-directory".
Proof. refute. Qed.
Print Assumptions c17_open_directory_refuted.

Theorem c17_link_directory_refuted : forall b,
  leaves b [Mkdir ["d"] 493%N] (Link ["d"] ["d"; "self"]) "hard-link-to-directory".
Proof. refute. Qed.
Print Assumptions c17_link_directory_refuted.

Theorem c17_error_class_refuted : forall b,
  leaves b [Symlink ["x"] ["x"]] (Link ["x"] ["y"]) "link-oldname-error-always-notexist" /\
  leaves b [Symlink ["x"] ["x"]] (ListXattrs ["x"]) "xattr-lookup-error-always-notexist" /\
  leaves b [Symlink ["x"] ["x"]] (MkdirAll ["x"; "c"] 493%N) "mkdirall-broken-link-error-class" /\
  leaves b [WriteFile ["f"] [1]%N 420%N; OpenFile ["f"] fl_rd 0%N; Seek 0 1%Z 0] (Read 0 0) "zero-length-read-at-eof-reports-eof".
Proof. intro b. repeat split; try (destruct b; vm_compute; reflexivity); destruct b; vm_compute; intro H; discriminate H. Qed.
Print Assumptions c17_error_class_refuted.

(* the two defects repaired by fix commit e12e6cc stay repaired in the model:
   these steps are inside the envelope (so they are the reference's steps) *)
Example c17_fixed_defects_inside : forall b,
  run_in_E b init_st [WriteFile ["f"] [1; 2; 3]%N 420%N; OpenFile ["f"] fl_rdwr 0%N; Seek 0 7%Z 0; Write 0 [8; 9]%N;
                      ReadFile ["f"]] = true /\
  run_in_E b init_st [WriteFile ["f"] [1; 2; 3]%N 420%N; OpenFile ["f"] (mkFl AWr true false false true) 0%N; Write 0 [8; 9]%N;
                      ReadFile ["f"]] = true.
Proof. intro b; destruct b; vm_compute; split; reflexivity. Qed.
