(* C18 — Nothing is written outside the designated roots. (theorems follow) *)
From Apko Require Import Base.Prelude Base.C18Path Generated.C18 Spec.ConfineSpec Model.Confine.

(* the shape of every prefix test, as goextract read it from the source on this run *)
Theorem c18_prefix_test_shapes :
  check_sanitize_path = (true, false, false) /\
  check_sanitize_archive_path = (false, true, false) /\
  check_dirfs_link = (false, false, true) /\
  check_cache_file_from_etag = (false, false, true) /\
  check_cache_path_from_url = (false, false, true).
Proof. repeat split; reflexivity. Qed.
Print Assumptions c18_prefix_test_shapes.
