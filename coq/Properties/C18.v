(* C18 — Nothing is written outside the designated roots.
   Property theorems only; each is closed by [exact] of a lemma proved in
   Proofs/ConfineProofs.v and followed by Print Assumptions.  Strings are byte
   lists ([str]); [cc s] are the components of filepath.Clean(s); [under r p]
   = same rootedness and [cc r] is a component-wise prefix of [cc p].
   Constants named etag_*, check_*, key_*, keyname_*, *_max_links are the ones
   goextract read from the Go sources on this run. *)
From Apko Require Import Base.Prelude Base.C18Path Generated.C18 Spec.ConfineSpec Model.Confine
  Proofs.ConfineProofs Proofs.ConfineCache.
Open Scope list_scope.

(* the shape of every prefix test in the source: which side is filepath.Clean'ed
   and whether the test guards the reject branch *)
Theorem c18_prefix_test_shapes :
  check_sanitize_path = ("rel"%string, (false, true, true)) /\
  check_sanitize_archive_path = ("rel"%string, (false, true, true)) /\
  check_dirfs_link = ("rel"%string, (false, true, true)) /\
  check_cache_file_from_etag = ("string-prefix"%string, (false, false, true)) /\
  check_cache_path_from_url = ("rel"%string, (true, true, true)) /\
  key_last_is_base = true.
Proof. repeat split; reflexivity. Qed.
Print Assumptions c18_prefix_test_shapes.

(* filepath.Clean is idempotent and keeps rootedness (all byte strings) *)
Theorem c18_clean_idempotent : forall p, clean (clean p) = clean p /\ is_abs (clean p) = is_abs p.
Proof. intro p. split; [apply clean_idem | apply clean_abs]. Qed.
Print Assumptions c18_clean_idempotent.

(* For every absolute base and EVERY name p: the components of
   clean(join(base,p)) are base's, minus as many as p climbs ([ups p] = number of
   leading ".." of p read as a relative path), followed by where p then descends
   ([downs p]); hence the result is under base iff p re-enters through exactly
   the components it left — in particular always when p does not climb. *)
Theorem c18_clean_join_under : forall base p, is_abs base = true ->
  cc (join [base; p]) = firstn (List.length (cc base) - ups p) (cc base) ++ downs p /\
  (under base (join [base; p]) <->
   cprefix (skipn (List.length (cc base) - ups p) (cc base)) (downs p)) /\
  (ups p = 0 -> under base (join [base; p])).
Proof.
  intros base p H. split; [apply cc_join_abs; assumption|].
  split; [apply clean_join_under; assumption | apply no_climb_under; assumption].
Qed.
Print Assumptions c18_clean_join_under.

Example c18_clean_join_under_ex :
  under (la "/r") (join [la "/r"; la "a/../b//./c"]) /\
  ups (la "../r2/x") = 1 /\ ~ under (la "/r") (join [la "/r"; la "../r2/x"]) /\
  under (la "/r") (join [la "/r"; la "../r/x"]).
Proof.
  repeat split.
  - apply underb_iff. vm_compute. reflexivity.
  - intro U. apply underb_iff in U. vm_compute in U. discriminate.
  - apply underb_iff. vm_compute. reflexivity.
Qed.

(* c18_sanitize_sound — a path accepted by sanitizePath / sanitizeArchivePath /
   dirFS.Link's test is under its base: every base, every name (since fix
   566455e the three tests are component-wise: filepath.Rel, not "..", no
   "../" prefix). For an absolute base the test of sanitizePath is exact. *)
Theorem c18_sanitize_sound :
  (forall b p v, sanitize_path b p = Some v -> under b v) /\
  (forall d t v, sanitize_archive_path d t = Some v -> under d v) /\
  (forall b old t, link_target b old = Some t -> under b t) /\
  (forall b p, is_abs b = true ->
     (sanitize_path b p = Some (join [b; p]) <-> under b (join [b; p]))).
Proof.
  exact (conj sanitize_path_sound (conj sanitize_archive_path_sound
        (conj link_target_sound sanitize_path_exact))).
Qed.
Print Assumptions c18_sanitize_sound.

(* the replays of the fixed findings C18-F3 / C18-F5 are refused, and a name
   that re-enters the base is accepted: the hypotheses are satisfiable *)
Example c18_sanitize_sound_ex :
  sanitize_path (la "/r") (la "../r2/x") = None /\
  sanitize_archive_path (la "/r") (la "../r2/x") = None /\
  link_target (la "/T/root") (la "../root2/secret") = None /\
  sanitize_path (la "/r") (la "a/../b") = Some (la "/r/b").
Proof. repeat split; vm_compute; reflexivity. Qed.

(* what the tests were before the fix — and what cacheFileFromEtag's test still
   is — does not imply containment: a prefix test on STRINGS accepts a sibling *)
Theorem c18_string_prefix_test_unsound :
  exists b v, string_prefix_test b v = true /\ is_abs b = true /\ v = clean v /\ ~ under b v.
Proof. exact string_prefix_unsound. Qed.
Print Assumptions c18_string_prefix_test_unsound.

(* Every ETag header value (any bytes, any number of values) that
   etagFromResponse accepts becomes a non-empty name over the generated
   alphabet plus padding; with either generated extension it is one proper
   path component, and the file cacheFileFromEtag returns for it lies directly
   in the cache directory of the file it belongs to. *)
Theorem c18_etag_safe : forall hdr e,
  etag_from_response hdr = Some e ->
  Forall etag_char e /\ e <> [] /\
  forall cwd f p,
    is_abs (fst (etag_dir_ext f)) = true ->
    cache_file_from_etag cwd f e = Some p ->
    proper (e ++ snd (etag_dir_ext f)) /\ is_abs p = true /\
    cc p = cc (fst (etag_dir_ext f)) ++ [e ++ snd (etag_dir_ext f)].
Proof.
  intros hdr e H. destruct (etag_from_response_chars hdr e H) as [F NE].
  split; [assumption|]. split; [assumption|].
  intros cwd f p HA HC. exact (etag_file_in_dir hdr e cwd f p H HA HC).
Qed.
Print Assumptions c18_etag_safe.

Example c18_etag_safe_ex :
  exists e p, etag_from_response (Some [la """../../../etc/passwd"""]) = Some e /\
    cache_file_from_etag (la "/cwd") (la "/t/cache/repo/x86_64/APKINDEX.tar.gz") e = Some p /\
    dir p = la "/t/cache/repo/x86_64/APKINDEX".
Proof. eexists _, _. split; [vm_compute; reflexivity|]. split; vm_compute; reflexivity. Qed.

(* the alphabet in the source contains neither '/' nor '.' *)
Theorem c18_etag_alphabet_safe : forallb safe_char (la etag_alphabet ++ [pad_char]) = true.
Proof. exact etag_alphabet_safe. Qed.
Print Assumptions c18_etag_alphabet_safe.

(* The result of cachePathFromURL is STRICTLY below the cache root — every
   root, every URL string, every URL path (since fix 75bbb04 the test is
   component-wise and refuses the root itself, finding C18-F4). *)
Theorem c18_cache_path : forall root ustr path p,
  cache_path_from_url root ustr path = Some p ->
  under root p /\ exists c r, cc p = cc root ++ c :: r.
Proof.
  intros root ustr path p H.
  destruct (cache_path_strictly_under root ustr path p H) as [EA [c [r E]]].
  split; [split; [exact EA | exists (c :: r); exact E] | exists c, r; exact E].
Qed.
Print Assumptions c18_cache_path.

(* for the URLs the callers produce (absolute URL path, printed URL containing
   '/') the joined path is at or below the root whatever the test says, so the
   test refuses nothing but the root itself *)
Theorem c18_cache_path_accepts : forall root ustr path,
  is_abs root = true -> is_abs path = true -> In sl ustr ->
  under root (cache_joined root ustr path) /\
  (cc (cache_joined root ustr path) <> cc root ->
   cache_path_from_url root ustr path = Some (cache_joined root ustr path)).
Proof.
  intros root ustr path HR HP HS. split.
  - apply cache_joined_under; assumption.
  - apply cache_path_accepts; assumption.
Qed.
Print Assumptions c18_cache_path_accepts.

(* filepath.Base of a cleaned absolute path is "/" or a proper component, never ".." *)
Theorem c18_base_of_clean : forall x, is_abs x = true ->
  base (clean x) = [sl] \/ proper (base (clean x)).
Proof. exact base_clean_abs. Qed.
Print Assumptions c18_base_of_clean.

Example c18_cache_path_ex :
  cache_path_from_url (la "/t/cache") (la "https://h/repo") (la "/repo/x86_64/../../../a.apk")
    = Some (la "/t/cache/https%3A%2F%2Fh%2Frepo/a.apk") /\
  In sl (la "https://h/repo").
Proof. split; [vm_compute; reflexivity | vm_compute; auto 10]. Qed.

(* the replay of the fixed finding C18-F4: a URL whose path cleans to the root
   is refused *)
Example c18_cache_path_root_refused :
  cache_path_from_url (la "/t/cache") (la "https://h/..") (la "/..") = None.
Proof. vm_compute. reflexivity. Qed.

(* InitKeyring stores every key under etc/apk (never above it), and under
   etc/apk/keys/<one component> whenever the base name of the key location is
   a proper component; a key name accepted by parseRepositoryIndex contains no
   separator. *)
Theorem c18_key_basename : forall element,
  under (la "etc/apk") (key_path element) /\
  (proper (base element) ->
   cc (key_path element) = map la key_dir_elems ++ [base element]) /\
  (forall k, keyname_ok k = true -> no_slash k).
Proof.
  intro e. split; [apply key_path_under|]. split.
  - apply key_path_proper.
  - apply keyname_ok_no_slash.
Qed.
Print Assumptions c18_key_basename.

Example c18_key_basename_ex :
  key_path (la "https://keys.example/a/b/..") = la "etc/apk" /\
  key_path (la "https://keys.example/k.rsa.pub") = la "etc/apk/keys/k.rsa.pub".
Proof. split; vm_compute; reflexivity. Qed.

(* In both in-memory filesystems every successful lookup — any path, any tree,
   any symlink targets, any depth — returns the root or a descendant of the root
   along child edges; ".." is an ordinary child name. *)
Theorem c18_memtree_closed : forall fuel root path depth n,
  (get_node fuel memfs_max_links root path depth = LOk n -> sub root n) /\
  (get_node fuel tarfs_max_links root path depth = LOk n -> sub root n) /\
  (forall ch, lookup_child ch dd = None ->
     get_node (S fuel) memfs_max_links (NDir ch) dd 0 = LNotExist).
Proof.
  intros. split; [apply get_node_sub|]. split; [apply get_node_sub|].
  intros ch H. apply dotdot_is_a_name. assumption.
Qed.
Print Assumptions c18_memtree_closed.

(* c18_dirfs_confined — "every host path a dirFS method touches is under its
   base" — is FALSE, lexically (C18-F1: WriteFile "../escaped.txt") and through
   the kernel's link resolution (C18-F2: Symlink "/T/host" "l"; WriteFile "l/x"). *)
Theorem c18_dirfs_confined_refuted :
  (exists b name, is_abs b = true /\ ~ under b (dirfs_host_path b name)) /\
  (exists b links name,
     under b (dirfs_host_path b name) /\ Forall (fun l => under b (fst l)) links /\
     ~ under b (resolve 4 links (dirfs_host_path b name))).
Proof. exact (conj dirfs_lexical_escape dirfs_symlink_escape). Qed.
Print Assumptions c18_dirfs_confined_refuted.

(* what does hold: names that do not climb are lexically confined *)
Theorem c18_dirfs_confined_partial : forall b name,
  is_abs b = true -> ups name = 0 -> under b (dirfs_host_path b name).
Proof. exact dirfs_confined_when_not_climbing. Qed.
Print Assumptions c18_dirfs_confined_partial.

(* the validator run on the canary tree's snapshot diff decides confinement *)
Theorem c18_validator_decides : forall roots touched,
  escapes roots touched = [] <-> Confined roots touched.
Proof. exact escapes_nil_iff. Qed.
Print Assumptions c18_validator_decides.

(* ---- cachedPackage: the cache member named by .PKGINFO's datahash ------------------

   cachedPackage joins the datahash TEXT of the cached control section into
   <cacheDir>/<datahash><cached_dat_suffix> unsanitised.  [cached_package_touches]
   lists, in source order, what it then does with that path ([true] = something is
   created or replaced there); [cached_hex_before_data] is read from the source:
   hex.DecodeString(datahash) stands between os.Stat(dat) and exp.PackageData(). *)

(* Whatever the datahash text is, everything cachedPackage creates or replaces —
   the temporary file's directory filepath.Dir(TarFile) and TarFile itself — lies
   in the package's cache directory; for a datahash that decodes the member is
   one proper component below it. *)
Theorem c18_cache_member : forall cacheDir datahash dat_exists, is_abs cacheDir = true ->
  cached_hex_before_data = true /\
  (forall p, In (true, p) (cached_package_touches cacheDir datahash dat_exists) -> under cacheDir p) /\
  (hex_ok datahash = true ->
     cc (cache_member_path cacheDir datahash) = cc cacheDir ++ [datahash ++ la cached_dat_suffix] /\
     cc (cache_member_tar cacheDir datahash) = cc cacheDir ++ [datahash ++ tar_suffix]) /\
  (hex_ok datahash = false ->
     cached_package_touches cacheDir datahash dat_exists = [(false, cache_member_path cacheDir datahash)]).
Proof.
  intros b h de HB. split; [reflexivity|]. split.
  - intros p I. exact (cache_member_confined b h de p HB I).
  - split.
    + intro HX. destruct (member_in_dir b h HB (hex_ok_chars h HX)) as [A [_ C]]. split; assumption.
    + apply cache_member_nonhex_stat_only.
Qed.
Print Assumptions c18_cache_member.

Example c18_cache_member_ex :
  cached_package_touches (la "/t/cache/r/x86_64/p-1") (la "00ff") true =
    [(false, la "/t/cache/r/x86_64/p-1/00ff.dat.tar.gz"); (false, la "/t/cache/r/x86_64/p-1/00ff.dat.tar");
     (false, la "/t/cache/r/x86_64/p-1/00ff.dat.tar.gz"); (true, la "/t/cache/r/x86_64/p-1");
     (true, la "/t/cache/r/x86_64/p-1/00ff.dat.tar")].
Proof. vm_compute. reflexivity. Qed.

(* "every path cachedPackage looks at is in the cache directory" is FALSE: a
   datahash that does not decode is still joined and os.Stat'ed — a read of
   whether <anywhere>/<x>.dat.tar.gz exists, nothing more. *)
Theorem c18_cache_member_stat_refuted : exists cacheDir datahash,
  is_abs cacheDir = true /\ hex_ok datahash = false /\
  ~ under cacheDir (cache_member_path cacheDir datahash) /\
  cache_member_path cacheDir datahash = la "/t/outside/x.dat.tar.gz".
Proof. exact cache_member_stat_outside. Qed.
Print Assumptions c18_cache_member_stat_refuted.

(* Is a datahash that does not decode reachable at all?  Not through apko's own
   cache writes: a control section is moved into the cache only after
   verifyExpanded (fix 6d335fb) accepted it, and then its single datahash value
   is empty or the data section's own hex sha256. (A cache directory populated
   by other means is what the refutation above is about.) *)
Theorem c18_cache_member_datahash_reachable : forall values got d,
  hex_ok got = true -> verify_datahash_accepts values got = true -> values = [d] -> hex_ok d = true.
Proof. exact verified_datahash_decodes. Qed.
Print Assumptions c18_cache_member_datahash_reachable.

Example c18_cache_member_datahash_reachable_ex :
  verify_datahash_accepts [la "00ff"] (la "00ff") = true /\ verify_datahash_accepts [[]] (la "00ff") = true /\
  verify_datahash_accepts [la "../../x"] (la "00ff") = false.
Proof. repeat split; vm_compute; reflexivity. Qed.

(* ---- the directory-backed filesystem on a host WITH a parent directory ----------------

   Model/ConfineHost.v: the host is one tree rooted at "/" (files, symbolic links with
   their target text, directories), the base [b] a place in it; every os call of a dirFS
   method is resolved the way the kernel does (".." to the PHYSICAL parent, links
   followed where the call follows them) and reports the places it creates, modifies or
   deletes; the in-memory overlay's side of each method is modelled next to it
   ([xstep] / [xrun]: both sides in source order).  The canary stage runs the same
   operations on the real dirFS and compares answers and changed places.

   [good P bp h]: the base is a directory reached from "/" through plain directories
   and every symbolic link below it satisfies [P] at the depth of its own directory;
   [tameP k t] = the target [t] is relative, all its ".." come first and there are at
   most [k] of them; [names_ok o] = the operation's names do not climb lexically
   ([ups n = 0]; a/../b is fine; Remove: not the root itself); [fits P b h o] = where the
   kernel puts a NEW link (Symlink; Link of a symbolic link) its target satisfies [P]. *)
From Apko Require Import Model.ConfineHost Model.ConfineTemp Proofs.ConfineHostProofs Proofs.ConfineHostWitness Proofs.ConfineTemp.

(* One step: if the host is good and the operation's names do not climb, every place
   the step touches on the host lies at or below the base and the host stays good —
   WHATEVER the overlay holds or answers ([s] is any state). *)
Theorem c18_hostfs_step_confined : forall b s o, is_abs b = true ->
  good tameP (cc b) (x_host s) -> names_ok o = true -> fits tameP b (x_host s) o ->
  good tameP (cc b) (x_host (fst (fst (xstep b s o)))) /\
  Forall (fun q => cprefix (cc b) q) (snd (xstep b s o)).
Proof. intros b s o. exact (xstep_confined tameP (fun k t H => H) b s o). Qed.
Print Assumptions c18_hostfs_step_confined.

(* A run (the installer's "stop at the first error" or not): the conditions are asked
   of each operation in the state it meets ([run_ok]). *)
Theorem c18_hostfs_run_confined : forall b stop ops s, is_abs b = true ->
  good tameP (cc b) (x_host s) -> run_ok tameP b s ops ->
  good tameP (cc b) (x_host (fst (xrun b stop s ops))) /\
  Forall (fun r => Forall (fun q => cprefix (cc b) q) (snd r)) (snd (xrun b stop s ops)).
Proof. intros b stop ops s. exact (xrun_confined tameP (fun k t H => H) b stop ops s). Qed.
Print Assumptions c18_hostfs_run_confined.

(* The static form: no name climbs, and no symbolic link — there before or made by
   the run — has a ".." in its target ([flat_op], [flatP]): then nothing is asked of
   the intermediate states. *)
Theorem c18_hostfs_run_confined_flat : forall b stop ops s, is_abs b = true ->
  good flatP (cc b) (x_host s) -> forallb flat_op ops = true ->
  Forall (fun r => Forall (fun q => cprefix (cc b) q) (snd r)) (snd (xrun b stop s ops)).
Proof. exact xrun_confined_flat. Qed.
Print Assumptions c18_hostfs_run_confined_flat.

(* the hypotheses can be met: a good host; a run with ".." links that fit and unclean
   names (every answer is "ok", the host stays good); a flat run *)
Example c18_hostfs_confined_ex :
  (good tameP (cc w_base) w_host /\ good flatP (cc w_base) w_host) /\
  (forallb names_ok w_tame = true /\
   answers (xrun w_base false w_init w_tame) = [true; true; true; true; true; true; true] /\
   good tameP (cc w_base) (x_host (fst (xrun w_base false w_init w_tame)))) /\
  (forallb flat_op w_flat = true /\
   answers (xrun w_base false w_init w_flat) = [true; true; true; true; true; true; true; true]).
Proof. exact (conj w_host_good (conj w_tame_facts w_flat_ok)). Qed.

(* c18_dirfs_confined, operationally, is FALSE — each witness below is a run on the
   host /n/T/{root,victim}, /n/victim, /victim with base /n/T/root, replayed on the real
   dirFS by the canary corpus:
   F1  the name itself climbs: WriteFile ../escaped.txt touches /n/T/escaped.txt and is
       answered "error" afterwards;
   F2  names do not climb; an absolute link to a host directory, a host-first method beneath;
   F6  names do not climb and the method is tree-checked (Create / Remove), but the overlay
       ACCEPTS (answers true) what the kernel resolves outside:
       - absolute: the tree holds the same path below its own root;
       - unclean: in p/l -> a/../victim the ".." cancels a name that is itself a link
         (lexically the target is "victim");
       - detour: every target climbs no more than the directory of the NAME it is made
         under is deep, but d1/d2/up/l3 is physically the root's entry;
       - Remove deletes there. *)
Theorem c18_dirfs_confined_refuted_operational :
  (names_ok (HWriteFile (s "../escaped.txt")) = false /\
   answers (xrun w_base false w_init w_f1) = [false] /\
   touched (xrun w_base false w_init w_f1) = [[[s "n"; s "T"; s "escaped.txt"]]]) /\
  (forallb names_ok w_f2 = true /\
   answers (xrun w_base false w_init w_f2) = [true; false] /\
   touched (xrun w_base false w_init w_f2) = [[[s "n"; s "T"; s "root"; s "l"]]; [[s "n"; s "T"; s "victim"; s "x"]]]) /\
  (forallb names_ok w_f6_abs = true /\
   answers (xrun w_base false w_init w_f6_abs) = [true; true; true] /\
   last (touched (xrun w_base false w_init w_f6_abs)) [] = [[s "n"; s "T"; s "victim"; s "pwned.txt"]]) /\
  (forallb names_ok w_f6_unclean = true /\
   answers (xrun w_base false w_init w_f6_unclean) = [true; true; true; true] /\
   last (touched (xrun w_base false w_init w_f6_unclean)) [] = [[s "n"; s "T"; s "victim"; s "pwned.txt"]] /\
   clean (s "a/../victim") = s "victim") /\
  (forallb names_ok w_f6_detour = true /\
   answers (xrun w_base false w_init w_f6_detour) = [true; true; true; true; true] /\
   last (touched (xrun w_base false w_init w_f6_detour)) [] = [[s "n"; s "victim"; s "pwned.txt"]] /\
   tame_target 2 (s "../..") = true /\ tame_target 3 (s "../../victim") = true) /\
  (forallb names_ok w_f6_remove = true /\
   answers (xrun w_base false w_init w_f6_remove) = [true; true; true; true; true; true] /\
   last (touched (xrun w_base false w_init w_f6_remove)) [] = [[s "n"; s "victim"; s "keep.txt"]]).
Proof.
  exact (conj w_f1_escapes (conj w_f2_escapes (conj w_f6_abs_escapes (conj w_f6_unclean_escapes
        (conj w_f6_detour_escapes w_f6_remove_escapes))))).
Qed.
Print Assumptions c18_dirfs_confined_refuted_operational.

(* why [fits] asks about Link too: a hard link to a symbolic link carries the target
   text into another directory, where it may climb above the base *)
Theorem c18_hardlink_of_symlink_unfit :
  forallb names_ok w_unfit = true /\ answers (xrun w_base false w_init w_unfit) = [true; true; true] /\
  tame_at tameP (cc w_base) (x_host (fst (xrun w_base false w_init w_unfit))) = false.
Proof. exact w_unfit_not_tame. Qed.
Print Assumptions c18_hardlink_of_symlink_unfit.

(* ---- the gate of the tree-checked methods ------------------------------------------------

   Create / OpenFile(O_CREATE) / Remove ask the overlay first; its lookup
   (getNodeCountLinks, [walk] / [get_node]) joins a relative link target to the names
   traversed so far — [memfs_link_join], read from the source: filepath.Join of exactly
   these two, NOT anchored at a root.  So a target that climbs above the tree's root
   still begins with ".." after the join, ".." is looked up as a child name, and the
   walk fails.  (Anchoring the join at "/" would swallow the ".." there, chroot-style,
   while the kernel does not: seeded change C18-4.) *)
Theorem c18_overlay_refuses_climbing_link :
  (memfs_link_join = ["traversed"; "target"]%string /\ tarfs_link_join = ["traversed"; "target"]%string /\
   memfs_mkdirall_link_join = ["traversed"; "target"]%string /\ memfs_open_link_join = ["var"; "target"]%string) /\
  (forall fuel ml ch chd traversed part rest depth target,
     lookup_child ch dd = None ->
     str_eqb part [] = false -> lookup_child chd part = Some (NLink target) -> is_abs target = false ->
     hd_error (cc (join [join_sl traversed; target])) = Some dd ->
     forall n, walk ml (get_node fuel ml (NDir ch)) (NDir chd) traversed (part :: rest) depth <> LOk n) /\
  (forall b h ch p, lookup_child ch dd = None -> hd_error (cc (dir p)) = Some dd ->
     xstep b (mkX h (NDir ch)) (HCreate p) = (mkX h (NDir ch), false, []) /\
     xstep b (mkX h (NDir ch)) (HRemove p) = (mkX h (NDir ch), false, [])).
Proof.
  split; [repeat split; reflexivity|].
  exact (conj overlay_refuses_climbing_link tree_first_refuses_climbing_dir).
Qed.
Print Assumptions c18_overlay_refuses_climbing_link.

(* the shape of C18-4 on the code as it is: opt/data -> ../../victim with an in-root
   /victim; Create and Remove beneath are refused and the host is not touched outside *)
Example c18_overlay_refuses_climbing_link_ex :
  answers (xrun w_base false w_init w_climb) = [true; true; true; false; false] /\
  forallb (fun t => forallb (fun q => negb (outside_base q)) t) (touched (xrun w_base false w_init w_climb)) = true /\
  hd_error (cc (join [join_sl [s "opt"]; s "../../victim"])) = Some dd.
Proof. exact w_climb_refused. Qed.

(* DirFS opened on a root that ALREADY has content: the walk of DirFS enters every entry
   into the overlay by the kind its stat reports.  [dirfs_mirror_stat], read from the
   source: the DirEntry's own Info() — an lstat — and nothing else.  With an lstat the
   overlay is exactly the image of the root ([mirror false] is the identity; [xinit] is
   that image), so a link left there by an earlier run is a LINK in memory and the gate
   above applies to it: on the witness root (links to a host directory, absolute and
   relative, a dangling one, one to an in-root directory) Create / Remove beneath the
   outside links are refused and nothing is touched outside.  With a stat that follows
   links the same links are empty DIRECTORIES in memory, Create beneath them is accepted
   and the kernel writes in the host directory (seeded change C18-7). *)
Theorem c18_dirfs_mirror_is_lstat_image :
  dirfs_mirror_stat = ["$1.Info"]%string /\
  (forall h t cur, mirror false h cur t = t) /\
  (forall b h, xinit_stat false b h = xinit b h) /\
  (answers (xrun w_base false (xinit w_base w_host_pre) w_pre_ops) = [false; false; false; false; true] /\
   forallb (fun t => forallb (fun q => negb (outside_base q)) t)
     (touched (xrun w_base false (xinit w_base w_host_pre) w_pre_ops)) = true) /\
  (answers (xrun w_base false (xinit_stat true w_base w_host_pre) w_pre_ops) = [true; true; false; false; true] /\
   firstn 2 (touched (xrun w_base false (xinit_stat true w_base w_host_pre) w_pre_ops)) =
     [[[s "n"; s "T"; s "victim"; s "job"]]; [[s "n"; s "T"; s "victim"; s "job"]]]).
Proof.
  split; [reflexivity|]. split; [exact mirror_lstat_id|]. split; [exact xinit_is_lstat_image|].
  split; [exact (proj2 w_pre_lstat_refused) | exact w_pre_follow_escapes].
Qed.
Print Assumptions c18_dirfs_mirror_is_lstat_image.

(* [get_pos], the lookup the operational model uses, is [get_node] (the one compared
   with the real trees by the paths stage) together with the place of the node *)
Theorem c18_get_pos_is_get_node : forall fuel ml root path depth,
  match get_pos fuel ml root path depth with
  | Some q => exists n, get_node fuel ml root path depth = LOk n /\ node_at root q = Some n
  | None => forall n, get_node fuel ml root path depth <> LOk n
  end.
Proof. exact get_pos_get_node. Qed.
Print Assumptions c18_get_pos_is_get_node.

(* ---- names apko makes up itself: temporary files, advertised cache names, alpine keys ----

   [expandapk_sites] / [paths_sites]: every call in pkg/apk/expandapk and pkg/paths that
   creates, renames, links or removes a file, with its arguments traced back to the
   function's parameters ($i), its receiver ($r) and literals — read from the source on
   this run.  The model below follows these derivations. *)
Theorem c18_temp_files_confined :
  (expandapk_sites =
     [("APKExpanded.PackageData", "os.CreateTemp", ["filepath.Dir($r.TarFile)"; """*.tmp"""]);
      ("APKExpanded.PackageData", "os.Remove", ["{os.Open($r.TarFile) | os.CreateTemp(filepath.Dir($r.TarFile), ""*.tmp"")}.Name()"]);
      ("APKExpanded.PackageData", "os.Remove", ["{os.Open($r.TarFile) | os.CreateTemp(filepath.Dir($r.TarFile), ""*.tmp"")}.Name()"]);
      ("APKExpanded.PackageData", "os.Rename", ["{os.Open($r.TarFile) | os.CreateTemp(filepath.Dir($r.TarFile), ""*.tmp"")}.Name()"; "$r.TarFile"]);
      ("APKExpanded.PackageData", "os.Remove", ["{os.Open($r.TarFile) | os.CreateTemp(filepath.Dir($r.TarFile), ""*.tmp"")}.Name()"]);
      ("APKExpanded.Close", "os.RemoveAll", ["$r.tempDir"]);
      ("expandApkWriter.Next", "os.Create", ["fmt.Sprintf(""%s-%d.%s"", filepath.Join($r.parentDir, $r.baseName), $r.streamId, $r.ext)"]);
      ("ExpandApk", "os.MkdirTemp", ["$2"; """expand-apk"""]);
      ("ExpandApk", "os.Create", ["strings.TrimSuffix(newExpandApkWriter(os.MkdirTemp($2, ""expand-apk""), ""stream"", ""tar.gz"").CurrentName(), "".gz"")"])]%string /\
   paths_sites =
     [("AdvertiseCachedFile", "os.Remove", ["$0"]);
      ("AdvertiseCachedFile", "os.Symlink", ["{filepath.Rel(filepath.Dir($1), $0) | $0}"; "$1"])]%string /\
   expand_stream_format = "%s-%d.%s"%string) /\
  (* ExpandApk(source, cacheDir): the temporary directory, every stream file and the tar *)
  (forall cacheDir r ks kt p, is_abs cacheDir = true ->
     digits_ok r = true -> forallb digits_ok ks = true -> digits_ok kt = true ->
     In p (expand_creates cacheDir r ks kt) -> under cacheDir p) /\
  (* PackageData: the temporary file is made in TarFile's directory (and renamed to TarFile) *)
  (forall tarf r p, is_abs tarf = true -> digits_ok r = true ->
     packagedata_tmp tarf r = Some p -> under (dir tarf) p) /\
  (* cachePackage hands AdvertiseCachedFile names made of a hash in hexadecimal and a suffix *)
  (forall cacheDir h x, is_abs cacheDir = true -> forallb is_hex_char h = true -> no_slash x -> 2 < List.length x ->
     under cacheDir (advertised_name cacheDir h x) /\ cc (advertised_name cacheDir h x) = cc cacheDir ++ [h ++ x]).
Proof.
  split; [repeat split; reflexivity|].
  exact (conj expand_creates_confined (conj packagedata_tmp_confined advertised_name_confined)).
Qed.
Print Assumptions c18_temp_files_confined.

Example c18_temp_files_confined_ex :
  expand_creates (la "/t/cache/r/x86_64/p-1") (la "123") [la "1"; la "2"] (la "2") =
    [la "/t/cache/r/x86_64/p-1/expand-apk123"; la "/t/cache/r/x86_64/p-1/expand-apk123/stream-1.tar.gz";
     la "/t/cache/r/x86_64/p-1/expand-apk123/stream-2.tar.gz"; la "/t/cache/r/x86_64/p-1/expand-apk123/stream-2.tar"] /\
  packagedata_tmp (la "/t/cache/r/x86_64/p-1/00ff.dat.tar") (la "42") = Some (la "/t/cache/r/x86_64/p-1/42.tmp").
Proof. split; vm_compute; reflexivity. Qed.

(* cachePackage and retrieveAndSaveFile (pkg/apk/apk): [cachepackage_sites] / [retrieve_sites]
   are their creating / advertising / removing calls with every argument traced back to
   the parameters ($2 = the expanded package, $3 = cacheDir; $2($r.wrapped.Do($1)) = what the
   cachePlacer returned) and literals, read from the source on this run; the model's names
   follow these derivations and take their suffixes from [cachepackage_suffixes].  Every
   name cachePackage advertises is ONE proper component below cacheDir (the hashes are
   printed in hexadecimal); for a cache file <d>/<one proper component> — what
   cacheFileFromEtag returns, c18_etag_safe — the directory retrieveAndSaveFile makes, its
   temporary file and the advertised name lie at or below <d>. *)
Theorem c18_cache_writes_confined :
  (cachepackage_sites =
     [("paths.AdvertiseCachedFile", ["$2.SignatureFile"; "filepath.Join($3, hex.EncodeToString($2.ControlHash) + "".sig.tar.gz"")"]);
      ("paths.AdvertiseCachedFile", ["$2.PackageFile"; "filepath.Join($3, hex.EncodeToString($2.PackageHash) + "".dat.tar.gz"")"]);
      ("paths.AdvertiseCachedFile", ["$2.TarFile"; "strings.TrimSuffix(filepath.Join($3, hex.EncodeToString($2.PackageHash) + "".dat.tar.gz""), "".gz"")"]);
      ("paths.AdvertiseCachedFile", ["$2.ControlFile"; "filepath.Join($3, hex.EncodeToString($2.ControlHash) + "".ctl.tar.gz"")"])]%string /\
   retrieve_sites =
     [("os.MkdirAll", ["filepath.Dir($2($r.wrapped.Do($1)))"; "0755"]);
      ("os.CreateTemp", ["filepath.Dir($2($r.wrapped.Do($1)))"; """*.tmp"""]);
      ("os.Remove", ["os.CreateTemp(filepath.Dir($2($r.wrapped.Do($1))), ""*.tmp"").Name()"]);
      ("paths.AdvertiseCachedFile", ["os.CreateTemp(filepath.Dir($2($r.wrapped.Do($1))), ""*.tmp"").Name()"; "$2($r.wrapped.Do($1))"])]%string /\
   cachepackage_suffixes = [".ctl.tar.gz"; ".sig.tar.gz"; ".dat.tar.gz"]%string /\ cachepackage_tar_trim = ".gz"%string) /\
  (forall cacheDir ctl dat p, is_abs cacheDir = true ->
     forallb is_hex_char ctl = true -> forallb is_hex_char dat = true ->
     In p (cache_package_dsts cacheDir ctl dat) ->
     under cacheDir p /\ exists n, proper n /\ cc p = cc cacheDir ++ [n]) /\
  (forall d n r p, is_abs d = true -> proper n -> digits_ok r = true ->
     In p (retrieve_creates (join [d; n]) r) -> under d p).
Proof.
  split; [repeat split; reflexivity|].
  exact (conj cache_package_dsts_confined retrieve_creates_confined).
Qed.
Print Assumptions c18_cache_writes_confined.

Example c18_cache_writes_confined_ex :
  cache_package_dsts (la "/t/cache/r/x86_64/p-1") (la "00aa") (la "11bb") =
    [la "/t/cache/r/x86_64/p-1/00aa.sig.tar.gz"; la "/t/cache/r/x86_64/p-1/11bb.dat.tar.gz";
     la "/t/cache/r/x86_64/p-1/11bb.dat.tar"; la "/t/cache/r/x86_64/p-1/00aa.ctl.tar.gz"] /\
  retrieve_creates (join [la "/t/cache/r/x86_64/APKINDEX"; la "MFRGG===.tar.gz"]) (la "7") =
    [la "/t/cache/r/x86_64/APKINDEX"; la "/t/cache/r/x86_64/APKINDEX/7.tmp"; la "/t/cache/r/x86_64/APKINDEX/MFRGG===.tar.gz"].
Proof. split; vm_compute; reflexivity. Qed.

(* fetchAlpineKeys names the key url.PathUnescape(filepath.Base(url)) — DECODED — joins it
   to etc/apk/keys and stores it with OpenFile(O_CREATE): the name can climb out of the
   keys directory and out of the root (refutation of "the key file is below etc/apk/keys");
   on the directory-backed filesystem a name whose directory climbs is refused by the
   overlay's lookup before the host is asked (the second part of
   c18_overlay_refuses_climbing_link applies: OpenFile is tree-checked), and a name that
   does not climb is covered by c18_hostfs_step_confined. *)
Theorem c18_alpine_key_name :
  (alpine_key_name_chain = ["url.PathUnescape"; "filepath.Base"]%string /\
   alpine_key_dir = "etc/apk/keys"%string /\
   alpine_key_store = ("OpenFile", "os.O_CREATE | os.O_WRONLY")%string) /\
  (exists u p, alpine_key_file u = Some p /\ p = la "../c18-k.rsa.pub" /\ hd_error (cc (dir p)) = Some dd) /\
  (forall b h ch u p, alpine_key_file u = Some p ->
     lookup_child ch dd = None -> hd_error (cc (dir p)) = Some dd ->
     xstep b (mkX h (NDir ch)) (HCreate p) = (mkX h (NDir ch), false, [])) /\
  (forall b s u p, alpine_key_file u = Some p -> is_abs b = true -> good tameP (cc b) (x_host s) -> ups p = 0 ->
     Forall (fun q => cprefix (cc b) q) (snd (xstep b s (HCreate p)))).
Proof.
  split; [repeat split; reflexivity|]. split; [exact alpine_key_climbs|]. split.
  - intros b h ch u p _ ND HD. exact (proj1 (tree_first_refuses_climbing_dir b h ch p ND HD)).
  - intros b s0 u p _ HB G U.
    refine (proj2 (xstep_confined tameP (fun k t H => H) b s0 (HCreate p) HB G _ I)).
    simpl. apply Nat.eqb_eq. exact U.
Qed.
Print Assumptions c18_alpine_key_name.

(* ---- the directory-backed filesystem, operationally -----------------------------------

   From here on the names [op], [st], [dirfs_step], [host_call] ... are those of the
   operational model of dirFS written for C17 (Model/DirFS.v: overlay + host, which
   side is asked in which order), imported read-only. *)
From Apko Require Import Model.MemFS Spec.FsSpec Model.DirFS Proofs.ConfineDirFS.

(* Which dirFS methods have the host execute their call BEFORE the in-memory tree
   can refuse the name — the root of finding C18-F1.
   (1) the order of the two calls in each method, as goextract reads it from rwosfs.go;
   (2) for a host-first method the host state after the step is the host call's,
       whatever the overlay holds or answers;
   (3) for a tree-first method (Create, OpenFile with O_CREATE, Remove) a refusal by
       the overlay leaves the host untouched and is what the caller sees;
   (4) every other method leaves the host's tree alone or passes a read / an
       operation on an open file through;
   (5) witness: from the initial state WriteFile("../escaped.txt") is answered
       "does not exist" by the overlay after the host has written. *)
Theorem c18_dirfs_host_touched_before_check :
  dirfs_host_first =
    [("WriteFile", true); ("MkdirAll", true); ("Mkdir", true); ("Symlink", true); ("Link", true);
     ("Chmod", true); ("Chown", true); ("Chtimes", true); ("Mknod", true);
     ("Create", false); ("OpenFile", false); ("Remove", false)]%string /\
  (forall d o, host_first o = true -> d_host (fst (dirfs_step d o)) = host_after (d_host d) o) /\
  (forall d o, tree_first o = true -> is_failure (snd (ov_step (d_ov d) o)) = true ->
     d_host (fst (dirfs_step d o)) = d_host d /\ snd (dirfs_step d o) = snd (ov_step (d_ov d) o)) /\
  (forall d o, host_first o = false -> tree_first o = false -> passes_through o = false ->
     d_host (fst (dirfs_step d o)) = d_host d) /\
  (host_first w_escape = true /\ climbs [".."; "escaped.txt"]%string = true /\
   snd (dirfs_step dinit w_escape) = OErr ENotExist /\
   d_host (fst (dirfs_step dinit w_escape)) <> d_host dinit).
Proof.
  split; [reflexivity|].
  exact (conj host_first_step (conj tree_first_refused (conj other_ops_keep_host host_touched_witness))).
Qed.
Print Assumptions c18_dirfs_host_touched_before_check.

(* the same name through a tree-first method never reaches the host — unless an
   earlier MkdirAll entered a child literally named ".." into the overlay *)
Example c18_dirfs_tree_first_ex :
  (snd (dirfs_step dinit (Create [".."; "escaped.txt"]%string)) = OErr ENotExist /\
   d_host (fst (dirfs_step dinit (Create [".."; "escaped.txt"]%string))) = d_host dinit) /\
  (let d1 := fst (dirfs_step dinit (MkdirAll [".."; "d"]%string 493%N)) in
   snd (dirfs_step d1 (Create [".."; "d"; "f"]%string)) = OOk /\
   d_host (fst (dirfs_step d1 (Create [".."; "d"; "f"]%string))) <> d_host d1).
Proof.
  split; [destruct tree_first_witness as [_ [A B]]; split; assumption | exact tree_first_enabled_witness].
Qed.

(* The positive complement, over the operational model: a step changes the host only
   through one host call on the operation's own names (handed over as filepath.Join
   cleans them, [hp]); if none of the names climbs above the base LEXICALLY
   ([ups (pstr p) = 0]: a/../b and a/b/../../c are fine), that call's names do not climb
   ([climbs] = false: C17's reading), what the host sees has no ".." left, and the host
   paths filepath.Join(base, name) are under the base (C18's lexical reading).
   (Until session 4 this excluded every name with a ".." component.)  WHERE such a call
   lands when links are followed is the subject of c18_hostfs_step_confined. *)
Theorem c18_dirfs_confined_operational : forall b d o, is_abs b = true ->
  Forall wfpath (op_names o) -> Forall (fun p => ups (pstr p) = 0) (op_names o) ->
  d_host (fst (dirfs_step d o)) = d_host d \/
  exists c, d_host (fst (dirfs_step d o)) = fst (host_step (d_host d) (host_op c)) /\
            op_names (host_op c) = map hp (op_names c) /\
            Forall (fun p => climbs p = false /\ ~ In ".."%string (hp p) /\ under b (dirfs_host_path b (pstr p))) (op_names c).
Proof. exact dirfs_confined_operational_wide. Qed.
Print Assumptions c18_dirfs_confined_operational.

Example c18_dirfs_confined_operational_wide_ex :
  wfpath ["a"; ".."; "b"]%string /\ ups (pstr ["a"; ".."; "b"]%string) = 0 /\ hp ["a"; ".."; "b"]%string = ["b"]%string /\
  In ".."%string ["a"; ".."; "b"]%string.
Proof. exact dirfs_confined_operational_wide_ex. Qed.

Example c18_dirfs_confined_operational_ex :
  wfpath ["etc"; "apk"; "world"]%string /\ ~ In ".."%string ["etc"; "apk"; "world"]%string /\
  hp ["etc"; "."; "apk"; ""; "world"]%string = ["etc"; "apk"; "world"]%string /\
  d_host (fst (dirfs_step dinit (MkdirAll ["etc"; "apk"]%string 493%N))) <> d_host dinit.
Proof. exact dirfs_confined_operational_ex. Qed.

(* the two models agree on what filepath.Join(base, name) leaves of a name: C17's
   element loop computes C18's leading-".." count and remaining components *)
Theorem c18_dirfs_models_agree : forall p, wfpath p ->
  map la (clean_loop false [] p) = repeat dd (ups (pstr p)) ++ downs (pstr p).
Proof. exact models_agree. Qed.
Print Assumptions c18_dirfs_models_agree.
