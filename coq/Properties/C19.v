(* C19 — The package cache is transparent and survives crashes and concurrent
   writers.  Property theorems only; proofs are in Proofs/CacheProofs.v. *)
From Apko Require Import Base.Prelude Model.Cache Spec.CacheSpec Proofs.CacheProofs Proofs.CacheTemp Proofs.CacheCommit Generated.C19Cache.
From Apko Require Import Model.CacheFlight Spec.CacheFlightSpec Proofs.CacheFlightProofs.
From Apko Require Import Model.CacheTimes Proofs.CacheTimes.
From Coq Require Import Permutation.
Open Scope string_scope. Open Scope list_scope.

(* For every origin, every NUMBER of builders, each running the index
   population protocol, the package population protocol (ending with
   cachePackage's PackageData call) or a reader whose cachedPackage has to
   rebuild <hash>.dat.tar (PackageData: temporary file + rename, fix 90139a3),
   with any parameters (any directories, etags, package contents in any
   chunking — several may work on the same key), and every schedule — any
   interleaving of their atomic steps, each builder stopped (killed) after any
   number of its steps, builders starting at any time: in the reached state
   every advertised name that exists — .ctl/.sig/.dat.tar.gz/.dat.tar, index and
   .etag names alike — resolves to a complete file holding exactly the origin's
   bytes for its key.  Unbounded: induction over the schedule with an invariant
   over [fold_left step].  No writer under a final name is left in the code,
   so no builder kind is excluded any more. *)
Theorem c19_invariant : forall origin srv gunzip (bs : list builder) (sched : list nat),
  origin_gunzip origin gunzip -> etag_names_content origin srv -> builders_ok origin bs ->
  CacheSound origin (dsk (run gunzip srv (init (progs bs)) sched)) /\
  (* ... and for the order of cachePackage the source of this run has (control section last
     since fix 6729dee), indeed for both orders *)
  CacheSound origin (dsk (run gunzip srv (init (progs_ord (ctl_last_of_calls cache_package_calls) bs)) sched)) /\
  forall cl, CacheSound origin (dsk (run gunzip srv (init (progs_ord cl bs)) sched)).
Proof.
  intros. split; [apply population_sound; assumption|].
  split; [|intros cl]; apply population_sound_ord; assumption.
Qed.
Print Assumptions c19_invariant.

(* The index-revision half, explicitly.  The origin may change its index
   revision between ANY two steps ([srv] is an arbitrary function of the step
   number: any sequence of updates and roll-backs, also between one builder's
   HEAD, its Stat and its GET), any number of index downloads and package
   builders run and are killed in any interleaving.  In every reachable state
   every advertised APKINDEX/<etag>.tar.gz (and <etag>.etag) is complete and
   holds exactly the bytes the origin served together with THAT etag: the etag
   was really answered at some earlier step, with this body, and whenever the
   origin answers with this etag the body is this one. *)
Theorem c19_index_revision_exact : forall origin srv gunzip (bs : list builder) sched dir etag,
  origin_gunzip origin gunzip -> etag_names_content origin srv -> builders_ok origin bs ->
  let s := run gunzip srv (init (progs bs)) sched in
  dsk s (PIndex dir etag) <> None ->
  exists body,
    resolve (dsk s) (PIndex dir etag) = Some (body, true) /\
    (exists t, t < clk s /\ srv t dir = (etag, body)) /\
    (forall t, fst (srv t dir) = etag -> snd (srv t dir) = body).
Proof.
  intros origin srv gunzip bs sched dir etag Hgz Hsrv Hok s Hex.
  exists (origin (PIndex dir etag)). split; [|split].
  - apply (population_sound origin srv gunzip bs sched Hgz Hsrv Hok (PIndex dir etag) eq_refl Hex).
  - destruct (index_names_were_served gunzip srv false bs sched dir etag Hex) as (t & Ht & E).
    exists t. split; [exact Ht|]. pose proof (Hsrv t dir) as B. rewrite E in B.
    destruct (srv t dir) as [e b]. simpl in *. congruence.
  - intros t E. rewrite <- E. apply Hsrv.
Qed.
Print Assumptions c19_index_revision_exact.

(* The design decision behind it, pinned: the file is named by the etag of the
   GET response, not of the HEAD.  With the HEAD's etag the statement is FALSE:
   the origin moves from E1 to E2 between a builder's HEAD and its GET, and E2's
   bytes end up, complete, under E1's name (seeded change C19-2).  On the same
   origin and schedule the code as it is keeps the cache sound. *)
Theorem c19_head_etag_refuted : exists origin srv gunzip sched dir etag c,
  etag_names_content origin srv /\ origin_gunzip origin gunzip /\
  resolve (dsk (run gunzip srv (init [[Head 0 dir true]]) sched)) (PIndex dir etag) = Some (c, true) /\
  c <> origin (PIndex dir etag) /\
  CacheSound origin (dsk (run gunzip srv (init (progs [BIndex dir])) sched)).
Proof.
  exists h_origin, h_srv, w_gunzip, (repeat 0 12), "i", "E1", (h_body "E2").
  destruct head_etag_witness as (A & B & _).
  split; [exact h_srv_ok|]. split; [intros dir h; reflexivity|].
  split; [exact A|]. split; [exact B|].
  apply population_sound; [intros dir h; reflexivity | exact h_srv_ok | intros dir a [E|[]]; discriminate].
Qed.
Print Assumptions c19_head_etag_refuted.

(* ... and tied to the source: in cacheTransport.get the cachePlacer callback
   computes the name from the etag of the response it is handed, and
   retrieveAndSaveFile hands it the response whose body it copies — which is
   what the model's index builder does (its Get step carries no outside name). *)
Theorem c19_index_name_code :
  (forall dir, name_sources_of (after_head_and_miss (BIndex dir)) = index_name_sources) /\
  retrieve_response_flow = response_flow_model.
Proof. split; [intros dir|]; reflexivity. Qed.
Print Assumptions c19_index_name_code.

(* Temporary names are private.  No hypothesis at all: for every origin, every
   list of builders and every schedule, whatever a step of builder [i] changes
   on the disk is a temporary name of builder [i] itself, or a name without an
   owner (a cache directory, an advertised name) — never a temporary path of
   another builder; and the paths two builders may still write are disjoint.
   (In the model the identity [o] of a temporary name stands for the O_EXCL
   guarantee of os.CreateTemp / os.MkdirTemp; c19_temp_names_code ties it.) *)
Theorem c19_private_temp_names : forall gunzip srv (bs : list builder) sched,
  let s := run gunzip srv (init (progs bs)) sched in
  (forall i p, dsk (step gunzip srv s i) p <> dsk s p -> owner p = Some i \/ owner p = None) /\
  (forall i j pi pj p, nth_error (procs s) i = Some pi -> nth_error (procs s) j = Some pj -> i <> j ->
     In p (writes pi) -> ~ In p (writes pj)).
Proof.
  intros gunzip srv bs sched s. split.
  - intros i p. apply (private_temp_names gunzip srv false bs sched i p).
  - intros i j pi pj p. apply (write_sets_disjoint gunzip srv false bs sched i j pi pj p).
Qed.
Print Assumptions c19_private_temp_names.

(* ... and the invariant NEEDS it.  Two index downloads that share one fixed
   temporary name (seeded change C19-3): both miss, the first publishes its
   link, the second truncates and rewrites the shared file, finds the
   destination present and removes "its" copy — AdvertiseCachedFile's os.Remove
   of the target of the published link: the entry exists and resolves to
   nothing, for ever.  The same two downloads on the same schedule with private
   names keep the cache sound. *)
Theorem c19_shared_temp_refuted : exists origin srv gunzip sched n,
  etag_names_content origin srv /\ origin_gunzip origin gunzip /\ is_adv n = true /\
  let d := dsk (run gunzip srv (init [[Head 0 "i" false]; [Head 0 "i" false]]) sched) in
  d n <> None /\ resolve d n = None /\
  progs [BIndex "i"; BIndex "i"] = [[Head 0 "i" false]; [Head 1 "i" false]] /\
  CacheSound origin (dsk (run gunzip srv (init (progs [BIndex "i"; BIndex "i"])) sched)).
Proof.
  exists w_origin, w_srv, w_gunzip, t_sched, (PIndex "i" "E").
  destruct shared_temp_witness as (_ & A & _ & B).
  split; [exact w_srv_ok|]. split; [exact w_gunzip_ok|]. split; [reflexivity|].
  cbv zeta. split; [change (t_disk (PIndex "i" "E") <> None); rewrite A; discriminate|].
  split; [exact B|]. split; [reflexivity|].
  apply population_sound; [exact w_gunzip_ok | exact w_srv_ok | intros dir a [E|[E|[]]]; discriminate].
Qed.
Print Assumptions c19_shared_temp_refuted.

(* how the temporary files and directories are created at every download site,
   read from the source: os.CreateTemp / os.MkdirTemp (a fresh name per call)
   in retrieveAndSaveFile, PackageData and ExpandApk, fixed names only INSIDE
   ExpandApk's private directory; and the path that is advertised / renamed is
   the one CreateTemp returned *)
Theorem c19_temp_names_code : temp_sites = temp_sites_model /\ temp_flows = temp_flows_model.
Proof. split; reflexivity. Qed.
Print Assumptions c19_temp_names_code.

(* From any sound cache state a lookup is a miss, or a hit with exactly the
   origin's bytes for the requested key (never another package's or another
   index revision's): what a build installs with the cache is what it installs
   without it. *)
Theorem c19_transparent : forall origin datahash_of d dir ctlh,
  CacheSound origin d ->
  installed_eq (package_with_cache origin datahash_of d dir ctlh) (fetch_origin origin datahash_of dir ctlh) /\
  (forall m, read_package datahash_of d dir ctlh = Hit m ->
     m_ctl m = origin (PMember dir MCtl ctlh) /\
     m_dat m = origin (PMember dir MDat (datahash_of (m_ctl m))) /\
     m_tar m = origin (PMember dir MTar (datahash_of (m_ctl m))) /\
     (forall s, m_sig m = Some s -> s = origin (PMember dir MSig ctlh))) /\
  (forall etag c b, read_index d dir etag = Some (c, b) -> c = origin (PIndex dir etag) /\ b = true).
Proof.
  intros. split; [apply with_cache_eq_without; assumption|]. split.
  - intros m Hm. eapply read_package_sound; eauto.
  - intros. eapply read_index_sound; eauto.
Qed.
Print Assumptions c19_transparent.

(* Offline lookup in the disk model ([read_offline d e]: the entry [e] is a parameter).
   HYPOTHETICAL CHOICE (fetchOffline before c5d0145: the newest entry whatever its name): "whatever
   directory entry is opened is a complete entry with the origin's bytes" is FALSE — [e] may be the
   temporary file of a killed (or still running) download.  The code of this run only opens advertised
   names (c19_offline_code, c19_offline_entry_whole), for which c19_offline_partial below applies. *)
Theorem c19_offline_refuted : exists origin srv gunzip (bs : list builder) sched e c,
  builders_ok origin bs /\ etag_names_content origin srv /\
  read_offline (dsk (run gunzip srv (init (progs bs)) sched)) e = Some (c, false) /\
  forall n, origin n <> c.
Proof.
  exists w_origin, w_srv, w_gunzip, w2_bs, w2_sched, (PTmpFile "i" 0), ["i1"].
  split; [intros dir a [E|[]]; discriminate|].
  split; [exact w_srv_ok|].
  destruct offline_returns_partial as [A B]. split; [exact A|exact B].
Qed.
Print Assumptions c19_offline_refuted.

(* ... what holds of the code of this run: the entry it opens is an advertised name
   (c19_offline_code / c19_offline_entry_whole), and for an advertised name the response is the
   complete origin content of that name.  (Name kept from the time when nothing restricted the choice
   to advertised names; what is still missing is which FILE the name belongs to: C19-F6.) *)
Theorem c19_offline_partial : forall origin d e c b,
  CacheSound origin d -> is_adv e = true ->
  read_offline d e = Some (c, b) -> c = origin e /\ b = true.
Proof. exact read_offline_sound. Qed.
Print Assumptions c19_offline_partial.

(* The rebuild of <hash>.dat.tar (PackageData, reached from cachedPackage when
   control and data sections are advertised and the tar is not — a builder
   killed between the 3rd and 4th AdvertiseCachedFile).  Until fix 90139a3 it
   wrote IN PLACE under the final name and refuted both statements above
   (findings C19-F1 / C19-F1b, now `fixed:`); the scenarios that exposed it stay
   in the harness corpus.  Concrete instances of c19_invariant for it: a reader
   killed inside the rebuild leaves only a temporary file and the name is
   published by a later download; a reader that finishes publishes a complete
   regular file; every lookup is a hit with the origin's tar. *)
Theorem c19_tarfile_rebuild :
  builders_ok w_origin w_bs /\ origin_gunzip w_origin w_gunzip /\
  read_package w_dh w_disk "p" "c" = w_hit /\
  w_disk (PTmpFile "p" 1) = Some (File ["t1"] false) /\
  w_disk (PMember "p" MTar "d") = Some (Link (PTmpMem "p" 2 MTar)) /\
  read_package w_dh w_disk2 "p" "c" = w_hit /\
  w_disk2 (PMember "p" MTar "d") = Some (File ["t1"; "t2"] true) /\
  w_disk2 (PTmpFile "p" 1) = None.
Proof. split; [exact w_bs_ok|]. split; [exact w_gunzip_ok|]. exact rebuild_examples. Qed.
Print Assumptions c19_tarfile_rebuild.

(* The order of the durable file-system calls that goextract reads from the
   source on this run is the order of the model's steps: download to a
   temporary name, copy, THEN advertise (retrieveAndSaveFile); stat, then remove
   the own copy or symlink (AdvertiseCachedFile); control, signature, data, tar
   (cachePackage); and PackageData creates a TEMPORARY file, copies into it and
   renames it to the final name (os.Remove calls are its error paths). *)
Theorem c19_code_order :
  (forall o d e c1 c2, index_calls (populate_index o d e [c1; c2]) false =
                       List.filter (fun c => negb (String.eqb c "os.Remove")) retrieve_calls) /\
  advertise_call_names = advertise_calls /\
  (forall o d a s, a_sig a = Some s ->
     cache_package_call_names (pkg_advs_ord (ctl_last_of_calls cache_package_calls) o d a) = cache_package_calls) /\
  package_data_call_names = List.filter not_remove package_data_calls /\
  retrieve_literals = ["os.CreateTemp:*.tmp"] /\ expand_literals = ["os.MkdirTemp:expand-apk"].
Proof.
  split; [intros; reflexivity|]. split; [reflexivity|].
  split; [intros o d a s H; unfold pkg_advs_ord, pkg_advs, pkg_advs_ctl_last;
          destruct (ctl_last_of_calls cache_package_calls) eqn:E; vm_compute in E; try discriminate E;
          rewrite H; reflexivity|].
  repeat split; reflexivity.
Qed.
Print Assumptions c19_code_order.

(* the validator run on listings of real cache directories decides the
   readable statement *)
Theorem c19_validator_decides : forall tab l, validate_listing tab l = [] <-> ListingSound tab l.
Proof. exact validate_listing_iff. Qed.
Print Assumptions c19_validator_decides.

(* non-vacuity: two builders fetching the same signed package plus an index
   download, interleaved and run to completion, give a hit with the origin's
   bytes; the hypotheses of c19_invariant are met *)
Definition ex_origin : path -> content := fun n =>
  match n with
  | PMember _ MCtl _ => ["ctl"] | PMember _ MSig _ => ["sig"]
  | PMember _ MDat _ => ["gz1"; "gz2"] | PMember _ MTar _ => ["t1"; "t2"; "t3"]
  | _ => ["i1"; "i2"]
  end.
Definition ex_apk : apk :=
  {| a_sig := Some ["sig"]; a_ctl := ["ctl"]; a_dat := ["gz1"; "gz2"]; a_tar := ["t1"; "t2"; "t3"];
     a_ctlh := "c"; a_dath := "d" |}.
Definition ex_bs := [BPackage "p" ex_apk; BIndex "i"; BPackage "p" ex_apk].
Fixpoint alternate (n : nat) : list nat := match n with O => [] | S k => [0; 2; 1] ++ alternate k end.
Example c19_two_builders_hit :
  builders_ok ex_origin ex_bs /\ (forall b, In b ex_bs -> is_reader b = false) /\
  let d := dsk (run w_gunzip w_srv (init (progs ex_bs)) (alternate 40)) in
  read_package (fun _ => "d") d "p" "c" =
    Hit {| m_ctl := ["ctl"]; m_sig := Some ["sig"]; m_dat := ["gz1"; "gz2"]; m_tar := ["t1"; "t2"; "t3"] |} /\
  read_index d "i" "E" = Some (["i1"; "i2"], true) /\
  (* both stat before either links: the loser's EEXIST is tolerated, its copy stays *)
  d (PMember "p" MTar "d") = Some (Link (PTmpMem "p" 0 MTar)) /\ d (PTmpMem "p" 2 MTar) <> None.
Proof.
  split.
  { intros dir a [E|[E|[E|[]]]]; inversion E; subst; repeat split; try reflexivity;
      intros s E'; inversion E'; reflexivity. }
  split.
  { intros b [<-|[<-|[<-|[]]]]; reflexivity. }
  vm_compute. repeat split. discriminate.
Qed.

(* The lookup itself is not atomic.  Full statement (candidate): "a hit for a
   signed package carries its signature section" (the size of which is written
   into the image's installed database).  REFUTED even for population-only
   builders and without any crash (finding C19-F2): cachedPackage looks for the
   signature when only the control section is advertised and reads its absence
   as "unsigned", then finds data and tar, advertised meanwhile. *)
Theorem c19_lookup_not_atomic_refuted : exists origin srv gunzip datahash_of (bs : list builder) sched1 sched2 dir ctlh m m',
  builders_ok origin bs /\ (forall b, In b bs -> is_reader b = false) /\
  let s0 := init (progs bs) in
  let d1 := dsk (run gunzip srv s0 sched1) in
  let d2 := dsk (run gunzip srv s0 (sched1 ++ sched2)) in
  read_package_seq datahash_of d1 d2 dir ctlh = Hit m /\ m_sig m = None /\
  read_package datahash_of d2 dir ctlh = Hit m' /\ m_sig m' = Some (origin (PMember dir MSig ctlh)).
Proof.
  exists ex_origin, w_srv, w_gunzip, (fun _ => "d"), [BPackage "p" ex_apk], (repeat 0 19), (repeat 0 30), "p", "c".
  eexists. eexists.
  split.
  { intros dir a [E|[]]; inversion E; subst; repeat split; try reflexivity;
      intros s E'; inversion E'; reflexivity. }
  split.
  { intros b [<-|[]]; reflexivity. }
  cbv zeta. split; [vm_compute; reflexivity|]. split; [reflexivity|].
  split; [vm_compute; reflexivity|]. reflexivity.
Qed.
Print Assumptions c19_lookup_not_atomic_refuted.

(* The same hole without any concurrency, and permanent (finding C19-F3): a
   package is rebuilt under the same name-version with a changed control section
   and a byte-identical data section; the first build runs to the end, the build
   of the new revision is killed right after advertising its control section (19
   steps).  An ATOMIC lookup of the new revision is a hit — control section new,
   data and tar found under the shared datahash — without the signature section. *)
Definition f3_origin : path -> content := fun n =>
  match n with
  | PMember _ MCtl h => if String.eqb h "c2" then ["ctl2"] else ["ctl"]
  | PMember _ MSig h => if String.eqb h "c2" then ["sig2"] else ["sig"]
  | _ => ex_origin n
  end.
Definition f3_apk2 : apk :=
  {| a_sig := Some ["sig2"]; a_ctl := ["ctl2"]; a_dat := ["gz1"; "gz2"]; a_tar := ["t1"; "t2"; "t3"];
     a_ctlh := "c2"; a_dath := "d" |}.
Definition f3_bs := [BPackage "p" ex_apk; BPackage "p" f3_apk2].
Definition f3_sched : list nat := repeat 0 40 ++ repeat 1 19.
Lemma f3_bs_ok : builders_ok f3_origin f3_bs.
Proof.
  intros dir a [E|[E|[]]]; inversion E; subst; repeat split; try reflexivity;
    intros s E'; inversion E'; reflexivity.
Qed.
Theorem c19_stale_hit_without_sig_refuted : exists origin srv gunzip datahash_of (bs : list builder) sched dir a m,
  builders_ok origin bs /\ (forall b, In b bs -> is_reader b = false) /\
  In (BPackage dir a) bs /\ a_sig a <> None /\
  read_package datahash_of (dsk (run gunzip srv (init (progs bs)) sched)) dir (a_ctlh a) = Hit m /\
  m_ctl m = a_ctl a /\ m_sig m = None.
Proof.
  exists f3_origin, w_srv, w_gunzip, (fun _ => "d"), f3_bs, f3_sched, "p", f3_apk2.
  eexists. split; [exact f3_bs_ok|].
  split; [intros b [<-|[<-|[]]]; reflexivity|].
  split; [right; left; reflexivity|]. split; [discriminate|].
  split; [vm_compute; reflexivity|]. split; reflexivity.
Qed.
Print Assumptions c19_stale_hit_without_sig_refuted.

(* THE REPAIR of C19-F2 and C19-F3 (fixes/C19-F2.patch, applied to /repo as 6729dee):
   cachePackage advertises the control section LAST ([progs_ord true]).  Then
   for every origin, builders, schedule and kills, a cachedPackage lookup that
   reads the control section in one reachable state, the signature section in
   a later one, the data section in a later one and the tar in a still later
   one (any steps of any builders in between) is a miss because the control
   section is not advertised, or a hit with EXACTLY what a build without cache
   obtains — the signature section included when the package has one, absent
   when it has none — and never needs the rebuild: c19_transparent for
   non-atomic lookups.  Hypotheses beyond c19_invariant's ([builders_decl]):
   whether a package is signed is a function of its control checksum, and the
   data section is the one whose hash the control section declares (which
   verifyExpanded checks on every fresh download).  The c19_invariant itself
   holds for this order too. *)
Theorem c19_f2_fix_transparent : forall origin srv gunzip datahash_of signed (bs : list builder)
    sched1 sched2 sched3 sched4 dir ctlh,
  origin_gunzip origin gunzip -> etag_names_content origin srv -> builders_ok origin bs ->
  builders_decl datahash_of signed true bs ->
  let s0 := init (progs_ord true bs) in
  let d1 := dsk (run gunzip srv s0 sched1) in
  let d2 := dsk (run gunzip srv s0 (sched1 ++ sched2)) in
  let d3 := dsk (run gunzip srv s0 ((sched1 ++ sched2) ++ sched3)) in
  let d4 := dsk (run gunzip srv s0 (((sched1 ++ sched2) ++ sched3) ++ sched4)) in
  CacheSound origin d4 /\
  match read_package_seq4 datahash_of d1 d2 d3 d4 dir ctlh with
  | Hit m => m = fetch_origin_exact origin datahash_of signed dir ctlh
  | Miss => d1 (PMember dir MCtl ctlh) = None
  | NeedsRebuild => False
  end.
Proof.
  intros. split; [apply population_sound_ord; assumption | apply fix_lookup_exact; assumption].
Qed.
Print Assumptions c19_f2_fix_transparent.

(* non-vacuity, and the two witnesses above replayed with the repaired order:
   the racing lookup of c19_lookup_not_atomic_refuted (control and signature
   looked up after 19 steps, data and tar at the end) and the lookup after the
   kill of c19_stale_hit_without_sig_refuted are now MISSES; a lookup after the
   run is a hit with the signature section *)
Definition f3_signed (dir h : string) : bool := true.
Example c19_f2_fix_examples :
  builders_ok f3_origin f3_bs /\ builders_decl (fun _ => "d") f3_signed true f3_bs /\
  let s0 := init (progs_ord true [BPackage "p" ex_apk]) in
  read_package_seq (fun _ => "d") (dsk (run w_gunzip w_srv s0 (repeat 0 19)))
                   (dsk (run w_gunzip w_srv s0 (repeat 0 19 ++ repeat 0 30))) "p" "c" = Miss /\
  read_package (fun _ => "d") (dsk (run w_gunzip w_srv (init (progs_ord true f3_bs)) f3_sched)) "p" "c2" = Miss /\
  read_package (fun _ => "d") (dsk (run w_gunzip w_srv (init (progs_ord true f3_bs)) (f3_sched ++ repeat 1 20))) "p" "c2"
    = Hit (fetch_origin_exact f3_origin (fun _ => "d") f3_signed "p" "c2").
Proof.
  split; [exact f3_bs_ok|]. split.
  { intros dir a [E|[E|[]]]; inversion E; subst; split; try reflexivity; intros _; split; try reflexivity; discriminate. }
  vm_compute. repeat split.
Qed.

(* What a lookup can rely on today (the "resolves_stable" of the notes): an
   advertised entry that is present stays present, with the origin's content,
   whatever any builder does afterwards — nothing is ever removed or replaced
   under an advertised name. *)
Theorem c19_entries_stable : forall origin srv gunzip (bs : list builder) sched sched' n,
  origin_gunzip origin gunzip -> etag_names_content origin srv -> builders_ok origin bs ->
  is_adv n = true ->
  dsk (run gunzip srv (init (progs bs)) sched) n <> None ->
  resolve (dsk (run gunzip srv (init (progs bs)) (sched ++ sched'))) n = Some (origin n, true) /\
  resolve (dsk (run gunzip srv (init (progs bs)) sched)) n = Some (origin n, true).
Proof. exact (entries_stable false). Qed.
Print Assumptions c19_entries_stable.

(* ... and therefore the PackageData call that ends cachePackage (after the four
   AdvertiseCachedFile calls) never enters the rebuild: whenever a package
   builder is about to perform it, <hash>.dat.tar resolves to the origin's tar
   and the step does nothing. *)
Theorem c19_cache_package_skips_rebuild : forall origin srv gunzip (bs : list builder) sched j dir a gz tar tmp rest,
  origin_gunzip origin gunzip -> etag_names_content origin srv -> builders_ok origin bs ->
  let s := run gunzip srv (init (progs bs)) sched in
  nth_error bs j = Some (BPackage dir a) ->
  nth_error (procs s) j = Some (Rebuild gz tar tmp :: rest) ->
  resolve (dsk s) tar = Some (origin tar, true) /\ snd (exec gunzip (dsk s) (Rebuild gz tar tmp)) = [].
Proof. exact cache_package_skips_rebuild. Qed.
Print Assumptions c19_cache_package_skips_rebuild.

(* Offline mode, the part c19_offline_partial leaves open.  fetchOffline may
   open the temporary file of an index download (killed or still running).
   No hypothesis on the schedule: for every origin, builders, schedule and
   kills, what it then reads is a PREFIX of the body of a response the origin
   really gave, earlier, for that directory; and if the file is complete
   (written in full and closed — the kill came after the last write, before
   the link) it is that whole body: a complete origin revision [e], the bytes
   [origin (PIndex dir e)].  So an offline build that picks a temporary file
   either parses a complete served revision or a strict prefix of one (which,
   signed and gzip-framed, fails to parse — confirmed on the real code at every
   truncation point tried, harness stage offline-trunc). *)
Theorem c19_offline_tmp_complete_is_origin : forall origin srv gunzip (bs : list builder) sched j dir c b,
  etag_names_content origin srv ->
  let s := run gunzip srv (init (progs bs)) sched in
  nth_error bs j = Some (BIndex dir) ->
  read_offline (dsk s) (PTmpFile dir j) = Some (c, b) ->
  exists t e w k, t < clk s /\ srv t dir = (e, w) /\ w = origin (PIndex dir e) /\
                  c = firstn k w /\ (b = true -> c = origin (PIndex dir e)).
Proof.
  intros origin srv gunzip bs sched j dir c b Hsrv s Hb Hr.
  pose proof (index_tmp_is_origin_prefix gunzip srv false bs sched j dir Hb) as H.
  change (run gunzip srv (init (progs_ord false bs)) sched) with s in H.
  unfold read_offline, resolve in Hr.
  destruct (dsk s (PTmpFile dir j)) as [[c' b'|t|]|]; cbv iota in H; try discriminate; try contradiction.
  inversion Hr; subst c' b'. destruct H as (t & e & w & k & Ht & E & Hc & Hb').
  assert (Hw : w = origin (PIndex dir e)).
  { pose proof (Hsrv t dir) as B. rewrite E in B. exact B. }
  exists t, e, w, k. repeat split; auto. intros Eb. rewrite (Hb' Eb). exact Hw.
Qed.
Print Assumptions c19_offline_tmp_complete_is_origin.


(* ======================================================================================
   Request coalescing inside one process (Model/CacheFlight.v): singleflight groups,
   flightCache.Do, the etag cache in front of headFlight, the sync.Once cache of expanded
   packages — one model object, configured by what the SHAPE of the source says
   (goextract: which lookups precede the work, what is stored, under which condition).
   ====================================================================================== *)

(* the configurations the model runs in are the ones read from the source of this run *)
Theorem c19_flight_code :
  conf_of_shape flight_do_shape = Some conf_flight_cache /\
  conf_of_shape head_shape = Some conf_head_etag /\
  conf_of_shape get_shape = Some conf_singleflight /\
  etag_cache_guards = ["Cache.load:nil-etag-cache-returns"; "Cache.store:nil-etag-cache-returns"] /\
  (* apkCache.get since fix 6e5c862 (was finding C19-F4): a failed entry's once is forgotten, so the memo of
     expanded packages is a flight cache too — successes kept, failures not.  (Without the
     "after:if-err-forget-once" of the shape it would be conf_once: everything kept.) *)
  conf_of_once_shape apk_cache_shape = Some conf_flight_cache /\
  conf_of_once_shape (List.filter (fun t => negb (String.eqb t "after:if-err-forget-once")) apk_cache_shape) = Some conf_once.
Proof. repeat split; reflexivity. Qed.
Print Assumptions c19_flight_code.

(* Transparency and coalescing, for EVERY configuration, every number of callers and keys and
   every interleaving of their steps with the executions of fn (any trace of events; outcomes of fn
   chosen by the environment): whatever any caller is handed for a key is a result that some
   execution of fn returned for that key; at every moment at most one execution runs per key and
   every finished execution was started by a caller. *)
Theorem c19_flight_transparent : forall cf tr,
  let s := frun cf finit tr in
  Transparent s /\ Coalesced s /\ (forall k o, memo s k = Some o -> In (k, o) (execs s)).
Proof.
  intros cf tr s. split; [apply flight_transparent|]. split; [apply flight_coalesced|].
  intros k o. apply memo_from_exec.
Qed.
Print Assumptions c19_flight_transparent.

(* Failures are NOT memoised by a flight cache (the configuration read from flightCache.Do, the one
   read from apkCache.get — the per-process memo of expanded packages, repaired by 6e5c862 — and
   any configuration that is not "keep everything"): in every reachable state the map holds
   successes only; and after ANY history in which every execution for key k failed, a later call —
   made when nothing runs for k — executes fn again, and if that execution succeeds the caller gets
   its value (and the flight cache now remembers it).  A transient failure is never permanent. *)
Theorem c19_flight_no_error_memo : forall cf tr k c v,
  conf_of_shape flight_do_shape = Some cf \/ conf_of_once_shape apk_cache_shape = Some cf \/ f_mode cf <> MAll ->
  let s := frun cf finit tr in
  NoErrorMemo s /\
  (flight s k = None -> pending s = [] ->
   (forall o, In o (execs_of k s) -> is_ok o = false) ->
   let s' := frun cf s (call_seq c k (OOk v)) in
   started s' = k :: started s /\ execs s' = (k, OOk v) :: execs s /\ rets s' = (c, k, OOk v) :: rets s /\
   memo s' k = (match f_mode cf with MSuccess => Some (OOk v) | _ => None end)).
Proof.
  intros cf tr k c v H s.
  assert (Hm : f_mode cf <> MAll).
  { destruct H as [H|[H|H]]; [| |exact H]; vm_compute in H; inversion H; discriminate. }
  split; [apply flight_no_error_memo; exact Hm|].
  intros Hf Hp Hall. apply (call_after_failures cf tr k c v Hm Hf Hp Hall).
Qed.
Print Assumptions c19_flight_no_error_memo.

(* The repaired memo of expanded packages, explicitly (was finding C19-F4, fixed by 6e5c862): for the
   configuration read from apkCache.get, a sequence of calls whose first execution fails and whose later
   ones succeed is observed as: executed/error, executed/success, not executed/that success — a transient
   failure of a package download costs one build, not the process.  (The replay on the real code: harness
   stage shared, case package-403-once.) *)
Theorem c19_package_memo_forgets_failures : forall cf,
  conf_of_once_shape apk_cache_shape = Some cf ->
  model_seq cf [("k", OErr "e1"); ("k", OOk "v2"); ("k", OOk "v3")] =
    [ {| oc_key := "k"; oc_exec := true; oc_out := OErr "e1"; oc_res := OErr "e1" |};
      {| oc_key := "k"; oc_exec := true; oc_out := OOk "v2"; oc_res := OOk "v2" |};
      {| oc_key := "k"; oc_exec := false; oc_out := OOk "v3"; oc_res := OOk "v2" |} ] /\
  (forall calls tag, validate_seq tag [] (model_seq cf calls) = []).
Proof.
  intros cf H. vm_compute in H. inversion H; subst cf. split; [vm_compute; reflexivity|].
  intros calls tag. apply validate_seq_iff. apply seq_sound. discriminate.
Qed.
Print Assumptions c19_package_memo_forgets_failures.

(* HYPOTHETICAL SHAPE (not the code of this run): a once-cache that keeps every result, errors included —
   [conf_once], what apkCache.get was before 6e5c862 and what seeded change C19-6 turns flightCache.Do
   into.  For it the statement of c19_flight_no_error_memo is FALSE: one failed execution and every
   later call for the key, whatever fn would return now, is handed that error without fn being executed
   again; the same sequence on a flight cache executes again and succeeds.  General form: with the
   recheck a memoised result of either kind is permanent.  Kept as the reason why the shape matters
   (c19_flight_code pins it) and as the model side of the regression replays. *)
Theorem c19_error_memoising_once_refuted :
  (exists tr k c v, let s := frun conf_once finit tr in
     flight s k = None /\ pending s = [] /\ (forall o, In o (execs_of k s) -> is_ok o = false) /\
     let s' := frun conf_once s (call_seq c k (OOk v)) in
     started s' = started s /\ exists e, rets s' = (c, k, OErr e) :: rets s) /\
  (forall cf tr k o c o2, f_recheck cf = true -> f_mode cf <> MNone ->
     let s := frun cf finit tr in
     memo s k = Some o -> pending s = [] ->
     let s' := frun cf s (call_seq c k o2) in
     rets s' = (c, k, o) :: rets s /\ started s' = started s /\ execs s' = execs s) /\
  model_seq conf_once [("k", OErr "e1"); ("k", OOk "v2"); ("k", OOk "v3")] =
    [ {| oc_key := "k"; oc_exec := true; oc_out := OErr "e1"; oc_res := OErr "e1" |};
      {| oc_key := "k"; oc_exec := false; oc_out := OOk "v2"; oc_res := OErr "e1" |};
      {| oc_key := "k"; oc_exec := false; oc_out := OOk "v3"; oc_res := OErr "e1" |} ] /\
  model_seq conf_flight_cache [("k", OErr "e1"); ("k", OOk "v2"); ("k", OOk "v3")] =
    [ {| oc_key := "k"; oc_exec := true; oc_out := OErr "e1"; oc_res := OErr "e1" |};
      {| oc_key := "k"; oc_exec := true; oc_out := OOk "v2"; oc_res := OOk "v2" |};
      {| oc_key := "k"; oc_exec := false; oc_out := OOk "v3"; oc_res := OOk "v2" |} ].
Proof.
  split.
  { exists (call_seq 0 "k" (OErr "e1")), "k", 1, "v2". cbv zeta.
    split; [reflexivity|]. split; [reflexivity|]. split.
    - intros o Ho. vm_compute in Ho. destruct Ho as [<-|[]]. reflexivity.
    - split; [reflexivity|]. exists "e1". reflexivity. }
  split; [intros cf tr k o c o2 Hr Hm; apply memo_permanent_call; assumption|].
  split; vm_compute; reflexivity.
Qed.
Print Assumptions c19_error_memoising_once_refuted.

(* A memoised result is permanent and nothing is executed for its key again (exactly-once on
   success), whenever the leader looks at the map again inside the group (flightCache.Do, sync.Once):
   after any further events the entry is unchanged and the number of executions started for the key
   has not grown. *)
Theorem c19_flight_memo_permanent : forall cf tr tr' k o, f_recheck cf = true ->
  let s := frun cf finit tr in
  memo s k = Some o ->
  let s' := frun cf s tr' in
  memo s' k = Some o /\ count_key k (started s') = count_key k (started s) /\ flight s' k = None.
Proof. exact memo_permanent. Qed.
Print Assumptions c19_flight_memo_permanent.

(* What an observer sees of ANY sequence of calls made one after the other on a flight cache or a
   bare group is sound — a call that executed fn returns what fn returned, a call that did not
   returns a success produced by an earlier execution for the same key, never an error — and the
   validator the harness runs on observed sequences decides exactly that. *)
Theorem c19_flight_seq_sound : forall cf calls tag,
  f_mode cf <> MAll ->
  validate_seq tag [] (model_seq cf calls) = [] /\
  (forall l, validate_seq tag [] l = [] <-> SeqSound [] l).
Proof.
  intros cf calls tag Hm. split; [apply validate_seq_iff; apply seq_sound; exact Hm|].
  intros l. apply validate_seq_iff.
Qed.
Print Assumptions c19_flight_seq_sound.

Example c19_flight_examples :
  (* two callers coalesced into one execution, a third one after it hits the memo *)
  List.map snd (rets (frun conf_flight_cache finit
     [ELoad 0 "k"; EEnter 0 "k"; ELoad 1 "k"; EEnter 1 "k"; EFinish "k" (OOk "v"); ELoad 2 "k"])) = [OOk "v"; OOk "v"; OOk "v"] /\
  started (frun conf_flight_cache finit
     [ELoad 0 "k"; EEnter 0 "k"; ELoad 1 "k"; EEnter 1 "k"; EFinish "k" (OOk "v"); ELoad 2 "k"]) = ["k"] /\
  (* the window of cacheTransport.head: a caller whose lookup missed enters the group after the
     flight has ended and sends a second HEAD (no recheck); flightCache.Do does not *)
  started (frun conf_head_etag finit [ELoad 0 "k"; ELoad 1 "k"; EEnter 0 "k"; EFinish "k" (OOk "v"); EEnter 1 "k"]) = ["k"; "k"] /\
  started (frun conf_flight_cache finit [ELoad 0 "k"; ELoad 1 "k"; EEnter 0 "k"; EFinish "k" (OOk "v"); EEnter 1 "k"]) = ["k"].
Proof. vm_compute. repeat split. Qed.

(* ======================================================================================
   fetchOffline's choice among the entries of a cache directory
   ====================================================================================== *)

(* For every directory (any number of entries, any listing order, any modification times, ties
   included): the entry opened is an entry of the directory, no entry is newer, and of the newest
   ones it is the FIRST in listing order; it exists iff the directory is not empty; and when the
   newest modification time is unique the listing order does not matter at all. *)
Theorem c19_offline_picks_newest : forall l,
  (forall e, pick_newest l = Some e -> Newest l e /\ FirstNewest l e) /\
  (* either way — among all entries, or among the advertised ones — no advertised entry is newer *)
  (forall e, pick_newest l = Some e \/ pick_newest_adv l = Some e ->
     In e l /\ forall x, In x l -> de_adv x = true -> (de_mtime x <= de_mtime e)%N) /\
  (l <> [] -> exists e, pick_newest l = Some e) /\
  (forall l' e e', Permutation l l' -> pick_newest l = Some e -> pick_newest l' = Some e' ->
     (forall x, In x l -> de_mtime x = de_mtime e -> x = e) -> e' = e).
Proof.
  intros l. split; [intros e H; split; [apply pick_newest_newest|apply pick_first_newest]; exact H|].
  split.
  { intros e [H|H]; [apply pick_no_adv_newer; exact H|].
    destruct (pick_adv_no_adv_newer l e H) as (A & _ & B). split; assumption. }
  split; [apply pick_some|]. intros l' e e'. apply pick_unique_max.
Qed.
Print Assumptions c19_offline_picks_newest.

(* the candidates in the source of this run: the entries whose name does not end in ".tmp", i.e. the
   advertised names (fix c5d0145; before it every entry of the directory was a candidate) *)
Theorem c19_offline_code :
  offline_filter = ["skip-suffix:.tmp"] /\ pick_of_filter offline_filter = Some pick_newest_adv /\
  pick_of_filter [] = Some pick_newest.
Proof. repeat split; reflexivity. Qed.
Print Assumptions c19_offline_code.

(* What the property needs of the entry an offline request is answered from, for the choice the source
   of this run makes (was finding C19-F5, fixed by c5d0145): in EVERY directory — any leftovers of failed,
   killed or running downloads, any modification times — the entry opened is an advertised name; no
   advertised entry is newer; and it holds all the bytes of a served response whenever the advertised
   entries do (which c19_invariant gives for every reachable cache state: an advertised name that exists
   resolves to a complete file with the origin's bytes).  A partial temporary file is never opened. *)
Theorem c19_offline_entry_whole : forall pick l e,
  pick_of_filter offline_filter = Some pick -> pick l = Some e ->
  In e l /\ de_adv e = true /\
  (forall x, In x l -> de_adv x = true -> (de_mtime x <= de_mtime e)%N) /\
  ((forall x, In x l -> de_adv x = true -> de_whole x = true) -> de_whole e = true).
Proof.
  intros pick l e Hp H. vm_compute in Hp. inversion Hp; subst pick.
  destruct (pick_adv_no_adv_newer l e H) as (A & B & C).
  split; [exact A|]. split; [exact B|]. split; [exact C|]. intros Hall. apply Hall; assumption.
Qed.
Print Assumptions c19_offline_entry_whole.

Definition f5_dir : list dentry :=
  [ {| de_name := "1.tmp"; de_mtime := 10; de_adv := false; de_file := "APKINDEX.tar.gz"; de_rev := "r0"; de_whole := true |};
    {| de_name := "9.tmp"; de_mtime := 20; de_adv := false; de_file := "APKINDEX.tar.gz"; de_rev := "r1"; de_whole := false |};
    {| de_name := "e0.tar.gz"; de_mtime := 11; de_adv := true; de_file := "APKINDEX.tar.gz"; de_rev := "r0"; de_whole := true |} ].
Definition f6_dir : list dentry :=
  [ {| de_name := "100.tmp"; de_mtime := 10; de_adv := false; de_file := "a.rsa.pub"; de_rev := "only"; de_whole := true |};
    {| de_name := "101.tmp"; de_mtime := 20; de_adv := false; de_file := "b.rsa.pub"; de_rev := "only"; de_whole := true |};
    {| de_name := "ea.etag"; de_mtime := 11; de_adv := true; de_file := "a.rsa.pub"; de_rev := "only"; de_whole := true |};
    {| de_name := "eb.etag"; de_mtime := 21; de_adv := true; de_file := "b.rsa.pub"; de_rev := "only"; de_whole := true |} ].

(* HYPOTHETICAL SHAPE (not the code of this run): the choice among ALL entries — [pick_newest], what
   fetchOffline did before c5d0145.  For it the statement above is FALSE: the newest entry may be the
   leftover temporary file of a download that failed or was killed, a strict prefix of a served body,
   although a complete revision is advertised next to it; the choice of this run opens that revision in
   the same directory.  (Regression replays: fixture leftover-partial-tmp-newest, harness stage faildl.) *)
Theorem c19_offline_all_entries_refuted :
  exists l e, pick_newest l = Some e /\ de_adv e = false /\ de_whole e = false /\
    exists a, In a l /\ de_adv a = true /\ de_whole a = true /\ de_file a = "APKINDEX.tar.gz" /\
              pick_newest_adv l = Some a.
Proof.
  exists f5_dir. eexists. split; [reflexivity|]. split; [reflexivity|]. split; [reflexivity|].
  eexists. split; [right; right; left; reflexivity|]. repeat split.
Qed.
Print Assumptions c19_offline_all_entries_refuted.

(* STILL OPEN, about the code of this run (finding C19-F6): "the entry belongs to the file that was asked
   for" does not follow.  A directory holds the cached copies of several files (keyring URLs of one URL
   directory are all filed as <etag>.etag in it): every entry is advertised and whole, and a request for
   one file is answered with the bytes of another — an offline build with a wrong image.  What would
   repair it (fixes/C19-F6.patch, one directory per file): in a directory that holds the copies of ONE
   file the entry belongs to the file asked for. *)
Theorem c19_offline_shared_directory_refuted :
  (exists pick l e, pick_of_filter offline_filter = Some pick /\ pick l = Some e /\
     (forall x, In x l -> de_whole x = true) /\
     (exists a, In a l /\ de_adv a = true /\ de_file a = "a.rsa.pub") /\ de_file e <> "a.rsa.pub") /\
  (forall pick l e req, pick_of_filter offline_filter = Some pick -> pick l = Some e ->
     (forall x, In x l -> de_file x = req) -> de_file e = req).
Proof.
  split.
  - exists pick_newest_adv, f6_dir. eexists. split; [reflexivity|]. split; [reflexivity|]. split;
      [intros x [<-|[<-|[<-|[<-|[]]]]]; reflexivity|]. split;
      [eexists; split; [right; right; left; reflexivity|split; reflexivity]|discriminate].
  - intros pick l e req Hp H Hall. vm_compute in Hp. inversion Hp; subst pick.
    apply Hall. apply (pick_adv_no_adv_newer l e H).
Qed.
Print Assumptions c19_offline_shared_directory_refuted.

(* the validator run on real directories and on what the real fetchOffline opened decides the
   readable statement *)
Theorem c19_offline_validator_decides : forall req l e, validate_offline req l e = [] <-> OfflineSound req l e.
Proof. exact validate_offline_iff. Qed.
Print Assumptions c19_offline_validator_decides.

(* ======================================================================================
   The file name of a cached revision (cacheFileFromEtag)
   ====================================================================================== *)

(* For the way the source of this run builds the name — the WHOLE encoded etag, goextract:
   [etag_name_use = ["whole"]] — the name is an injective function of (directory, etag), for index
   and non-index files alike and etags of any length: two revisions of one file never share a
   cache entry, and the stat of "the HEAD etag's file" can only find that revision.  (Which
   directory a URL gets, and that the result stays inside it, is C18's subject.) *)
Theorem c19_etag_file_name_injective : forall part,
  etag_part etag_name_use = Some part ->
  etag_name_exts = [".etag"; ".tar.gz"] /\
  (forall dir dir' is_index e e',
     etag_file_name part etag_name_exts dir is_index e = etag_file_name part etag_name_exts dir' is_index e' ->
     dir = dir' /\ e = e') /\
  (forall is_index e e', etag_file_base part etag_name_exts is_index e = etag_file_base part etag_name_exts is_index e' -> e = e').
Proof.
  intros part H. vm_compute in H. inversion H; subst part. split; [reflexivity|].
  split; [intros dir dir' k e e'; apply etag_file_name_inj|intros k e e'; apply etag_file_base_inj].
Qed.
Print Assumptions c19_etag_file_name_injective.

(* HYPOTHETICAL SHAPE (not the code of this run; seeded change C19-8): only the first n characters of
   the encoded etag go into the name.  Then two different etags — object-store style ETags whose
   distinguishing generation comes after the cut — get ONE name: after a repository update the stat
   finds the old revision's file and the stale index is served without a download. *)
Theorem c19_etag_name_cut_refuted : forall n, exists e e',
  e <> e' /\ etag_file_base (etag_cut n) etag_name_exts true e = etag_file_base (etag_cut n) etag_name_exts true e'.
Proof. intros n. apply etag_cut_collides. Qed.
Print Assumptions c19_etag_name_cut_refuted.

(* Candidate: "every etag gets a usable file name" (at most NAME_MAX = 255 characters on the usual
   filesystems).  REFUTED for the code of this run (finding C19-F8): the name grows with the etag —
   8 characters for every 5 bytes of ETag, plus the extension — and nothing bounds it: for every bound
   there is an etag whose name is longer.  On the real code an index whose ETag has more than 154 bytes
   cannot be advertised (symlink: ENAMETOOLONG) and the build with the cache fails. *)
Theorem c19_etag_name_length_refuted : forall part bound,
  etag_part etag_name_use = Some part ->
  exists e, bound < String.length (etag_file_base part etag_name_exts true e).
Proof. intros part bound H. vm_compute in H. inversion H; subst part. apply etag_name_unbounded. Qed.
Print Assumptions c19_etag_name_length_refuted.

Theorem c19_names_validator_decides : forall l, validate_names l = [] <-> NamesInjective l.
Proof. exact validate_names_iff. Qed.
Print Assumptions c19_names_validator_decides.

(* ======================================================================================
   Modification times follow from the protocol (Model/CacheTimes.v)
   ====================================================================================== *)

(* What fetchOffline relies on, proved instead of observed.  For every origin (revisions changing at
   any step), every list of builders, every schedule and kills, with the modification time of a path
   = the step of the run that last changed it ([trun]): whatever listing of APKINDEX/ is taken (any
   candidate names in any order), the entry the choice of THIS run's source opens
   ([pick_of_filter offline_filter]) is an index revision that
   - is complete and holds the origin's bytes for its etag,
   - got its modification time k from the step that ADVERTISED it: the name was absent after the
     first k steps, present after k+1 with the object it has at the end (never touched again),
   - and was advertised LAST: every other advertised revision of the directory came into being at a
     step k' <= k.
   So an offline build answers with the revision whose download was published last. *)
Theorem c19_offline_opens_last_advertised : forall origin srv gunzip cl (bs : list builder) sched dir etags pick x,
  origin_gunzip origin gunzip -> etag_names_content origin srv -> builders_ok origin bs ->
  pick_of_filter offline_filter = Some pick ->
  let s0 := init (progs_ord cl bs) in
  let st := trun gunzip srv s0 sched in
  pick (index_listing (dsk (fst st)) (snd st) dir etags) = Some x ->
  In (de_rev x) etags /\ de_whole x = true /\
  resolve (dsk (fst st)) (PIndex dir (de_rev x)) = Some (origin (PIndex dir (de_rev x)), true) /\
  exists k, de_mtime x = N.of_nat k /\ k < List.length sched /\
    dsk (run gunzip srv s0 (firstn k sched)) (PIndex dir (de_rev x)) = None /\
    dsk (run gunzip srv s0 (firstn (S k) sched)) (PIndex dir (de_rev x)) = dsk (fst st) (PIndex dir (de_rev x)) /\
    forall e', In e' etags -> dsk (fst st) (PIndex dir e') <> None ->
      exists k', k' <= k /\ dsk (run gunzip srv s0 (firstn k' sched)) (PIndex dir e') = None /\
                 dsk (run gunzip srv s0 (firstn (S k') sched)) (PIndex dir e') = dsk (fst st) (PIndex dir e').
Proof.
  intros origin srv gunzip cl bs sched dir etags pick x Hgz Hsrv Hok Hp. vm_compute in Hp. inversion Hp; subst pick.
  exact (offline_opens_last_advertised gunzip origin srv Hgz Hsrv cl bs sched dir etags x Hok).
Qed.
Print Assumptions c19_offline_opens_last_advertised.

(* non-vacuity: the origin moves from E1 to E2 at step 12; two index downloads one after the other; both
   revisions end up advertised, with times 8 and 20 (the steps of their symlinks), and whatever the listing
   order the entry opened is E2, complete *)
Definition tm_origin : path -> content := fun n => match n with PIndex _ e => if String.eqb e "E1" then ["a"] else ["b"] | _ => ["?"] end.
Definition tm_srv : server := fun t dir => let e := if Nat.ltb t 12 then "E1" else "E2" in (e, tm_origin (PIndex dir e)).
Example c19_times_example :
  etag_names_content tm_origin tm_srv /\ builders_ok tm_origin [BIndex "i"; BIndex "i"] /\
  let st := trun (fun z => z) tm_srv (init (progs [BIndex "i"; BIndex "i"])) (repeat 0 12 ++ repeat 1 12) in
  snd st (PIndex "i" "E1") = Some 8 /\ snd st (PIndex "i" "E2") = Some 20 /\
  option_map de_rev (pick_newest_adv (index_listing (dsk (fst st)) (snd st) "i" ["E2"; "E1"])) = Some "E2" /\
  option_map de_rev (pick_newest_adv (index_listing (dsk (fst st)) (snd st) "i" ["E1"; "E2"; "E3"])) = Some "E2" /\
  option_map de_whole (pick_newest_adv (index_listing (dsk (fst st)) (snd st) "i" ["E1"; "E2"])) = Some true.
Proof.
  split; [intros t dir; unfold tm_srv; destruct (Nat.ltb t 12); reflexivity|].
  split; [intros dir a [E|[E|[]]]; discriminate|]. vm_compute. repeat split.
Qed.
