(* C20 — Transient network faults never corrupt a download.
   Property theorems only; each is closed by [exact] of a lemma proved in
   Proofs/TransportProofs.v and followed by Print Assumptions. The retry
   schedule is the one goextract read from transport.go on this run. *)
From Apko Require Import Base.Prelude Model.Transport Spec.TransportSpec
  Proofs.TransportProofs Generated.Transport Generated.TransportShape
  Model.TransportReq Model.TransportCache Model.TransportCallers
  Proofs.TransportReqProofs Proofs.TransportCacheProofs Proofs.TransportCallersProofs.

(* the schedule in the source is non-empty and ends with "do not retry" *)
Theorem c20_schedule_sound : sched_ok retry_schedule = true.
Proof. vm_compute. reflexivity. Qed.
Print Assumptions c20_schedule_sound.

(* For every server (any bytes, any of the three kinds), every script of body
   read outcomes (any chunking, failures at any offsets, any number of them),
   every script of connection outcomes in which every response is framed
   (Content-Length or chunked: net/http reports an early end of the connection
   as a read error) and every sequence of Read buffer sizes (the consumer may
   keep reading after errors): the model never gets stuck, and after every Read
   the bytes handed over so far are a prefix of the server's bytes, EOF being
   reported only when all of them were handed over; [progress] equals the number
   of bytes handed over. *)
Theorem c20_faithful : forall srv rds cns bufs, framed cns ->
  exists r, session srv retry_schedule rds cns bufs = Ok r /\
    forall s outs, r = Some (s, outs) ->
      Faithful (data srv) outs /\ progress s = List.length (delivered outs).
Proof. intros srv rds cns bufs H. exact (session_faithful srv retry_schedule rds cns bufs c20_schedule_sound H). Qed.
Print Assumptions c20_faithful.

(* Whatever the framing (responses without a length, closed cleanly at any
   offset, included): never duplicated, never skipped, never altered. *)
Theorem c20_prefix_any_framing : forall srv rds cns bufs,
  exists r, session srv retry_schedule rds cns bufs = Ok r /\
    forall s outs, r = Some (s, outs) ->
      (exists suf, data srv = delivered outs ++ suf) /\ progress s = List.length (delivered outs).
Proof. intros. exact (session_prefix srv retry_schedule rds cns bufs c20_schedule_sound). Qed.
Print Assumptions c20_prefix_any_framing.

(* ... but "a short body is never accepted as complete" needs the framing: a
   200 response with neither Content-Length nor chunked encoding whose
   connection is closed cleanly after 2 of 5 bytes is handed over as 2 bytes and
   EOF; no Range request is made. Finding C20-F1 (replayed on the real reader in
   the scripted corpus and through net/http in the http stage). *)
Theorem c20_short_body_unframed_refuted :
  exists srv cns bufs s outs,
    session srv retry_schedule [] cns bufs = Ok (Some (s, outs)) /\
    outs = [([1; 2]%N, ENone); ([], EEOF)] /\
    valid_outs (data srv) [] outs = ["viol:eof-before-complete"%string] /\
    reqs s = [None].
Proof. exact short_body_close_delimited. Qed.
Print Assumptions c20_short_body_unframed_refuted.

(* no duplicate, no skip: a successful reset leaves the body positioned exactly
   at [progress] — resumed by Range (206) or restarted and discarded (200); what
   the new body holds is what the server holds from there on ([suf] = what a
   close-delimited response closed early never delivers; nothing when framed) *)
Theorem c20_resume_exact : forall srv s, progress s <= List.length (data srv) ->
  exists s' ok suf, reset srv s = Ok (s', ok) /\ progress s' = progress s /\
    (dead (bdy s') = false -> skipn (progress s) (data srv) = rest (bdy s') ++ suf) /\
    (framed (conns s) -> suf = []) /\
    (ok = false -> dead (bdy s') = true).
Proof. exact reset_resumes_exactly. Qed.
Print Assumptions c20_resume_exact.

(* once retries are exhausted the Read fails with an error *)
Theorem c20_exhausted_is_error : forall srv s lenp,
  lenp <> 0 -> Forall failing (reads s) ->
  2 * List.length retry_schedule <= List.length (reads s) ->
  exists s' out, read_call srv retry_schedule s lenp = Ok (s', (out, EFail)).
Proof. intros. exact (read_call_exhausted srv retry_schedule s lenp c20_schedule_sound H H0 H1). Qed.
Print Assumptions c20_exhausted_is_error.

(* Completion: "resumed through range requests, or restarted when ranges are
   unsupported". For every server content and kind, every buffer-size sequence
   of non-zero sizes longer than the body, and every body-read script that is
   [tolerated] (Spec/TransportSpec.v, a decidable accounting on the inputs alone:
   inside each Read call every failing body read finds a [true] in the retry
   schedule — at most two per call — and a re-connection that succeeds: no Range
   header at progress 0; 206 from a Range-honouring server when progress < length;
   a 200 restart whose discarded prefix is read without a failing body read),
   with every connection served by the session's kind: the session hands over
   exactly the server's bytes, reports EOF, and no Read reports an error.
   Excluded by [tolerated], and real (the two theorems below): a fault after the
   last byte against a Range-honouring server (416), and a fault while a restart
   discards; a RejectsRange server survives faults at progress 0 only. One spot
   where [tolerated] is stricter than the reader: a failing body read that arrives
   together with the last byte to discard is swallowed by io.CopyN and costs a
   retry instead (c20_two_cuts_complete below completes that way). *)
Theorem c20_live : forall srv rds cns bufs,
  all_serve cns ->
  tolerated (List.length (data srv)) (kind srv) retry_schedule bufs 0 rds = true ->
  List.length (data srv) < List.length bufs ->
  exists s outs, session srv retry_schedule rds cns bufs = Ok (Some (s, outs)) /\
    Complete (data srv) outs.
Proof. exact (fun srv => session_live srv retry_schedule). Qed.
Print Assumptions c20_live.

Theorem c20_live_416_corner_refuted :
  exists srv rds bufs s outs,
    kind srv = HonoursRange /\ count_failing rds = 1 /\
    List.length (data srv) < List.length bufs /\ Forall (fun n => n <> 0) bufs /\
    session srv retry_schedule rds [] bufs = Ok (Some (s, outs)) /\
    delivered outs = data srv /\
    Exists (fun o => snd o = EFail) outs /\ ~ Exists (fun o => snd o = EEOF) outs /\
    reqs s = [None; Some 3; Some 3; Some 3] /\
    tolerated (List.length (data srv)) (kind srv) retry_schedule bufs 0 rds = false.
Proof. exact live_416_corner. Qed.
Print Assumptions c20_live_416_corner_refuted.

Theorem c20_live_restart_cut_refuted :
  exists srv rds bufs s outs,
    kind srv = IgnoresRange /\ count_failing rds = 2 /\
    List.length (data srv) < List.length bufs /\ Forall (fun n => n <> 0) bufs /\
    session srv retry_schedule rds [] bufs = Ok (Some (s, outs)) /\
    Exists (fun o => snd o = EFail) outs /\
    reqs s = [None; Some 2; Some 3] /\
    tolerated (List.length (data srv)) (kind srv) retry_schedule bufs 0 rds = false.
Proof. exact live_restart_cut. Qed.
Print Assumptions c20_live_restart_cut_refuted.

(* the hypotheses of c20_live are satisfiable: two faults inside one Read, at
   progress 2 of 5, survived by resuming (206) and by restarting (200) *)
Example c20_live_two_faults_in_one_read : forall k, k = HonoursRange \/ k = IgnoresRange ->
  tolerated 5 k retry_schedule [2; 2; 2; 2; 2; 2] 0
    [ {| rk := 2; rfail := false; reager := false |};
      {| rk := 1; rfail := true; reager := false |};
      {| rk := 2; rfail := false; reager := false |};
      {| rk := 0; rfail := true; reager := false |};
      {| rk := 1; rfail := false; reager := false |};
      {| rk := 1; rfail := false; reager := false |} ] = true \/
  tolerated 5 k retry_schedule [2; 2; 2; 2; 2; 2] 0
    [ {| rk := 2; rfail := false; reager := false |};
      {| rk := 1; rfail := true; reager := false |};
      {| rk := 0; rfail := true; reager := false |} ] = true.
Proof. intros k [-> | ->]; [right | left]; vm_compute; reflexivity. Qed.

(* the boolean validator run on the implementation's observed results decides
   exactly the readable statement *)
Theorem c20_validator_decides : forall dat outs,
  (valid_outs dat [] outs = [] <-> Faithful dat outs) /\
  (complete_b dat outs = true <-> Complete dat outs).
Proof. intros. split; [apply valid_outs_iff | apply complete_b_iff]. Qed.
Print Assumptions c20_validator_decides.

(* non-vacuity: a session with two cuts that completes, and the duplicate that
   a schedule ending in [true] would produce *)
Example c20_two_cuts_complete :
  exists s outs,
    session {| data := [10; 20; 30; 40; 50]%N; kind := IgnoresRange; bare := false |} retry_schedule
      [ {| rk := 2; rfail := false; reager := false |};
        {| rk := 1; rfail := true; reager := false |};
        {| rk := 1; rfail := false; reager := false |};
        {| rk := 1; rfail := true; reager := false |} ] [] [2; 2; 2; 2; 2] = Ok (Some (s, outs)) /\
    delivered outs = [10; 20; 30; 40; 50]%N /\ List.In ([], EEOF) outs.
Proof. eexists _, _. split; [vm_compute; reflexivity|]. split; [reflexivity | simpl; auto 10]. Qed.

Theorem c20_bad_schedule_refuted :
  exists srv rds cns bufs s outs,
    session srv [true; true; true] rds cns bufs = Ok (Some (s, outs)) /\
    valid_outs (data srv) [] outs <> [].
Proof. exact bad_schedule_duplicates. Qed.
Print Assumptions c20_bad_schedule_refuted.

(* ======================================================================== *)
(* Session 6: the request side, error responses with bodies, the callers,   *)
(* the retry budget, the cached index download. Model/TransportReq.v is the *)
(* reader one step closer to the text; the yes/no facts about the text that *)
(* decide its behaviour are read from the source on every run              *)
(* (Generated/TransportShape.v, [code_shape], [code_cshape]).               *)
(* ======================================================================== *)

(* transport.go, its two callers and retrieveAndSaveFile, as goextract reads
   them on this run, have the shape the theorems below need: the Range header
   is replaced (Set), or the request copies do not share their Header map; r.body
   is assigned after the status test, or a failed reset's response is closed; a
   failed reset ends the Read; both callers refuse every status but 200; the
   schedule is [retry_budget] retries and one last attempt; an error of io.Copy
   fails the cached download, removes the temporary file, and comes before the
   file is advertised *)
Theorem c20_text_as_modelled :
  shape_okb code_shape = true /\ failed_reset_ends_read = true /\ callers_accept_only_200 = true /\
  retry_schedule = repeat true retry_budget ++ [false] /\ cshape_okb code_cshape = true.
Proof. vm_compute. repeat split; reflexivity. Qed.
Print Assumptions c20_text_as_modelled.

(* The closer model refines the abstract one: for every server (any error-response
   bytes), script and buffer sizes, the same Read results, the same progress, the
   same scripts left, and the server side sees the same offsets. *)
Theorem c20_refines : forall srv rds cns bufs,
  exists r rr, session (base srv) retry_schedule rds cns bufs = Ok r /\
    session_r code_shape srv retry_schedule rds cns bufs = Ok rr /\
    match rr, r with
    | Some (sr, outs_r), Some (s, outs) =>
        outs_r = outs /\ rprogress sr = progress s /\ first_ranges sr = reqs s /\
        rreads sr = reads s /\ rconns sr = conns s
    | None, None => True
    | _, _ => False
    end.
Proof. intros. exact (session_refines code_shape srv retry_schedule rds cns bufs (proj1 c20_text_as_modelled) c20_schedule_sound). Qed.
Print Assumptions c20_refines.

(* The request side: the Range header lives in the Header map all attempts share.
   Every request of every session carries exactly the values meant for the
   progress at which it was made: no Range header at progress 0, the single value
   bytes=<progress>- otherwise — nothing left over from earlier attempts. *)
Theorem c20_range_header_is_progress : forall srv rds cns bufs sr outs,
  session_r code_shape srv retry_schedule rds cns bufs = Ok (Some (sr, outs)) ->
  Forall (fun ph => snd ph = range_values (fst ph)) (rsent sr).
Proof. intros srv rds cns bufs sr outs. exact (session_range_header code_shape srv retry_schedule rds cns bufs sr outs (proj1 c20_text_as_modelled) c20_schedule_sound). Qed.
Print Assumptions c20_range_header_is_progress.

(* ... which is a fact about Set versus Add: with Header.Add on the shared map
   (seeded change C20-4) the third request carries [2; 3], the server answers the
   first value, and a byte is handed over twice *)
Theorem c20_range_header_appended_refuted :
  exists srv rds bufs sr outs,
    session_r {| range_add := true; hdr_shared := true; install_early := false; fail_closes := true |}
      srv retry_schedule rds [] bufs = Ok (Some (sr, outs)) /\
    List.map snd (rsent sr) = [[]; [2]; [2; 3]] /\
    delivered outs = [1; 2; 3; 3; 4]%N /\
    valid_outs (data (base srv)) [] outs <> [].
Proof. exact range_appended_duplicates. Qed.
Print Assumptions c20_range_header_appended_refuted.

(* Error responses with bodies: whatever bytes a 4xx/5xx/416 response carries,
   for every script: the bytes handed over are a prefix of the server's, progress
   counts them, and a body the reader still holds open is the server's bytes from
   [progress] on — the body of a response that is neither 200 nor 206 is never
   r.body when a Read returns, so it is never handed to the consumer. *)
Theorem c20_error_body_never_delivered : forall srv rds cns bufs,
  exists rr, session_r code_shape srv retry_schedule rds cns bufs = Ok rr /\
    forall sr outs, rr = Some (sr, outs) ->
      (exists suf, data (base srv) = delivered outs ++ suf) /\
      rprogress sr = List.length (delivered outs) /\
      (dead (rbdy sr) = false -> exists suf, skipn (rprogress sr) (data (base srv)) = rest (rbdy sr) ++ suf).
Proof. intros. exact (session_error_body code_shape srv retry_schedule rds cns bufs (proj1 c20_text_as_modelled) c20_schedule_sound). Qed.
Print Assumptions c20_error_body_never_delivered.

(* ... which is a fact about the order of two statements and a Close: with
   r.body assigned before the status test and the failed reset's response left
   open, the bytes [66; 67] of a 503 page are handed to the consumer *)
Theorem c20_error_body_early_install_refuted :
  exists srv rds cns bufs sr outs,
    session_r {| range_add := false; hdr_shared := true; install_early := true; fail_closes := false |}
      srv retry_schedule rds cns bufs = Ok (Some (sr, outs)) /\
    delivered outs = [1; 2; 66; 67]%N /\
    valid_outs (data (base srv)) [] outs <> [].
Proof. exact early_install_delivers_error_body. Qed.
Print Assumptions c20_error_body_early_install_refuted.

(* c20_faithful and c20_live, said of the closer model *)
Theorem c20_code_faithful : forall srv rds cns bufs, framed cns ->
  exists rr, session_r code_shape srv retry_schedule rds cns bufs = Ok rr /\
    forall sr outs, rr = Some (sr, outs) ->
      Faithful (data (base srv)) outs /\ rprogress sr = List.length (delivered outs).
Proof. intros srv rds cns bufs. exact (session_r_faithful code_shape srv retry_schedule rds cns bufs (proj1 c20_text_as_modelled) c20_schedule_sound). Qed.
Print Assumptions c20_code_faithful.

Theorem c20_code_live : forall srv rds cns bufs,
  all_serve cns ->
  tolerated (List.length (data (base srv))) (kind (base srv)) retry_schedule bufs 0 rds = true ->
  List.length (data (base srv)) < List.length bufs ->
  exists sr outs, session_r code_shape srv retry_schedule rds cns bufs = Ok (Some (sr, outs)) /\
    Complete (data (base srv)) outs.
Proof. intros srv rds cns bufs. exact (session_r_live code_shape srv retry_schedule rds cns bufs (proj1 c20_text_as_modelled)). Qed.
Print Assumptions c20_code_live.

(* Completion for the budget in the source, said on the script alone: against a
   Range-honouring server, every script with at most [retry_budget] failing body
   reads in a row, each of them while fewer bytes than the body holds can have
   been handed over (so that the resumption asks for an offset inside the body:
   the 416 corner stays excluded), read with non-zero buffers, more of them than
   the body has bytes: all bytes, EOF, no error. [retry_budget] is the number of
   leading [true] entries of the schedule literal in Read (c20_text_as_modelled
   ties it to [retry_schedule]). *)
Theorem c20_live_budget : forall srv rds cns bufs,
  kind (base srv) = HonoursRange ->
  all_serve cns ->
  runs_le retry_budget 0 rds = true ->
  early_faults (List.length (data (base srv))) 0 rds = true ->
  Forall (fun n => n <> 0) bufs ->
  List.length (data (base srv)) < List.length bufs ->
  exists sr outs, session_r code_shape srv retry_schedule rds cns bufs = Ok (Some (sr, outs)) /\
    Complete (data (base srv)) outs.
Proof. intros srv rds cns bufs. exact (session_r_live_budget code_shape srv retry_budget rds cns bufs (proj1 c20_text_as_modelled)). Qed.
Print Assumptions c20_live_budget.

(* one failing body read more than the budget, in a row: the Read reports an error *)
Theorem c20_live_budget_exceeded_refuted :
  exists srv rds bufs sr outs,
    kind (base srv) = HonoursRange /\
    runs_le retry_budget 0 rds = false /\ runs_le (S retry_budget) 0 rds = true /\
    early_faults (List.length (data (base srv))) 0 rds = true /\
    session_r code_shape srv retry_schedule rds [] bufs = Ok (Some (sr, outs)) /\
    Exists (fun o => snd o = EFail) outs.
Proof. exact (budget_exceeded_fails code_shape (proj1 c20_text_as_modelled)). Qed.
Print Assumptions c20_live_budget_exceeded_refuted.

Example c20_live_budget_satisfiable :
  runs_le retry_budget 0
    [ {| rk := 0; rfail := true; reager := false |}; {| rk := 0; rfail := true; reager := false |};
      {| rk := 2; rfail := false; reager := false |}; {| rk := 1; rfail := true; reager := false |};
      {| rk := 1; rfail := true; reager := false |} ] = true /\
  early_faults 5 0
    [ {| rk := 0; rfail := true; reager := false |}; {| rk := 0; rfail := true; reager := false |};
      {| rk := 2; rfail := false; reager := false |}; {| rk := 1; rfail := true; reager := false |};
      {| rk := 1; rfail := true; reager := false |} ] = true.
Proof. split; reflexivity. Qed.

(* The index download through the cache directory (retrieveAndSaveFile: copy the
   response into a temporary file, then advertise it under the etag's name): for
   every server content, every body-read script (the connection cut anywhere) and
   every framed response: either the download reports an error, nothing is
   advertised and no temporary file stays behind, or exactly the server's bytes
   are advertised under the final name and returned. *)
Theorem c20_cached_download_complete_or_error : forall dat c rds d,
  framed_ev c = true -> adv d = None ->
  exists d' r rds', cached_fetch code_cshape dat c rds d = Ok (d', r, rds') /\
    tmps d' = tmps d /\
    ((r = Some dat /\ adv d' = Some dat) \/ (r = None /\ adv d' = None)).
Proof. intros dat c rds d. exact (cached_fetch_complete_or_error code_cshape dat c rds d (proj2 (proj2 (proj2 (proj2 c20_text_as_modelled))))). Qed.
Print Assumptions c20_cached_download_complete_or_error.

(* two downloads over the same directory, each cut anywhere: whatever the first
   one did, the second returns the server's bytes or an error (what the index
   stage does to the real code: a faulty download, then a healthy one) *)
Theorem c20_cached_download_twice : forall dat c1 rds1 c2 rds2 d,
  framed_ev c1 = true -> framed_ev c2 = true -> adv d = None ->
  exists d1 r1 rds1' d2 r2 rds2',
    cached_fetch code_cshape dat c1 rds1 d = Ok (d1, r1, rds1') /\
    cached_fetch code_cshape dat c2 rds2 d1 = Ok (d2, r2, rds2') /\
    (r1 = None \/ r1 = Some dat) /\ (r2 = None \/ r2 = Some dat) /\
    (r1 = Some dat -> r2 = Some dat) /\ tmps d2 = tmps d.
Proof. intros dat c1 rds1 c2 rds2 d. exact (cached_fetch_twice code_cshape dat c1 rds1 c2 rds2 d (proj2 (proj2 (proj2 (proj2 c20_text_as_modelled))))). Qed.
Print Assumptions c20_cached_download_twice.

(* finding C20-F1 on this path, where it lasts: a close-delimited response closed
   cleanly after 2 of 5 bytes is copied without an error, advertised, and served
   from the cache on every later download *)
Theorem c20_cached_short_body_unframed_refuted :
  exists dat c d1 r1 rds1',
    cshape_okb code_cshape = true /\
    cached_fetch code_cshape dat c [] {| adv := None; tmps := [] |} = Ok (d1, r1, rds1') /\
    r1 = Some [1; 2]%N /\ adv d1 = Some [1; 2]%N /\
    forall c2 rds2, cached_fetch code_cshape dat c2 rds2 d1 = Ok (d1, Some [1; 2]%N, rds2).
Proof. exact cached_short_body_stays. Qed.
Print Assumptions c20_cached_short_body_unframed_refuted.

(* the error of the copy must decide (seeded change C20-6 let tmp.Close() decide) *)
Theorem c20_cached_copy_error_ignored_refuted :
  exists dat rds d1 r1 rds1',
    cached_fetch {| copy_decides := false; removes_tmp := true; copy_first := true |} dat CServe rds
      {| adv := None; tmps := [] |} = Ok (d1, r1, rds1') /\
    r1 = Some [1; 2]%N /\ adv d1 = Some [1; 2]%N /\ dat = [1; 2; 3; 4; 5]%N.
Proof. exact copy_error_ignored_advertises_short_body. Qed.
Print Assumptions c20_cached_copy_error_ignored_refuted.

(* fetchRepositoryIndex = RoundTrip, the status test, io.ReadAll over the Reads:
   the bytes it returns without an error are exactly the server's *)
Theorem c20_readall_complete_or_error : forall dat outs b,
  Faithful dat outs -> read_all outs [] = Some (Some b) -> b = dat.
Proof. exact read_all_faithful. Qed.
Print Assumptions c20_readall_complete_or_error.

(* the hypotheses of the session-6 theorems are satisfiable: a session with two
   resumptions at different offsets (the scenario of seeded change C20-4) whose
   requests carry [], [2], [3]; a 503 page with bytes of its own answered to a
   resumption: the Read fails, the next one resumes (206) and the page's bytes are nowhere; a framed download into an empty cache directory *)
Example c20_range_header_two_resumptions :
  exists sr outs,
    session_r code_shape
      {| base := {| data := [1; 2; 3; 4; 5]%N; kind := HonoursRange; bare := false |}; ebody := [66; 67]%N |}
      retry_schedule
      [ {| rk := 2; rfail := false; reager := false |}; {| rk := 0; rfail := true; reager := false |};
        {| rk := 1; rfail := false; reager := false |}; {| rk := 0; rfail := true; reager := false |} ]
      [] [2; 2; 2; 2] = Ok (Some (sr, outs)) /\
    rsent sr = [(0, []); (2, [2]); (3, [3])] /\ delivered outs = [1; 2; 3; 4; 5]%N.
Proof. eexists _, _. split; [vm_compute; reflexivity|]. split; reflexivity. Qed.

Example c20_error_body_met_and_not_delivered :
  exists sr outs,
    session_r code_shape
      {| base := {| data := [1; 2; 3; 4; 5]%N; kind := HonoursRange; bare := false |}; ebody := [66; 67]%N |}
      retry_schedule
      [ {| rk := 2; rfail := false; reager := false |}; {| rk := 0; rfail := true; reager := false |} ]
      [CServe; CStatus] [2; 2; 2] = Ok (Some (sr, outs)) /\
    outs = [([1; 2]%N, ENone); ([], EFail); ([3; 4]%N, ENone)] /\ dead (rbdy sr) = false.
Proof. eexists _, _. split; [vm_compute; reflexivity|]. split; reflexivity. Qed.

Example c20_cached_hypotheses_satisfiable :
  framed_ev CServe = true /\ adv {| adv := None; tmps := [] |} = None /\
  exists d' rds', cached_fetch code_cshape [1; 2; 3]%N CServe [ {| rk := 2; rfail := true; reager := false |} ]
                    {| adv := None; tmps := [] |} = Ok (d', None, rds') /\ adv d' = None /\ tmps d' = [].
Proof. split; [reflexivity|]. split; [reflexivity|]. eexists _, _. split; [vm_compute; reflexivity|]. split; reflexivity. Qed.

(* ======================================================================== *)
(* Wave 3: the caller's decision about a failed download. fetchRepositoryIndex *)
(* = RoundTrip, status test, io.ReadAll, `if err != nil { return nil, err }`;  *)
(* the condition in front of that return is read from the source.             *)
(* ======================================================================== *)
Theorem c20_callers_as_modelled : readall_error_returned = true.
Proof. reflexivity. Qed.
Print Assumptions c20_callers_as_modelled.

(* For every server whose body is shorter than io.ReadAll's first buffer (512 bytes: below
   that the buffer sizes ReadAll passes are 512 - bytes read so far; beyond, see
   c20_readall_complete_or_error, which holds for every sequence of sizes), every
   body-read and connection script — retries exhausted or not, resumptions answered
   with error statuses after any number of good ones included: fetchRepositoryIndex
   terminates, and what it returns without an error is a prefix of the server's
   bytes — all of them when every response is framed. *)
Theorem c20_index_fetch_complete_or_error : forall srv rds cns,
  List.length (data (base srv)) < readall_cap ->
  exists so res, index_fetch_r readall_error_returned code_shape srv retry_schedule rds cns = Ok (so, res) /\
    (forall b, res = Some b -> exists suf, data (base srv) = b ++ suf) /\
    (framed cns -> forall b, res = Some b -> b = data (base srv)).
Proof. intros srv rds cns. exact (index_fetch_complete_or_error readall_error_returned code_shape srv retry_schedule rds cns c20_callers_as_modelled (proj1 c20_text_as_modelled) c20_schedule_sound). Qed.
Print Assumptions c20_index_fetch_complete_or_error.

(* ... which is a fact about that condition (seeded change C20-9): with the read error
   dropped, a resumption answered 503 leaves two of five bytes as the "complete" index,
   every response framed *)
Theorem c20_index_read_error_dropped_refuted :
  exists srv rds cns so,
    index_fetch_r false {| range_add := false; hdr_shared := true; install_early := false; fail_closes := true |}
      srv retry_schedule rds cns = Ok (so, Some [1; 2]%N) /\
    data (base srv) = [1; 2; 3; 4; 5]%N /\ framed cns.
Proof. exact read_error_dropped_short_index. Qed.
Print Assumptions c20_index_read_error_dropped_refuted.

(* the same script with the error returned: an error *)
Example c20_index_fetch_exhausted_is_error :
  exists so,
    index_fetch_r readall_error_returned code_shape
      {| base := {| data := [1; 2; 3; 4; 5]%N; kind := HonoursRange; bare := false |}; ebody := [66]%N |}
      retry_schedule
      [ {| rk := 2; rfail := false; reager := false |}; {| rk := 0; rfail := true; reager := false |} ]
      [CServe; CStatus] = Ok (so, None).
Proof. eexists. vm_compute. reflexivity. Qed.

(* ======================================================================== *)
(* Final round: the cache directory WHILE the index download runs.          *)
(* ======================================================================== *)
(* retrieveAndSaveFile, as goextract reads it on this run: io.Copy writes into the
   os.CreateTemp file, and it is that file's name that AdvertiseCachedFile links under
   another (the final) name *)
Theorem c20_cache_text_as_modelled : copy_goes_into_temporary_file = true.
Proof. reflexivity. Qed.
Print Assumptions c20_cache_text_as_modelled.

(* For every server content, every body-read script (the connection cut anywhere, any
   chunking) and every framed response: at every moment of the download — after the
   temporary file was created, after each body read of the copy, after retrieveAndSaveFile
   returned — another process finds under the final name nothing, or exactly the server's
   bytes. A partially written file is never advertised. *)
Theorem c20_cached_never_partially_advertised : forall dat c rds d,
  framed_ev c = true -> adv d = None ->
  Forall (fun d' => adv d' = None \/ adv d' = Some dat)
    (retrieve_trace code_cshape copy_goes_into_temporary_file dat c rds d).
Proof. intros dat c rds d. exact (retrieve_never_advertises_partial code_cshape dat c rds d (proj2 (proj2 (proj2 (proj2 c20_text_as_modelled))))). Qed.
Print Assumptions c20_cached_never_partially_advertised.

(* ... which is a fact about where the copy goes: with the bytes written straight into the
   file that carries the final name, two of five bytes are advertised while the download runs *)
Theorem c20_cached_direct_write_refuted :
  exists dat rds d',
    List.In d' (retrieve_trace {| copy_decides := true; removes_tmp := true; copy_first := true |} false dat CServe rds
                  {| adv := None; tmps := [] |}) /\
    adv d' = Some [1; 2]%N /\ dat = [1; 2; 3; 4; 5]%N.
Proof. exact direct_write_advertises_partial. Qed.
Print Assumptions c20_cached_direct_write_refuted.

(* non-vacuity: a download in two body reads passes through four directory states; the
   temporary file grows, nothing is advertised until the end, then everything is *)
Example c20_cached_trace_states :
  retrieve_trace code_cshape copy_goes_into_temporary_file [1; 2; 3]%N CServe
    [ {| rk := 2; rfail := false; reager := false |}; {| rk := 1; rfail := false; reager := true |} ]
    {| adv := None; tmps := [] |} =
  [ {| adv := None; tmps := [[]] |}; {| adv := None; tmps := [[1; 2]%N] |}; {| adv := None; tmps := [[1; 2; 3]%N] |};
    {| adv := Some [1; 2; 3]%N; tmps := [] |} ].
Proof. vm_compute. reflexivity. Qed.
