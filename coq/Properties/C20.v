(* C20 — Transient network faults never corrupt a download.
   Property theorems only; each is closed by [exact] of a lemma proved in
   Proofs/TransportProofs.v and followed by Print Assumptions. The retry
   schedule is the one goextract read from transport.go on this run. *)
From Apko Require Import Base.Prelude Model.Transport Spec.TransportSpec
  Proofs.TransportProofs Generated.Transport.

(* the schedule in the source is non-empty and ends with "do not retry" *)
Theorem c20_schedule_sound : sched_ok retry_schedule = true.
Proof. vm_compute. reflexivity. Qed.
Print Assumptions c20_schedule_sound.

(* For every server (any bytes, any of the three kinds), every script of body
   read outcomes (any chunking, failures at any offsets, any number of them),
   every script of connection outcomes and every sequence of Read buffer sizes
   (the consumer may keep reading after errors): the model never gets stuck,
   and after every Read the bytes handed over so far are a prefix of the
   server's bytes, EOF being reported only when all of them were handed over;
   [progress] equals the number of bytes handed over. *)
Theorem c20_faithful : forall srv rds cns bufs,
  exists r, session srv retry_schedule rds cns bufs = Ok r /\
    forall s outs, r = Some (s, outs) ->
      Faithful (data srv) outs /\ progress s = List.length (delivered outs).
Proof. intros. exact (session_faithful srv retry_schedule rds cns bufs c20_schedule_sound). Qed.
Print Assumptions c20_faithful.

(* no duplicate, no skip: a successful reset leaves the body positioned exactly
   at [progress] — resumed by Range (206) or restarted and discarded (200) *)
Theorem c20_resume_exact : forall srv s, progress s <= List.length (data srv) ->
  exists s' ok, reset srv s = Ok (s', ok) /\ progress s' = progress s /\
    (dead (bdy s') = false -> rest (bdy s') = skipn (progress s) (data srv)) /\
    (ok = false -> dead (bdy s') = true).
Proof. exact reset_resumes_exactly. Qed.
Print Assumptions c20_resume_exact.

(* once retries are exhausted the Read fails with an error *)
Theorem c20_exhausted_is_error : forall srv s lenp,
  lenp <> 0 -> Forall failing (reads s) ->
  2 * List.length retry_schedule <= List.length (reads s) ->
  exists s' out, read_call srv retry_schedule s lenp = Ok (s', (out, EFail)).
Proof. intros. exact (read_call_exhausted srv retry_schedule s lenp c20_schedule_sound H H0 H1). Qed.
Print Assumptions c20_exhausted_is_error.

(* the boolean validator run on the implementation's observed results decides
   exactly the readable statement *)
Theorem c20_validator_decides : forall dat outs,
  valid_outs dat [] outs = [] <-> Faithful dat outs.
Proof. exact valid_outs_iff. Qed.
Print Assumptions c20_validator_decides.

(* non-vacuity: a session with two cuts that completes, and the duplicate that
   a schedule ending in [true] would produce *)
Example c20_two_cuts_complete :
  exists s outs,
    session {| data := [10; 20; 30; 40; 50]%N; kind := IgnoresRange |} retry_schedule
      [ {| rk := 2; rfail := false; reager := false |};
        {| rk := 1; rfail := true; reager := false |};
        {| rk := 1; rfail := false; reager := false |};
        {| rk := 1; rfail := true; reager := false |} ] [] [2; 2; 2; 2; 2] = Ok (Some (s, outs)) /\
    delivered outs = [10; 20; 30; 40; 50]%N /\ List.In ([], EEOF) outs.
Proof. eexists _, _. split; [vm_compute; reflexivity|]. split; [reflexivity | simpl; auto 10]. Qed.

Theorem c20_bad_schedule_refuted :
  exists srv rds cns bufs s outs,
    session srv [true; true; true] rds cns bufs = Ok (Some (s, outs)) /\
    valid_outs (data srv) [] outs <> [].
Proof. exact bad_schedule_duplicates. Qed.
Print Assumptions c20_bad_schedule_refuted.
