(* C20 — Transient network faults never corrupt a download.
   Property theorems only; each is closed by [exact] of a lemma proved in
   Proofs/TransportProofs.v and followed by Print Assumptions. The retry
   schedule is the one goextract read from transport.go on this run. *)
From Apko Require Import Base.Prelude Model.Transport Spec.TransportSpec
  Proofs.TransportProofs Generated.Transport.

(* the schedule in the source is non-empty and ends with "do not retry" *)
Theorem c20_schedule_sound : sched_ok retry_schedule = true.
Proof. vm_compute. reflexivity. Qed.
Print Assumptions c20_schedule_sound.

(* For every server (any bytes, any of the three kinds), every script of body
   read outcomes (any chunking, failures at any offsets, any number of them),
   every script of connection outcomes in which every response is framed
   (Content-Length or chunked: net/http reports an early end of the connection
   as a read error) and every sequence of Read buffer sizes (the consumer may
   keep reading after errors): the model never gets stuck, and after every Read
   the bytes handed over so far are a prefix of the server's bytes, EOF being
   reported only when all of them were handed over; [progress] equals the number
   of bytes handed over. *)
Theorem c20_faithful : forall srv rds cns bufs, framed cns ->
  exists r, session srv retry_schedule rds cns bufs = Ok r /\
    forall s outs, r = Some (s, outs) ->
      Faithful (data srv) outs /\ progress s = List.length (delivered outs).
Proof. intros srv rds cns bufs H. exact (session_faithful srv retry_schedule rds cns bufs c20_schedule_sound H). Qed.
Print Assumptions c20_faithful.

(* Whatever the framing (responses without a length, closed cleanly at any
   offset, included): never duplicated, never skipped, never altered. *)
Theorem c20_prefix_any_framing : forall srv rds cns bufs,
  exists r, session srv retry_schedule rds cns bufs = Ok r /\
    forall s outs, r = Some (s, outs) ->
      (exists suf, data srv = delivered outs ++ suf) /\ progress s = List.length (delivered outs).
Proof. intros. exact (session_prefix srv retry_schedule rds cns bufs c20_schedule_sound). Qed.
Print Assumptions c20_prefix_any_framing.

(* ... but "a short body is never accepted as complete" needs the framing: a
   200 response with neither Content-Length nor chunked encoding whose
   connection is closed cleanly after 2 of 5 bytes is handed over as 2 bytes and
   EOF; no Range request is made. Finding C20-F1 (replayed on the real reader in
   the scripted corpus and through net/http in the http stage). *)
Theorem c20_short_body_unframed_refuted :
  exists srv cns bufs s outs,
    session srv retry_schedule [] cns bufs = Ok (Some (s, outs)) /\
    outs = [([1; 2]%N, ENone); ([], EEOF)] /\
    valid_outs (data srv) [] outs = ["viol:eof-before-complete"%string] /\
    reqs s = [None].
Proof. exact short_body_close_delimited. Qed.
Print Assumptions c20_short_body_unframed_refuted.

(* no duplicate, no skip: a successful reset leaves the body positioned exactly
   at [progress] — resumed by Range (206) or restarted and discarded (200); what
   the new body holds is what the server holds from there on ([suf] = what a
   close-delimited response closed early never delivers; nothing when framed) *)
Theorem c20_resume_exact : forall srv s, progress s <= List.length (data srv) ->
  exists s' ok suf, reset srv s = Ok (s', ok) /\ progress s' = progress s /\
    (dead (bdy s') = false -> skipn (progress s) (data srv) = rest (bdy s') ++ suf) /\
    (framed (conns s) -> suf = []) /\
    (ok = false -> dead (bdy s') = true).
Proof. exact reset_resumes_exactly. Qed.
Print Assumptions c20_resume_exact.

(* once retries are exhausted the Read fails with an error *)
Theorem c20_exhausted_is_error : forall srv s lenp,
  lenp <> 0 -> Forall failing (reads s) ->
  2 * List.length retry_schedule <= List.length (reads s) ->
  exists s' out, read_call srv retry_schedule s lenp = Ok (s', (out, EFail)).
Proof. intros. exact (read_call_exhausted srv retry_schedule s lenp c20_schedule_sound H H0 H1). Qed.
Print Assumptions c20_exhausted_is_error.

(* Completion: "resumed through range requests, or restarted when ranges are
   unsupported". For every server content and kind, every buffer-size sequence
   of non-zero sizes longer than the body, and every body-read script that is
   [tolerated] (Spec/TransportSpec.v, a decidable accounting on the inputs alone:
   inside each Read call every failing body read finds a [true] in the retry
   schedule — at most two per call — and a re-connection that succeeds: no Range
   header at progress 0; 206 from a Range-honouring server when progress < length;
   a 200 restart whose discarded prefix is read without a failing body read),
   with every connection served by the session's kind: the session hands over
   exactly the server's bytes, reports EOF, and no Read reports an error.
   Excluded by [tolerated], and real (the two theorems below): a fault after the
   last byte against a Range-honouring server (416), and a fault while a restart
   discards; a RejectsRange server survives faults at progress 0 only. One spot
   where [tolerated] is stricter than the reader: a failing body read that arrives
   together with the last byte to discard is swallowed by io.CopyN and costs a
   retry instead (c20_two_cuts_complete below completes that way). *)
Theorem c20_live : forall srv rds cns bufs,
  all_serve cns ->
  tolerated (List.length (data srv)) (kind srv) retry_schedule bufs 0 rds = true ->
  List.length (data srv) < List.length bufs ->
  exists s outs, session srv retry_schedule rds cns bufs = Ok (Some (s, outs)) /\
    Complete (data srv) outs.
Proof. exact (fun srv => session_live srv retry_schedule). Qed.
Print Assumptions c20_live.

Theorem c20_live_416_corner_refuted :
  exists srv rds bufs s outs,
    kind srv = HonoursRange /\ count_failing rds = 1 /\
    List.length (data srv) < List.length bufs /\ Forall (fun n => n <> 0) bufs /\
    session srv retry_schedule rds [] bufs = Ok (Some (s, outs)) /\
    delivered outs = data srv /\
    Exists (fun o => snd o = EFail) outs /\ ~ Exists (fun o => snd o = EEOF) outs /\
    reqs s = [None; Some 3; Some 3; Some 3] /\
    tolerated (List.length (data srv)) (kind srv) retry_schedule bufs 0 rds = false.
Proof. exact live_416_corner. Qed.
Print Assumptions c20_live_416_corner_refuted.

Theorem c20_live_restart_cut_refuted :
  exists srv rds bufs s outs,
    kind srv = IgnoresRange /\ count_failing rds = 2 /\
    List.length (data srv) < List.length bufs /\ Forall (fun n => n <> 0) bufs /\
    session srv retry_schedule rds [] bufs = Ok (Some (s, outs)) /\
    Exists (fun o => snd o = EFail) outs /\
    reqs s = [None; Some 2; Some 3] /\
    tolerated (List.length (data srv)) (kind srv) retry_schedule bufs 0 rds = false.
Proof. exact live_restart_cut. Qed.
Print Assumptions c20_live_restart_cut_refuted.

(* the hypotheses of c20_live are satisfiable: two faults inside one Read, at
   progress 2 of 5, survived by resuming (206) and by restarting (200) *)
Example c20_live_two_faults_in_one_read : forall k, k = HonoursRange \/ k = IgnoresRange ->
  tolerated 5 k retry_schedule [2; 2; 2; 2; 2; 2] 0
    [ {| rk := 2; rfail := false; reager := false |};
      {| rk := 1; rfail := true; reager := false |};
      {| rk := 2; rfail := false; reager := false |};
      {| rk := 0; rfail := true; reager := false |};
      {| rk := 1; rfail := false; reager := false |};
      {| rk := 1; rfail := false; reager := false |} ] = true \/
  tolerated 5 k retry_schedule [2; 2; 2; 2; 2; 2] 0
    [ {| rk := 2; rfail := false; reager := false |};
      {| rk := 1; rfail := true; reager := false |};
      {| rk := 0; rfail := true; reager := false |} ] = true.
Proof. intros k [-> | ->]; [right | left]; vm_compute; reflexivity. Qed.

(* the boolean validator run on the implementation's observed results decides
   exactly the readable statement *)
Theorem c20_validator_decides : forall dat outs,
  (valid_outs dat [] outs = [] <-> Faithful dat outs) /\
  (complete_b dat outs = true <-> Complete dat outs).
Proof. intros. split; [apply valid_outs_iff | apply complete_b_iff]. Qed.
Print Assumptions c20_validator_decides.

(* non-vacuity: a session with two cuts that completes, and the duplicate that
   a schedule ending in [true] would produce *)
Example c20_two_cuts_complete :
  exists s outs,
    session {| data := [10; 20; 30; 40; 50]%N; kind := IgnoresRange; bare := false |} retry_schedule
      [ {| rk := 2; rfail := false; reager := false |};
        {| rk := 1; rfail := true; reager := false |};
        {| rk := 1; rfail := false; reager := false |};
        {| rk := 1; rfail := true; reager := false |} ] [] [2; 2; 2; 2; 2] = Ok (Some (s, outs)) /\
    delivered outs = [10; 20; 30; 40; 50]%N /\ List.In ([], EEOF) outs.
Proof. eexists _, _. split; [vm_compute; reflexivity|]. split; [reflexivity | simpl; auto 10]. Qed.

Theorem c20_bad_schedule_refuted :
  exists srv rds cns bufs s outs,
    session srv [true; true; true] rds cns bufs = Ok (Some (s, outs)) /\
    valid_outs (data srv) [] outs <> [].
Proof. exact bad_schedule_duplicates. Qed.
Print Assumptions c20_bad_schedule_refuted.
