(* C13 — definitions shared by the correspondence and the proofs: well-formedness
   of passwd/group entries WITHOUT the length of the written line, "clean"
   configured accounts, and the accounts part of ImageConfiguration.Validate with
   the character sets goextract reads from its strings.ContainsAny tests.
   Definitions only (the character predicates come from Proofs/AccountsCodec.v);
   nothing here depends on the VALUE of a generated constant, so the
   correspondence still compiles — and judges the corpus — when a proof about
   the repaired source breaks. *)
From Apko Require Import Base.Prelude Model.C13Fs Model.Accounts Generated.C13Consts Proofs.AccountsCodec.
Open Scope string_scope. Open Scope list_scope.

Definition wf_user_fields (e : user_entry) : bool :=
  field_ok (ue_name e) && field_ok (ue_pw e) && field_ok (ue_info e) && field_ok (ue_home e) && field_ok (ue_shell e) &&
  negb (starts_space (ue_name e)) && negb (ends_space (ue_shell e)) &&
  (ue_uid e <? 4294967296)%N && (ue_gid e <? 4294967296)%N.
Definition short_user (e : user_entry) : bool := Nat.ltb (String.length (user_line e)) line_limit.

Definition wf_group_fields (e : group_entry) : bool :=
  field_ok (ge_name e) && field_ok (ge_pw e) && forallb member_ok (ge_members e) &&
  negb (starts_space (ge_name e)) && negb (ends_space (join "," (ge_members e))) &&
  (ge_gid e <? 4294967296)%N.
Definition short_group (e : group_entry) : bool := Nat.ltb (String.length (group_line e)) line_limit.

(* ImageConfiguration.Validate, accounts part: a user needs a name and a uid
   other than 0, a group needs a name; [validate_forbidden] lists the
   (expression, characters) pairs of the strings.ContainsAny tests goextract found
   in Validate (fix 3dfd539: ':' and blanks in names, shells, members, ':' and
   newline in homes, ',' in members; none before) *)
Definition chars_for (k : string) : string :=
  String.concat "" (List.map snd (filter (fun kv : string * string => String.eqb (fst kv) k) validate_forbidden)).
Fixpoint contains_any (s chars : string) : bool :=
  match chars with EmptyString => false | String c r => has_char c s || contains_any s r end.
Definition validate_user (u : cuser) : bool :=
  negb (String.eqb (cu_name u) "") && negb (N.eqb (cu_uid u) 0) &&
  negb (contains_any (cu_name u) (chars_for "u.UserName")) && negb (contains_any (cu_shell u) (chars_for "u.Shell")) &&
  negb (contains_any (cu_home u) (chars_for "u.HomeDir")).
Definition validate_group (g : cgroup) : bool :=
  negb (String.eqb (cg_name g) "") && negb (contains_any (cg_name g) (chars_for "g.GroupName")) &&
  forallb (fun m => negb (contains_any m (chars_for "m"))) (cg_members g).
Definition validate_accounts (users : list cuser) (groups : list cgroup) : bool :=
  forallb validate_user users && forallb validate_group groups.

(* a configuration whose fields are free of ':' and newline, whose names do not
   start and whose last fields do not end with a blank *)
Definition clean_user (u : cuser) : bool := wf_user_fields (user_to_entry u).
Definition clean_group (g : cgroup) : bool := wf_group_fields (group_to_entry g).

