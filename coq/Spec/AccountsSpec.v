(* C13 (accounts half) — what the property demands, independent of how apko
   does it, as readable Props plus the boolean validators that the
   correspondence stage runs on the implementation's OBSERVED results.
   The entry/record types are shared with the model; nothing else is. *)
From Apko Require Import Base.Prelude Model.C13Fs Model.Accounts.
Open Scope string_scope. Open Scope list_scope.

(* the documented defaults, written out here on purpose (Properties/C13.v pins
   the constants read from the source to these) *)
Definition spec_default_shell : string := "/bin/sh".
Definition spec_home_prefix : string := "/home/".
Definition spec_no_home : string := "/dev/null".
Definition spec_home_mode : N := 448.        (* 0o700 *)
Definition spec_parent_mode : N := 493.      (* 0o755 *)

Definition spec_shell (u : cuser) : string :=
  if String.eqb (cu_shell u) "" then spec_default_shell else cu_shell u.
Definition spec_home (u : cuser) : string :=
  if String.eqb (cu_home u) "" then (spec_home_prefix ++ cu_name u)%string else cu_home u.
Definition spec_gid (u : cuser) : N := match cu_gid u with Some g => g | None => cu_uid u end.

(* a passwd entry realises a configured user: name, ids, shell, home (the
   password and comment fields are not part of the property) *)
Definition UserRealised (u : cuser) (e : user_entry) : Prop :=
  ue_name e = cu_name u /\ ue_uid e = cu_uid u /\ ue_gid e = spec_gid u /\
  ue_shell e = spec_shell u /\ ue_home e = spec_home u.
Definition GroupRealised (g : cgroup) (e : group_entry) : Prop :=
  ge_name e = cg_name g /\ ge_gid e = cg_gid g /\ ge_members e = cg_members g.

(* the image's file = the pre-existing entries followed by exactly the configured ones *)
Definition PasswdRealised (old : list user_entry) (users : list cuser) (new : list user_entry) : Prop :=
  exists added, new = old ++ added /\ Forall2 UserRealised users added.
Definition GroupFileRealised (old : list group_entry) (groups : list cgroup) (new : list group_entry) : Prop :=
  exists added, new = old ++ added /\ Forall2 GroupRealised groups added.

(* run-as: the uid of the first passwd entry of that name, unchanged otherwise *)
Fixpoint first_named (nm : string) (es : list user_entry) : option user_entry :=
  match es with
  | [] => None
  | e :: t => if String.eqb (ue_name e) nm then Some e else first_named nm t
  end.
Definition RunAsResolved (run_as : string) (es : list user_entry) (result : string) : Prop :=
  if String.eqb run_as "" then result = ""
  else match first_named run_as es with
       | Some e => result = dec (ue_uid e)
       | None => result = run_as
       end.

(* what Stat shows of a path *)
Record sinfo := mkSinfo { si_kind : kind; si_perm : N; si_uid : N; si_gid : N }.
Definition sinfo_of (n : node) : sinfo := mkSinfo (nkind n) (nperm n) (nuid n) (ngid n).

(* a home that did not exist is a 0700 directory owned by the entry; one that
   existed (as a directory) is untouched *)
Definition HomeRealised (uid gid : N) (before after : option sinfo) : Prop :=
  match before with
  | None => after = Some (mkSinfo KDir spec_home_mode uid gid)
  | Some b => si_kind b = KDir /\ after = Some b
  end.

(* ---- boolean validators ---------------------------------------------------- *)
Definition user_realised_b (u : cuser) (e : user_entry) : bool :=
  String.eqb (ue_name e) (cu_name u) && N.eqb (ue_uid e) (cu_uid u) && N.eqb (ue_gid e) (spec_gid u) &&
  String.eqb (ue_shell e) (spec_shell u) && String.eqb (ue_home e) (spec_home u).
Definition group_realised_b (g : cgroup) (e : group_entry) : bool :=
  String.eqb (ge_name e) (cg_name g) && N.eqb (ge_gid e) (cg_gid g) &&
  list_eqb String.eqb (ge_members e) (cg_members g).

Definition ue_eqb (a b : user_entry) : bool :=
  String.eqb (ue_name a) (ue_name b) && String.eqb (ue_pw a) (ue_pw b) && N.eqb (ue_uid a) (ue_uid b) &&
  N.eqb (ue_gid a) (ue_gid b) && String.eqb (ue_info a) (ue_info b) && String.eqb (ue_home a) (ue_home b) &&
  String.eqb (ue_shell a) (ue_shell b).
Definition ge_eqb (a b : group_entry) : bool :=
  String.eqb (ge_name a) (ge_name b) && String.eqb (ge_pw a) (ge_pw b) && N.eqb (ge_gid a) (ge_gid b) &&
  list_eqb String.eqb (ge_members a) (ge_members b).

Fixpoint forall2b {A B} (p : A -> B -> bool) (a : list A) (b : list B) : bool :=
  match a, b with
  | [], [] => true
  | x :: a', y :: b' => p x y && forall2b p a' b'
  | _, _ => false
  end.

Definition passwd_realised_b (old : list user_entry) (users : list cuser) (new : list user_entry) : bool :=
  list_eqb ue_eqb (firstn (List.length old) new) old &&
  forall2b user_realised_b users (skipn (List.length old) new).
Definition group_file_realised_b (old : list group_entry) (groups : list cgroup) (new : list group_entry) : bool :=
  list_eqb ge_eqb (firstn (List.length old) new) old &&
  forall2b group_realised_b groups (skipn (List.length old) new).

Definition run_as_resolved_b (run_as : string) (es : list user_entry) (result : string) : bool :=
  if String.eqb run_as "" then String.eqb result ""
  else match first_named run_as es with
       | Some e => String.eqb result (dec (ue_uid e))
       | None => String.eqb result run_as
       end.

Definition sinfo_eqb (a b : sinfo) : bool :=
  kind_eqb (si_kind a) (si_kind b) && N.eqb (si_perm a) (si_perm b) &&
  N.eqb (si_uid a) (si_uid b) && N.eqb (si_gid a) (si_gid b).
Definition home_realised_b (uid gid : N) (before after : option sinfo) : bool :=
  match before with
  | None => option_eqb sinfo_eqb after (Some (mkSinfo KDir spec_home_mode uid gid))
  | Some b => kind_eqb (si_kind b) KDir && option_eqb sinfo_eqb after (Some b)
  end.
