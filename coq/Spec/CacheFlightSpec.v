(* C19 — what the coalescing objects and the offline choice must satisfy,
   independent of how apko does it, with boolean validators for observed runs. *)
From Apko Require Import Base.Prelude Model.CacheFlight.
Open Scope string_scope. Open Scope list_scope.

(* ---- flights: states ------------------------------------------------------------ *)
(* transparency: whatever a caller was handed for a key is a value some execution of
   fn returned for that key *)
Definition Transparent (s : fstate) : Prop :=
  forall c k o, In (c, k, o) (rets s) -> In (k, o) (execs s).
(* failures are not memoised *)
Definition NoErrorMemo (s : fstate) : Prop :=
  forall k o, memo s k = Some o -> is_ok o = true.
(* one execution per key at a time, and every finished one was started *)
Definition Coalesced (s : fstate) : Prop :=
  forall k, count_key k (started s) =
            List.length (execs_of k s) + (match flight s k with Some _ => 1 | None => 0 end).

(* ---- flights: an observed SEQUENCE of calls (one after the other) ------------------
   For each call: the key, whether fn was executed, the outcome scripted for that
   execution, and what Do returned. *)
Record ocall := { oc_key : string; oc_exec : bool; oc_out : outcome; oc_res : outcome }.

(* sound: a call that executed fn returns what fn returned; a call that did not
   returns a SUCCESS that an earlier execution for the same key produced — in
   particular an error is never handed out without a fresh execution *)
Inductive SeqSound : list (string * outcome) -> list ocall -> Prop :=
| SS_nil : forall past, SeqSound past []
| SS_exec : forall past c t, oc_exec c = true -> oc_res c = oc_out c ->
    SeqSound ((oc_key c, oc_out c) :: past) t -> SeqSound past (c :: t)
| SS_memo : forall past c t v, oc_exec c = false -> oc_res c = OOk v ->
    In (oc_key c, OOk v) past -> SeqSound past t -> SeqSound past (c :: t).

Definition ko_eqb (a b : string * outcome) : bool := String.eqb (fst a) (fst b) && outcome_eqb (snd a) (snd b).

Fixpoint validate_seq (tag_err : string) (past : list (string * outcome)) (l : list ocall) : list string :=
  match l with
  | [] => []
  | c :: t =>
      if oc_exec c then
        tag_if (negb (outcome_eqb (oc_res c) (oc_out c))) "viol:call-does-not-return-what-its-own-execution-returned" ++
        validate_seq tag_err ((oc_key c, oc_out c) :: past) t
      else
        (match oc_res c with
         | OErr _ => [tag_err]
         | OOk v => tag_if (negb (List.existsb (ko_eqb (oc_key c, OOk v)) past)) "viol:call-returns-a-value-no-execution-produced"
         end) ++ validate_seq tag_err past t
  end.

(* ---- fetchOffline ------------------------------------------------------------------ *)
Definition Newest (l : list dentry) (e : dentry) : Prop :=
  In e l /\ forall x, In x l -> (de_mtime x <= de_mtime e)%N.
(* ... and, of the newest ones, the first in listing order *)
Definition FirstNewest (l : list dentry) (e : dentry) : Prop :=
  exists l1 l2, l = l1 ++ e :: l2 /\ (forall x, In x l1 -> (de_mtime x < de_mtime e)%N) /\
                (forall x, In x l2 -> (de_mtime x <= de_mtime e)%N).

(* what the property needs of the entry an offline request for [req] is answered from: an entry
   of the directory that holds ALL the bytes of one served response, of the file asked for, and
   no ADVERTISED entry (a cached revision; temporary files are not cache entries) is newer *)
Definition OfflineSound (req : string) (l : list dentry) (e : dentry) : Prop :=
  In e l /\ (forall x, In x l -> de_adv x = true -> (de_mtime x <= de_mtime e)%N) /\
  de_whole e = true /\ de_file e = req.

Definition dentry_eqb (a b : dentry) : bool :=
  String.eqb (de_name a) (de_name b) && N.eqb (de_mtime a) (de_mtime b) && Bool.eqb (de_adv a) (de_adv b) &&
  String.eqb (de_file a) (de_file b) && String.eqb (de_rev a) (de_rev b) && Bool.eqb (de_whole a) (de_whole b).

Definition validate_offline (req : string) (l : list dentry) (e : dentry) : list string :=
  tag_if (negb (List.existsb (dentry_eqb e) l &&
                List.forallb (fun x => negb (de_adv x) || N.leb (de_mtime x) (de_mtime e)) l))
         "viol:offline-pick-not-newest" ++
  tag_if (negb (de_whole e)) "viol:offline-opens-partial-entry" ++
  tag_if (negb (String.eqb (de_file e) req)) "viol:offline-entry-of-another-file".

(* ---- file names of cached revisions --------------------------------------------------- *)
(* observed: for one cache file (index or not), ETags (the text after trimming the quotes) with
   the encoded form etagFromResponse gave and the base name cacheFileFromEtag gave.  Sound: two
   different ETags never share a file name. *)
Record ename := { en_raw : string; en_enc : string; en_base : string }.
Definition NamesInjective (l : list ename) : Prop :=
  forall a b, In a l -> In b l -> en_base a = en_base b -> en_raw a = en_raw b.
Definition validate_names (l : list ename) : list string :=
  tag_if (negb (List.forallb (fun a => List.forallb (fun b => negb (String.eqb (en_base a) (en_base b)) || String.eqb (en_raw a) (en_raw b)) l) l))
         "viol:two-etags-one-file-name".
