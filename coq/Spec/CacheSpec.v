(* C19 — what "the cache is transparent" means, independent of how apko
   populates it, and the boolean validator run on listings of real cache
   directories. *)
From Apko Require Import Base.Prelude Model.Cache.
Open Scope string_scope. Open Scope list_scope.

Section Spec.
(* [origin n] = the bytes the origin serves for the key that the advertised
   name [n] stands for: the index revision with that etag, the package section
   with that hash.  Content is a function of the key alone, so an entry that
   belongs to another package or another index revision is by definition not
   the origin's content for the name it sits under. *)
Variable origin : path -> content.

(* Every advertised name that exists at all resolves to a complete file that
   holds exactly the origin's bytes for its key (in particular: no truncated or
   partial entry, no dangling entry, no entry of another key). *)
Definition CacheSound (d : disk) : Prop :=
  forall n, is_adv n = true -> d n <> None -> resolve d n = Some (origin n, true).

(* The sections of a package a builder downloads are what the origin serves
   for the names they get in the cache: content is determined by the key
   (collision-free SHA-1/SHA-256, a deterministic signature over the control
   section, gunzip of the data section). *)
Definition served (dir : string) (a : apk) : Prop :=
  a_ctl a = origin (PMember dir MCtl (a_ctlh a)) /\
  (forall s, a_sig a = Some s -> s = origin (PMember dir MSig (a_ctlh a))) /\
  a_dat a = origin (PMember dir MDat (a_dath a)) /\
  a_tar a = origin (PMember dir MTar (a_dath a)).
Definition builders_ok (bs : list builder) : Prop :=
  forall dir a, In (BPackage dir a) bs -> served dir a.

(* An ETag identifies one index content: whatever the origin answers at any
   time, the body is the content the etag stands for.  (The origin is free to
   change its revision between any two steps, and to go back to an old one.) *)
Definition etag_names_content (srv : server) : Prop :=
  forall t dir, snd (srv t dir) = origin (PIndex dir (fst (srv t dir))).

(* the uncompressed tar the origin stands for under <h>.dat.tar is the gunzip
   of the data section it serves under <h>.dat.tar.gz *)
Definition origin_gunzip (gunzip : content -> content) : Prop :=
  forall dir h, gunzip (origin (PMember dir MDat h)) = origin (PMember dir MTar h).

(* what a build obtains for one package (directory [dir], control checksum
   [ctlh]) without a cache, and with the cache in state [d] *)
Variable datahash_of : content -> string.
Definition fetch_origin (dir ctlh : string) : members :=
  let ctl := origin (PMember dir MCtl ctlh) in
  {| m_ctl := ctl; m_sig := Some (origin (PMember dir MSig ctlh));
     m_dat := origin (PMember dir MDat (datahash_of ctl));
     m_tar := origin (PMember dir MTar (datahash_of ctl)) |}.

(* ... and exactly: the signature section is part of what a build obtains (its
   size is written into the image) when the package has one; [signed dir ctlh]
   says whether the package with that control checksum has *)
Definition fetch_origin_exact (signed : string -> string -> bool) (dir ctlh : string) : members :=
  let ctl := origin (PMember dir MCtl ctlh) in
  {| m_ctl := ctl;
     m_sig := if signed dir ctlh then Some (origin (PMember dir MSig ctlh)) else None;
     m_dat := origin (PMember dir MDat (datahash_of ctl));
     m_tar := origin (PMember dir MTar (datahash_of ctl)) |}.

(* the files that get installed; the signature section is compared separately:
   it is optional in the cache (unsigned packages) but its SIZE is recorded in
   the image (S: line of the installed database), see c19_lookup_not_atomic_refuted *)
Definition installed_eq (a b : members) : Prop :=
  m_ctl a = m_ctl b /\ m_dat a = m_dat b /\ m_tar a = m_tar b.

Definition package_with_cache (d : disk) (dir ctlh : string) : members :=
  match read_package datahash_of d dir ctlh with
  | Hit m => m
  | _ => fetch_origin dir ctlh      (* miss: fetched from the origin *)
  end.
End Spec.

(* ---- listings of real cache directories ---------------------------------- *)
Definition listing := list (path * obj).
Fixpoint lookup_l {A} (l : list (path * A)) (p : path) : option A :=
  match l with
  | [] => None
  | (q, o) :: t => if path_eq_dec p q then Some o else lookup_l t p
  end.
Definition disk_of (l : listing) : disk := lookup_l l.

Definition content_eqb (a b : content) : bool := list_eqb String.eqb a b.

(* what is expected under each advertised name the origin knows about *)
Definition origin_table := list (path * content).

Definition ListingSound (tab : origin_table) (l : listing) : Prop :=
  forall n o, In (n, o) l -> is_adv n = true ->
    exists c b, lookup_l tab n = Some c /\ resolve (disk_of l) n = Some (c, b).

(* the failure tag names the mechanism: a REGULAR file (not a symbolic link to
   a temporary file) under a <hash>.dat.tar name is what PackageData's in-place
   rebuild leaves behind; everything else is a wrong link *)
Definition wrong_tag (n : path) (o : obj) : string :=
  match n, o with
  | PMember _ MTar _, File _ _ => "viol:partial-tar-under-final-name"
  | PMember _ _ _, _ => "viol:advertised-member-content-differs"
  | _, _ => "viol:advertised-index-content-differs"
  end.

Definition check_entry (tab : origin_table) (l : listing) (e : path * obj) : list string :=
  let (n, o) := e in
  if is_adv n then
    match lookup_l tab n with
    | None => ["mismatch:advertised-name-unknown-to-origin"]
    | Some c =>
        match resolve (disk_of l) n with
        | Some (c', _) => tag_if (negb (content_eqb c c')) (wrong_tag n o)
        | None => ["viol:advertised-name-does-not-resolve"]
        end
    end
  else [].

Definition validate_listing (tab : origin_table) (l : listing) : list string :=
  List.flat_map (check_entry tab l) l.
