(* C08 — what "resolution is a pure function of its inputs" demands of what is
   OBSERVED, independent of how apko caches: a call was executed several times
   after some history (its observed outcomes) and several times in a fresh
   process / on fresh caches (its oracle outcomes). Purity means there is ONE
   outcome and every execution, with or without history, produced it. *)
From Apko Require Import Base.Prelude Model.Caches.
Open Scope string_scope. Open Scope list_scope.

(* the projected observable of GetPackagesWithDependencies: the ordered install
   list (package identities), or "an error" (class only, no message) *)
Inductive outcome := Res (l : list pid) | Fail.

Definition outcome_eqb (a b : outcome) : bool :=
  match a, b with
  | Res x, Res y => list_eqb pid_eqb x y
  | Fail, Fail => true
  | _, _ => false
  end.

Definition Pure (obs oracle : list outcome) : Prop :=
  exists x, obs <> [] /\ oracle <> [] /\
            (forall o, In o obs -> o = x) /\ (forall o, In o oracle -> o = x).

Definition pure_b (obs oracle : list outcome) : bool :=
  match obs, oracle with
  | x :: _, _ :: _ => forallb (outcome_eqb x) obs && forallb (outcome_eqb x) oracle
  | _, _ => false
  end.

(* every call of a history *)
Definition HistoryIndependent (obs oracle : list (list outcome)) : Prop :=
  Forall2 Pure obs oracle.

Fixpoint history_independent_b (obs oracle : list (list outcome)) : bool :=
  match obs, oracle with
  | [], [] => true
  | o :: obs', r :: oracle' => pure_b o r && history_independent_b obs' oracle'
  | _, _ => false
  end.

(* memo tables: a table is transparent when every stored value is what the
   memoised function returns *)
Definition MemoOk {K V} (f : K -> option V) (t : list (K * V)) : Prop :=
  forall k v, In (k, v) t -> f k = Some v.
