(* C18 — what "nothing is written outside the designated roots" means, said
   without reference to how apko computes its paths, and the boolean validator
   the correspondence runs on the implementation's observations. *)
From Apko Require Import Base.Prelude Base.C18Path.
Open Scope list_scope.

(* [touched] are the host paths an action created, modified or deleted (after
   the kernel resolved symbolic links); [roots] are the directories apko was
   given.  Confinement: every touched path lies at or below one of them. *)
Definition Confined (roots touched : list str) : Prop :=
  Forall (fun p => Exists (fun r => under r p) roots) touched.

Definition outside (roots : list str) (p : str) : bool :=
  negb (existsb (fun r => underb r p) roots).

(* the touched paths that escape *)
Definition escapes (roots touched : list str) : list str := filter (outside roots) touched.

(* a file name that cannot move the file out of the directory it is joined to *)
Definition SingleComponent (name : str) : Prop := proper name.
