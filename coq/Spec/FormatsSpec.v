(* C16 — what "the formats round-trip" means, independent of how apko writes
   and reads them, as readable Props and as the boolean validators (returning
   failure tags) that the correspondence stage runs on the IMPLEMENTATION's
   observed outputs. Proofs that each validator decides its Prop are in
   Proofs/FormatsProofs.v.  Path helpers (clean/dir/base) come from the model
   file because they transcribe path/filepath, not apko. *)
From Apko Require Import Base.Prelude Base.C16Lib Model.Formats.
Open Scope string_scope. Open Scope list_scope.

Definition strs_eqb := list_eqb String.eqb.
Definition bytes_eqb := list_eqb N.eqb.

(* ---- package fields (everything the property lists; BuildDate is a second
   copy of the build time that neither writer emits and is not compared) ---- *)
Record SamePkg (a b : pkg) : Prop := {
  sp_name : p_name a = p_name b; sp_version : p_version a = p_version b; sp_arch : p_arch a = p_arch b;
  sp_desc : p_desc a = p_desc b; sp_license : p_license a = p_license b; sp_origin : p_origin a = p_origin b;
  sp_maint : p_maint a = p_maint b; sp_url : p_url a = p_url b; sp_commit : p_commit a = p_commit b;
  sp_checksum : p_checksum a = p_checksum b; sp_deps : p_deps a = p_deps b; sp_provides : p_provides a = p_provides b;
  sp_installif : p_installif a = p_installif b; sp_replaces : p_replaces a = p_replaces b;
  sp_size : p_size a = p_size b; sp_isize : p_isize a = p_isize b; sp_prio : p_prio a = p_prio b;
  sp_btime : p_btime a = p_btime b }.

(* what Go's default slice formatting followed by the space splitter gives back *)
Definition go_slice_readback (l : list string) : list string := split_repeated (fmt_s (AList l)).

(* tags of one package pair; [k] = "index" or "installed" *)
Definition pkg_tags (k : string) (a b : pkg) : list string :=
  let t (ok : bool) (f : string) := tag_if (negb ok) ("viol:" +++ k +++ "-field-" +++ f) in
  t (p_name a =? p_name b) "name" ++ t (p_version a =? p_version b) "version" ++ t (p_arch a =? p_arch b) "arch" ++
  t (p_desc a =? p_desc b) "description" ++ t (p_license a =? p_license b) "license" ++ t (p_origin a =? p_origin b) "origin" ++
  t (p_maint a =? p_maint b) "maintainer" ++ t (p_url a =? p_url b) "url" ++ t (p_commit a =? p_commit b) "commit" ++
  t (bytes_eqb (p_checksum a) (p_checksum b)) "checksum" ++ t (strs_eqb (p_deps a) (p_deps b)) "dependencies" ++
  t (strs_eqb (p_provides a) (p_provides b)) "provides" ++
  (if strs_eqb (p_installif a) (p_installif b) then []
   else if (k =? "installed") && strs_eqb (p_installif b) (go_slice_readback (p_installif a))
        then ["viol:installed-installif-go-slice-format"] else ["viol:" +++ k +++ "-field-install_if"]) ++
  (if strs_eqb (p_replaces a) (p_replaces b) then []
   else if (k =? "index") && strs_eqb (p_replaces b) [] then ["viol:index-replaces-dropped"]
        else ["viol:" +++ k +++ "-field-replaces"]) ++
  t (p_size a =? p_size b)%N "size" ++ t (p_isize a =? p_isize b)%N "installed_size" ++
  t (p_prio a =? p_prio b)%N "provider_priority" ++ t (p_btime a =? p_btime b)%Z "build_time".

(* ---- APKINDEX: write then read ------------------------------------------------ *)
Definition named (ps : list pkg) : list pkg := filter (fun p => snonempty (p_name p)) ps.
(* the index holds exactly the records with a name, each with every field intact *)
Definition IndexRoundTrip (orig : list pkg) (rb : res (list pkg)) : Prop :=
  exists l, rb = Ok l /\ Forall2 SamePkg (named orig) l.

Fixpoint pkgs_tags (k : string) (a b : list pkg) : list string :=
  match a, b with
  | [], [] => []
  | x :: a', y :: b' => pkg_tags k x y ++ pkgs_tags k a' b'
  | _, _ => ["viol:" +++ k +++ "-record-count"]
  end.
Definition index_rt_tags (orig : list pkg) (rb : res (list pkg)) : list string :=
  match rb with
  | Ok l => pkgs_tags "index" (named orig) l
  | _ => ["viol:index-readback-failed"]
  end.

(* ---- installed database: write then read ---------------------------------------- *)
Definition perm_of (h : hdr) : Z := Z.land (h_mode h) 511.
(* the record the reader returned for path [c] *)
Definition find_rec (c : string) (rb : list hdr) : option hdr :=
  find (fun r => clean (h_name r) =? c) rb.
Record SameFile (h r : hdr) : Prop := {
  sf_kind : h_isdir h = h_isdir r; sf_mode : perm_of h = perm_of r;
  sf_uid : h_uid h = h_uid r; sf_gid : h_gid h = h_gid r;
  sf_csum : h_csum h = "" <-> h_csum r = "" }.
(* every file record survives, and nothing is invented *)
Definition FilesSurvive (files rb : list hdr) : Prop :=
  (forall h, In h files -> exists r, find_rec (clean (h_name h)) rb = Some r /\ SameFile h r) /\
  (forall r, In r rb -> exists h, In h files /\ clean (h_name h) = clean (h_name r)).
Definition InstalledRoundTrip (p : pkg) (files : list hdr) (rb : res (list (pkg * list hdr))) : Prop :=
  exists p' fs, rb = Ok [(p', fs)] /\ SamePkg p p' /\ FilesSurvive files fs.

(* The same minus the two things the recorded findings take away: install_if
   (written in Go's slice syntax, C16-F1) and the per-file checksum (Z: is never
   read, C16-F2). *)
Record SamePkgButInstallIf (a b : pkg) : Prop := {
  spi_name : p_name a = p_name b; spi_version : p_version a = p_version b; spi_arch : p_arch a = p_arch b;
  spi_desc : p_desc a = p_desc b; spi_license : p_license a = p_license b; spi_origin : p_origin a = p_origin b;
  spi_maint : p_maint a = p_maint b; spi_url : p_url a = p_url b; spi_commit : p_commit a = p_commit b;
  spi_checksum : p_checksum a = p_checksum b; spi_deps : p_deps a = p_deps b; spi_provides : p_provides a = p_provides b;
  spi_replaces : p_replaces a = p_replaces b;
  spi_size : p_size a = p_size b; spi_isize : p_isize a = p_isize b; spi_prio : p_prio a = p_prio b;
  spi_btime : p_btime a = p_btime b }.
Record SameFileButChecksum (h r : hdr) : Prop := {
  sfc_kind : h_isdir h = h_isdir r; sfc_mode : perm_of h = perm_of r;
  sfc_uid : h_uid h = h_uid r; sfc_gid : h_gid h = h_gid r }.
Definition FilesSurviveButChecksum (files rb : list hdr) : Prop :=
  (forall h, In h files -> exists r, find_rec (clean (h_name h)) rb = Some r /\ SameFileButChecksum h r) /\
  (forall r, In r rb -> exists h, In h files /\ clean (h_name h) = clean (h_name r)).
Definition InstalledRoundTripPartial (p : pkg) (files : list hdr) (rb : res (list (pkg * list hdr))) : Prop :=
  exists p' fs, rb = Ok [(p', fs)] /\ SamePkgButInstallIf p p' /\
    p_installif p' = go_slice_readback (p_installif p) /\ FilesSurviveButChecksum files fs.

(* Why an entry can be missing although the format could carry it: sortTarHeaders
   only emits what it reaches from the top-level directories that have children.
   [reachable] says whether it would: every ancestor is present as a directory
   entry, and a top-level entry has at least one child. *)
Fixpoint reachable (fuel : nat) (files : list hdr) (c : string) : bool :=
  match fuel with
  | O => false
  | S f =>
      let d := path_dir c in
      if d =? "." then existsb (fun h => path_dir (clean (h_name h)) =? c) files
      else existsb (fun h => h_isdir h && (clean (h_name h) =? d)) files && reachable f files d
  end.

Definition file_tags (files rb : list hdr) (h : hdr) : list string :=
  let c := clean (h_name h) in
  match find_rec c rb with
  | None => if reachable (S (String.length c)) files c then ["viol:installed-file-record-lost"]
            else ["viol:installed-unreachable-entry-dropped"]
  | Some r =>
      tag_if (negb (Bool.eqb (h_isdir h) (h_isdir r))) "viol:installed-file-kind" ++
      tag_if (negb (perm_of h =? perm_of r)%Z) "viol:installed-file-mode" ++
      tag_if (negb (h_uid h =? h_uid r)%Z) "viol:installed-file-uid" ++
      tag_if (negb (h_gid h =? h_gid r)%Z) "viol:installed-file-gid" ++
      (if Bool.eqb (h_csum h =? "") (h_csum r =? "") then []
       else if h_csum r =? "" then ["viol:installed-Z-not-read"] else ["viol:installed-file-checksum"])
  end.
Definition spurious_tags (files rb : list hdr) : list string :=
  flat_map (fun r => tag_if (negb (existsb (fun h => clean (h_name h) =? clean (h_name r)) files))
                            "viol:installed-file-record-invented") rb.
Definition installed_rt_tags (p : pkg) (files : list hdr) (rb : res (list (pkg * list hdr))) : list string :=
  match rb with
  | Ok [(p', fs)] => pkg_tags "installed" p p' ++ flat_map (file_tags files fs) files ++ spurious_tags files fs
  | Ok _ => ["viol:installed-record-count"]
  | _ => ["viol:installed-readback-failed"]
  end.

(* ---- sortTarHeaders: what the installed format needs from the order -------------- *)
(* every non-directory entry is governed by the last directory entry before it *)
Fixpoint governed (last_dir : option string) (l : list hdr) : bool :=
  match l with
  | [] => true
  | h :: l' =>
      if h_isdir h then governed (Some (dir_trim (h_name h))) l'
      else match last_dir with
           | Some d => (sanitize_archive_path d (path_base (h_name h)) =? clean (h_name h)) && governed last_dir l'
           | None => false
           end
  end.
Definition hdr_eqb (a b : hdr) : bool :=
  (h_name a =? h_name b) && Bool.eqb (h_isdir a) (h_isdir b) && (h_mode a =? h_mode b)%Z &&
  (h_uid a =? h_uid b)%Z && (h_gid a =? h_gid b)%Z && (h_csum a =? h_csum b).
Definition sort_tags (input output : list hdr) : list string :=
  tag_if (negb (governed None output)) "viol:sort-file-not-under-its-directory" ++
  tag_if (negb (forallb (fun o => existsb (hdr_eqb o) input) output)) "viol:sort-invented-entry" ++
  flat_map (fun h => if existsb (hdr_eqb h) output then []
                     else if reachable (S (String.length (clean (h_name h)))) input (clean (h_name h))
                          then ["viol:sort-entry-lost"] else ["viol:installed-unreachable-entry-dropped"]) input.

(* the readable statement [sort_tags] decides (Proofs/FormatsSort.v): the output has
   the shape the format needs, invents nothing and loses nothing *)
Definition SortedWell (input output : list hdr) : Prop :=
  governed None output = true /\ incl output input /\ incl input output.

(* ---- passwd / group ------------------------------------------------------------------ *)
Definition user_eqb (a b : user) : bool :=
  (u_name a =? u_name b) && (u_pass a =? u_pass b) && (u_uid a =? u_uid b)%N && (u_gid a =? u_gid b)%N &&
  (u_info a =? u_info b) && (u_home a =? u_home b) && (u_shell a =? u_shell b).
Definition UsersRoundTrip (orig : list user) (rb : res (list user)) : Prop := rb = Ok orig.
Definition users_rt_tags (orig : list user) (rb : res (list user)) : list string :=
  match rb with
  | Ok l => tag_if (negb (list_eqb user_eqb orig l)) "viol:passwd-entry-changed"
  | _ => ["viol:passwd-readback-failed"]
  end.

Definition group_tags (a b : group) : list string :=
  tag_if (negb ((g_name a =? g_name b) && (g_pass a =? g_pass b) && (g_gid a =? g_gid b)%N)) "viol:group-entry-changed" ++
  (if strs_eqb (g_members a) (g_members b) then []
   else if strs_eqb (g_members a) [] && strs_eqb (g_members b) [""] then ["viol:group-empty-members-read-as-one-empty-name"]
        else ["viol:group-members-changed"]).
Definition GroupsRoundTrip (orig : list group) (rb : res (list group)) : Prop := rb = Ok orig.
Fixpoint groups_tags (a b : list group) : list string :=
  match a, b with
  | [], [] => []
  | x :: a', y :: b' => group_tags x y ++ groups_tags a' b'
  | _, _ => ["viol:group-record-count"]
  end.
Definition groups_rt_tags (orig : list group) (rb : res (list group)) : list string :=
  match rb with
  | Ok l => groups_tags orig l
  | _ => ["viol:group-readback-failed"]
  end.

(* ---- read then re-write reproduces a well-formed file ------------------------------ *)
Definition Fixpoint_ (orig rewritten : string) : Prop := rewritten = orig.
Definition fixpoint_tags (k : string) (orig : string) (rewritten : res string) : list string :=
  match rewritten with
  | Ok s => tag_if (negb (s =? orig)) ("viol:" +++ k +++ "-read-write-not-fixpoint")
  | _ => ["viol:" +++ k +++ "-read-write-failed"]
  end.
(* installed database: line-wise, so that the two recorded defects are told apart
   from anything else (Z: lines vanish; the i: line is re-written in Go syntax) *)
Definition starts (p s : string) : bool := has_prefix p s.
Fixpoint lines_tags (a b : list string) : list string :=
  match a, b with
  | [], [] => []
  | x :: a', y :: b' =>
      (if x =? y then [] else
       if starts "i:" x && starts "i:" y then ["viol:installed-installif-go-slice-format"]
       else ["viol:installed-read-write-not-fixpoint"]) ++ lines_tags a' b'
  | _, _ => ["viol:installed-read-write-not-fixpoint"]
  end.
(* A package whose file list names one DIRECTORY twice (legal in a tar stream):
   sortTarHeaders emits the directory once per header and under EACH of them all
   its children, so every write multiplies the records (finding C16-F7). The
   generic fixpoint tag is attributed to that mechanism only when the input has
   such a pair. *)
Fixpoint dup_dir (files : list hdr) : bool :=
  match files with
  | [] => false
  | h :: t => (h_isdir h && existsb (fun g => h_isdir g && (clean (h_name g) =? clean (h_name h))) t) || dup_dir t
  end.
Definition s_notfix : string := "viol:installed-read-write-not-fixpoint".
Definition attribute_dup_dir (files : list hdr) (tags : list string) : list string :=
  if dup_dir files && existsb (String.eqb s_notfix) tags
  then "viol:installed-duplicate-directory-header-multiplies-records" :: filter (fun t => negb (t =? s_notfix)) tags
  else tags.
Definition installed_fixpoint_tags (orig : string) (rewritten : res string) : list string :=
  match rewritten with
  | Ok s =>
      let la := split_on ch_nl orig in
      let lb := split_on ch_nl s in
      let la' := filter (fun l => negb (starts "Z:" l)) la in
      tag_if (negb (Nat.eqb (List.length la) (List.length la'))) "viol:installed-Z-not-read" ++
      lines_tags la' lb
  | _ => ["viol:installed-read-write-failed"]
  end.

(* ---- installed database: read then re-write, modulo the two recorded findings -------
   What remains of "reading a written file and writing it again reproduces it"
   once C16-F1 and C16-F2 are set aside: the Z: lines are gone, and the i: line
   is another i: line; every other line is reproduced, in order. *)
Definition keepz (l : string) : bool := negb (starts "Z:" l).
Definition drop_z (ls : list string) : list string := filter keepz ls.
Definition line_mod_i (x y : string) : Prop := x = y \/ (starts "i:" x = true /\ starts "i:" y = true).
Definition InstalledFixpointModIZ (orig rewritten : string) : Prop :=
  Forall2 line_mod_i (drop_z (split_on ch_nl orig)) (split_on ch_nl rewritten).
Definition s_f1 : string := "viol:installed-installif-go-slice-format".
Definition s_f2 : string := "viol:installed-Z-not-read".

(* A DIRECTORY entry whose name ends in two slashes (legal in a tar stream, not
   produced by tar writers): the writer's TrimSuffix removes one slash per write,
   so F:a/ becomes F:a the second time (finding C16-F8). As for dup_dir, the
   generic tag is attributed to that mechanism only when the input has such a name. *)
Definition ends_slash (s : string) : bool := match last_char s with Some a => Ascii.eqb a ch_slash | None => false end.
Definition two_slashes (files : list hdr) : bool :=
  existsb (fun h => h_isdir h && ends_slash (trim_suffix_char ch_slash (h_name h))) files.
Definition attribute_two_slashes (files : list hdr) (tags : list string) : list string :=
  if two_slashes files && existsb (String.eqb s_notfix) tags
  then "viol:installed-directory-trailing-slash-trimmed-once-per-write" :: filter (fun t => negb (t =? s_notfix)) tags
  else tags.

(* ---- passwd / group readers on any text: one entry per line -----------------------------
   Whatever the text (the last line terminated or not, LF or CRLF), a reader that
   succeeds returns exactly one entry per line: no line is dropped (in particular
   not an unterminated last one) and none is invented.  Lines are counted on the
   text itself, independently of the model's reader. *)
Definition text_line_count (s : string) : nat := List.length (raw_lines s).
Definition entry_count_tags {A} (k : string) (text : string) (rb : res (list A)) : list string :=
  match rb with
  | Ok l => tag_if (negb (Nat.eqb (List.length l) (text_line_count text))) ("viol:" +++ k +++ "-entry-count-differs-from-line-count")
  | _ => []
  end.

(* ---- a database of several records ---------------------------------------------------------
   The reader returns one record per written record, in order, each judged like a
   single one. *)
Fixpoint db_rt_tags (rs : list (pkg * list hdr)) (l : list (pkg * list hdr)) : list string :=
  match rs, l with
  | [], [] => []
  | (p, files) :: rs', r :: l' => installed_rt_tags p files (Ok [r]) ++ db_rt_tags rs' l'
  | _, _ => ["viol:installed-db-record-count"]
  end.
Definition db_tags (rs : list (pkg * list hdr)) (rb : res (list (pkg * list hdr))) : list string :=
  match rb with Ok l => db_rt_tags rs l | _ => ["viol:installed-readback-failed"] end.
