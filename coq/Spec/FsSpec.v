(* C17 — the reference filesystem: an inode heap with a directory tree, one
   POSIX-style step per operation, path resolution that walks the tree
   physically (".." is the parent directory, a symbolic link's target is
   resolved from the directory that contains the link) with a budget on the
   TOTAL number of links followed, and "a failing step leaves the state
   unchanged" by construction.

   The state, operation and observation types are those of Model/MemFS.v, so
   that "the implementation's step equals the reference's step" is an
   equation.  Nothing else of the model is used above the line
   "the envelope" below.

   Choices where POSIX leaves room (recorded in notes/C17.md): link(2) follows
   a symbolic link given as the old name; Read at or after the end reports EOF
   the io.Reader way; "no such attribute" is in the class NotExist and removing
   an absent attribute succeeds; MkdirAll keeps the directories it made before
   failing (as mkdir -p does), so it is excluded from failure-no-change. *)
From Apko Require Export Model.MemFS.
Open Scope string_scope. Open Scope list_scope.

Definition spec_max_links : nat := memfs_max_links.

(* ---- path resolution ------------------------------------------------------ *)
(* A resolution works on a stack of inodes: the current node first, then its
   chain of parent directories down to the root (inode 0). *)
Definition cur (stack : list nat) : nat := hd 0 stack.
Definition pop (stack : list nat) : list nat :=
  match stack with _ :: ((_ :: _) as st') => st' | _ => stack end.

Inductive rres :=
| RFound (stack : list nat) (name : option string)   (* the node, and the name it was found under *)
| RMissing (stack : list nat) (name : string)        (* everything but the last name exists *)
| RErr (e : eclass).
Inductive wres := WEnd (r : rres) | WLink (stack : list nat) (tgt rest : path).

(* walk the components; stop at the first symbolic link that has to be followed *)
Fixpoint s_walk (h : list node) (stack : list nat) (nm : option string) (p : path) (follow : bool) : wres :=
  match p with
  | [] => WEnd (RFound stack nm)
  | c :: rest =>
      if String.eqb c "" then s_walk h stack nm rest follow
      else if negb (is_dir h (cur stack)) then WEnd (RErr EOther)            (* ENOTDIR *)
      else if String.eqb c "." then s_walk h stack None rest follow
      else if String.eqb c ".." then s_walk h (pop stack) None rest follow
      else match lookup c (n_children (get h (cur stack))) with
           | None => match rest with
                     | [] => WEnd (RMissing stack c)
                     | _ => WEnd (RErr ENotExist)
                     end
           | Some i =>
               if is_sym h i && (follow || match rest with [] => false | _ => true end)
               then WLink stack (n_target (get h i)) rest
               else s_walk h (i :: stack) (Some c) rest follow
           end
  end.

(* follow at most [budget] links in total; one more is ELOOP *)
Fixpoint s_resolve (budget : nat) (h : list node) (stack : list nat) (nm : option string) (p : path)
  (follow : bool) : rres :=
  match s_walk h stack nm p follow with
  | WEnd r => r
  | WLink st tgt rest =>
      match budget with
      | O => RErr EOther                                                      (* ELOOP *)
      | S b' =>
          if path_eqb tgt [""] then RErr ENotExist                            (* empty target *)
          else s_resolve b' h (if rooted tgt then [0] else st) None (tgt ++ rest) follow
      end
  end.

Definition s_path (h : list node) (p : path) (follow : bool) : rres :=
  if path_eqb p [""] then RErr ENotExist
  else s_resolve spec_max_links h [0] None p follow.

Definition s_node (h : list node) (p : path) : eres nat :=
  match s_path h p true with
  | RFound st _ => inl (cur st) | RMissing _ _ => inr ENotExist | RErr e => inr e
  end.
Definition s_lnode (h : list node) (p : path) : eres nat :=
  match s_path h p false with
  | RFound st _ => inl (cur st) | RMissing _ _ => inr ENotExist | RErr e => inr e
  end.
(* the directory and the name an entry-level operation works on, and the
   entry's inode if it exists (the last symbolic link is not followed) *)
Definition s_leaf (h : list node) (p : path) : eres (nat * string * option nat) :=
  match s_path h p false with
  | RFound (c :: par :: _) (Some nm) => inl (par, nm, Some c)
  | RFound _ _ => inr EOther                        (* "/", "." or ".." as the last component *)
  | RMissing st nm => inl (cur st, nm, None)
  | RErr e => inr e
  end.

(* ---- open(2) ---------------------------------------------------------------- *)
Definition s_open (h : list node) (p : path) (fl : oflags) (perm : N) : opened :=
  match s_path h p true with
  | RErr e => OpErr e
  | RMissing st nm =>
      if f_creat fl then let '(h', i) := create h (cur st) nm (empty_node KReg perm) in OpNode h' i
      else OpErr ENotExist
  | RFound st _ =>
      if f_creat fl && f_excl fl then OpErr EExist
      else if is_dir h (cur st) then
        match f_acc fl with
        | ARd => if f_creat fl || f_trunc fl then OpErr EOther else OpNode h (cur st)
        | _ => OpErr EOther                                                    (* EISDIR *)
        end
      else OpNode h (cur st)
  end.

(* a new open file description starts at offset 0, also with O_APPEND (which
   moves the offset to the end before each write) *)
Definition s_new_handle (h : list node) (i : nat) (fl : oflags) : list node * handle :=
  ((if f_trunc fl then upd h i (set_data []) else h), mkH i 0%Z fl true).

Definition s_do_open (s : st) (p : path) (fl : oflags) (perm : N) : st * out :=
  match s_open (heap s) p fl perm with
  | OpErr e => (s, OErr e)
  | OpNode h i => let '(h1, hd) := s_new_handle h i fl in (mkSt h1 (handles s ++ [hd]), OOk)
  end.

(* ---- mkdir -p ---------------------------------------------------------------- *)
Fixpoint s_mkdirall (h : list node) (stack : list nat) (p : path) (perm : N) : list node * option eclass :=
  match p with
  | [] => (h, None)
  | c :: rest =>
      if String.eqb c "" || String.eqb c "." then s_mkdirall h stack rest perm
      else if String.eqb c ".." then s_mkdirall h (pop stack) rest perm
      else if negb (is_dir h (cur stack)) then (h, Some EOther)
      else match lookup c (n_children (get h (cur stack))) with
           | None => let '(h', i) := create h (cur stack) c (empty_node KDir perm) in
                     s_mkdirall h' (i :: stack) rest perm
           | Some _ =>
               match s_resolve spec_max_links h stack None [c] true with
               | RFound st' _ => if is_dir h (cur st') then s_mkdirall h st' rest perm else (h, Some EOther)
               (* the name exists but does not lead anywhere: mkdir(2) says EEXIST *)
               | RMissing _ _ => (h, Some EExist)
               | RErr _ => (h, Some EExist)
               end
           end
  end.

(* ---- the step ------------------------------------------------------------------ *)
Definition s_with_node (s : st) (p : path) (k : nat -> st * out) : st * out :=
  match s_node (heap s) p with inr e => (s, OErr e) | inl i => k i end.
Definition s_with_leaf (s : st) (p : path) (k : nat -> string -> option nat -> st * out) : st * out :=
  match s_leaf (heap s) p with inr e => (s, OErr e) | inl (pi, nm, c) => k pi nm c end.

Definition readable (fl : oflags) : bool := match f_acc fl with AWr => false | _ => true end.
Definition writable (fl : oflags) : bool := match f_acc fl with ARd => false | _ => true end.

Definition s_enter_new (s : st) (pi : nat) (c : option nat) (mk : list node -> list node) : st * out :=
  if negb (is_dir (heap s) pi) then (s, OErr EOther)                          (* ENOTDIR *)
  else match c with
       | Some _ => (s, OErr EExist)
       | None => (seth s (mk (heap s)), OOk)
       end.

Definition spec_raw (s : st) (o : op) : st * out :=
  match o with
  | Mkdir p perm =>
      s_with_leaf s p (fun pi nm c =>
        if negb (is_dir (heap s) pi) then (s, OErr EOther)
        else match c with
             | Some _ => (s, OErr EExist)
             | None => (seth s (fst (create (heap s) pi nm (empty_node KDir perm))), OOk)
             end)
  | MkdirAll p perm =>
      if path_eqb p [""] then (s, OErr ENotExist)
      else let '(h, e) := s_mkdirall (heap s) [0] p perm in
           (seth s h, match e with None => OOk | Some e => OErr e end)
  | OpenFile p fl perm => s_do_open s p fl perm
  | Create p => s_do_open s p rdwr_create_trunc 438%N
  | Read i n =>
      with_handle s i (fun hd =>
        if negb (readable (h_fl hd)) then (s, OErr EOther)                   (* EBADF *)
        else if is_dir (heap s) (h_ino hd) then (s, OErr EOther)              (* EISDIR *)
        else
        let d := n_data (get (heap s) (h_ino hd)) in
        if (h_off hd <? 0)%Z then (s, OErr EOther)
        (* at or after the end: EOF, except that read(fd, buf, 0) is 0 bytes *)
        else if negb (Nat.eqb n 0) && (h_off hd >=? blen d)%Z then (s, OErr EEOF)
        else let bs := firstn n (skipn (Z.to_nat (h_off hd)) d) in
             (mkSt (heap s) (upd_h (handles s) i (set_off (h_off hd + blen bs)%Z)), OBytes bs))
  | ReadAt i n off =>
      with_handle s i (fun hd =>
        if negb (readable (h_fl hd)) then (s, OErr EOther)
        else if is_dir (heap s) (h_ino hd) then (s, OErr EOther)
        else
        let d := n_data (get (heap s) (h_ino hd)) in
        if (off <? 0)%Z then (s, OErr EOther)                                  (* EINVAL *)
        else if negb (Nat.eqb n 0) && (off >=? blen d)%Z then (s, OErr EEOF)
        else (s, OBytes (firstn n (skipn (Z.to_nat off) d))))
  | Write i p =>
      with_handle s i (fun hd =>
        if negb (writable (h_fl hd)) then (s, OErr EOther)                   (* EBADF *)
        else
        let d := n_data (get (heap s) (h_ino hd)) in
        let o := if f_app (h_fl hd) then blen d else h_off hd in            (* O_APPEND: always at the end *)
        if (o <? 0)%Z then (s, OErr EOther)
        else (mkSt (upd (heap s) (h_ino hd) (set_data (write_at d (Z.to_nat o) p)))
                   (upd_h (handles s) i (set_off (o + blen p)%Z)), ONum (blen p)))
  | Seek i off wh =>
      with_handle s i (fun hd =>
        let d := n_data (get (heap s) (h_ino hd)) in
        let r := match wh with
                 | 0 => Some off | 1 => Some (h_off hd + off)%Z | 2 => Some (blen d + off)%Z | _ => None
                 end in
        match r with
        | None => (s, OErr EOther)
        | Some o' => if (o' <? 0)%Z then (s, OErr EOther)                      (* EINVAL *)
                     else (mkSt (heap s) (upd_h (handles s) i (set_off o')), ONum o')
        end)
  | Close i =>
      with_handle s i (fun hd => (mkSt (heap s) (upd_h (handles s) i set_closed), OOk))
  | ReadFile p =>
      s_with_node s p (fun i =>
        if is_dir (heap s) i then (s, OErr EOther) else (s, OBytes (n_data (get (heap s) i))))
  | WriteFile p bs perm =>
      match s_open (heap s) p rdwr_create_trunc perm with
      | OpErr e => (s, OErr e)
      | OpNode h i => (seth s (upd h i (set_data bs)), OOk)
      end
  | ReadDir p =>
      s_with_node s p (fun i =>
        if negb (is_dir (heap s) i) then (s, OErr EOther)
        else (s, ODir (sort_keys (List.map (fun '(nm, c) => (nm, n_kind (get (heap s) c))) (n_children (get (heap s) i))))))
  | Stat p => s_with_node s p (fun i => (s, info_of (get (heap s) i)))
  | Lstat p =>
      match s_lnode (heap s) p with inr e => (s, OErr e) | inl i => (s, info_of (get (heap s) i)) end
  | Symlink tgt p =>
      s_with_leaf s p (fun pi nm c =>
        s_enter_new s pi c (fun h => fst (create h pi nm (mkNode KSym 511%N 0%Z 0%Z [] None tgt 0%N [] []))))
  | Mknod p perm dev =>
      s_with_leaf s p (fun pi nm c =>
        s_enter_new s pi c (fun h => fst (create h pi nm (mkNode KDev perm 0%Z 0%Z [] None [] dev [] []))))
  | Link old new =>
      s_with_leaf s new (fun pi nm c =>
        if negb (is_dir (heap s) pi) then (s, OErr EOther)                    (* ENOTDIR *)
        else match s_node (heap s) old with
             | inr e => (s, OErr e)
             | inl t => if is_dir (heap s) t then (s, OErr EOther)            (* EPERM *)
                        else s_enter_new s pi c (fun h => add_child h pi nm t)
             end)
  | Readlink p =>
      s_with_leaf s p (fun pi nm c =>
        match c with
        | None => (s, OErr ENotExist)
        | Some c => if is_sym (heap s) c then (s, OPath (n_target (get (heap s) c))) else (s, OErr EOther)
        end)
  | Readnod p =>
      s_with_leaf s p (fun pi nm c =>
        match c with
        | None => (s, OErr ENotExist)
        | Some c => match n_kind (get (heap s) c) with
                    | KDev => (s, ONum (Z.of_N (n_dev (get (heap s) c))))
                    | _ => (s, OErr EOther)
                    end
        end)
  | Remove p =>
      s_with_leaf s p (fun pi nm c =>
        match c with
        | None => (s, OErr ENotExist)
        | Some c => if is_dir (heap s) c && negb (match n_children (get (heap s) c) with [] => true | _ => false end)
                    then (s, OErr EExist)              (* ENOTEMPTY, which Go files under fs.ErrExist *)
                    else (seth s (del_child (heap s) pi nm), OOk)
        end)
  | Chmod p perm => s_with_node s p (fun i => (seth s (upd (heap s) i (set_perm perm)), OOk))
  | Chown p u g => s_with_node s p (fun i => (seth s (upd (heap s) i (set_owner u g)), OOk))
  | Chtimes p t => s_with_node s p (fun i => (seth s (upd (heap s) i (set_mtime (Some t))), OOk))
  | SetXattr p a v =>
      s_with_node s p (fun i =>
        (seth s (upd (heap s) i (fun n => set_xattrs (set_key a v (n_xattrs n)) n)), OOk))
  | GetXattr p a =>
      s_with_node s p (fun i =>
        match lookup a (n_xattrs (get (heap s) i)) with
        | None => (s, OErr ENotExist)
        | Some v => (s, OBytes v)
        end)
  | RemoveXattr p a =>
      s_with_node s p (fun i =>
        (seth s (upd (heap s) i (fun n => set_xattrs (remove_key a (n_xattrs n)) n)), OOk))
  | ListXattrs p =>
      s_with_node s p (fun i => (s, OXattrs (sort_keys (n_xattrs (get (heap s) i)))))
  end.

Definition is_failure (r : out) : bool := match r with OErr _ | OPanic => true | _ => false end.
Definition is_mkdirall (o : op) : bool := match o with MkdirAll _ _ => true | _ => false end.

(* a failing step returns the state it was given (mkdir -p excepted, see above) *)
Definition spec_step (s : st) (o : op) : st * out :=
  let '(s', r) := spec_raw s o in
  if is_failure r && negb (is_mkdirall o) then (s, r) else (s', r).

Fixpoint spec_run (s : st) (ops : list op) : st * list out :=
  match ops with
  | [] => (s, [])
  | o :: ops' => let '(s1, r) := spec_step s o in
                 let '(s2, rs) := spec_run s1 ops' in (s2, r :: rs)
  end.

(* ======================= the envelope ==========================================
   [corner b s o] names the first way in which backend [b]'s code leaves the
   reference on operation [o] in state [s]; [None] = inside the envelope.  The
   clauses compare what the Go code's lexical, nesting-bounded lookups
   (get_node / m_leaf / open_at / mkdirall_loop of Model/MemFS.v) return with
   what the reference resolution returns, and test the operation-specific
   corners.  The names are the validator tags of KNOWN_FINDINGS.txt. *)
Definition kind_eqb (a b : kind) : bool :=
  match a, b with KDir, KDir | KReg, KReg | KSym, KSym | KDev, KDev => true | _, _ => false end.
Definition eclass_eqb (a b : eclass) : bool :=
  match a, b with
  | ENotExist, ENotExist | EExist, EExist | EClosed, EClosed | EEOF, EEOF | EOther, EOther => true
  | _, _ => false
  end.
Definition pair_eqb {A B} (ea : A -> A -> bool) (eb : B -> B -> bool) (x y : A * B) : bool :=
  ea (fst x) (fst y) && eb (snd x) (snd y).
Definition node_eqb (a b : node) : bool :=
  kind_eqb (n_kind a) (n_kind b) && N.eqb (n_perm a) (n_perm b) && Z.eqb (n_uid a) (n_uid b) &&
  Z.eqb (n_gid a) (n_gid b) && list_eqb N.eqb (n_data a) (n_data b) &&
  option_eqb Z.eqb (n_mtime a) (n_mtime b) && path_eqb (n_target a) (n_target b) && N.eqb (n_dev a) (n_dev b) &&
  list_eqb (pair_eqb String.eqb (list_eqb N.eqb)) (n_xattrs a) (n_xattrs b) &&
  list_eqb (pair_eqb String.eqb Nat.eqb) (n_children a) (n_children b).
Definition heap_eqb : list node -> list node -> bool := list_eqb node_eqb.

Definition clean_name (c : string) : bool := negb (String.eqb c "" || String.eqb c "." || String.eqb c "..").
Definition nonempty {A} (l : list A) : bool := match l with [] => false | _ => true end.
(* "/", ".", or an optional leading "/" followed by one or more ordinary names *)
Definition clean_path (p : path) : bool :=
  is_root_path p ||
  match p with
  | "" :: q => nonempty q && forallb clean_name q
  | q => nonempty q && forallb clean_name q
  end.
Definition clean_leaf_path (p : path) : bool := clean_path p && negb (is_root_path p).

Definition eres_nat_eqb (a b : eres nat) : bool :=
  match a, b with inl x, inl y => Nat.eqb x y | inr x, inr y => eclass_eqb x y | _, _ => false end.
Definition leaf_eqb (a b : eres (nat * string * option nat)) : bool :=
  match a, b with
  | inl (p1, n1, c1), inl (p2, n2, c2) => Nat.eqb p1 p2 && String.eqb n1 n2 && option_eqb Nat.eqb c1 c2
  | inr x, inr y => eclass_eqb x y
  | _, _ => false
  end.
Definition opened_eqb (a b : opened) : bool :=
  match a, b with
  | OpErr x, OpErr y => eclass_eqb x y
  | OpNode h1 i1, OpNode h2 i2 => heap_eqb h1 h2 && Nat.eqb i1 i2
  | _, _ => false
  end.

Definition first_corner (l : list (bool * string)) : option string :=
  match filter (fun x => negb (fst x)) l with [] => None | (_, t) :: _ => Some t end.

Definition t_path := "path-not-normalised".
Definition t_prefix := "nondir-prefix-reported-notexist".
Definition t_link := "symlink-lexical-or-nesting-resolution".

(* lookup of a whole path: getNode against the reference *)
Definition node_corner (b : backend) (h : list node) (p : path) : list (bool * string) :=
  let m := get_node b h p in let r := s_node h p in
  [ (clean_path p, t_path);
    (negb (match m, r with inr ENotExist, inr EOther => true | _, _ => false end), t_prefix);
    (eres_nat_eqb m r, t_link) ].
(* Dir/Base + getNode(parent) against the reference *)
(* [chk]: the operation tests "parent is a directory" itself (Mkdir, and since
   fix ba6ef02 Symlink / Mknod / Link); then a non-directory parent is answered
   like the reference (ENOTDIR) although the lookups differ *)
Definition leaf_nondir_parent (h : list node) (m r : eres (nat * string * option nat)) : bool :=
  match m, r with
  | inl (pi, _, _), inr EOther => negb (is_dir h pi)
  | _, _ => false
  end.
Definition leaf_corner (b : backend) (h : list node) (p : path) (chk : bool) : list (bool * string) :=
  let m := m_leaf b h p in let r := s_leaf h p in
  [ (clean_leaf_path p, t_path);
    (negb (match m, r with
           | inr ENotExist, inr EOther => true
           | _, _ => negb chk && leaf_nondir_parent h m r
           end), t_prefix);
    (leaf_eqb m r || (chk && leaf_nondir_parent h m r), t_link) ].
Definition open_corner (b : backend) (h : list node) (p : path) (fl : oflags) (perm : N) : list (bool * string) :=
  let m := open_at b (openfile_depth b) h p fl perm in let r := s_open h p fl perm in
  [ (clean_leaf_path p || (is_root_path p && negb (f_creat fl)), t_path);
    (negb (f_creat fl && f_excl fl), "o-excl-ignored");
    (negb (match s_node h p with inl i => is_dir h i | _ => false end), "open-directory");
    (negb (match m, r with OpErr ENotExist, OpErr EOther => true | _, _ => false end), t_prefix);
    (opened_eqb m r, t_link);
    (negb (f_app fl) || f_trunc fl ||
     match m with OpNode h' i => Nat.eqb (List.length (n_data (get h' i))) 0 | OpErr _ => true end,
     "append-offset-fixed-at-open") ].
Definition handle_corner (s : st) (i : nat) (f : handle -> list (bool * string)) : list (bool * string) :=
  match nth_error (handles s) i with
  | Some hd => if h_open hd then f hd else []
  | None => []
  end.
Definition mkdirall_eqb (a b : list node * option eclass) : bool :=
  heap_eqb (fst a) (fst b) && option_eqb eclass_eqb (snd a) (snd b).

Definition corners (b : backend) (s : st) (o : op) : list (bool * string) :=
  let h := heap s in
  match o with
  | Mkdir p _ => leaf_corner b h p true
  | MkdirAll p perm =>
      let m := mkdirall_loop b h p 0 [] perm in let r := s_mkdirall h [0] p perm in
      [ (clean_path p, t_path);
        (negb (match snd m, snd r with Some ENotExist, Some EOther => true | _, _ => false end), t_prefix);
        (negb (match snd m, snd r with Some ENotExist, Some EExist | Some EOther, Some EExist => true | _, _ => false end),
         "mkdirall-broken-link-error-class");
        (mkdirall_eqb m r, t_link) ]
  | OpenFile p fl perm => open_corner b h p fl perm
  | Create p => open_corner b h p rdwr_create_trunc 438%N
  | ReadFile p => open_corner b h p rdonly 420%N
  | WriteFile p _ perm => open_corner b h p rdwr_create_trunc perm
  | Read i n =>
      handle_corner s i (fun hd =>
        [ (readable (h_fl hd), "open-mode-not-enforced");
          (negb (is_dir h (h_ino hd)), "open-directory");
          (negb (h_off hd <? 0)%Z, "negative-offset-panic");
          (negb (Nat.eqb n 0 && (h_off hd >=? blen (n_data (get h (h_ino hd))))%Z), "zero-length-read-at-eof-reports-eof") ])
  | ReadAt i n off =>
      handle_corner s i (fun hd =>
        [ (readable (h_fl hd), "open-mode-not-enforced");
          (negb (is_dir h (h_ino hd)), "open-directory");
          (negb (Nat.eqb n 0 && (off >=? blen (n_data (get h (h_ino hd))))%Z), "zero-length-read-at-eof-reports-eof") ])
  | Write i _ =>
      handle_corner s i (fun hd =>
        [ (writable (h_fl hd), "open-mode-not-enforced");
          (negb (h_off hd <? 0)%Z, "negative-offset-panic");
          (negb (f_app (h_fl hd)) || (h_off hd =? blen (n_data (get h (h_ino hd))))%Z, "append-offset-fixed-at-open") ])
  | Seek _ _ _ => []
  | Close _ => []
  | ReadDir p | Stat p | Chmod p _ | Chown p _ _ | Chtimes p _ => node_corner b h p
  | Lstat p =>
      [ (clean_path p, t_path);
        (eres_nat_eqb (s_lnode h p) (s_node h p), "lstat-follows-symlink") ] ++ node_corner b h p
  | SetXattr p _ _ | GetXattr p _ | RemoveXattr p _ | ListXattrs p =>
      [ (clean_path p, t_path);
        (match s_node h p with inr ENotExist => true | inr _ => false | inl _ => true end,
         "xattr-lookup-error-always-notexist") ]
      ++ node_corner b h p
  | Symlink _ p | Mknod p _ _ => leaf_corner b h p true
  | Readlink p | Readnod p => leaf_corner b h p false
  | Remove p =>
      leaf_corner b h p false ++
      [ (negb (match s_leaf h p with
               | inl (_, _, Some c) => is_dir h c && nonempty (n_children (get h c))
               | _ => false end), "remove-nonempty-directory") ]
  | Link old new =>
      leaf_corner b h new true ++
      [ (clean_path old, t_path);
        (match get_node b h old, s_node h old with inr _, inr ENotExist => true | inr _, inr _ => false | _, _ => true end,
         "link-oldname-error-always-notexist");
        (negb (match get_node b h old, s_node h old with inr ENotExist, inr EOther => true | _, _ => false end), t_prefix);
        (eres_nat_eqb (get_node b h old) (s_node h old), t_link);
        (negb (match s_node h old with inl t => is_dir h t | _ => false end), "hard-link-to-directory") ]
  end.

Definition corner (b : backend) (s : st) (o : op) : option string := first_corner (corners b s o).
Definition E (b : backend) (s : st) (o : op) : bool := match corner b s o with None => true | Some _ => false end.
