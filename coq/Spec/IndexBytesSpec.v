(* C04 — the byte-level half of the property: the oracle for MUTATED archives.

   Take any byte string handed to parseRepositoryIndex with checking on — in
   particular any alteration (bit flip, byte change, truncation, deletion,
   insertion, splice, cross-over, appended member, hand-made tar blocks) of a
   validly signed archive. The verdict must be one of
     - rejected, or
     - accepted, and then the package list handed on is the one IndexFromArchive
       reads from a SUFFIX of that byte string which is, byte for byte, something
       the holder of a configured key signed.
   [Signed] = the byte strings that were signed; [pkgs_of] = the package list of a
   byte string. *)
From Apko Require Import Base.Prelude Model.Index.
Open Scope string_scope. Open Scope list_scope.

Section MutantSpec.
  Variable Signed : list N -> Prop.
  Variable pkgs_of : list N -> option (list string).

  (* verdict: None = rejected, Some pk = accepted with package list pk *)
  Definition MutantHolds (mutant : list N) (verdict : option (list string)) : Prop :=
    forall pk, verdict = Some pk ->
      exists n, Signed (skipn n mutant) /\ pkgs_of (skipn n mutant) = Some pk.
End MutantSpec.

Definition verdict_of (r : pres) : option (list string) :=
  match r with POk i => Some (i_pkgs i) | _ => None end.

(* ---- the validator the sweep stage feeds ------------------------------------
   A mutant is described from the cut the harness claims: the bytes of the mutant
   AFTER the first (len mutant - len suffix) bytes, as pieces — slices of the base
   archives (given once per file) and literal bytes. The validator renders the
   pieces and demands that the result IS one of the signed byte strings and that
   the accepted package list is that string's. What precedes the suffix is not
   looked at: the statement holds for every prefix. *)
Inductive piece := PSlice (base : nat) (from to : N) | PLit (bs : list N).

Definition render_piece (bases : list (list N)) (p : piece) : list N :=
  match p with
  | PSlice i f t => firstn (N.to_nat (t - f)) (skipn (N.to_nat f) (nth i bases []))
  | PLit bs => bs
  end.
Definition render (bases : list (list N)) (ps : list piece) : list N := flat_map (render_piece bases) ps.

Fixpoint assoc_bytes {A} (x : list N) (tbl : list (list N * A)) : option A :=
  match tbl with
  | [] => None
  | (k, v) :: tbl' => if list_eqb N.eqb x k then Some v else assoc_bytes x tbl'
  end.

Record sweep_case := {
  sw_suffix : list piece;                 (* the mutant from the claimed cut on *)
  sw_ending : string;                     (* diagnostic: what the first member's tar stream ends with ("" = nothing special) *)
  sw_count : N;                           (* how many mutants this case stands for (rejected mutants are batched) *)
  sw_verdict : option (list string) }.

Definition mutant_tags (signed : list (list N * list string)) (suffix : list N) (ending : string)
    (verdict : option (list string)) : list string :=
  match verdict with
  | None => []
  | Some pk =>
      match assoc_bytes suffix signed with
      | None => ["viol:accepted-unsigned-content"]
      | Some spk => tag_if (negb (list_eqb String.eqb spk pk)) ("viol:parsed-differs-from-signed" ++ ending)
      end
  end.

Definition SignedIn (signed : list (list N * list string)) (x : list N) : Prop := exists pk, In (x, pk) signed.
