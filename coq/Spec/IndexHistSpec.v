(* C04 (wave 3) — what the property demands of (a) the multi-architecture wiring and
   (b) histories in which local index files are rewritten between calls, with the
   boolean validators run on the implementation's observed results. *)
From Apko Require Import Base.Prelude Model.Index Spec.IndexSpec Model.IndexWiring Model.IndexCacheFiles.
Open Scope string_scope. Open Scope list_scope.

(* ---- (a) wiring ----------------------------------------------------------------
   When ResolveWorld of context a succeeds, every index that reached resolution —
   a's own and those of every other entry of a.ByArch — was authorised: the request
   switched verification off (a's ignoreSignatures), or the repository is exempted in
   the context it belongs to, or the index is signed by a key configured there. *)
Section WiringSpec.
  Variable ctxs : list wctx.
  Variable signer : nat -> nat -> option string.

  Definition WAuthorised (a j r : nat) : Prop :=
    wx_ignore (ctx_of ctxs a) = true \/ In r (wx_exempt (ctx_of ctxs j)) \/
    exists k, signer j r = Some k /\ In k (wx_keys (ctx_of ctxs j)).

  Definition wauthorised_b (a j r : nat) : bool := index_loads ctxs signer (wx_ignore (ctx_of ctxs a)) j r.

  (* [ok a] = ResolveWorld of context a returned without error *)
  Definition WiringHolds (ok : nat -> bool) : Prop :=
    forall a, a < List.length ctxs -> ok a = true ->
      forall j, j = a \/ In j (siblings ctxs a) -> forall r, r < wx_nrepos (ctx_of ctxs j) -> WAuthorised a j r.

  Definition wiring_tags_of (ok : nat -> bool) (a : nat) : list string :=
    if ok a then
      flat_map (fun j => flat_map (fun r =>
          tag_if (negb (wauthorised_b a j r))
                 (if Nat.eqb j a then "viol:unverified-own-index-reaches-resolution"
                  else "viol:unverified-sibling-index-reaches-resolution"))
        (seq 0 (wx_nrepos (ctx_of ctxs j)))) (a :: siblings ctxs a)
    else [].
  Definition wiring_tags (ok : nat -> bool) : list string :=
    flat_map (wiring_tags_of ok) (seq 0 (List.length ctxs)).
End WiringSpec.

(* ---- (b) rewritten local index files ------------------------------------------------
   For every call of the history, in the world of files as it is at that moment:
   every (repository, version) the call returns is a version that repository carried,
   authorised by THIS call; and when the version in place is visibly the newest (its
   mtime is later than that of every earlier version, so the mtime protocol can see
   it), the repository is used only if THAT version is authorised by this call — an
   index in place that does not verify makes the call fail however often it is
   repeated and whatever was cached before. *)
Section FileSpec.
  Variable loc : nat -> string.
  Variable arch : string.

  Definition visible_head (l : list fver) : bool :=
    match l with v :: older => forallb (fun v' => (fv_mtime v' <? fv_mtime v)%N) older | [] => true end.

  Definition CallHolds (w : fworld) (c : repo_call) (got : list (nat * nat)) : Prop :=
    forall r id, In (r, id) got ->
      (exists v, In v (w r) /\ fv_id v = id /\ auth_sig loc arch c r (fv_signer v) = true) /\
      (forall cur older, w r = cur :: older -> visible_head (w r) = true -> auth_sig loc arch c r (fv_signer cur) = true).

  Fixpoint FilesHold (w : fworld) (evs : list fevent) : Prop :=
    match evs with
    | [] => True
    | EvRewrite r v :: rest => FilesHold (put_version w r v) rest
    | EvCall c got :: rest => CallHolds w c got /\ FilesHold w rest
    end.

  Definition call_file_tags (w : fworld) (c : repo_call) (got : list (nat * nat)) : list string :=
    flat_map (fun p =>
      let '(r, id) := p in
      tag_if (negb (existsb (fun v => Nat.eqb (fv_id v) id && auth_sig loc arch c r (fv_signer v)) (w r)))
             (if existsb (fun v => Nat.eqb (fv_id v) id) (w r)
              then "viol:index-used-without-trusted-signature"
              else "viol:index-returned-that-the-repository-never-carried") ++
      match w r with
      | cur :: _ => tag_if (visible_head (w r) && negb (auth_sig loc arch c r (fv_signer cur)))
                           "viol:repository-used-although-its-index-in-place-does-not-verify"
      | [] => []
      end) got.

  Fixpoint files_tags (w : fworld) (evs : list fevent) : list string :=
    match evs with
    | [] => []
    | EvRewrite r v :: rest => files_tags (put_version w r v) rest
    | EvCall c got :: rest => call_file_tags w c got ++ files_tags w rest
    end.

  (* the observed history with the model's answers put in place of the observed ones *)
  Fixpoint answered (evs : list fevent) (ans : list fanswer) : list fevent :=
    match evs, ans with
    | EvRewrite r v :: rest, _ :: ans' => EvRewrite r v :: answered rest ans'
    | EvCall c _ :: rest, AnsCall _ got :: ans' => EvCall c got :: answered rest ans'
    | _, _ => []
    end.
End FileSpec.
