(* C04 — what the property means, independent of how apko walks the archive,
   and the boolean validators run on the implementation's observed results. *)
From Apko Require Import Base.Prelude Model.Index.
Open Scope string_scope. Open Scope list_scope.

(* signature types the property admits, with their digests *)
Definition supported (algname : string) : option halg :=
  if String.eqb algname "RSA" then Some SHA1
  else if String.eqb algname "RSA256" then Some SHA256
  else None.
Definition supported_names : list string := ["RSA"; "RSA256"].

Definition sig_entry_name (algname key : string) : string :=
  (".SIGN." ++ algname ++ "." ++ key)%string.

Section Spec.
  Variable B D : Type.
  Variable raw : list member -> B.
  Variable hash : halg -> B -> D.
  Variable verify : string -> halg -> D -> list N -> bool.
  Variable parse_text : list N -> option (list string).

  (* The first member carries a signature entry, named after a configured key
     and a supported signature type, that verifies under that key over the
     digest of exactly the remaining raw bytes. *)
  Definition Authentic (keys : list string) (m1 : member) (rest : list member) : Prop :=
    exists e algname a key,
      In e (m_entries m1) /\ e_name e = sig_entry_name algname key /\
      supported algname = Some a /\ In key keys /\
      verify key a (hash a (raw rest)) (e_body e) = true.

  Definition authentic_b (keys : list string) (m1 : member) (rest : list member) : bool :=
    existsb (fun e =>
      existsb (fun key =>
        existsb (fun an =>
          match supported an with
          | Some a => String.eqb (e_name e) (sig_entry_name an key) &&
                      verify key a (hash a (raw rest)) (e_body e)
          | None => false
          end) supported_names) keys) (m_entries m1).

  (* the package list of exactly the signed bytes *)
  Definition signed_pkgs (rest : list member) : option (list string) :=
    match index_from_archive parse_text rest with POk i => Some (i_pkgs i) | _ => None end.

  (* With checking on: an accepted archive is authentic and the package list
     handed to resolution is the one of the signed bytes. [o] = None: rejected. *)
  Definition Holds (keys : list string) (a : archive) (o : option (list string)) : Prop :=
    forall pkgs, o = Some pkgs ->
      exists m1 rest, a = m1 :: rest /\ Authentic keys m1 rest /\ signed_pkgs rest = Some pkgs.

  Definition differs_tag (m1 : member) : string :=
    match m_pending m1, m_tail m1 with
    | Some _, _ => "viol:parsed-differs-from-signed/pending-meta-header"
    | None, TEOA => "viol:parsed-differs-from-signed/end-of-archive-in-signature-member"
    | None, TZero1 => "viol:parsed-differs-from-signed/zero-block-in-signature-member"
    | None, TClean => "viol:parsed-differs-from-signed"
    end.

  Definition holds_tags (keys : list string) (a : archive) (o : option (list string)) : list string :=
    match o with
    | None => []
    | Some pkgs =>
        match a with
        | [] => ["viol:accepted-without-valid-signature"]
        | m1 :: rest =>
            tag_if (negb (authentic_b keys m1 rest)) "viol:accepted-without-valid-signature" ++
            tag_if (negb (option_eqb (list_eqb String.eqb) (signed_pkgs rest) (Some pkgs))) (differs_tag m1)
        end
    end.
End Spec.

(* opt-outs: checking is required unless signatures are ignored altogether or
   the index is the index of a listed repository for this architecture *)
Definition CheckRequired (ignore_signatures : bool) (listed : list string) (index arch : string) : Prop :=
  ignore_signatures = false /\
  forall r, In r listed -> (r ++ "/" ++ arch ++ "/APKINDEX.tar.gz")%string <> index.

Definition check_required_b (ignore_signatures : bool) (listed : list string) (index arch : string) : bool :=
  negb ignore_signatures &&
  forallb (fun r => negb (String.eqb (r ++ "/" ++ arch ++ "/APKINDEX.tar.gz")%string index)) listed.

(* ---- histories of GetRepositoryIndexes calls in one process ------------------
   A call names repositories, a key set, the ignore flag and an exemption list;
   it returns an error or a set of repositories whose index came back.  The
   property speaks about EVERY call: an index is used by a call only if THAT call
   authorised it — verification off, the repository exempted by that call, or the
   index signed by a key that call configured.  What an earlier call accepted
   must not leak into a later one. *)
Record repo_call := {
  rc_repos : list nat; rc_keys : list string; rc_ignore : bool; rc_exempt : list nat;
  o_err : bool; o_got : list nat }.

Section History.
  Variable signer : nat -> option string.     (* whose valid signature the repository's index carries, if any *)
  Variable loc : nat -> string.               (* the repository's location string *)
  Variable arch : string.

  Definition call_check_required (c : repo_call) (r : nat) : bool :=
    check_required_b (rc_ignore c) (map loc (rc_exempt c)) (loc r ++ "/" ++ arch ++ "/APKINDEX.tar.gz")%string arch.

  Definition authorised_b (c : repo_call) (r : nat) : bool :=
    negb (call_check_required c r) ||
    match signer r with Some k => existsb (String.eqb k) (rc_keys c) | None => false end.

  Definition Authorised (c : repo_call) (r : nat) : Prop :=
    call_check_required c r = true -> exists k, signer r = Some k /\ In k (rc_keys c).

  Definition HistoryHolds (calls : list repo_call) : Prop :=
    forall c, In c calls -> forall r, In r (o_got c) -> Authorised c r.

  (* tags of one call given the calls before it: an unauthorised index that an
     EARLIER call of the same history obtained points at the process-wide cache *)
  Definition call_tags (earlier : list repo_call) (c : repo_call) : list string :=
    flat_map (fun r =>
      if authorised_b c r then []
      else if existsb (fun e => existsb (Nat.eqb r) (o_got e)) earlier
           then ["viol:index-cache-ignores-verification-context"]
           else ["viol:index-used-without-trusted-signature"]) (o_got c).

  Fixpoint history_tags_from (earlier calls : list repo_call) : list string :=
    match calls with
    | [] => []
    | c :: rest => call_tags earlier c ++ history_tags_from (earlier ++ [c]) rest
    end.
  Definition history_tags (calls : list repo_call) : list string := history_tags_from [] calls.
End History.
