(* C07 — what the property demands, independent of how apko gets there, and the
   boolean validators that the correspondence check runs on what the REAL code
   was observed to do (error class, final tree, text of lib/apk/db/installed). *)
From Apko Require Import Base.Prelude Model.Install.
Open Scope string_scope. Open Scope list_scope.

(* ---- the rule table ------------------------------------------------------ *)
(* identical content coexists (the first copy stays); otherwise a package that
   declares it replaces the other wins (the installed one first); otherwise the
   later one of the same origin wins; otherwise the build fails *)
Definition spec_decide (same_content old_replaces_new new_replaces_old same_origin : bool) : decision :=
  if same_content then KeepOld
  else if old_replaces_new then KeepOld
  else if new_replaces_old || same_origin then Overwrite
  else Conflict.

(* two packages are of the same origin when both name one and the names agree:
   packages that declare no origin are unrelated *)
Definition spec_same_origin (a b : string) : bool := negb (String.eqb a "") && String.eqb a b.

Definition spec_clash (got want : pkg) (got_sum want_sum : N) : decision :=
  spec_decide (N.eqb got_sum want_sum) (declares got want) (declares want got)
    (spec_same_origin (p_origin got) (p_origin want)).

(* ---- what an observation is ---------------------------------------------- *)
Inductive eclass := ENoError | EConflictClass | EOtherClass.
Definition eclass_eqb (a b : eclass) : bool :=
  match a, b with ENoError, ENoError | EConflictClass, EConflictClass | EOtherClass, EOtherClass => true | _, _ => false end.

Inductive tkind := TReg | TDir | TSym | TOther.
Definition tkind_eqb (a b : tkind) : bool :=
  match a, b with TReg, TReg | TDir, TDir | TSym, TSym | TOther, TOther => true | _, _ => false end.
(* uid/gid are Z: -1 = not observable through the FullFS interface (the link
   node of a symbolic link) *)
Record tnode := { t_path : path; t_kind : tkind; t_sum : N; t_mode : N; t_uid : Z; t_gid : Z }.
Record dbent := { d_path : path; d_dir : bool; d_uid : N; d_gid : N; d_perm : N; d_sum : option N }.
Record dbpkg := { dp_name : string; dp_entries : list dbent }.

Fixpoint tree_get (t : list tnode) (p : path) : option tnode :=
  match t with
  | [] => None
  | n :: t' => if path_eqb (t_path n) p then Some n else tree_get t' p
  end.

(* ---- validator 1: the rule table, on regular files ------------------------
   A walk over the packages in install order that keeps, per path, the package
   whose regular file is installed there. [dec] is the rule in force. *)
Definition owners := list (path * (nat * N * kind)).
Fixpoint own_get (m : owners) (p : path) : option (nat * N * kind) :=
  match m with [] => None | (q, v) :: m' => if path_eqb q p then Some v else own_get m' p end.

Inductive walk_res := WOk (m : owners) | WConflict (p : path) | WFail.
Definition rule := kind -> pkg -> pkg -> N -> N -> option decision.   (* None = the build fails some other way *)

Fixpoint walk_files (dec : rule) (pkgs : list pkg) (i : nat) (me : pkg) (m : owners) (hs : list hdr) : walk_res :=
  match hs with
  | [] => WOk m
  | h :: more =>
      match h_kind h with
      | KReg | KSym =>
          match own_get m (h_path h) with
          | None => walk_files dec pkgs i me ((h_path h, (i, h_sum h, h_kind h)) :: m) more
          | Some (j, gs, _) =>
              match dec (h_kind h) (nth j pkgs no_pkg) me gs (h_sum h) with
              | Some KeepOld => walk_files dec pkgs i me m more
              | Some Overwrite => walk_files dec pkgs i me ((h_path h, (i, h_sum h, h_kind h)) :: m) more
              | Some Conflict => WConflict (h_path h)
              | None => WFail
              end
          end
      | _ => walk_files dec pkgs i me m more
      end
  end.
Fixpoint walk_pkgs (dec : rule) (pkgs : list pkg) (i : nat) (m : owners) (todo : list pkg) : walk_res :=
  match todo with
  | [] => WOk m
  | me :: more =>
      match walk_files dec pkgs i me m (p_files me) with
      | WOk m' => walk_pkgs dec pkgs (S i) m' more
      | r => r
      end
  end.
Definition spec_rule : rule := fun _ got want gs ws => Some (spec_clash got want gs ws).
Definition spec_walk (pkgs : list pkg) : walk_res := walk_pkgs spec_rule pkgs 0 [] pkgs.

(* the two ways the backends are known to leave the table (used only to NAME a
   violation precisely; a violation is whatever differs from [spec_walk]) *)
Definition lazy_empty_origin_rule : rule := fun _ got want gs ws =>
  Some (spec_decide (N.eqb gs ws) (declares got want) (declares want got) (String.eqb (p_origin got) (p_origin want))).
(* streaming: a regular file of a package without origin fails on any clash
   (q1); a symbolic link that differs from the one in place always fails (q2) *)
Definition stream_quirk_rule (q1 q2 : bool) : rule := fun k got want gs ws =>
  match k with
  | KSym => if q2 then (if N.eqb gs ws then Some KeepOld else None) else Some (spec_clash got want gs ws)
  | _ => if q1 && String.eqb (p_origin want) "" then None else Some (spec_clash got want gs ws)
  end.

(* the observation agrees with the outcome a rule prescribes *)
Definition tkind_of (k : kind) : tkind := match k with KSym => TSym | KDir => TDir | _ => TReg end.
Definition winners_present (m : owners) (tree : list tnode) : bool :=
  forallb (fun e =>
    match own_get m (fst e), tree_get tree (fst e) with
    | Some (_, cur, k), Some n => tkind_eqb (t_kind n) (tkind_of k) && N.eqb (t_sum n) cur
    | _, _ => false
    end) m.
Definition agrees (r : walk_res) (e : eclass) (tree : list tnode) : bool :=
  match r with
  | WConflict _ => eclass_eqb e EConflictClass
  | WFail => eclass_eqb e EOtherClass
  | WOk m => eclass_eqb e ENoError && winners_present m tree
  end.

(* readable form of [agrees (spec_walk pkgs)] *)
Definition RulesObeyed (pkgs : list pkg) (e : eclass) (tree : list tnode) : Prop :=
  match spec_walk pkgs with
  | WConflict _ => e = EConflictClass
  | WFail => False
  | WOk m => e = ENoError /\
      forall p i sm k, own_get m p = Some (i, sm, k) ->
        exists n, tree_get tree p = Some n /\ t_kind n = tkind_of k /\ t_sum n = sm
  end.

Definition check_rules (b : backend) (pkgs : list pkg) (e : eclass) (tree : list tnode) : list string :=
  if agrees (spec_walk pkgs) e tree then []
  else if is_lazy b && agrees (walk_pkgs lazy_empty_origin_rule pkgs 0 [] pkgs) e tree
  then ["viol:lazy-empty-origins-count-as-same-origin"]
  else if negb (is_lazy b) && agrees (walk_pkgs (stream_quirk_rule true false) pkgs 0 [] pkgs) e tree
  then ["viol:stream-empty-origin-any-clash-fails"]
  else if negb (is_lazy b) && agrees (walk_pkgs (stream_quirk_rule false true) pkgs 0 [] pkgs) e tree
  then ["viol:stream-symlink-clash-fails"]
  else if negb (is_lazy b) && agrees (walk_pkgs (stream_quirk_rule true true) pkgs 0 [] pkgs) e tree
  then ["viol:stream-empty-origin-any-clash-fails"; "viol:stream-symlink-clash-fails"]
  else match spec_walk pkgs, e with
  | WConflict _, ENoError => ["viol:silent-overwrite"]
  | WConflict _, _ => ["viol:conflict-reported-as-other-error"]
  | WOk _, ENoError => ["viol:wrong-winner"]
  | WOk _, _ => ["viol:spurious-failure"]
  | WFail, _ => ["viol:rules"]
  end.

(* ---- validator 2: every recorded entry exists as recorded ----------------- *)
Definition EntryTrue (tree : list tnode) (d : dbent) : Prop :=
  exists n, tree_get tree (d_path d) = Some n /\
    (d_dir d = true <-> t_kind n = TDir) /\
    N.land (t_mode n) 511 = d_perm d /\
    ((t_uid n < 0)%Z \/ (t_uid n = Z.of_N (d_uid d) /\ t_gid n = Z.of_N (d_gid d))) /\
    (forall sm, d_sum d = Some sm -> t_kind n = TReg \/ t_kind n = TSym -> t_sum n = sm).

(* [earlier_dir p] = the directory existed, or a header creating it was applied,
   before the header this entry records; it only selects the tag *)
Definition check_entry (pre tree : list tnode) (first_mode : path -> option N) (d : dbent) : list string :=
  match tree_get tree (d_path d) with
  | None => ["viol:db-entry-missing-in-tree"]
  | Some n =>
      if negb (d_dir d) && tkind_eqb (t_kind n) TSym &&
         match d_sum d with Some sm => negb (N.eqb (t_sum n) sm) | None => false end
      then ["viol:db-stale-entry-under-symlink"] else
      tag_if (negb (Bool.eqb (d_dir d) (tkind_eqb (t_kind n) TDir))) "viol:db-entry-kind" ++
      (if N.eqb (N.land (t_mode n) 511) (d_perm d) then []
       else if d_dir d && match first_mode (d_path d) with
                          | Some fm => N.eqb fm (N.land (t_mode n) 511) && negb (N.eqb fm (d_perm d))
                          | None => false end
            then ["viol:dir-mode-first-wins"]
            else if negb (d_dir d) && match tree_get pre (d_path d) with
                                      | Some o => tkind_eqb (t_kind o) TReg && N.eqb (t_sum o) (t_sum n) && N.eqb (t_mode o) (t_mode n)
                                      | None => false end
            then ["viol:db-records-preexisting-file"]
            else if negb (d_dir d) && tkind_eqb (t_kind n) TReg && match d_sum d with None => true | Some _ => false end
            then ["viol:db-hardlink-records-header-mode"]   (* only hard links are written without a Z: line *)
            else ["viol:db-mode-mismatch"]) ++
      (if (t_uid n <? 0)%Z then []
       else if Z.eqb (t_uid n) (Z.of_N (d_uid d)) && Z.eqb (t_gid n) (Z.of_N (d_gid d)) then []
       else if Z.eqb (t_uid n) 0 && Z.eqb (t_gid n) 0 then ["viol:db-owner-not-applied"]
       else ["viol:db-owner-mismatch"]) ++
      match d_sum d with
      | Some sm => tag_if ((tkind_eqb (t_kind n) TReg || tkind_eqb (t_kind n) TSym) && negb (N.eqb (t_sum n) sm)) "viol:db-content-mismatch"
      | None => []
      end
  end.

Definition check_db_entries (pre tree : list tnode) (first_mode : path -> option N) (db : list dbpkg) : list string :=
  flat_map (fun p => flat_map (check_entry pre tree first_mode) (dp_entries p)) db.

(* ---- validator 3: every packaged regular file is recorded under exactly one
   package, the one whose content is present --------------------------------- *)
Definition records (dp : dbpkg) (p : path) : bool :=
  existsb (fun d => path_eqb (d_path d) p && negb (d_dir d)) (dp_entries dp).
Definition ships_content (pk : pkg) (p : path) (sm : N) : bool :=
  existsb (fun h => path_eqb (h_path h) p && kind_eqb (h_kind h) KReg && N.eqb (h_sum h) sm) (p_files pk).

(* [db] has one stanza per package, in install order *)
Fixpoint recorders (pkgs : list pkg) (db : list dbpkg) (p : path) : list pkg :=
  match pkgs, db with
  | pk :: ps, dp :: ds => (if records dp p then [pk] else []) ++ recorders ps ds p
  | _, _ => []
  end.

Definition has_dir_headers (pk : pkg) (p : path) : bool :=
  match p with
  | [] | [_] => false
  | _ => forallb (is_dir_hdr (p_files pk)) (prefixes (parent p))
  end.

Definition check_recorded_once (pkgs : list pkg) (db : list dbpkg) (tree : list tnode) (h : hdr) (shipper : pkg) : list string :=
  match h_kind h with
  | KReg =>
      match recorders pkgs db (h_path h), tree_get tree (h_path h) with
      | _, Some {| t_kind := TSym |} => []     (* judged by [check_entry]: a stale entry under a symbolic link *)
      | [], Some n =>
          (* nobody records the path: named precisely when a package shipping the
             bytes present (the possible owners) lacks a directory header for an
             ancestor, so that the writer's sort dropped its entry *)
          if existsb (fun pk => ships_content pk (h_path h) (t_sum n) && negb (has_dir_headers pk (h_path h))) pkgs
          then ["viol:db-drops-file-without-directory-headers"] else ["viol:db-file-unrecorded"]
      | [pk], Some n =>
          tag_if (negb (tkind_eqb (t_kind n) TReg && ships_content pk (h_path h) (t_sum n))) "viol:db-owner-wrong"
      | _ :: _ :: _, _ => ["viol:db-file-recorded-twice"]
      | _, None => ["viol:packaged-file-missing"]
      end
  | _ => []
  end.

Definition check_once_all (pkgs : list pkg) (db : list dbpkg) (tree : list tnode) : list string :=
  nodup string_dec (flat_map (fun pk => flat_map (fun h => check_recorded_once pkgs db tree h pk) (p_files pk)) pkgs).
