(* C07 — what the property demands, independent of how apko gets there, and the
   boolean validators that the correspondence check runs on what the REAL code
   was observed to do (error class, final tree, text of lib/apk/db/installed). *)
From Apko Require Import Base.Prelude Model.Install.
Open Scope string_scope. Open Scope list_scope.

(* ---- the rule table ------------------------------------------------------ *)
(* identical content coexists (the first copy stays); otherwise a package that
   declares it replaces the other wins (the installed one first); otherwise the
   later one of the same origin wins; otherwise the build fails *)
Definition spec_decide (same_content old_replaces_new new_replaces_old same_origin : bool) : decision :=
  if same_content then KeepOld
  else if old_replaces_new then KeepOld
  else if new_replaces_old || same_origin then Overwrite
  else Conflict.

(* two packages are of the same origin when both name one and the names agree:
   packages that declare no origin are unrelated *)
Definition spec_same_origin (a b : string) : bool := negb (String.eqb a "") && String.eqb a b.

Definition spec_clash (got want : pkg) (got_sum want_sum : N) : decision :=
  spec_decide (N.eqb got_sum want_sum) (declares got want) (declares want got)
    (spec_same_origin (p_origin got) (p_origin want)).

(* ---- what an observation is ---------------------------------------------- *)
Inductive eclass := ENoError | EConflictClass | EOtherClass.
Definition eclass_eqb (a b : eclass) : bool :=
  match a, b with ENoError, ENoError | EConflictClass, EConflictClass | EOtherClass, EOtherClass => true | _, _ => false end.

Inductive tkind := TReg | TDir | TSym | TOther.
Definition tkind_eqb (a b : tkind) : bool :=
  match a, b with TReg, TReg | TDir, TDir | TSym, TSym | TOther, TOther => true | _, _ => false end.
(* uid/gid are Z: -1 = not observable through the FullFS interface (the link
   node of a symbolic link) *)
Record tnode := { t_path : path; t_kind : tkind; t_sum : N; t_mode : N; t_uid : Z; t_gid : Z;
                  t_link : path (* symbolic links: the target string split at "/" *) }.
Record dbent := { d_path : path; d_dir : bool; d_uid : N; d_gid : N; d_perm : N; d_sum : option N }.
Record dbpkg := { dp_name : string; dp_entries : list dbent }.

Fixpoint tree_get (t : list tnode) (p : path) : option tnode :=
  match t with
  | [] => None
  | n :: t' => if path_eqb (t_path n) p then Some n else tree_get t' p
  end.

(* "exists at path p" with the meaning lstat(2) gives it: the directories on the
   way are resolved through symbolic links (the resolution of Model/Install.v,
   which is the one the three filesystems implement), the last component is not.
   The observed tree lists every node under its canonical path only. *)
Definition node_of_tnode (n : tnode) : node :=
  match t_kind n with
  | TDir => NDir (t_mode n)
  | TReg => NFile (t_sum n) (t_mode n) None true
  | TSym => NSym (t_sum n) None (t_link n)
  | TOther => NOther
  end.
Definition fs_of_tree (t : list tnode) : fsmap := List.map (fun n => (t_path n, node_of_tnode n)) t.
Definition canon_path (t : list tnode) (p : path) : option path :=
  match tree_get t p with
  | Some _ => Some p
  | None => match resolve_parent (fs_of_tree t) p with
            | Some q => Some (q ++ [base_of p])
            | None => None
            end
  end.
Definition tree_lookup (t : list tnode) (p : path) : option tnode :=
  match canon_path t p with Some q => tree_get t q | None => None end.

(* ---- validator 1: the rule table, on regular files, symbolic links and
   directories ---------------------------------------------------------------
   A walk over the packages in install order that keeps, per path, the package
   whose entry is installed there (with its kind). Two entries are "identical
   content" when they are of the same KIND and (regular files: same bytes;
   links: same target; directories: always). A directory and a file, a file and
   a link, a link and a directory at one path are never identical content: the
   rule table decides, and the build may only succeed with the winner's entry
   in the tree. *)
Definition same_entry (gk wk : kind) (gs ws : N) : bool :=
  kind_eqb gk wk && match gk with KDir => true | _ => N.eqb gs ws end.
Definition spec_clash_k (got want : pkg) (gk wk : kind) (gs ws : N) : decision :=
  spec_decide (same_entry gk wk gs ws) (declares got want) (declares want got)
    (spec_same_origin (p_origin got) (p_origin want)).

Definition owners := list (path * (nat * N * kind)).
Fixpoint own_get (m : owners) (p : path) : option (nat * N * kind) :=
  match m with [] => None | (q, v) :: m' => if path_eqb q p then Some v else own_get m' p end.

(* what a rule answers at a clash: a decision, "the build fails some other way",
   or "cannot be told from the packages alone" (the walk stops there) *)
Inductive qans := QDec (d : decision) | QFail | QStop.
(* old kind, new kind, old package, new package, old sum, new sum; the strings
   name the known deviations from the rule table that the answer exercises *)
Definition rule := kind -> kind -> pkg -> pkg -> N -> N -> qans * list string.

Inductive walk_res :=
| WOk (m : owners) (u : list string)
| WConflict (p : path) (u : list string)
| WFail (u : list string)
| WStop (p : path) (wk : kind) (gs : N) (u : list string).

Fixpoint walk_files (dec : rule) (pkgs : list pkg) (i : nat) (me : pkg) (m : owners) (u : list string) (hs : list hdr) : walk_res :=
  match hs with
  | [] => WOk m u
  | h :: more =>
      match h_kind h with
      | KLink =>
          (* a hard link is another NAME for what its target holds at that moment:
             whatever happens to the target's name later, this name keeps it *)
          match own_get m (h_link h) with
          | Some (j, gs, KReg) => walk_files dec pkgs i me ((h_path h, (j, gs, KReg)) :: m) u more
          | _ => walk_files dec pkgs i me m u more
          end
      | _ =>
          match own_get m (h_path h) with
          | None => walk_files dec pkgs i me ((h_path h, (i, h_sum h, h_kind h)) :: m) u more
          | Some (j, gs, gk) =>
              match dec gk (h_kind h) (nth j pkgs no_pkg) me gs (h_sum h) with
              | (QDec KeepOld, t) => walk_files dec pkgs i me m (u ++ t) more
              | (QDec Overwrite, t) => walk_files dec pkgs i me ((h_path h, (i, h_sum h, h_kind h)) :: m) (u ++ t) more
              | (QDec Conflict, t) => WConflict (h_path h) (u ++ t)
              | (QFail, t) => WFail (u ++ t)
              | (QStop, t) => WStop (h_path h) (h_kind h) gs (u ++ t)
              end
          end
      end
  end.
Fixpoint walk_pkgs (dec : rule) (pkgs : list pkg) (i : nat) (m : owners) (u : list string) (todo : list pkg) : walk_res :=
  match todo with
  | [] => WOk m u
  | me :: more =>
      match walk_files dec pkgs i me m u (p_files me) with
      | WOk m' u' => walk_pkgs dec pkgs (S i) m' u' more
      | r => r
      end
  end.
Definition spec_rule : rule := fun gk wk got want gs ws => (QDec (spec_clash_k got want gk wk gs ws), []).
Definition spec_walk (pkgs : list pkg) : walk_res := walk_pkgs spec_rule pkgs 0 [] [] pkgs.

(* ---- the known ways the backends leave the table -------------------------
   Used only to NAME a violation precisely; a violation is whatever differs from
   [spec_walk]. Each deviation that an answer exercises is recorded by its tag. *)
Definition decision_eqb (a b : decision) : bool :=
  match a, b with KeepOld, KeepOld | Overwrite, Overwrite | Conflict, Conflict => true | _, _ => false end.
Definition t_dir_clash := "viol:kind-clash-with-directory-fails-other-error".
Definition t_dir_over_link := "viol:dir-header-over-symlink-accepted".
Definition t_follow_link := "viol:stream-file-over-symlink-follows-link".
Definition t_lazy_origin := "viol:lazy-empty-origins-count-as-same-origin".
Definition t_lazy_sum := "viol:lazy-link-target-compared-with-file-content".
Definition t_stream_origin := "viol:stream-empty-origin-any-clash-fails".
Definition t_stream_sym := "viol:stream-symlink-clash-fails".
Definition t_alias := "viol:db-entry-aliased-through-symlinked-directory".
Definition t_thru := "viol:file-unreachable-after-link-replaced".
Definition t_dup := "viol:db-duplicate-path-records-last-header".
Definition t_byname := "viol:lazy-content-read-by-name-of-last-entry".

Definition is_dir_kind (k : kind) : bool := kind_eqb k KDir.

Definition quirk_rule (b : backend) : rule := fun gk wk got want gs ws =>
  let sd := spec_clash_k got want gk wk gs ws in
  if is_dir_kind gk && is_dir_kind wk then (QDec KeepOld, [])
  else if is_dir_kind gk then (QFail, [t_dir_clash])           (* a directory is there: never part of the table *)
  else if is_dir_kind wk then
    match gk with
    | KSym => (QStop, [])                                      (* MkdirAll follows the link *)
    | _ => (QFail, [t_dir_clash])
    end
  else if is_lazy b then
    (* tarfs: the table on the checksums alone (a link's checksum is that of its
       target string); two empty origins count as the same origin *)
    let d := spec_decide (N.eqb gs ws) (declares got want) (declares want got) (String.eqb (p_origin got) (p_origin want)) in
    let d_origin := spec_decide (same_entry gk wk gs ws) (declares got want) (declares want got) (String.eqb (p_origin got) (p_origin want)) in
    let d_sum := spec_decide (N.eqb gs ws) (declares got want) (declares want got) (spec_same_origin (p_origin got) (p_origin want)) in
    (QDec d, if decision_eqb d sd then []
             else if decision_eqb d d_origin then [t_lazy_origin]
             else if decision_eqb d d_sum then [t_lazy_sum]
             else [t_lazy_origin; t_lazy_sum])
  else
    match wk, gk with
    | KSym, KSym => if N.eqb gs ws then (QDec KeepOld, []) else (QFail, [t_stream_sym])
    | KSym, _ => (QFail, [t_stream_sym])                       (* Symlink() fails on anything that exists *)
    | _, KSym => (QStop, [])                                   (* Stat/Open follow the link *)
    | _, _ => if String.eqb (p_origin want) "" then (QFail, [t_stream_origin]) else (QDec sd, [])
    end.
Definition quirk_walk (b : backend) (pkgs : list pkg) : walk_res := walk_pkgs (quirk_rule b) pkgs 0 [] [] pkgs.

(* the observation agrees with the outcome a rule prescribes *)
Definition tkind_of (k : kind) : tkind := match k with KSym => TSym | KDir => TDir | _ => TReg end.
Definition winner_present (tree : list tnode) (p : path) (v : nat * N * kind) : bool :=
  match v, tree_get tree p with
  | (_, cur, k), Some n => tkind_eqb (t_kind n) (tkind_of k) && (is_dir_kind k || N.eqb (t_sum n) cur)
  | _, None => false
  end.
Definition winners_present (m : owners) (tree : list tnode) : bool :=
  forallb (fun e => match own_get m (fst e) with Some v => winner_present tree (fst e) v | None => false end) m.
Definition agrees (r : walk_res) (e : eclass) (tree : list tnode) : bool :=
  match r with
  | WConflict _ _ => eclass_eqb e EConflictClass
  | WFail _ => eclass_eqb e EOtherClass
  | WOk m _ => eclass_eqb e ENoError && winners_present m tree
  | WStop _ _ _ _ => false
  end.

(* readable form of [agrees (spec_walk pkgs)] *)
Definition RulesObeyed (pkgs : list pkg) (e : eclass) (tree : list tnode) : Prop :=
  match spec_walk pkgs with
  | WConflict _ _ => e = EConflictClass
  | WOk m _ => e = ENoError /\
      forall p i sm k, own_get m p = Some (i, sm, k) ->
        exists n, tree_get tree p = Some n /\ t_kind n = tkind_of k /\ (k <> KDir -> t_sum n = sm)
  | _ => False
  end.

(* two packages ship [p] with different kinds (hard links aside) *)
Definition kinds_at (pkgs : list pkg) (p : path) : list kind :=
  List.map h_kind (filter (fun h => path_eqb (h_path h) p && negb (kind_eqb (h_kind h) KLink)) (flat_map p_files pkgs)).
Definition kind_clash_at (pkgs : list pkg) (p : path) : bool :=
  match kinds_at pkgs p with
  | [] => false
  | k :: ks => existsb (fun k' => negb (kind_eqb k k')) ks
  end.

Definition is_link_path (pkgs : list pkg) (p : path) : bool :=
  existsb (fun h => path_eqb (h_path h) p && kind_eqb (h_kind h) KLink) (flat_map p_files pkgs).

Definition walk_tags (r : walk_res) : list string :=
  match r with WOk _ u | WConflict _ u | WFail u | WStop _ _ _ u => u end.

Definition check_rules (b : backend) (pkgs : list pkg) (e : eclass) (tree : list tnode) : list string :=
  if agrees (spec_walk pkgs) e tree then []
  else
    let generic :=
      match spec_walk pkgs, e with
      | WConflict p _, ENoError => if kind_clash_at pkgs p then ["viol:kind-clash-succeeds-silently"] else ["viol:silent-overwrite"]
      | WConflict _ _, _ => ["viol:conflict-reported-as-other-error"]
      | WOk m _, ENoError =>
          if existsb (fun x => kind_clash_at pkgs (fst x) && negb (winner_present tree (fst x) (snd x))) m
          then ["viol:kind-clash-succeeds-silently"]
          else if existsb (fun x => is_link_path pkgs (fst x) &&
                                    negb (match own_get m (fst x) with Some v => winner_present tree (fst x) v | None => true end)) m
          then ["viol:hardlink-name-changed-content"]   (* another name of a node does not show what it was linked to *)
          else ["viol:wrong-winner"]
      | WOk _ _, _ => ["viol:spurious-failure"]
      | _, _ => ["viol:rules"]
      end in
    let q := quirk_walk b pkgs in
    match q with
    | WStop p wk gs u =>
        (* a link is in place and a directory header (any backend) or a regular
           file (streaming) arrives: what happens depends on what the link
           resolves to; the known outcomes are a plain error, or success with
           the LINK still in place *)
        let kept := match tree_get tree p with
                    | Some n => tkind_eqb (t_kind n) TSym && N.eqb (t_sum n) gs
                    | None => false end in
        match e with
        | EOtherClass => nodup string_dec (u ++ [if is_dir_kind wk then t_dir_clash else t_follow_link])
        | ENoError => if kept then nodup string_dec (u ++ [if is_dir_kind wk then t_dir_over_link else t_follow_link]) else generic
        | _ => generic
        end
    | _ => match walk_tags q with
           | [] => generic
           | u => if agrees q e tree then nodup string_dec u else generic
           end
    end.

(* ---- validator 2: every recorded entry exists as recorded ----------------- *)
(* the database text tells directories (F:) from everything else (R:) *)
Definition EntryTrue (tree : list tnode) (d : dbent) : Prop :=
  exists n, tree_lookup tree (d_path d) = Some n /\
    (d_dir d = true <-> t_kind n = TDir) /\
    N.land (t_mode n) 511 = d_perm d /\
    ((t_uid n < 0)%Z \/ (t_uid n = Z.of_N (d_uid d) /\ t_gid n = Z.of_N (d_gid d))) /\
    (forall sm, d_sum d = Some sm -> t_kind n = TReg \/ t_kind n = TSym -> t_sum n = sm).

(* [b], [pre], [first_mode], [alias] (the entry's file is also shipped under
   another name that resolves to the same place), [thru] (a package ships a
   symbolic link at a prefix of the path, or at the path) and [dup] (one package
   ships the path more than once) only select the tag *)
Definition check_entry (b : backend) (pre tree : list tnode) (first_mode : path -> option N) (alias thru dup : path -> bool) (d : dbent) : list string :=
  match tree_lookup tree (d_path d) with
  | None => [if thru (d_path d) then t_thru else "viol:db-entry-missing-in-tree"]
  | Some n =>
      if d_dir d && tkind_eqb (t_kind n) TSym
      then [t_dir_over_link]          (* a directory entry where the tree has a symbolic link *)
      else
      if d_dir d && tkind_eqb (t_kind n) TReg && thru (d_path d)
      then [t_thru]                   (* ... and that link was then replaced by a regular file *)
      else
      if negb (d_dir d) && tkind_eqb (t_kind n) TSym &&
         match d_sum d with Some sm => negb (N.eqb (t_sum n) sm) | None => false end
      then [if is_lazy b then "viol:db-stale-entry-under-symlink" else t_follow_link] else
      tag_if (negb (Bool.eqb (d_dir d) (tkind_eqb (t_kind n) TDir))) "viol:db-entry-kind-differs-from-tree" ++
      (if N.eqb (N.land (t_mode n) 511) (d_perm d) then []
       else if negb (d_dir d) && dup (d_path d) then [t_dup]
            (* the writer keeps the LAST header of a path one package ships twice,
               the tree the first copy when the bytes are the same *)
       else if negb (d_dir d) && alias (d_path d) then [t_alias]
       else if d_dir d && match first_mode (d_path d) with
                          | Some fm => N.eqb fm (N.land (t_mode n) 511) && negb (N.eqb fm (d_perm d))
                          | None => false end
            then ["viol:dir-mode-first-wins"]
            else if negb (d_dir d) && match tree_get pre (d_path d) with
                                      | Some o => tkind_eqb (t_kind o) TReg && N.eqb (t_sum o) (t_sum n) && N.eqb (t_mode o) (t_mode n)
                                      | None => false end
            then ["viol:db-records-preexisting-file"]
            else if negb (d_dir d) && tkind_eqb (t_kind n) TReg && match d_sum d with None => true | Some _ => false end
            then ["viol:db-hardlink-records-header-mode"]   (* only hard links are written without a Z: line *)
            else if negb (d_dir d) && tkind_eqb (t_kind n) TSym
            then [if is_lazy b then t_lazy_sum else t_follow_link]
                 (* a regular file's entry over a link whose target STRING has the file's checksum *)
            else ["viol:db-mode-mismatch"]) ++
      (if (t_uid n <? 0)%Z then []
       else if Z.eqb (t_uid n) (Z.of_N (d_uid d)) && Z.eqb (t_gid n) (Z.of_N (d_gid d)) then []
       else if Z.eqb (t_uid n) 0 && Z.eqb (t_gid n) 0 then ["viol:db-owner-not-applied"]
       else ["viol:db-owner-mismatch"]) ++
      match d_sum d with
      | Some sm => tag_if ((tkind_eqb (t_kind n) TReg || tkind_eqb (t_kind n) TSym) && negb (N.eqb (t_sum n) sm))
                     (if dup (d_path d) then t_dup else if alias (d_path d) then t_alias else "viol:db-content-mismatch")
      | None => []
      end
  end.

Definition check_db_entries (b : backend) (pre tree : list tnode) (first_mode : path -> option N) (alias thru dup : path -> bool) (db : list dbpkg) : list string :=
  flat_map (fun p => flat_map (check_entry b pre tree first_mode alias thru dup) (dp_entries p)) db.

(* a stanza lists a file or link at most once *)
Definition listed_times (dp : dbpkg) (p : path) : nat :=
  List.length (filter (fun d => path_eqb (d_path d) p && negb (d_dir d)) (dp_entries dp)).
Definition check_stanza_dups (dup : path -> bool) (db : list dbpkg) : list string :=
  nodup string_dec (flat_map (fun dp => flat_map (fun d =>
    if negb (d_dir d) && Nat.ltb 1 (listed_times dp (d_path d))
    then [if dup (d_path d) then t_dup else "viol:db-path-listed-twice-in-stanza"] else []) (dp_entries dp)) db).

(* ---- validator 3: every packaged regular file is recorded under exactly one
   package, the one whose content is present --------------------------------- *)
Definition records (dp : dbpkg) (p : path) : bool :=
  existsb (fun d => path_eqb (d_path d) p && negb (d_dir d)) (dp_entries dp).
Definition ships_content (pk : pkg) (p : path) (sm : N) : bool :=
  existsb (fun h => path_eqb (h_path h) p && kind_eqb (h_kind h) KReg && N.eqb (h_sum h) sm) (p_files pk).

(* [db] has one stanza per package, in install order *)
Fixpoint recorders (pkgs : list pkg) (db : list dbpkg) (p : path) : list pkg :=
  match pkgs, db with
  | pk :: ps, dp :: ds => (if records dp p then [pk] else []) ++ recorders ps ds p
  | _, _ => []
  end.

Definition has_dir_headers (pk : pkg) (p : path) : bool :=
  match p with
  | [] | [_] => false
  | _ => forallb (is_dir_hdr (p_files pk)) (prefixes (parent p))
  end.

Definition check_recorded_once (b : backend) (pre : list tnode) (alias thru dup : path -> bool) (pkgs : list pkg) (db : list dbpkg) (tree : list tnode) (h : hdr) (shipper : pkg) : list string :=
  match h_kind h with
  | KReg =>
      match recorders pkgs db (h_path h), tree_lookup tree (h_path h) with
      | _, Some {| t_kind := TSym |} => []     (* judged by [check_entry]: a stale entry under a symbolic link *)
      | [], Some n =>
          (* nobody records the path: named precisely when a package shipping the
             bytes present (the possible owners) lacks a directory header for an
             ancestor, so that the writer's sort dropped its entry *)
          if existsb (fun pk => ships_content pk (h_path h) (t_sum n) && negb (has_dir_headers pk (h_path h))) pkgs
          then ["viol:db-drops-file-without-directory-headers"]
          else if alias (h_path h) then [t_alias] else ["viol:db-file-unrecorded"]
      | [pk], Some n =>
          tag_if (negb (tkind_eqb (t_kind n) TReg && ships_content pk (h_path h) (t_sum n)))
                 (if is_lazy b && tkind_eqb (t_kind n) TOther && dup (h_path h) then t_byname
                       (* tarfs, a name shipped twice by one package: the node of the earlier
                          entry is read through the later entry, a link that leads nowhere *)
                  else if alias (h_path h) then t_alias else "viol:db-owner-wrong")
      | _ :: _ :: _, Some n =>
          (* a file that was there before the install is owned by nobody: every
             package shipping the same bytes records it (finding C07-F8) *)
          if match tree_get pre (h_path h) with
             | Some o => tkind_eqb (t_kind o) TReg && N.eqb (t_sum o) (t_sum n) && N.eqb (t_mode o) (t_mode n)
             | None => false end
          then ["viol:db-records-preexisting-file"] else ["viol:db-file-recorded-twice"]
      | _ :: _ :: _, None => ["viol:db-file-recorded-twice"]
      | _, None => [if thru (h_path h) then t_thru else "viol:packaged-file-missing"]
      end
  | _ => []
  end.

Definition check_once_all (b : backend) (pre : list tnode) (alias thru dup : path -> bool) (pkgs : list pkg) (db : list dbpkg) (tree : list tnode) : list string :=
  nodup string_dec (flat_map (fun pk => flat_map (fun h => check_recorded_once b pre alias thru dup pkgs db tree h pk) (p_files pk)) pkgs).
