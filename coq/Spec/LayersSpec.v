(* C10 — what the property demands of a grouping of packages and of the
   emitted layers, independent of how apko computes them, with the boolean
   validators run on what the implementation returned. *)
From Apko Require Import Base.Prelude Model.Tar Spec.TarSpec Model.Layers.
From Coq Require Import Sorting.Permutation Sorting.Sorted.
Open Scope string_scope. Open Scope list_scope.

(* ---- grouping ----------------------------------------------------------------- *)
Definition same_group (gs : list (list string)) (a b : string) : Prop :=
  exists g, In g gs /\ In a g /\ In b g.

(* Every package is in exactly one group; for budgets from 0 upward at most
   [budget] groups (the property text, read literally: "the layer count never
   exceeds the budget plus the top layer"); packages of one origin share a
   group; a package whose `replaces` entry names an installed package and is
   satisfied by its version shares that package's group. *)
Definition GroupsOk (rep_name : string -> string) (rep_sat : string -> pkg -> res bool)
    (pkgs : list pkg) (budget : Z) (gs : list (list string)) : Prop :=
  Permutation (List.concat gs) (map p_name pkgs) /\
  ((0 <= budget)%Z -> (Z.of_nat (List.length gs) <= budget)%Z) /\
  (forall p q, In p pkgs -> In q pkgs -> p_origin p = p_origin q -> same_group gs (p_name p) (p_name q)) /\
  (forall p q rep, In p pkgs -> In q pkgs -> In rep (p_replaces p) -> rep_name rep = p_name q ->
                   rep_sat rep q = Ok true -> same_group gs (p_name p) (p_name q)).

Definition mem (x : string) (l : list string) : bool := existsb (String.eqb x) l.
Definition same_groupb (gs : list (list string)) (a b : string) : bool :=
  existsb (fun g => mem a g && mem b g) gs.
Definition count (x : string) (l : list string) : nat := List.length (filter (String.eqb x) l).
Definition permb (a b : list string) : bool :=
  forallb (fun x => Nat.eqb (count x a) (count x b)) (a ++ b).

Definition groups_tags (rep_name : string -> string) (rep_sat : string -> pkg -> res bool)
    (pkgs : list pkg) (budget : Z) (gs : list (list string)) : list string :=
  tag_if (negb (permb (List.concat gs) (map p_name pkgs))) "viol:groups-not-a-partition" ++
  (* budget 0: the code keeps one group on purpose ("even if budget == 0, we want
     1 group") — its own tag, so that any other excess is a different failure *)
  (if (0 <=? budget)%Z && negb (Z.of_nat (List.length gs) <=? budget)%Z
   then [if (budget =? 0)%Z then "viol:group-count-exceeds-budget/budget-zero"
         else "viol:group-count-exceeds-budget"]
   else []) ++
  tag_if (negb (forallb (fun p => forallb (fun q =>
      negb (String.eqb (p_origin p) (p_origin q)) || same_groupb gs (p_name p) (p_name q)) pkgs) pkgs))
    "viol:same-origin-split" ++
  tag_if (negb (forallb (fun p => forallb (fun q => forallb (fun rep =>
      negb (String.eqb (rep_name rep) (p_name q) &&
            match rep_sat rep q with Ok true => true | _ => false end)
      || same_groupb gs (p_name p) (p_name q)) (p_replaces p)) pkgs) pkgs))
    "viol:replaces-split".

(* ---- layers ------------------------------------------------------------------- *)
Definition nondir (e : entry) : bool := negb (is_dir e).

(* the layer a path belongs to: its owner's group, or the top layer (index = number of groups) *)
Fixpoint group_index (n : string) (gs : list (list string)) : option nat :=
  match gs with
  | [] => None
  | g :: r => if mem n g then Some 0 else option_map S (group_index n r)
  end.
Definition layer_index (gs : list (list string)) (own : path -> option string) (p : path) : option nat :=
  match own p with None => Some (List.length gs) | Some n => group_index n gs end.

(* in one layer: every entry below the top level is preceded, in that layer, by
   a directory entry for its parent; no path occurs twice *)
Fixpoint wellformed_from (seen : list entry) (es : list entry) : bool :=
  match es with
  | [] => true
  | e :: r =>
      (match parent (e_path e) with
       | [] => true
       | pp => existsb (fun d => is_dir d && path_eqb (e_path d) pp) seen
       end) &&
      negb (existsb (fun d => path_eqb (e_path d) (e_path e)) seen) &&
      wellformed_from (e :: seen) r
  end.

Definition LayerWellFormed (es : list entry) : Prop :=
  forall pre e post, es = pre ++ e :: post ->
    (parent (e_path e) <> [] -> exists d, In d pre /\ is_dir d = true /\ e_path d = parent (e_path e)) /\
    (forall d, In d pre -> e_path d <> e_path e).

(* "self-contained": a hard-link entry names a non-directory written EARLIER IN THE
   SAME LAYER (a layer whose link points into another layer cannot be unpacked on
   its own, even when the layers applied in order happen to work) *)
Fixpoint links_inside_from (seen : list entry) (es : list entry) : bool :=
  match es with
  | [] => true
  | e :: r =>
      (match e_kind e with
       | KLink => existsb (fun t => negb (is_dir t) && path_eqb (e_path t) (split_slash (e_link e))) seen
       | _ => true
       end) && links_inside_from (e :: seen) r
  end.

Definition LayerLinksInside (es : list entry) : Prop :=
  forall pre x post, es = pre ++ x :: post -> e_kind x = KLink ->
    exists t, In t pre /\ e_path t = split_slash (e_link x) /\ is_dir t = false.

(* The envelope of splitLayers' input: what fs.WalkDir over a tree yields —
   paths strictly increasing in the fixed order (component-wise, bytewise), no
   entry for the root, and a directory entry for the parent of every entry
   below the top level (it then precedes the entry, by the order).  The walk
   of every tree with distinct child names is such a sequence
   (c10_walk_in_envelope). *)
Definition WalkSeq (es : list entry) : Prop :=
  StronglySorted (fun a b => path_lt (e_path a) (e_path b)) es /\
  (forall e, In e es -> e_path e <> []) /\
  (forall e, In e es -> parent (e_path e) <> [] ->
     exists d, In d es /\ is_dir d = true /\ e_path d = parent (e_path e)).

(* Hard-link entries: the target of every link entry is the path of an earlier
   non-directory entry with the same owner (tarfs: a recorded hard link shares
   its target's node, hence memFileInfo.Package(); and C06 shows a link listed
   before its target cannot be extracted at all). *)
Definition LinksWithTarget (own : path -> option string) (es : list entry) : Prop :=
  forall pre x post, es = pre ++ x :: post -> e_kind x = KLink ->
    exists t, In t pre /\ e_path t = split_slash (e_link x) /\ is_dir t = false /\ own (e_path t) = own (e_path x).

(* [single]: the entries of the single-layer build of the same filesystem.
   Applying the layers in order gives the same filesystem; every non-directory
   entry is in exactly the layer of its owner (or the top layer), once, unchanged;
   every layer is well formed; there is one layer per group plus the top layer;
   every hard link's target is an earlier non-directory of the link's own layer. *)
Definition LayersOk (gs : list (list string)) (own : path -> option string)
    (single : list entry) (layers : list (list entry)) : Prop :=
  (exists a b, extract (List.concat layers) = Ok a /\ extract single = Ok b /\ canon_forest a = canon_forest b) /\
  (forall i, i < List.length layers ->
     filter nondir (nth i layers []) =
     filter (fun e => nondir e && option_eqb Nat.eqb (layer_index gs own (e_path e)) (Some i)) single) /\
  Forall LayerWellFormed layers /\
  List.length layers = S (List.length gs) /\
  Forall LayerLinksInside layers.

Fixpoint seqn (n : nat) : list nat := match n with O => [] | S k => seqn k ++ [k] end.

Definition layers_tags (gs : list (list string)) (own : path -> option string)
    (single : list entry) (layers : list (list entry)) : list string :=
  (match extract (List.concat layers), extract single with
   | Ok a, Ok b => tag_if (negb (forest_eqb (canon_forest a) (canon_forest b))) "viol:flatten-differs-from-single-layer"
   | Ok _, _ => ["viol:single-layer-not-extractable"]
   | _, _ => ["viol:layers-not-extractable-in-order"]
   end) ++
  tag_if (negb (forallb (fun i =>
      list_eqb entry_eqb (filter nondir (nth i layers []))
        (filter (fun e => nondir e && option_eqb Nat.eqb (layer_index gs own (e_path e)) (Some i)) single))
      (seqn (List.length layers)))) "viol:file-not-exactly-once-in-its-owners-layer" ++
  tag_if (negb (forallb (wellformed_from []) layers)) "viol:layer-parent-dir-missing-or-duplicate-path" ++
  tag_if (negb (Nat.eqb (List.length layers) (S (List.length gs)))) "viol:layer-count" ++
  tag_if (negb (forallb (links_inside_from []) layers)) "viol:hardlink-target-not-earlier-in-its-layer".
