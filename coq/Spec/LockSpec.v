(* C09 — what the property demands, independent of how apko computes it, as
   readable Props and as the boolean validators that the correspondence stages
   run on the implementation's OBSERVED outputs. Proofs of validator <-> Prop
   are in Proofs/LockProofs.v. *)
From Apko Require Import Base.Prelude Base.C12Lib Model.Version Model.Lock.
From Coq Require Import Permutation Sorted.
Open Scope string_scope. Open Scope list_scope.

(* ---- the pin a request carries, in the RESOLVER's grammar ------------------
   (ResolvePackageNameVersionPin, modelled and proved in C03): the last request
   for [n] decides, as in a Go map filled in request order. *)
Definition spec_pin (originals : list string) (n : string) : string :=
  match find (fun o => String.eqb (c_name (resolve_constraint o)) n) (rev originals) with
  | Some o => match c_pin (resolve_constraint o) with EmptyString => "" | p => "@" ++ p end
  | None => ""
  end.

(* a lock entry: name=version[@pin] *)
Definition lock_entry (pin : string -> string) (versions : list (string * string)) (n : string) : string :=
  n ++ "=" ++ vget n versions ++ pin n.

(* ---- the shared ("index") lock ----------------------------------------------
   lists ONLY packages resolved on every architecture to one and the same
   version *)
Definition IndexSound (pin : string -> string) (r0 : resolved) (rest : list resolved) (idx : list string) : Prop :=
  forall e, In e idx ->
    exists n, In n (r_packages r0) /\ e = lock_entry pin (r_versions r0) n /\
      forall r, In r rest -> In n (r_packages r) /\ vget n (r_versions r) = vget n (r_versions r0).

Definition index_entry_ok (pin : string -> string) (r0 : resolved) (rest : list resolved) (e : string) : bool :=
  existsb (fun n => String.eqb e (lock_entry pin (r_versions r0) n) &&
                    forallb (fun r => smem n (r_packages r) &&
                                      String.eqb (vget n (r_versions r)) (vget n (r_versions r0))) rest)
          (r_packages r0).
Definition index_sound_b pin r0 rest (idx : list string) : bool := forallb (index_entry_ok pin r0 rest) idx.

(* ---- a per-architecture lock --------------------------------------------------
   is exactly the sorted list of name=version[@pin] of that architecture's
   resolution *)
Definition ArchLockExact (pin : string -> string) (r : resolved) (l : list string) : Prop :=
  StronglySorted sle l /\ Permutation l (List.map (lock_entry pin (r_versions r)) (r_packages r)).
Definition arch_lock_exact_b pin (r : resolved) (l : list string) : bool :=
  list_eqb String.eqb l (sort_strings (List.map (lock_entry pin (r_versions r)) (r_packages r))).

(* ---- set equality of package sets (name, version) ----------------------------- *)
Definition nv_eqb (a b : string * string) : bool := String.eqb (fst a) (fst b) && String.eqb (snd a) (snd b).
Definition nv_mem (x : string * string) (l : list (string * string)) : bool := existsb (nv_eqb x) l.
Definition SameMembers (a b : list (string * string)) : Prop := forall x, In x a <-> In x b.
Definition same_members_b (a b : list (string * string)) : bool :=
  forallb (fun x => nv_mem x b) a && forallb (fun x => nv_mem x a) b.

(* ---- byte ranges of a lock.json package entry ---------------------------------
   the three ranges tile the file: signature (when present) starts at 0, control
   starts where the signature ends, data where control ends, and data ends at the
   last byte *)
Definition RangesTile (sig_present : bool) (sg ct dt : section_nums) (total : Z) : Prop :=
  (if sig_present then n_lo sg = 0 /\ n_lo sg <= n_hi sg /\ n_hi sg + 1 = n_lo ct else n_lo ct = 0)%Z /\
  (n_lo ct <= n_hi ct)%Z /\ (n_hi ct + 1 = n_lo dt)%Z /\ (n_lo dt <= n_hi dt)%Z /\ (n_hi dt + 1 = total)%Z.
Definition ranges_tile_b (sig_present : bool) (sg ct dt : section_nums) (total : Z) : bool :=
  ((if sig_present then (n_lo sg =? 0) && (n_lo sg <=? n_hi sg) && (n_hi sg + 1 =? n_lo ct) else (n_lo ct =? 0)) &&
   (n_lo ct <=? n_hi ct) && (n_hi ct + 1 =? n_lo dt) && (n_lo dt <=? n_hi dt) && (n_hi dt + 1 =? total))%Z.
