(* C12 — what the image config must say about the creation time, the history and a
   service-bundle entrypoint, independent of how apko computes it. *)
From Apko Require Import Base.Prelude Base.C12Lib Model.Oci Model.OciImage Spec.OciSpec Spec.OciTimeSpec.
Open Scope string_scope. Open Scope list_scope.

(* docs/apko_file.md: an entrypoint of type service-bundle runs the s6 supervisor over
   the generated service directory *)
Definition spec_service_bundle_type : string := "service-bundle".
Definition spec_service_bundle_command : string := "/bin/s6-svscan /sv".
Definition spec_service_bundle_words : list string := ["/bin/s6-svscan"; "/sv"].

(* the configuration as declared, with the meaning of entrypoint.type spelled out *)
Definition declared_ic (etype : string) (ic : image_config) : image_config :=
  if String.eqb etype spec_service_bundle_type then set_command ic spec_service_bundle_command else ic.

(* a timestamp text that denotes the instant [sec] (UTC, whole seconds, RFC 3339) *)
Definition denotes (s : option string) (sec : Z) : bool :=
  match s with Some x => option_eqb Z.eqb (parse_rfc3339 x) (Some sec) | None => false end.

Definition history_ok_b (base_history : list history_entry) (nlayers : nat) (sec : Z) (h : list history_entry) : bool :=
  Nat.eqb (List.length h) (List.length base_history + nlayers) &&
  forallb (fun e => denotes (h_created e) sec) (List.skipn (List.length base_history) h).

(* created time: the config field, the label (= manifest annotation) and one history entry
   per layer all denote the creation instant; the label has the fixed 20-character shape *)
Record ImageTimeOk (base_history : list history_entry) (nlayers : nat) (sec : Z) (out : image_out) : Prop := {
  it_created : denotes (io_created out) sec = true;
  it_label : denotes (alookup created_key (oc_labels (io_config out))) sec = true;
  it_history : history_ok_b base_history nlayers sec (io_history out) = true;
  it_base_history : List.firstn (List.length base_history) (io_history out) = base_history }.

Definition history_entry_eqb (a b : history_entry) : bool :=
  String.eqb (h_author a) (h_author b) && String.eqb (h_created_by a) (h_created_by b) &&
  String.eqb (h_comment a) (h_comment b) && option_eqb String.eqb (h_created a) (h_created b).

(* validator on the observed image *)
Definition image_time_tags (base_history : list history_entry) (nlayers : nat) (sec : Z) (out : image_out) : list string :=
  tag_if (negb (denotes (io_created out) sec)) "viol:config-created-not-the-creation-time" ++
  tag_if (negb (denotes (alookup created_key (oc_labels (io_config out))) sec)) "viol:label-created-not-the-creation-time" ++
  tag_if (negb (history_ok_b base_history nlayers sec (io_history out))) "viol:history-not-one-entry-per-layer-with-creation-time" ++
  tag_if (negb (list_eqb history_entry_eqb (List.firstn (List.length base_history) (io_history out)) base_history)) "viol:base-history-not-kept".
