(* C12 — what is DECLARED for one build when the command line and the configuration file
   both speak: "--annotations: … Commandline annotations take precedence" (build.WithAnnotations,
   docs/apko_build.md). *)
From Apko Require Import Base.Prelude Base.C12Lib Model.Oci Spec.OciSpec.
Open Scope string_scope. Open Scope list_scope.

Definition declared_annotation (cfg cl : list (string * string)) (k : string) : option string :=
  match alookup k cl with Some v => Some v | None => alookup k cfg end.

(* keys the emitter itself owns: created always, source/revision when the VCS URL has a revision *)
Definition emitter_owned (ic : image_config) (k : string) : bool :=
  String.eqb k created_key ||
  (match (if nonempty (ic_vcs_url ic) then cut_at "@"%char (ic_vcs_url ic) else None) with
   | Some _ => String.eqb k revision_key || String.eqb k source_key
   | None => false
   end).

(* validator: every command-line annotation the emitter does not own is in the emitted map
   with the command line's value *)
Definition cmdline_annotations_tags (what : string) (ic : image_config) (cl emitted : list (string * string)) : list string :=
  tag_if (negb (forallb (fun kv => emitter_owned ic (fst kv) ||
                                   option_eqb String.eqb (alookup (fst kv) emitted) (Some (snd kv))) cl))
         ("viol:command-line-annotation-not-emitted-in-" ++ what).
