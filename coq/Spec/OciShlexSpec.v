(* C12 — what the property needs of the command-line splitter, stated without the
   tokenizer's state machine: the plain case (no quoting at all) is a split at blanks,
   and single-quoting is a way to pass ANY word list through it unchanged. *)
From Apko Require Import Base.Prelude.
Open Scope string_scope. Open Scope list_scope.

Definition blank (c : ascii) : bool :=
  let n := N_of_ascii c in (n =? 32)%N || (n =? 9)%N || (n =? 13)%N || (n =? 10)%N.     (* space, \t, \r, \n *)
(* the characters with a special meaning for a POSIX-shell-like splitter *)
Definition quoting_char (c : ascii) : bool :=
  let n := N_of_ascii c in (n =? 34)%N || (n =? 39)%N || (n =? 92)%N || (n =? 35)%N.     (* double quote, single quote, backslash, hash *)

Fixpoint all_chars (p : ascii -> bool) (s : string) : bool :=
  match s with EmptyString => true | String c r => p c && all_chars p r end.

(* the maximal blank-free pieces of a string, in order (strings.FieldsFunc(s, blank)) *)
Fixpoint fields_aux (cur : string) (s : string) : list string :=
  match s with
  | EmptyString => match cur with EmptyString => [] | _ => [cur] end
  | String c r =>
      if blank c then match cur with EmptyString => fields_aux "" r | _ => cur :: fields_aux "" r end
      else fields_aux (cur ++ String c "") r
  end.
Definition fields (s : string) : list string := fields_aux "" s.

Definition plain_word (w : string) : Prop := w <> "" /\ all_chars (fun c => negb (blank c)) w = true.

(* POSIX single-quoting: the word between single quotes, each single quote of the word
   written as: quote, backslash, quote, quote *)
Definition squote_char : ascii := ascii_of_N 39.
Definition backslash_char : ascii := ascii_of_N 92.
Fixpoint quote_body (w : string) : string :=
  match w with
  | EmptyString => EmptyString
  | String c r =>
      if Ascii.eqb c squote_char
      then String squote_char (String backslash_char (String squote_char (String squote_char (quote_body r))))
      else String c (quote_body r)
  end.
Definition shell_quote (w : string) : string := String squote_char (quote_body w ++ String squote_char "").
Definition quote_words (ws : list string) : string := String.concat " " (List.map shell_quote ws).

Definition ascii_only (s : string) : bool := all_chars (fun c => (N_of_ascii c <? 128)%N) s.
