(* C12 — what the property demands, independent of how apko computes it. *)
From Apko Require Import Base.Prelude Base.C12Lib.
From Coq Require Import Permutation Sorted.
Open Scope string_scope. Open Scope list_scope.

(* ---- tar: members start on block boundaries ------------------------------
   (POSIX ustar / pax: "each file archived is represented by a header block …
   followed by zero or more blocks"; a block is 512 bytes.)  A writer that
   appends after a member ending at byte [n] must continue at the first block
   boundary at or after [n]: earlier overlaps the member, later leaves a zero
   block that readers take for (half of) the end-of-archive marker. *)
Definition tar_block : Z := 512%Z.

Definition NextBoundary (b n o : Z) : Prop :=
  (b | o)%Z /\ (n <= o)%Z /\ forall m, (b | m)%Z -> (n <= m)%Z -> (o <= m)%Z.

Definition next_boundary_b (b n o : Z) : bool :=
  (Z.eqb (o mod b) 0 && Z.leb n o && Z.ltb o (n + b))%Z.

(* ---- architectures ---------------------------------------------------------
   apko writes an architecture as "<GOARCH>" or "<GOARCH>/<variant>" (the
   notation of OCI platform strings, e.g. "arm/v7"); the OCI platform of such a
   string is its two halves. *)
Definition spec_platform (a : string) : string * string :=
  match cut_at "/"%char a with Some (x, v) => (x, v) | None => (a, "") end.

(* ---- the bundle contains every image its index lists ----------------------- *)
Definition BundleComplete (included : list bool) : Prop := Forall (fun b => b = true) included.

(* validator on the observed inclusion flags; the tag says WHY an image is
   missing: [plat] gives the OCI platform architecture of each manifest, and an
   image that is absent while a later manifest has the same platform
   architecture is the tag-key collision of BuildIndex *)
Fixpoint bundle_complete_tags_with (plat : string -> string) (archs : list string) (included : list bool) : list string :=
  match archs, included with
  | a :: rest, b :: inc' =>
      (if b then []
       else if existsb (String.eqb (plat a)) (List.map plat rest)
            then ["viol:bundle-image-dropped-same-platform-architecture"]
            else ["viol:bundle-image-missing"]) ++ bundle_complete_tags_with plat rest inc'
  | [], [] => []
  | _, _ => ["viol:bundle-manifest-count"]
  end.
