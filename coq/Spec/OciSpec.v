(* C12 — what the property demands, independent of how apko computes it. *)
From Apko Require Import Base.Prelude Base.C12Lib Model.Oci.   (* Model: record types only *)
From Coq Require Import Permutation Sorted.
Open Scope string_scope. Open Scope list_scope.

(* ---- tar: members start on block boundaries ------------------------------
   (POSIX ustar / pax: "each file archived is represented by a header block …
   followed by zero or more blocks"; a block is 512 bytes.)  A writer that
   appends after a member ending at byte [n] must continue at the first block
   boundary at or after [n]: earlier overlaps the member, later leaves a zero
   block that readers take for (half of) the end-of-archive marker. *)
Definition tar_block : Z := 512%Z.

Definition NextBoundary (b n o : Z) : Prop :=
  (b | o)%Z /\ (n <= o)%Z /\ forall m, (b | m)%Z -> (n <= m)%Z -> (o <= m)%Z.

Definition next_boundary_b (b n o : Z) : bool :=
  (Z.eqb (o mod b) 0 && Z.leb n o && Z.ltb o (n + b))%Z.

(* ---- tar: where the members are, from the layout alone ---------------------------
   [off] = offset of the first record. A member's body starts right after its own
   header block; the extension records in front of it (each with its padded data)
   belong to it and are not members; a PAX global header is reported as an entry of
   its own, AFTER its data has been consumed, with size 0. *)
Fixpoint body_starts (off : Z) (rs : list rawrec) : list (Z * Z) :=
  match rs with
  | [] => []
  | r :: t =>
      let rest := body_starts (off + rec_len r) t in
      match r_kind r with
      | KExt => rest
      | KGlobal => (off + 512 + r_size r, 0)%Z :: rest
      | KFile | KHeaderOnly => (off + 512, r_size r)%Z :: rest
      end
  end.

(* records archive/tar accepts: no negative size where a data section is read, extension
   data of at most 1 MiB *)
Definition RawOk (r : rawrec) : Prop :=
  match r_kind r with
  | KHeaderOnly => True
  | KFile => (0 <= r_size r)%Z
  | KExt | KGlobal => (0 <= r_size r <= max_special_file_size)%Z
  end.
(* the LAST record decides whether "position + hdr.Size" is the end of the data: it must
   not be a dangling extension header (no member follows: the reader reports EOF and the
   scan keeps the previous member's values) nor a header-only member whose size field is
   not zero (hdr.Size then counts bytes that are not in the archive) *)
Fixpoint EndsOk (rs : list rawrec) : Prop :=
  match rs with
  | [] => True
  | r :: t => match t with
              | [] => match r_kind r with KExt => False | KHeaderOnly => r_size r = 0%Z | _ => True end
              | _ => EndsOk t
              end
  end.

Fixpoint ends_ok_b (rs : list rawrec) : bool :=
  match rs with
  | [] => true
  | r :: t => match t with
              | [] => match r_kind r with KExt => false | KHeaderOnly => Z.eqb (r_size r) 0 | _ => true end
              | _ => ends_ok_b t
              end
  end.
Lemma ends_ok_b_iff rs : ends_ok_b rs = true <-> EndsOk rs.
Proof.
  induction rs as [|r t IH]; [cbn; tauto|]. destruct t as [|r2 t]; [|exact IH].
  cbn. destruct (r_kind r); rewrite ?Z.eqb_eq; try tauto; split; try discriminate; contradiction.
Qed.
Definition raw_ok_b (r : rawrec) : bool :=
  match r_kind r with
  | KHeaderOnly => true
  | KFile => (0 <=? r_size r)%Z
  | KExt | KGlobal => (0 <=? r_size r)%Z && (r_size r <=? max_special_file_size)%Z
  end.
Lemma raw_ok_b_iff r : raw_ok_b r = true <-> RawOk r.
Proof. unfold raw_ok_b, RawOk. destruct (r_kind r); rewrite ?andb_true_iff, ?Z.leb_le; tauto. Qed.

(* ---- architectures ---------------------------------------------------------
   apko writes an architecture as "<GOARCH>" or "<GOARCH>/<variant>" (the
   notation of OCI platform strings, e.g. "arm/v7"); the OCI platform of such a
   string is its two halves. *)
Definition spec_platform (a : string) : string * string :=
  match cut_at "/"%char a with Some (x, v) => (x, v) | None => (a, "") end.

(* ---- the bundle contains every image its index lists ----------------------- *)
Definition BundleComplete (included : list bool) : Prop := Forall (fun b => b = true) included.

(* validator on the observed inclusion flags; the tag says WHY an image is
   missing: [plat] gives the OCI platform architecture of each manifest, and an
   image that is absent while a later manifest has the same platform
   architecture is the tag-key collision of BuildIndex *)
Fixpoint bundle_complete_tags_with (plat : string -> string) (archs : list string) (included : list bool) : list string :=
  match archs, included with
  | a :: rest, b :: inc' =>
      (if b then []
       else if existsb (String.eqb (plat a)) (List.map plat rest)
            then ["viol:bundle-image-dropped-same-platform-architecture"]
            else ["viol:bundle-image-missing"]) ++ bundle_complete_tags_with plat rest inc'
  | [], [] => []
  | _, _ => ["viol:bundle-manifest-count"]
  end.

Lemma bundle_complete_tags_iff plat : forall archs included,
  bundle_complete_tags_with plat archs included = [] <->
  (List.length archs = List.length included /\ BundleComplete included).
Proof.
  induction archs as [|a archs IH]; intros [|b inc]; simpl.
  - split; [intros _; split; [reflexivity|constructor]|reflexivity].
  - split; [discriminate|intros [H _]; discriminate].
  - split; [discriminate|intros [H _]; discriminate].
  - destruct b; simpl.
    + rewrite IH. split.
      * intros [L F]. split; [congruence|constructor; [reflexivity|exact F]].
      * intros [L F]. inversion F; subst. split; [congruence|assumption].
    + split.
      * destruct (existsb _ _); discriminate.
      * intros [_ F]. inversion F; discriminate.
Qed.

(* apk-style names of the architectures (Alpine's arch names) and the OCI-style
   name apko uses for each *)
Definition apk_names : list (string * string) :=
  [("x86", "386"); ("x86_64", "amd64"); ("aarch64", "arm64"); ("armhf", "arm/v6");
   ("armv7", "arm/v7"); ("loongarch64", "loong64");
   ("ppc64le", "ppc64le"); ("riscv64", "riscv64"); ("s390x", "s390x")].
Definition spec_canonical (s : string) : string :=
  match alookup s apk_names with Some o => o | None => s end.
Definition expected_platform (s : string) : string * string := spec_platform (spec_canonical s).
Definition expected_os : string := "linux".

(* ---- environment --------------------------------------------------------------
   OCI image spec: Env entries are "VARNAME=VARVALUE". The rendered environment
   is sorted (as strings) and is, up to order, exactly: every configured
   binding, plus every default whose key is not configured. *)
Definition spec_env_entry (kv : string * string) : string := (fst kv ++ "=" ++ snd kv)%string.
Definition unconfigured (env : list (string * string)) (kv : string * string) : bool :=
  match alookup (fst kv) env with Some _ => false | None => true end.
Definition effective_env (defaults env : list (string * string)) : list (string * string) :=
  env ++ filter (unconfigured env) defaults.
Definition EnvOk (defaults env : list (string * string)) (out : list string) : Prop :=
  StronglySorted sle out /\ Permutation out (List.map spec_env_entry (effective_env defaults env)).

Definition sid (s : string) : string := s.
Definition env_ok_b (defaults env : list (string * string)) (out : list string) : bool :=
  sortedb sid out &&
  list_eqb String.eqb (isort sid out) (isort sid (List.map spec_env_entry (effective_env defaults env))).
Definition mem_s (s : string) (l : list string) : bool := existsb (String.eqb s) l.
Definition env_tags (defaults env : list (string * string)) (out : list string) : list string :=
  if env_ok_b defaults env out then []
  else if negb (sortedb sid out) then ["viol:env-not-sorted"]
  else if negb (forallb (fun kv => mem_s (spec_env_entry kv) out) env) then ["viol:env-configured-value-not-rendered"]
  else ["viol:env-entries-differ"].

(* ---- config --------------------------------------------------------------------- *)
Definition source_key : string := "org.opencontainers.image.source".
Definition revision_key : string := "org.opencontainers.image.revision".
Definition created_key : string := "org.opencontainers.image.created".

Section ConfigSpec.
  Variable shlex : string -> option (list string).
  Variable rfc3339 : Z -> string.

  (* the label a key must carry *)
  Definition expected_label (ic : image_config) (created : Z) (k : string) : option string :=
    if String.eqb k created_key then Some (rfc3339 created)
    else match (if nonempty (ic_vcs_url ic) then cut_at "@"%char (ic_vcs_url ic) else None) with
         | Some (url, hash) =>
             if String.eqb k revision_key then Some hash
             else if String.eqb k source_key then Some url
             else alookup k (ic_annotations ic)
         | None => alookup k (ic_annotations ic)
         end.

  (* declared command line [s]: empty = inherit, otherwise its shell-word split *)
  Definition WordsOk (s : string) (inherit out : list string) : Prop :=
    if nonempty s then shlex s = Some out else out = inherit.

  Definition or_inherit (s inherit : string) : string := if nonempty s then s else inherit.

  Record ConfigMirrors (plat : string * string) (base : oci_config) (ic : image_config) (created : Z)
      (cfg : oci_config) : Prop := {
    cm_entrypoint :
      if nonempty (ic_shell_fragment ic)
      then oc_entrypoint cfg = ["/bin/sh"; "-c"; ic_shell_fragment ic]
      else WordsOk (ic_command ic) (oc_entrypoint base) (oc_entrypoint cfg);
    cm_cmd : WordsOk (ic_cmd ic) (oc_cmd base) (oc_cmd cfg);
    cm_workdir : oc_workdir cfg = or_inherit (ic_workdir ic) (oc_workdir base);
    cm_user : oc_user cfg = or_inherit (ic_run_as ic) (oc_user base);
    cm_stop_signal : oc_stop_signal cfg = or_inherit (ic_stop_signal ic) (oc_stop_signal base);
    cm_volumes : forall v, In v (oc_volumes cfg) <->
                           In v (match ic_volumes ic with [] => oc_volumes base | vs => vs end);
    cm_env : EnvOk Generated.C12Oci.default_env (ic_env ic) (oc_env cfg);
    cm_labels : forall k, alookup k (oc_labels cfg) = expected_label ic created k;
    cm_created : oc_created cfg = created;
    cm_platform : (oc_architecture cfg, oc_variant cfg) = plat;
    cm_os : oc_os cfg = expected_os }.

  (* boolean validator, run on the config read back from the built image *)
  Definition words_ok_b (s : string) (inherit out : list string) : bool :=
    if nonempty s then option_eqb (list_eqb String.eqb) (shlex s) (Some out)
    else list_eqb String.eqb out inherit.
  Definition incl_b (a b : list string) : bool := forallb (fun x => mem_s x b) a.
  Definition label_keys (ic : image_config) (cfg : oci_config) : list string :=
    [created_key; revision_key; source_key] ++ akeys (ic_annotations ic) ++ akeys (oc_labels cfg).

  Definition labels_ok_b (ic : image_config) (created : Z) (cfg : oci_config) : bool :=
    forallb (fun k => option_eqb String.eqb (alookup k (oc_labels cfg)) (expected_label ic created k))
            (label_keys ic cfg).
  (* WHY the labels are wrong: exactly the labels of the same configuration
     without its VCS URL = the source/revision pair was not recorded *)
  Definition without_vcs (ic : image_config) : image_config :=
    {| ic_shell_fragment := ic_shell_fragment ic; ic_command := ic_command ic; ic_cmd := ic_cmd ic;
       ic_workdir := ic_workdir ic; ic_run_as := ic_run_as ic; ic_stop_signal := ic_stop_signal ic;
       ic_volumes := ic_volumes ic; ic_env := ic_env ic; ic_annotations := ic_annotations ic;
       ic_vcs_url := "" |}.
  Definition labels_tags (ic : image_config) (created : Z) (cfg : oci_config) : list string :=
    if labels_ok_b ic created cfg then []
    else if labels_ok_b (without_vcs ic) created cfg then ["viol:config-vcs-source-revision-labels-missing"]
    else ["viol:config-labels"].

  Definition config_tags (plat : string * string) (base : oci_config) (ic : image_config) (created : Z)
      (cfg : oci_config) : list string :=
    tag_if (negb (if nonempty (ic_shell_fragment ic)
                  then list_eqb String.eqb (oc_entrypoint cfg) ["/bin/sh"; "-c"; ic_shell_fragment ic]
                  else words_ok_b (ic_command ic) (oc_entrypoint base) (oc_entrypoint cfg)))
           "viol:config-entrypoint" ++
    tag_if (negb (words_ok_b (ic_cmd ic) (oc_cmd base) (oc_cmd cfg))) "viol:config-cmd" ++
    tag_if (negb (String.eqb (oc_workdir cfg) (or_inherit (ic_workdir ic) (oc_workdir base)))) "viol:config-workdir" ++
    tag_if (negb (String.eqb (oc_user cfg) (or_inherit (ic_run_as ic) (oc_user base)))) "viol:config-user" ++
    tag_if (negb (String.eqb (oc_stop_signal cfg) (or_inherit (ic_stop_signal ic) (oc_stop_signal base)))) "viol:config-stop-signal" ++
    tag_if (negb (let want := match ic_volumes ic with [] => oc_volumes base | vs => vs end in
                  incl_b (oc_volumes cfg) want && incl_b want (oc_volumes cfg))) "viol:config-volumes" ++
    env_tags Generated.C12Oci.default_env (ic_env ic) (oc_env cfg) ++
    labels_tags ic created cfg ++
    tag_if (negb (Z.eqb (oc_created cfg) created)) "viol:config-created" ++
    tag_if (negb (String.eqb (oc_architecture cfg) (fst plat) && String.eqb (oc_variant cfg) (snd plat))) "viol:config-platform" ++
    tag_if (negb (String.eqb (oc_os cfg) expected_os)) "viol:config-os".
End ConfigSpec.

(* ---- index ---------------------------------------------------------------------- *)
Definition IndexOk {D} (plat : string -> string * string) (imgs : list (string * D))
    (out : list (index_entry D)) : Prop :=
  StronglySorted (kle ie_key) out /\
  Permutation (List.map (fun e => (ie_key e, ie_desc e)) out) imgs /\
  Forall (fun e => (ie_arch e, ie_variant e) = plat (ie_key e) /\ ie_os e = expected_os) out.

(* validator for an observed index: [keys] requested, observed entries as
   (key of the image the manifest's digest belongs to, arch, variant, os) *)
Definition index_tags (plat : string -> string * string) (keys : list string)
    (out : list (string * (string * string * string))) : list string :=
  tag_if (negb (sortedb fst out)) "viol:index-not-sorted-by-architecture" ++
  tag_if (negb (list_eqb String.eqb (isort sid (List.map fst out)) (isort sid keys))) "viol:index-not-one-manifest-per-architecture" ++
  tag_if (negb (forallb (fun e => match e with (k, (a, v, o)) =>
                 String.eqb a (fst (plat k)) && String.eqb v (snd (plat k)) && String.eqb o expected_os end) out))
         "viol:index-platform".
