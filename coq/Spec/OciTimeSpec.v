(* C12 — what an RFC 3339 UTC timestamp MEANS, independent of how Go prints one.

   The proleptic Gregorian calendar is given in its textbook form: leap years every 4
   years except centuries not divisible by 400; the twelve month lengths; the day
   number of a date = days in the years before + days in the months before + day.
   (RFC 3339 section 5.6 "date-time", with the restrictions of 5.7; the `created`
   field of the OCI image config and the org.opencontainers.image.created annotation
   are "date and time … as defined by RFC 3339".) *)
From Apko Require Import Base.Prelude.
Open Scope string_scope. Local Open Scope Z_scope.

Definition is_leap (y : Z) : bool := (y mod 4 =? 0) && (negb (y mod 100 =? 0) || (y mod 400 =? 0)).

Definition days_in_month (leap : bool) (m : Z) : Z :=
  if m =? 2 then (if leap then 29 else 28)
  else if (m =? 4) || (m =? 6) || (m =? 9) || (m =? 11) then 30 else 31.

(* days in the months 1 .. m-1 of a year *)
Definition days_before_month (leap : bool) (m : Z) : Z :=
  List.fold_left Z.add (List.map (days_in_month leap) (List.map Z.of_nat (List.seq 1 (Z.to_nat (m - 1))))) 0.

(* leap years among the years 1 .. y (extended to y <= 0 by the same formula) *)
Definition leaps_upto (y : Z) : Z := y / 4 - y / 100 + y / 400.
(* days from 1970-01-01 to the first of January of year y; characterised by
   days_before_year_1970 / days_before_year_succ in Proofs/OciTimeProofs.v *)
Definition days_before_year (y : Z) : Z := 365 * (y - 1970) + (leaps_upto (y - 1) - leaps_upto 1969).

Definition valid_date (y m d : Z) : Prop := 1 <= m <= 12 /\ 1 <= d <= days_in_month (is_leap y) m.
Definition valid_date_b (y m d : Z) : bool :=
  (1 <=? m) && (m <=? 12) && (1 <=? d) && (d <=? days_in_month (is_leap y) m).

(* day number of a date, 1970-01-01 = 0 *)
Definition day_number (y m d : Z) : Z := days_before_year y + days_before_month (is_leap y) m + (d - 1).

(* ---- the text form "YYYY-MM-DDTHH:MM:SSZ" ---------------------------------------------- *)
Definition is_digit (c : ascii) : bool := let n := N_of_ascii c in (48 <=? n)%N && (n <=? 57)%N.
Definition digit_val (c : ascii) : Z := Z.of_N (N_of_ascii c) - 48.

(* the shape: 20 characters, digits and punctuation at fixed places *)
Definition rfc3339_utc_shape (s : string) : bool :=
  match list_ascii_of_string s with
  | [y1; y2; y3; y4; p1; m1; m2; p2; d1; d2; t; h1; h2; c1; i1; i2; c2; s1; s2; z] =>
      forallb is_digit [y1; y2; y3; y4; m1; m2; d1; d2; h1; h2; i1; i2; s1; s2] &&
      Ascii.eqb p1 "-" && Ascii.eqb p2 "-" && Ascii.eqb t "T" && Ascii.eqb c1 ":" && Ascii.eqb c2 ":" && Ascii.eqb z "Z"
  | _ => false
  end.

(* the instant (seconds since 1970-01-01T00:00:00Z) a well-formed UTC timestamp denotes;
   None for anything that is not one (wrong shape, month 13, February 30, hour 24, …;
   the leap second :60 is not accepted: no Unix second corresponds to it) *)
Definition parse_rfc3339 (s : string) : option Z :=
  if rfc3339_utc_shape s then
    match list_ascii_of_string s with
    | [y1; y2; y3; y4; _; m1; m2; _; d1; d2; _; h1; h2; _; i1; i2; _; s1; s2; _] =>
        let y := 1000 * digit_val y1 + 100 * digit_val y2 + 10 * digit_val y3 + digit_val y4 in
        let m := 10 * digit_val m1 + digit_val m2 in
        let d := 10 * digit_val d1 + digit_val d2 in
        let hh := 10 * digit_val h1 + digit_val h2 in
        let mi := 10 * digit_val i1 + digit_val i2 in
        let ss := 10 * digit_val s1 + digit_val s2 in
        if valid_date_b y m d && (hh <? 24) && (mi <? 60) && (ss <? 60)
        then Some (86400 * day_number y m d + 3600 * hh + 60 * mi + ss)
        else None
    | _ => None
    end
  else None.

(* Go's string order = bytewise lexicographic *)
Definition str_lt (a b : string) : Prop := String.compare a b = Lt.
