(* C15 — what "never crashes or hangs" means for a modelled reader, and the
   validator applied to the implementation's observed outcome class. *)
From Apko Require Import Base.Prelude Model.Parsers.
Open Scope string_scope. Open Scope list_scope.

(* a reader returns a result or an ordinary error on every input *)
Definition Returns {A} (r : res A) : Prop := r <> Panic /\ r <> OutOfFuel.
Definition NeverCrashes {I A} (f : I -> res A) : Prop := forall x, Returns (f x).

Definition Prompt (c : rclass) : Prop := c = CkOk \/ c = CkErr.
Definition class_tags (reader : string) (c : rclass) : list string :=
  match c with
  | CkPanic => ["viol:panic-" +++ reader]
  | CkHang => ["viol:timeout-" +++ reader]
  | _ => []
  end.
