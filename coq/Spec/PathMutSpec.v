(* C13 (path-mutation half) — what a declared mutation must have achieved, as
   a readable Prop over what can be observed of its path, plus the boolean
   validator run on the implementation's OBSERVED trees and layers. *)
From Apko Require Import Base.Prelude Model.C13Fs Model.PathMut Spec.AccountsSpec.
Open Scope string_scope. Open Scope list_scope.

(* what is observed of one mutated path *)
Record step_obs := mkStep {
  so_direct : option dentry;     (* the entry stored under the path itself (a symlink is NOT resolved) *)
  so_stat : option sinfo;        (* Stat: final symlink resolved *)
  so_size : N;                   (* size of what Stat finds *)
  so_src : option sinfo;         (* Stat of the mutation's source (hard links) *)
  so_desc : list dentry          (* everything below the path, entries as stored *)
}.

Definition has_attrs (m : mutation) (s : sinfo) : Prop :=
  si_perm s = m_perm m /\ si_uid s = m_uid m /\ si_gid s = m_gid m.
Definition d_has_attrs (m : mutation) (d : dentry) : Prop :=
  d_perm d = m_perm m /\ d_uid d = m_uid m /\ d_gid d = m_gid m.

(* the post-condition of one mutation *)
Definition Realised (m : mutation) (o : step_obs) : Prop :=
  if String.eqb (m_type m) "directory" then
    (exists s, so_stat o = Some s /\ si_kind s = KDir /\ has_attrs m s) /\
    (m_recursive m = true -> forall d, In d (so_desc o) -> d_kind d <> KSym -> d_has_attrs m d)
  else if String.eqb (m_type m) "empty-file" then
    exists s, so_stat o = Some s /\ si_kind s = KFile /\ has_attrs m s /\ so_size o = 0%N
  else if String.eqb (m_type m) "symlink" then
    (* the link itself: present, pointing at the source, owned as declared
       (a symlink's permission bits are not meaningful) *)
    exists d, so_direct o = Some d /\ d_kind d = KSym /\ d_target d = m_source m /\
              d_uid d = m_uid m /\ d_gid d = m_gid m
  else if String.eqb (m_type m) "hardlink" then
    exists d, so_direct o = Some d /\ d_kind d <> KSym /\ d_has_attrs m d /\
              so_src o = Some (mkSinfo (d_kind d) (d_perm d) (d_uid d) (d_gid d))
  else if String.eqb (m_type m) "permissions" then
    exists s, so_stat o = Some s /\ has_attrs m s
  else False.

Definition has_attrs_b (m : mutation) (s : sinfo) : bool :=
  N.eqb (si_perm s) (m_perm m) && N.eqb (si_uid s) (m_uid m) && N.eqb (si_gid s) (m_gid m).
Definition d_has_attrs_b (m : mutation) (d : dentry) : bool :=
  N.eqb (d_perm d) (m_perm m) && N.eqb (d_uid d) (m_uid m) && N.eqb (d_gid d) (m_gid m).

(* the validator: failure tags, [] = realised *)
Definition realised_tags (m : mutation) (o : step_obs) : list string :=
  if String.eqb (m_type m) "directory" then
    tag_if (negb (match so_stat o with Some s => kind_eqb (si_kind s) KDir && has_attrs_b m s | None => false end))
           "viol:directory-not-present-with-perm-owner" ++
    tag_if (m_recursive m && negb (forallb (fun d => kind_eqb (d_kind d) KSym || d_has_attrs_b m d) (so_desc o)))
           "viol:recursive-not-applied"
  else if String.eqb (m_type m) "empty-file" then
    tag_if (negb (match so_stat o with
                  | Some s => kind_eqb (si_kind s) KFile && has_attrs_b m s
                  | None => false end))
           (* a path written with a trailing slash: the file is nested inside a
              directory of that name (was finding C13-F6, fixed by 10a6051; the tag stays armed) *)
           (if ends_with_slash (m_path m) then "viol:empty-file-trailing-slash-nests-file"
            else "viol:empty-file-not-present-with-perm-owner") ++
    (* present as declared but with content (finding C13-F4: a truncated
       package-backed file of tarfs shows the package's content again) *)
    tag_if (match so_stat o with
            | Some s => kind_eqb (si_kind s) KFile && has_attrs_b m s && negb (N.eqb (so_size o) 0)
            | None => false end) "viol:empty-file-not-empty"
  else if String.eqb (m_type m) "symlink" then
    match so_direct o with
    | Some d =>
        tag_if (negb (kind_eqb (d_kind d) KSym && String.eqb (d_target d) (m_source m))) "viol:symlink-not-present" ++
        tag_if (negb (N.eqb (d_uid d) (m_uid m) && N.eqb (d_gid d) (m_gid m))) "viol:symlink-owner-not-applied"
    | None => ["viol:symlink-not-present"]
    end
  else if String.eqb (m_type m) "hardlink" then
    match so_direct o with
    | Some d =>
        tag_if (negb (negb (kind_eqb (d_kind d) KSym) && d_has_attrs_b m d)) "viol:hardlink-not-present-with-perm-owner" ++
        tag_if (negb (option_eqb sinfo_eqb (so_src o) (Some (mkSinfo (d_kind d) (d_perm d) (d_uid d) (d_gid d)))))
               "viol:hardlink-not-same-file"
    | None => ["viol:hardlink-not-present-with-perm-owner"]
    end
  else if String.eqb (m_type m) "permissions" then
    tag_if (negb (match so_stat o with Some s => has_attrs_b m s | None => false end)) "viol:permissions-not-applied"
  else ["viol:unknown-mutation-type-accepted"].

(* the layer half: the tar header of a mutated path carries the declared mode
   (all twelve bits) and owner *)
Definition LayerRealised (m : mutation) (l : dentry) : Prop :=
  d_perm l = m_perm m /\ d_uid l = m_uid m /\ d_gid l = m_gid m.
Definition layer_tags (m : mutation) (l : dentry) : list string :=
  tag_if (negb (N.eqb (d_perm l) (m_perm m)))
         (if (511 <? m_perm m)%N && N.eqb (d_perm l) (N.land (m_perm m) 511)
          then "viol:layer-mode-drops-special-bits" else "viol:layer-mode-not-declared") ++
  tag_if (negb (N.eqb (d_uid l) (m_uid m) && N.eqb (d_gid l) (m_gid m))) "viol:layer-owner-not-declared".
