(* C05 — what "authenticated end to end" means for the package an install drew
   its bytes from, and the boolean validator run on observed installs. *)
From Apko Require Import Base.Prelude Model.PkgAuth.
Open Scope string_scope. Open Scope list_scope.

(* decidable equality of what the decoders return *)
Definition fkind_eqb (a b : fkind) : bool :=
  match a, b with
  | FReg, FReg | FSym, FSym | FDir, FDir | FLink, FLink | FOther, FOther => true
  | _, _ => false
  end.
Definition recsum_eqb (a b : recsum) : bool :=
  match a, b with
  | SumNone, SumNone | SumBad, SumBad => true
  | SumSome x, SumSome y => bytes_eqb x y
  | _, _ => false
  end.
Definition dfile_eqb (a b : dfile) : bool :=
  String.eqb (f_name a) (f_name b) && fkind_eqb (f_kind a) (f_kind b) && bytes_eqb (f_body a) (f_body b) &&
  recsum_eqb (f_sum a) (f_sum b) && String.eqb (f_link a) (f_link b) && Bool.eqb (f_sparse a) (f_sparse b).
Definition control_eqb (a b : control) : bool :=
  bytes_eqb (c_raw a) (c_raw b) && String.eqb (c_desc a) (c_desc b) && list_eqb String.eqb (c_datahash a) (c_datahash b).

Section Spec.
  Variable sha1 : list N -> list N.
  Variable sha256 : list N -> list N.
  Variable b64 : string -> option (list N).
  Variable ctl_view : list N -> option (string * string).
  Variable gunzip : list N -> option (list N).
  Variable untar : list N -> option (list dfile).

  (* a regular file with a recorded checksum matches it (an undecodable record
     cannot match) *)
  Definition file_ok (f : dfile) : Prop :=
    f_kind f = FReg ->
    f_sum f <> SumBad /\ forall d, f_sum f = SumSome d -> d = sha1 (f_body f).

  (* [h]: the handle the index (or lock file) gives; [x]: what was installed.
     - the control section's SHA-1 is the checksum the handle records (its "Q1"
       prefix being optional); the control FILE (scripts, triggers) holds the same
       bytes, and what was read from the control section is what those bytes say,
     - every non-empty datahash the control section records is the hex SHA-256
       of the data section (an empty or absent datahash records nothing),
     - the entries an installer reads are the ones inside those hashed bytes: no
       installed byte comes from outside the hashed range,
     - every regular file agrees with its recorded checksum. *)
  Definition Chain (h : handle) (x : exp) : Prop :=
    h_sum b64 h = Some (sha1 (c_raw (x_ctl x))) /\
    x_ctl_file x = c_raw (x_ctl x) /\
    mk_ctl ctl_view (c_raw (x_ctl x)) = Some (x_ctl x) /\
    (forall dh, In dh (c_datahash (x_ctl x)) -> dh <> "" -> dh = hex (sha256 (d_raw (x_dat x)))) /\
    dat_view gunzip untar (d_raw (x_dat x)) = Some (d_files (x_dat x)) /\
    (forall f, In f (d_files (x_dat x)) -> file_ok f).

  Definition file_ok_b (f : dfile) : bool :=
    match f_kind f, f_sum f with
    | FReg, SumBad => false
    | FReg, SumSome d => bytes_eqb d (sha1 (f_body f))
    | _, _ => true
    end.

  Definition control_ok_b (h : handle) (x : exp) : bool :=
    option_eqb bytes_eqb (h_sum b64 h) (Some (sha1 (c_raw (x_ctl x)))).
  Definition control_file_ok_b (x : exp) : bool :=
    bytes_eqb (x_ctl_file x) (c_raw (x_ctl x)) &&
    option_eqb control_eqb (mk_ctl ctl_view (c_raw (x_ctl x))) (Some (x_ctl x)).
  Definition datahash_ok_b (x : exp) : bool :=
    forallb (fun dh => String.eqb dh "" || String.eqb dh (hex (sha256 (d_raw (x_dat x))))) (c_datahash (x_ctl x)).
  Definition covered_b (x : exp) : bool :=
    option_eqb (list_eqb dfile_eqb) (dat_view gunzip untar (d_raw (x_dat x))) (Some (d_files (x_dat x))).
  Definition files_ok_b (x : exp) : bool := forallb file_ok_b (d_files (x_dat x)).

  (* what is found installed was hashed: every installed file's bytes are the body of a
     REGULAR entry of the data section that agrees with its recorded checksum *)
  Definition Installed_hashed (x : exp) (out : list (string * list N)) : Prop :=
    forall n b, In (n, b) out ->
      exists f, In f (d_files (x_dat x)) /\ f_kind f = FReg /\ f_body f = b /\ file_ok f.
  Definition installed_hashed_b (x : exp) (out : list (string * list N)) : bool :=
    forallb (fun p => existsb (fun f => fkind_eqb (f_kind f) FReg && bytes_eqb (f_body f) (snd p) && file_ok_b f)
                        (d_files (x_dat x))) out.

  (* [sfx] names the mechanism when the harness's bookkeeping knows one *)
  Definition chain_tags (sfx : string) (h : handle) (x : exp) : list string :=
    tag_if (negb (control_ok_b h x)) ("viol:control-checksum-mismatch-installed" ++ sfx) ++
    tag_if (negb (control_file_ok_b x)) ("viol:control-file-not-the-hashed-bytes" ++ sfx) ++
    tag_if (negb (datahash_ok_b x)) ("viol:datahash-mismatch-installed" ++ sfx) ++
    tag_if (negb (covered_b x)) ("viol:installed-entries-outside-hashed-bytes" ++ sfx) ++
    tag_if (negb (files_ok_b x)) ("viol:file-checksum-mismatch-installed" ++ sfx).
End Spec.
