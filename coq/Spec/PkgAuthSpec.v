(* C05 — what "authenticated end to end" means for the package an install drew
   its bytes from, and the boolean validator run on observed installs. *)
From Apko Require Import Base.Prelude Model.PkgAuth.
Open Scope string_scope. Open Scope list_scope.

Section Spec.
  Variable sha1 : list N -> list N.
  Variable sha256 : list N -> list N.
  Variable b64 : string -> option (list N).

  (* a regular file with a recorded checksum matches it (an undecodable record
     cannot match) *)
  Definition file_ok (f : dfile) : Prop :=
    f_kind f = FReg ->
    f_sum f <> SumBad /\ forall d, f_sum f = SumSome d -> d = sha1 (f_body f).

  (* [h]: the handle the index (or lock file) gives; [x]: what was installed.
     - the control section's SHA-1 is the checksum the handle records (its "Q1"
       prefix being optional),
     - every non-empty datahash the control section records is the hex SHA-256
       of the data section (an empty or absent datahash records nothing),
     - every regular file agrees with its recorded checksum. *)
  Definition Chain (h : handle) (x : exp) : Prop :=
    h_sum b64 h = Some (sha1 (c_raw (x_ctl x))) /\
    (forall dh, In dh (c_datahash (x_ctl x)) -> dh <> "" -> dh = hex (sha256 (d_raw (x_dat x)))) /\
    (forall f, In f (d_files (x_dat x)) -> file_ok f).

  Definition file_ok_b (f : dfile) : bool :=
    match f_kind f, f_sum f with
    | FReg, SumBad => false
    | FReg, SumSome d => bytes_eqb d (sha1 (f_body f))
    | _, _ => true
    end.

  Definition control_ok_b (h : handle) (x : exp) : bool :=
    option_eqb bytes_eqb (h_sum b64 h) (Some (sha1 (c_raw (x_ctl x)))).
  Definition datahash_ok_b (x : exp) : bool :=
    forallb (fun dh => String.eqb dh "" || String.eqb dh (hex (sha256 (d_raw (x_dat x))))) (c_datahash (x_ctl x)).
  Definition files_ok_b (x : exp) : bool := forallb file_ok_b (d_files (x_dat x)).

  (* [sfx] names the mechanism when the harness's bookkeeping knows one *)
  Definition chain_tags (sfx : string) (h : handle) (x : exp) : list string :=
    tag_if (negb (control_ok_b h x)) ("viol:control-checksum-mismatch-installed" ++ sfx) ++
    tag_if (negb (datahash_ok_b x)) ("viol:datahash-mismatch-installed" ++ sfx) ++
    tag_if (negb (files_ok_b x)) ("viol:file-checksum-mismatch-installed" ++ sfx).
End Spec.
