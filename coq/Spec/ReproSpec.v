(* C01 specification: what "reproducible" means for the pieces a proof can
   reach, independent of how apko achieves it, plus the validator that is run
   on the digests of real builds. *)
From Apko Require Import Base.Prelude Base.C01Lib.
From Coq Require Import Permutation Sorted.
Open Scope string_scope. Open Scope list_scope.

(* a canonicaliser yields the same result whatever order its input arrives in
   (Go map iteration order, order of configuration entries) *)
Definition OrderInvariant {A B} (f : list A -> B) : Prop :=
  forall l l', Permutation l l' -> f l = f l'.
(* ... and, for set-valued inputs, whatever the repetitions *)
Definition SetInvariant {A B} (f : list A -> B) : Prop :=
  forall l l', (forall x, In x l <-> In x l') -> f l = f l'.

Definition SortedStrings (l : list string) : Prop := StronglySorted (lep sleb) l.
Definition StrictlySortedStrings (l : list string) : Prop := StronglySorted (fun a b => sltb a b = true) l.

(* m is the latest of a non-empty collection of instants *)
Definition IsLatest (m : Z) (l : list Z) : Prop := In m l /\ Forall (fun t => (t <= m)%Z) l.

(* ---- observed builds ------------------------------------------------------ *)
(* the emitted artefacts of one build: (role, sha256 of the bytes) in a fixed
   order of roles: index, per-architecture manifest / config / layers, SBOMs,
   lock file, output tarball or OCI layout *)
Definition artifacts := list (string * string).

(* two builds of the same configuration are reproductions of each other iff
   every artefact has the same bytes (digest) *)
Definition SameOutputs (a b : artifacts) : Prop := a = b.

(* validator: the roles at which two builds differ *)
Fixpoint differing (a b : artifacts) : list string :=
  match a, b with
  | [], [] => []
  | (r, d) :: a', (r', d') :: b' =>
      (if String.eqb r r' && String.eqb d d' then [] else [r]) ++ differing a' b'
  | (r, _) :: _, [] => [r]
  | [], (r, _) :: _ => [r]
  end.

Lemma differing_nil_iff a b : differing a b = [] <-> SameOutputs a b.
Proof.
  unfold SameOutputs. revert b. induction a as [|[r d] a IH]; intros [|[r' d'] b]; simpl;
    try (split; intro H; [reflexivity || discriminate | reflexivity || discriminate]).
  destruct (String.eqb r r') eqn:Er; destruct (String.eqb d d') eqn:Ed; simpl;
    try (split; intro H; [discriminate|]; inversion H; subst;
         rewrite ?String.eqb_refl in *; discriminate).
  apply String.eqb_eq in Er, Ed. subst. rewrite IH. split; intro H; [subst; reflexivity | inversion H; reflexivity].
Qed.
