(* C02 — the WIDER envelope of c02_closed_multi_version: several versions per
   package name, several packages of ONE name per versioned virtual, several provider
   NAMES per pure (unversioned) virtual, under a side
   condition that keeps the greedy, non-backtracking solver out of the recorded
   findings C02-F1 / F1b / F1c / F4 / F5 (and F2 / F3 / F6 as before).

   The idea.  For every package name x the universe designates one package, the
   WINNER of x: what bestPackage returns for an unconstrained request of x on a
   fresh resolver ([winner_of]).  The side condition makes every choice the
   solver can take for x — whatever the state of `existing`, `existingOrigins`,
   the disqualification set, and whichever key of the name map (x itself or a
   virtual) the choice is made under — come out as that winner, or fail.  Then
   no two packages of one name are ever chosen, and the three places that work
   BY NAME (the cycle cut through `parents`, the de-duplication in
   GetPackageWithDependencies, installTracked) cannot replace a package by a
   sibling version, which is the common mechanism of F1, F1b, F1c and F5.

   Only data types, the name map and the pure comparison / filter functions of
   Model/Resolver.v are used; none of the solver's control flow. *)
From Apko Require Import Base.Prelude Generated.VersionConsts Model.Version Model.Resolver Spec.ResolveSpec.
Open Scope string_scope. Open Scope list_scope.

Definition all_pids (R : resolver) : list pid := seq 0 (List.length (r_pkgs R)).
Definition same_name (R : resolver) (i j : pid) : bool := String.eqb (k_name (getp R i)) (k_name (getp R j)).

(* the package bestPackage ranks first among everything the name map lists under x,
   on a fresh resolver (nothing existing, no origins, no pin) *)
Definition winner_of (R : resolver) (x : string) : option pid :=
  match alookup x (r_names R) with
  | Some l => best_package R x [] [] "" l
  | None => None
  end.
Definition is_winner (R : resolver) (j : pid) : bool :=
  match winner_of R (k_name (getp R j)) with Some w => Nat.eqb w j | None => false end.

(* "w beats y under the key n", both ways round (no transitivity of comparePackages is assumed) *)
Definition beats (R : resolver) (n : string) (w y : pid) : bool :=
  (compare_packages R n [] [] "" w y <? 0)%Z && negb (compare_packages R n [] [] "" y w <? 0)%Z.

(* ---- the clauses ------------------------------------------------------------------------ *)
Definition on_positive (f : cstr -> bool) (d : cdep) : bool := match d_neg d with Some _ => true | None => f (d_pos d) end.
(* M1 no install_if; M2 no dependency on a name the package provides itself (as in envelope_b) *)
Definition m_iif_b (R : resolver) : bool := forallb (fun k => match k_iifs k with [] => true | _ => false end) (r_pkgs R).
Definition m_selfdep_b (R : resolver) : bool :=
  forallb (fun k => forallb (on_positive (fun c => negb (my_provides k (s_name c) || my_provides k (s_raw c)))) (k_deps k)) (r_pkgs R).

(* M3 a provided name is never the name of a package *)
Definition m_virtual_b (R : resolver) : bool :=
  forallb (fun k => forallb (fun pv => negb (existsb (fun k' => String.eqb (k_name k') (s_name pv)) (r_pkgs R))) (k_provs k)) (r_pkgs R).

(* M4 every key of the name map lists
      EITHER packages of ONE name x, the winner of x among them, and under that key the winner beats
             every other package listed (both ways round)
      OR     (a pure virtual with several provider names) winners only, each providing the key WITHOUT a
             version — then disqualifyConflicts disqualifies none of them, whichever is chosen *)
Definition m_entry_one_name_b (R : resolver) (e : string * list pid) : bool :=
  match snd e with
  | [] => true
  | x :: _ =>
      forallb (fun y => same_name R y x) (snd e) &&
      match winner_of R (k_name (getp R x)) with
      | None => false
      | Some w => mem_pid w (snd e) && forallb (fun y => Nat.eqb y w || beats R (fst e) w y) (snd e)
      end
  end.
Definition m_entry_pure_virtual_b (R : resolver) (e : string * list pid) : bool :=
  forallb (is_winner R) (snd e) &&
  forallb (fun y => forallb (fun pv => negb (String.eqb (s_name pv) (fst e)) || String.eqb (s_version pv) "") (k_provs (getp R y))) (snd e).
Definition m_entry_b (R : resolver) (e : string * list pid) : bool := m_entry_one_name_b R e || m_entry_pure_virtual_b R e.
Definition m_entries_b (R : resolver) : bool := forallb (m_entry_b R) (r_names R).

(* M5 a constraint with a version operator names packages only (nothing provides that name) *)
Definition versioned_on_names_b (R : resolver) (c : cstr) : bool :=
  (s_dep c =? dep_versionAny)%Z ||
  match alookup (s_name c) (r_names R) with
  | Some l => forallb (fun j => String.eqb (k_name (getp R j)) (s_name c)) l
  | None => true
  end.

(* M6 the winner passes every versioned constraint on its name with its OWN version — or no
      package of that name does (then `constrain` disqualifies them all and the resolution fails) *)
Definition winner_passes_b (R : resolver) (c : cstr) : bool :=
  (s_dep c =? dep_versionAny)%Z ||
  match s_req c, alookup (s_name c) (r_names R) with
  | Some req, Some l =>
      match winner_of R (s_name c) with
      | Some w => negb (constrain_provider c req (getp R w)) || forallb (fun y => constrain_provider c req (getp R y)) l
      | None => false
      end
  | _, _ => true
  end.
Definition positive_ok_b (R : resolver) (c : cstr) : bool := versioned_on_names_b R c && winner_passes_b R c.

(* M7 a conflict entry !c that excludes the winner of a name excludes every package of that name *)
Definition hit (R : resolver) (c : cstr) (j : pid) : bool :=
  match filter_packages R [] (world_opts c) [j] with [] => false | _ => true end.
Definition conflict_uniform_b (R : resolver) (c : cstr) : bool :=
  match alookup (s_name c) (r_names R) with
  | None => true
  | Some l =>
      forallb (fun j => negb (is_winner R j) || negb (hit R c j) ||
                        forallb (fun y => negb (same_name R y j) || (mem_pid y l && hit R c y)) (all_pids R)) l
  end.
Definition dep_ok_b (R : resolver) (d : cdep) : bool :=
  match d_neg d with Some c => conflict_uniform_b R c | None => positive_ok_b R (d_pos d) end.

(* M8 packages of one name have one origin; M9 a name with two or more packages has no pinned package *)
Definition m_siblings_b (R : resolver) : bool :=
  forallb (fun i => forallb (fun j =>
     Nat.eqb i j || negb (same_name R i j) ||
     (String.eqb (p_origin (k_pkg (getp R i))) (p_origin (k_pkg (getp R j))) && String.eqb (p_pin (k_pkg (getp R i))) ""))
     (all_pids R)) (all_pids R).

(* the clauses by name ([c02_multi_clauses_necessary] refers to them by position) *)
Definition all_deps (R : resolver) (W : list cdep) : list cdep := flat_map k_deps (r_pkgs R) ++ W.
Definition m_clauses (R : resolver) (W : list cdep) : list (string * bool) :=
  [ ("no-install-if", m_iif_b R);
    ("no-dependency-on-a-self-provided-name", m_selfdep_b R);
    ("a-provided-name-is-no-package-name", m_virtual_b R);
    ("per-key-one-name-with-its-winner-beating-the-rest-or-unversioned-winners-only", m_entries_b R);
    ("siblings-share-the-origin-and-are-not-pinned", m_siblings_b R);
    ("version-operators-only-on-package-names", forallb (on_positive (versioned_on_names_b R)) (all_deps R W));
    ("the-winner-passes-every-versioned-constraint-on-its-name", forallb (on_positive (winner_passes_b R)) (all_deps R W));
    ("a-conflict-entry-that-excludes-a-winner-excludes-its-siblings",
       forallb (fun d => match d_neg d with Some c => conflict_uniform_b R c | None => true end) (flat_map k_deps (r_pkgs R)));
    ("no-conflict-entry-among-the-requests", forallb (fun d => match d_neg d with Some _ => false | None => true end) W) ].
Definition menvelope_c (R : resolver) (W : list cdep) : bool := forallb snd (m_clauses R W).
Definition menvelope_b (U : universe) (W : list string) : bool :=
  menvelope_c (new_resolver U) (List.map cook_dep W).

(* the initial disqualification set (what disqualifyDifference produced): if it holds the winner
   of a name it holds every package of that name *)
Definition dq_ok_b (R : resolver) (dq : list pid) : bool :=
  forallb (fun j => negb (is_winner R j) ||
                    forallb (fun y => negb (same_name R y j) || mem_pid y dq) (all_pids R)) dq.
Definition dq0_ok_b (U : universe) (dq0 : list pid) : bool := dq_ok_b (new_resolver U) dq0.

(* ---- conflict entries: a Spec clause of their own ---------------------------------------- *)
(* member [p] is excluded by the conflict entry "!c": named or providing c's name, at a version
   that passes c's operator (any version when there is none) — [pkg_satisfies] of the rest *)
Definition excluded_by (d : string) (p : pkg) : Prop :=
  exists rest, bang_rest d = Some rest /\ pkg_satisfies (resolve_constraint rest) p.
(* "consistent": no member is excluded by a conflict entry of a member (a package does not
   exclude itself: apk's convention for `!name` next to `provides name`) *)
Definition ConflictFree (S : list pkg) : Prop :=
  forall p q d, In p S -> In q S -> In d (p_deps p) -> excluded_by d q -> p = q.

Definition excluded_by_b (d : cdep) (k : cpkg) : bool :=
  match d_neg d with Some c => pkg_satisfies_b c k | None => false end.
(* tags: WHICH members are involved tells the mechanism apart:
     install-if-member-excluded   the excluded member was added by the install_if loop (which never consults dq, cf. C02-F6)
     entry-of-install-if-member   the entry belongs to a member added by the install_if loop (its dependency list is never read, cf. C02-F2)
     member-excluded-by-member    neither: the entry was read AFTER the excluded member had been chosen (entries work forward only) *)
Definition conflict_tag (k q : cpkg) : string :=
  if has_iif q then "conflict/install-if-member-excluded"
  else if has_iif k then "conflict/entry-of-install-if-member"
  else "conflict/member-excluded-by-member".
Definition conflict_check_c (S : list cpkg) : list string :=
  flat_map (fun k => flat_map (fun d => flat_map (fun q =>
     if excluded_by_b d q && negb (pkg_eqb (k_pkg k) (k_pkg q)) then [conflict_tag k q] else []) S) (k_deps k)) S.
Definition conflict_check (S : list pkg) : list string := conflict_check_c (List.map cook_pkg S).
