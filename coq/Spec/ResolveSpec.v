(* C02 / C14 — what a resolution result must satisfy, independent of how apko
   computes it.  Only the data types (pkg, universe), the C03 version functions
   and the cooked records of Model/Resolver.v are used; none of the solver. *)
From Apko Require Import Base.Prelude Generated.VersionConsts Model.Version Model.Resolver.
Open Scope string_scope. Open Scope list_scope.

(* ---- C02: closed, consistent install set ------------------------------------ *)
(* version string [v] passes the operator and version of constraint [c]
   (satisfies = the apk order and operators, proved in Properties/C03) *)
Definition ver_ok (c : constraint) (v : string) : Prop :=
  c_dep c = dep_versionAny \/
  exists a r, parse_version v = Some a /\ parse_version (c_version c) = Some r /\ satisfies (c_dep c) a r = true.

(* package [p] satisfies [c]: by its own name and version, or by a provided
   name — with the provided version when [c] has an operator, with or without a
   version when [c] has none *)
Definition provide_ok (c : constraint) (prov : string) : Prop :=
  let pc := resolve_constraint prov in
  c_name pc = c_name c /\ ver_ok c (c_version pc).   (* an unversioned provide has version "", which parses to nothing *)
Definition pkg_satisfies (c : constraint) (p : pkg) : Prop :=
  (p_name p = c_name c /\ ver_ok c (p_version p)) \/
  exists prov, In prov (p_provides p) /\ provide_ok c prov.

Definition satisfies_dep (S : list pkg) (d : string) : Prop :=
  exists p, In p S /\ pkg_satisfies (resolve_constraint d) p.

Definition is_conflict (d : string) : bool :=
  match bang_rest d with Some _ => true | None => false end.

Record Closed (U : universe) (W : list string) (S : list pkg) : Prop := {
  cl_requests : forall w, In w W -> satisfies_dep S w;
  cl_deps : forall p d, In p S -> In d (p_deps p) -> is_conflict d = false -> satisfies_dep S d;
  cl_nodup : NoDup (List.map p_name S);
  cl_sub : incl S U
}.

(* ---- the boolean validator, on cooked records, with a tag per failure ---------- *)
Definition ver_ok_b (c : cstr) (v : option mver) : bool :=
  (s_dep c =? dep_versionAny)%Z ||
  match v, s_req c with
  | Some a, Some r => satisfies (s_dep c) a r
  | _, _ => false
  end.
Definition provide_ok_b (c : cstr) (pv : cstr) : bool :=
  String.eqb (s_name pv) (s_name c) && ver_ok_b c (s_req pv).
Definition pkg_satisfies_b (c : cstr) (k : cpkg) : bool :=
  (String.eqb (k_name k) (s_name c) && ver_ok_b c (k_ver k)) || existsb (provide_ok_b c) (k_provs k).
Definition satisfies_dep_b (S : list cpkg) (c : cstr) : bool := existsb (pkg_satisfies_b c) S.

(* WHY constraint [c] — a dependency of member [m], or a request when [m] is
   None — is unsatisfied.  The reason names what the install set looks like, and
   with it the mechanism of the solver that produces such a set:
     install-if-member        m was added by the install_if loop (its dependencies are never
                              expanded); for a request: a member of the requested name was
     self-provided            m provides the name itself (skipped by myProvides) at a version that fails
     same-name-other-version  a member has the name, at a version that fails
     provider-other-version   a member provides the name, at a version (or without one) that fails
     sibling-of-member        a package of the universe would satisfy c, is not a member, and a
                              member has ITS name (the satisfying package lost the de-duplication by name)
     absent                   nothing in the set relates to the name *)
Definition names_it (c : cstr) (j : cpkg) : bool := String.eqb (k_name j) (s_name c).
Definition provides_it (c : cstr) (j : cpkg) : bool :=
  existsb (fun pv => String.eqb (s_name pv) (s_name c)) (k_provs j).
Definition has_iif (k : cpkg) : bool := match k_iifs k with [] => false | _ => true end.
Definition unsat_reason (U S : list cpkg) (m : option cpkg) (c : cstr) : string :=
  if match m with
     | Some k => has_iif k
     | None => existsb (fun j => names_it c j && has_iif j) S
     end then "install-if-member"
  else if match m with Some k => my_provides k (s_name c) || my_provides k (s_raw c) | None => false end
  then "self-provided"
  else if existsb (names_it c) S then "same-name-other-version"
  else if existsb (provides_it c) S then "provider-other-version"
  else if existsb (fun q => pkg_satisfies_b c q && existsb (fun j => String.eqb (k_name j) (k_name q)) S) U
  then "sibling-of-member"
  else "absent".

Definition pkg_eqb (a b : pkg) : bool :=
  String.eqb (p_name a) (p_name b) && String.eqb (p_version a) (p_version b) &&
  String.eqb (p_origin a) (p_origin b) && list_eqb String.eqb (p_deps a) (p_deps b) &&
  list_eqb String.eqb (p_provides a) (p_provides b) && list_eqb String.eqb (p_install_if a) (p_install_if b) &&
  N.eqb (p_prio a) (p_prio b) && String.eqb (p_pin a) (p_pin b) && String.eqb (p_repo a) (p_repo b).

Fixpoint nodup_b (l : list string) : bool :=
  match l with [] => true | x :: t => negb (mem_str x t) && nodup_b t end.

Definition closed_check_c (U : list cpkg) (W : list cstr) (S : list cpkg) : list string :=
  flat_map (fun w => if satisfies_dep_b S w then [] else [String.append "request-unsat/" (unsat_reason U S None w)]) W ++
  flat_map (fun k =>
    flat_map (fun d =>
      match d_neg d with
      | Some _ => []
      | None => if satisfies_dep_b S (d_pos d) then [] else [String.append "dep-unsat/" (unsat_reason U S (Some k) (d_pos d))]
      end) (k_deps k)) S ++
  (if nodup_b (List.map k_name S) then [] else ["dup-name"]) ++
  (if forallb (fun k => existsb (fun u => pkg_eqb (k_pkg k) (k_pkg u)) U) S then [] else ["member-not-in-universe"]).

Definition closed_check (U : universe) (W : list string) (S : list pkg) : list string :=
  closed_check_c (List.map cook_pkg U) (List.map cook_str W) (List.map cook_pkg S).
Definition closed_b (U : universe) (W : list string) (S : list pkg) : bool :=
  match closed_check U W S with [] => true | _ => false end.

(* ---- the envelope of c02_closed_partial ------------------------------------------
   no install_if; no package depends on a name it provides; every name (own or
   provided) has exactly one provider; a dependency or request with a version
   operator names a package, not a virtual. *)
Definition env_pkg_b (R : resolver) (k : cpkg) : bool :=
  match k_iifs k with [] => true | _ => false end &&
  forallb (fun d => match d_neg d with
                    | Some _ => true
                    | None => negb (my_provides k (s_name (d_pos d)) || my_provides k (s_raw (d_pos d)))
                    end) (k_deps k).
Definition versioned_on_real_b (R : resolver) (c : cstr) : bool :=
  (s_dep c =? dep_versionAny)%Z ||
  match alookup (s_name c) (r_names R) with
  | Some [i] => String.eqb (k_name (getp R i)) (s_name c)
  | Some _ => false
  | None => true
  end.
Definition envelope_c (R : resolver) (W : list cdep) : bool :=
  (* no package provides its own name (implied by "one provider per name" below —
     the package would be listed twice — but stated, so that no counting argument is needed) *)
  forallb (fun k => forallb (fun pv => negb (String.eqb (s_name pv) (k_name k))) (k_provs k)) (r_pkgs R) &&
  forallb (env_pkg_b R) (r_pkgs R) &&
  forallb (fun e => match snd e with [_] => true | _ => false end) (r_names R) &&
  forallb (fun k => forallb (fun d => match d_neg d with Some _ => true | None => versioned_on_real_b R (d_pos d) end) (k_deps k)) (r_pkgs R) &&
  forallb (fun d => match d_neg d with Some _ => false | None => versioned_on_real_b R (d_pos d) end) W.
Definition envelope_b (U : universe) (W : list string) : bool :=
  envelope_c (new_resolver U) (List.map cook_dep W).

(* ---- C14 ------------------------------------------------------------------------------ *)
(* (name, version) of [p] exists in universe V *)
Definition Available (V : universe) (p : pkg) : Prop :=
  exists q, In q V /\ p_name q = p_name p /\ p_version q = p_version p.
(* no member is missing from another architecture *)
Definition NoForeign (others : list universe) (S : list pkg) : Prop :=
  forall p V, In p S -> In V others -> Available V p.
Definition foreign_check (others : list universe) (S : list pkg) : list string :=
  flat_map (fun p =>
    if forallb (fun V => available_in V p) others then []
    else [match p_install_if p with
          | [] => "foreign-version"
          | _ => "foreign-version/install-if-member"
          end]) S.
