(* C11 — what is demanded of the extracted licensing infos of a composed SBOM,
   independent of how mergeLicensingInfos goes about it, and the boolean
   validators the correspondence runs on the observed lists.  The iff lemmas are
   in Proofs/SbomLicProofs.v. *)
From Apko Require Import Base.Prelude Model.Sbom Model.SbomLic Spec.SbomSpec.
Open Scope string_scope. Open Scope list_scope.

Definition linfo_eqb (a b : linfo) : bool := String.eqb (l_id a) (l_id b) && String.eqb (l_text a) (l_text b).
Definition lmem (x : linfo) (l : list linfo) : bool := existsb (linfo_eqb x) l.

(* all infos with the same id carry the same text *)
Definition Consistent (l : list linfo) : Prop :=
  forall a b, In a l -> In b l -> l_id a = l_id b -> l_text a = l_text b.

Definition consistent_b (l : list linfo) : bool :=
  forallb (fun a => forallb (fun b => negb (String.eqb (l_id a) (l_id b)) || String.eqb (l_text a) (l_text b)) l) l.

(* [out] is the union of [tgt] and [src] keyed by id: nothing of the target is
   touched (it is a prefix), what is appended comes from the source, is new to
   the target and is appended once per id; and every source info, TEXT INCLUDED,
   is in the result (so a licence reference of a copied package that its own
   document resolves still resolves, and to the same text) *)
Definition LicUnion (src tgt out : list linfo) : Prop :=
  (exists added, out = tgt ++ added /\ incl added src /\ NoDup (lic_ids added) /\
                 forall a, In a added -> ~ In (l_id a) (lic_ids tgt)) /\
  incl src out.

Definition lic_union_b (src tgt out : list linfo) : bool :=
  let added := skipn (List.length tgt) out in
  list_eqb linfo_eqb (firstn (List.length tgt) out) tgt &&
  forallb (fun a => lmem a src) added &&
  nodup_b (lic_ids added) &&
  forallb (fun a => negb (mem (l_id a) (lic_ids tgt))) added &&
  forallb (fun s => lmem s out) src.

(* the licensing infos of a generated document against the embedded documents
   Generate used ([used] = their licensing-info lists): ids pairwise distinct,
   nothing lost (every info of every used document is there with its text),
   nothing invented *)
Definition LicPreserved (used : list (list linfo)) (out : list linfo) : Prop :=
  NoDup (lic_ids out) /\
  (forall l i, In l used -> In i l -> In i out) /\
  (forall i, In i out -> exists l, In l used /\ In i l).

Definition lic_preserved_b (used : list (list linfo)) (out : list linfo) : bool :=
  nodup_b (lic_ids out) &&
  forallb (fun l => forallb (fun i => lmem i out) l) used &&
  forallb (fun i => existsb (fun l => lmem i l) used) out.

(* the infos Generate has to carry over for an installed set *)
Definition used_lists (fs : list (string * fsent)) (lfs : list (string * list linfo)) (apks : list apk) : list (list linfo) :=
  List.map (used_lics fs lfs) apks.
