(* C11 — what the property demands of the INPUTS of the SBOM generator: it is told
   about exactly what was built (the image's own digest, every layer of its
   manifest, every paragraph of its installed database whatever architecture it
   records, the filesystem the packages were installed into), and the index
   document about every image of the index. *)
From Coq Require Import Permutation Sorted.
From Apko Require Import Base.Prelude Base.C01Lib Model.Sbom Model.SbomProv.
Open Scope string_scope. Open Scope list_scope.

(* the options Generate ought to receive for a build; written down directly, not
   through Generated/C11Prov.v: the correspondence validates the emitted SBOMs
   against THIS *)
Definition expected_input (b : built) : gen_in :=
  {| g_image := hash_string (b_digest b); g_layers := b_layers b; g_osver := b_version_id b;
     g_vcs := b_vcs b; g_apks := List.map i_apk (b_installed b); g_fs := b_fs b |}.

Definition InputsAreTheBuilt (b : built) (g : gen_in) : Prop := g = expected_input b.

(* every installed paragraph reaches the generator, once, in order, whatever its A: field *)
Definition AllInstalledHandedOver (b : built) (g : gen_in) : Prop :=
  List.length (g_apks g) = List.length (b_installed b) /\
  forall i, In i (b_installed b) -> In (i_apk i) (g_apks g).

(* the index document is told the index digest and every image digest, once each, in
   the order of the architecture strings (so the order does not depend on Go's map
   iteration) *)
Definition IndexInputsAreTheBuilt (bi : built_index) (x : idx_in) : Prop :=
  x_index x = bi_digest bi /\ x_vcs x = bi_vcs bi /\
  exists sorted, Permutation sorted (bi_images bi) /\
                 StronglySorted (fun a b => sleb (fst a) (fst b) = true) sorted /\
                 x_images x = List.map snd sorted.

Definition expected_index_input (bi : built_index) : idx_in :=
  {| x_index := bi_digest bi; x_images := List.map snd (isort arch_leb (bi_images bi)); x_vcs := bi_vcs bi |}.
