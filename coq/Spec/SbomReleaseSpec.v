(* C11 — which lines of /etc/os-release define a field, independent of how
   readReleaseData walks the file. *)
From Apko Require Import Base.Prelude Model.Sbom Model.SbomRelease.
Open Scope string_scope. Open Scope list_scope.

(* the line assigns [v] to key [k]: not empty, no comment, [k] is everything before the FIRST '='
   (spaces included), [v] is the rest without its leading and trailing double quotes *)
Definition Assigns (k v l : string) : Prop :=
  skipped l = false /\ exists after, cut_at ch_eq l = Some (k, after) /\ v = trim_quotes after.
(* neither skipped nor an assignment: readReleaseData refuses the file *)
Definition Malformed (l : string) : Prop := skipped l = false /\ cut_at ch_eq l = None.
(* the LAST line assigning to [k] assigns [v] *)
Definition LastAssigns (k v : string) (ls : list string) : Prop :=
  exists l1 l l2, ls = l1 ++ l :: l2 /\ Assigns k v l /\ forall l' v', In l' l2 -> ~ Assigns k v' l'.
Definition NeverAssigned (k : string) (ls : list string) : Prop := forall l v, In l ls -> ~ Assigns k v l.

(* executable forms, used by the correspondence as the validator *)
Definition assign_of (k l : string) : option string :=
  if skipped l then None
  else match cut_at ch_eq l with
       | Some (k', after) => if String.eqb k' k then Some (trim_quotes after) else None
       | None => None
       end.
Fixpoint last_assign (k : string) (ls : list string) : option string :=
  match ls with
  | [] => None
  | l :: t => match last_assign k t with Some v => Some v | None => assign_of k l end
  end.
Definition malformed_b (l : string) : bool :=
  negb (skipped l) && match cut_at ch_eq l with None => true | Some _ => false end.
