(* C11 — what the property demands of an SPDX document (projected to packages,
   relationships, described ids), independent of how apko builds it, and the
   boolean validators the correspondence runs on the documents the real
   Generate / GenerateIndex emit.  The iff lemmas are in Proofs/SbomProofs.v. *)
From Apko Require Import Base.Prelude Model.Sbom.
Open Scope string_scope. Open Scope list_scope.

(* ---- identifier syntax: SPDXRef-[a-zA-Z0-9.-]+ ----------------------------- *)
Definition id_char (a : ascii) : bool :=
  let c := N_of_ascii a in
  (((48 <=? c) && (c <=? 57)) || ((65 <=? c) && (c <=? 90)) || ((97 <=? c) && (c <=? 122))
   || (c =? 45) || (c =? 46))%N.

Definition IdAlphabet (s : string) : Prop :=
  Forall (fun a => id_char a = true) (list_ascii_of_string s).
Definition id_alphabet_b (s : string) : bool := forallb id_char (list_ascii_of_string s).

Definition ValidId (s : string) : Prop :=
  exists t, s = "SPDXRef-" +++ t /\ t <> "" /\ IdAlphabet t.
Definition valid_id_b (s : string) : bool :=
  String.prefix "SPDXRef-" s && Nat.ltb 8 (String.length s) && id_alphabet_b s.

(* ---- uniqueness and referential integrity ---------------------------------- *)
Definition IdsUnique (d : doc) : Prop := NoDup (ids d).
Fixpoint nodup_b (l : list string) : bool :=
  match l with [] => true | x :: t => negb (mem x t) && nodup_b t end.
Definition ids_unique_b (d : doc) : bool := nodup_b (ids d).

Definition RefsResolve (d : doc) : Prop :=
  (forall r, In r (d_rels d) -> In (r_elem r) (ids d) /\ In (r_related r) (ids d)) /\
  (forall x, In x (d_desc d) -> In x (ids d)).
Definition refs_resolve_b (d : doc) : bool :=
  forallb (fun r => mem (r_elem r) (ids d) && mem (r_related r) (ids d)) (d_rels d) &&
  forallb (fun x => mem x (ids d)) (d_desc d).

(* the ids that are referenced but not defined (for tagging) *)
Definition dangling_rel_ends (d : doc) : list string :=
  filter (fun x => negb (mem x (ids d)))
         (List.concat (List.map (fun r => [r_elem r; r_related r]) (d_rels d))).
Definition dangling_described (d : doc) : list string :=
  filter (fun x => negb (mem x (ids d))) (d_desc d).

(* ---- agreement with the installed database --------------------------------- *)
Definition sums_eqb (a b : list (string * string)) : bool :=
  list_eqb (fun x y => String.eqb (fst x) (fst y) && String.eqb (snd x) (snd y)) a b.
(* the element carries the apk's name, version and checksum *)
Definition elem_of_b (a : apk) (p : pkg) : bool :=
  String.eqb (p_name p) (a_name a) && String.eqb (p_version p) (a_version a) &&
  sums_eqb (p_sums p) [("SHA1", hex_of_bytes (a_sum a))].
Definition ElemOf (a : apk) (p : pkg) : Prop :=
  p_name p = a_name a /\ p_version p = a_version a /\ p_sums p = [("SHA1", hex_of_bytes (a_sum a))].

(* exactly one element for the apk among [ps] *)
Definition OneElem (a : apk) (ps : list pkg) : Prop :=
  exists l1 p l2, ps = l1 ++ p :: l2 /\ ElemOf a p /\
    (forall q, In q (l1 ++ l2) -> ~ ElemOf a q).
Definition one_elem_b (a : apk) (ps : list pkg) : bool :=
  Nat.eqb (List.length (filter (elem_of_b a) ps)) 1.

(* [ps] = the elements that are neither structural (image, layers, source) nor
   imported from an embedded SBOM *)
Definition MatchesInstalled (apks : list apk) (ps : list pkg) : Prop :=
  (forall a, In a apks -> OneElem a ps) /\
  (forall p, In p ps -> exists a, In a apks /\ ElemOf a p).
Definition matches_installed_b (apks : list apk) (ps : list pkg) : bool :=
  forallb (fun a => one_elem_b a ps) apks &&
  forallb (fun p => existsb (fun a => elem_of_b a p) apks) ps.

(* ---- the image and its layers are named by the digests handed in ----------- *)
Definition DescribesImage (img : string) (d : doc) : Prop :=
  exists p, In p (d_pkgs d) /\ p_name p = img /\
    p_sums p = [("SHA256", trim_prefix "sha256:" img)] /\ d_desc d = [p_id p].
Definition NamesLayers (layers : list hash) (d : doc) : Prop :=
  forall h, In h layers -> exists p, In p (d_pkgs d) /\ p_name p = hash_to_string h.

(* ---- envelopes ----------------------------------------------------------------- *)
(* no installed apk has a document at any of its three candidate paths *)
Definition NoEmbedded (g : gen_in) : Prop :=
  forall a, In a (g_apks g) -> locate (g_fs g) (candidates (a_name a) (a_version a)) = None.

(* the elements Generate makes itself, before de-duplication: image, layers,
   source, then one per installed apk in order *)
Definition own_elements (g : gen_in) : list pkg :=
  d_pkgs (base_doc g) ++ List.map (apk_package (nonce_of g)) (g_apks g).

(* every embedded document that Generate uses describes at most one element
   carrying its apk's name (what melange-built apks ship) *)
Definition SingleTarget (g : gen_in) : Prop :=
  forall a, In a (g_apks g) -> forall e, locate (g_fs g) (candidates (a_name a) (a_version a)) = Some (FDoc e) ->
    (List.length (targets (a_name a) e) <= 1)%nat.

(* ---- several described elements carrying the apk's name ------------------------- *)
(* the embedded document ProcessInternalApkSBOM uses for this apk, if any *)
Definition located_in (fs : list (string * fsent)) (a : apk) : option doc :=
  match locate fs (candidates (a_name a) (a_version a)) with Some (FDoc e) => Some e | _ => None end.
Definition located (g : gen_in) (a : apk) : option doc := located_in (g_fs g) a.
Definition pkgs_located_in (fs : list (string * fsent)) (a : apk) : list pkg :=
  match located_in fs a with Some e => d_pkgs e | None => [] end.
Definition doc_pkgs_of (g : gen_in) (a : apk) : list pkg := pkgs_located_in (g_fs g) a.
(* every package record the document can hold when the apk after [l1] has just got
   its own element: what Generate mints itself up to there, and the packages of the
   embedded documents of the apks before it (replacePackage removes packages and
   renames references, it never changes a package's own id) *)
Definition earlier_pkgs (g : gen_in) (l1 : list apk) (a : apk) : list pkg :=
  d_pkgs (base_doc g) ++ List.map (apk_package (nonce_of g)) (l1 ++ [a]) ++
  List.concat (List.map (doc_pkgs_of g) l1).
(* no package carrying the apk's name that can be in the document before the copy
   has one of the target ids *)
Definition fresh_for (g : gen_in) (l1 : list apk) (a : apk) (tg : list string) : Prop :=
  forall q, In q (earlier_pkgs g l1 a) -> p_name q = a_name a -> ~ In (p_id q) tg.
Definition fresh_for_b (g : gen_in) (l1 : list apk) (a : apk) (tg : list string) : bool :=
  forallb (fun q => negb (String.eqb (p_name q) (a_name a) && mem (p_id q) tg)) (earlier_pkgs g l1 a).

Definition AtMostTwoTargets (g : gen_in) : Prop :=
  forall a, In a (g_apks g) -> forall e, locate (g_fs g) (candidates (a_name a) (a_version a)) = Some (FDoc e) ->
    (List.length (targets (a_name a) e) <= 2)%nat.
(* the target ids of an embedded document with SEVERAL targets are new to the
   document among the packages carrying the apk's name *)
Definition TargetsFresh (g : gen_in) : Prop :=
  forall l1 a l2 e, g_apks g = l1 ++ a :: l2 ->
    locate (g_fs g) (candidates (a_name a) (a_version a)) = Some (FDoc e) ->
    (2 <= List.length (targets (a_name a) e))%nat -> fresh_for g l1 a (targets (a_name a) e).

Fixpoint targets_fresh_from (g : gen_in) (l1 rest : list apk) : bool :=
  match rest with
  | [] => true
  | a :: t =>
      (match located g a with
       | Some e => let tg := targets (a_name a) e in
                   if Nat.leb 2 (List.length tg) then fresh_for_b g l1 a tg else true
       | None => true
       end) && targets_fresh_from g (l1 ++ [a]) t
  end.
Definition targets_fresh_b (g : gen_in) : bool := targets_fresh_from g [] (g_apks g).
Definition at_most_two_targets_b (g : gen_in) : bool :=
  forallb (fun a => match located g a with Some e => Nat.leb (List.length (targets (a_name a) e)) 2 | None => true end) (g_apks g).

(* ---- identifiers that Generate does not have to number (fix 7c2586e) ------------------------ *)
(* no package the document can hold when an apk is reached (Generate's own elements so far, the
   packages of the embedded documents of the apks before it) carries the id Generate mints for
   that apk under another name or version: the numbering loop never runs *)
Definition clash_free_for (g : gen_in) (l1 : list apk) (a : apk) : Prop :=
  forall q, In q (earlier_pkgs g l1 a) -> p_id q = p_id (apk_package (nonce_of g) a) ->
    p_name q = a_name a /\ p_version q = a_version a.
Definition clash_free_for_b (g : gen_in) (l1 : list apk) (a : apk) : bool :=
  negb (taken (earlier_pkgs g l1 a) (a_name a) (a_version a) (p_id (apk_package (nonce_of g) a))).
Definition NoIdClash (g : gen_in) : Prop :=
  forall l1 a l2, g_apks g = l1 ++ a :: l2 -> clash_free_for g l1 a.
Fixpoint no_id_clash_from (g : gen_in) (l1 rest : list apk) : bool :=
  match rest with
  | [] => true
  | a :: t => clash_free_for_b g l1 a && no_id_clash_from g (l1 ++ [a]) t
  end.
Definition no_id_clash_b (g : gen_in) : bool := no_id_clash_from g [] (g_apks g).
