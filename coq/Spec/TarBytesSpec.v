(* C06 — byte-level tar codec: the envelope of the round-trip theorem and what
   a reader is expected to get back.  No proofs here.

   [member_okb] is the envelope: a member (header as walkFS hands it to
   tar.Writer.WriteHeader, body) for which the theorem promises a faithful
   round trip.  Everything walkFS produces for whole-second modification times
   lies inside, except
   - device numbers / mode of 8^7 and more (the Writer falls back to the GNU
     format; modelled and compared with the real Writer, not part of the
     theorem),
   - names, link targets, user or group names with a NUL byte, extended
     attribute names with '=' or NUL (the Writer refuses the header),
   - a modification time equal to Go's zero time.Time, 0001-01-01T00:00:00Z
     (written as the Unix epoch),
   - PAX data of more than 1 MiB for one member (the Writer refuses). *)
From Apko Require Import Base.Prelude Model.Tar Model.TarBytes Spec.TarSpec.
Open Scope list_scope.

Definition int64b (z : Z) : bool := ((- 9223372036854775808 <=? z)%Z && (z <? 9223372036854775808)%Z)%bool.

(* a user PAX record key: not empty, no '=', no NUL, not one of the keys
   archive/tar manages itself, not a GNU.sparse.* key *)
Definition key_okb (k : bytes) : bool :=
  (negb (is_nil k) && negb (existsb (Ascii.eqb "="%char) k) && negb (has_nul k) && negb (basic_key k)
   && negb (has_prefix pax_gnu_sparse k))%bool.

(* keys strictly increasing bytewise: the association list is a Go map *)
Fixpoint keys_sortedb (m : list (bytes * bytes)) : bool :=
  match m with
  | (k, _) :: (((k', _) :: _) as r) => (match bcmp k k' with Lt => true | _ => false end && keys_sortedb r)%bool
  | _ => true
  end.

(* which fields need a PAX record *)
Definition needs_pax_str (w : nat) (s : bytes) : bool := (negb (is_ascii s) || (w <? List.length s)%nat)%bool.
Definition needs_pax_num (w : nat) (x : Z) : bool := negb (fits_octal w x).

Definition cset (c : bool) (k v : bytes) (m : pmap) : pmap := if c then pm_set k v m else m.

(* the records archive/tar adds for fields that do not fit the USTAR header *)
Definition pax_basic (h : thdr) : pmap :=
  cset (needs_pax_num 12 (h_mtime h)) k_mtime (dec_Z (h_mtime h))
  (cset (needs_pax_num 12 (h_size h)) k_size (dec_Z (h_size h))
  (cset (needs_pax_num 8 (h_gid h)) k_gid (dec_Z (h_gid h))
  (cset (needs_pax_num 8 (h_uid h)) k_uid (dec_Z (h_uid h))
  (cset (needs_pax_str 32 (h_gname h)) k_gname (h_gname h)
  (cset (needs_pax_str 32 (h_uname h)) k_uname (h_uname h)
  (cset (needs_pax_str 100 (h_link h)) k_linkpath (h_link h)
  (cset (needs_pax_str 100 (h_name h)) k_path (h_name h) []))))))).

Definition pax_all (h : thdr) : pmap :=
  fold_left (fun m kv => pm_set (fst kv) (snd kv) m) (h_pax h) (pax_basic h).

(* the header fits a plain USTAR header block *)
Definition ustar_okb (h : thdr) : bool :=
  (is_nil (h_pax h)
   && (negb (needs_pax_str 100 (h_name h)) || match split_ustar (h_name h) with Some _ => true | None => false end)
   && negb (needs_pax_str 100 (h_link h)) && negb (needs_pax_str 32 (h_uname h)) && negb (needs_pax_str 32 (h_gname h))
   && negb (needs_pax_num 8 (h_uid h)) && negb (needs_pax_num 8 (h_gid h)) && negb (needs_pax_num 12 (h_size h))
   && negb (needs_pax_num 12 (h_mtime h)))%bool.

(* the PAX records that travel with the member *)
Definition pax_written (h : thdr) : pmap := if ustar_okb h then [] else pax_all h.

Definition hdr_okb (h : thdr) : bool :=
  (existsb (Ascii.eqb (h_type h)) [T_REG; T_LINK; T_SYM; T_CHR; T_BLK; T_DIR; T_FIFO]
   && negb (existsb (Ascii.eqb (h_type h)) [T_REG; T_CHR; T_BLK; T_FIFO] && ends_with_slash (h_name h))
   && negb (has_nul (h_name h)) && negb (has_nul (h_link h)) && negb (has_nul (h_uname h)) && negb (has_nul (h_gname h))
   && fits_octal 8 (h_mode h) && fits_octal 8 (h_devmaj h) && fits_octal 8 (h_devmin h)
   && int64b (h_uid h) && int64b (h_gid h) && (0 <=? h_size h)%Z && int64b (h_size h)
   && int64b (h_mtime h) && negb (h_mtime h =? zero_time_sec)%Z && (h_mnsec h =? 0)%N
   && keys_sortedb (h_pax h) && forallb (fun kv => key_okb (fst kv)) (h_pax h)
   && negb (too_long_special (List.length (pax_data (pax_written h)))))%bool.

Definition member_okb (m : member) : bool :=
  let '(h, body) := m in
  (hdr_okb h && (List.length body =? (if header_only (h_type h) then O else Z.to_nat (h_size h)))%nat)%bool.

(* what a reader gets back: the header, its PAXRecords completed with the
   records that were needed to carry it *)
Definition read_view (m : member) : member :=
  let '(h, body) := m in
  ({| h_type := h_type h; h_name := h_name h; h_link := h_link h; h_mode := h_mode h; h_uid := h_uid h; h_gid := h_gid h;
      h_size := h_size h; h_mtime := h_mtime h; h_mnsec := h_mnsec h; h_uname := h_uname h; h_gname := h_gname h;
      h_devmaj := h_devmaj h; h_devmin := h_devmin h; h_pax := pax_written h |}, body).

(* the records that are not archive/tar's own: what the caller put in *)
Definition user_records (m : pmap) : pmap := filter (fun kv => negb (basic_key (fst kv))) m.

(* ---- the entries of Model/Tar.v ------------------------------------------------------------
   An entry of the walk is inside the byte-level envelope when the member walkFS
   and writeTar make of it is ([member_okb], with the content of the file as
   body), its path has non-empty components without '/', a user / group name
   taken from passwd / group is not empty, and the content id of the body is the
   entry's. *)
Definition name_present (o : option string) : bool :=
  match o with Some s => negb (String.eqb s "") | None => true end.
Definition entry_okb (cs : list (N * bytes)) (cid_of : bytes -> N) (e : entry) : bool :=
  (member_okb (member_of_entry cs e) && forallb comp_ok (e_path e) && name_present (e_uname e) && name_present (e_gname e)
   && (cid_of (snd (member_of_entry cs e)) =? e_cid e)%N)%bool.

(* ---- the byte envelope as a predicate on the TREE ---------------------------------------
   Decided node by node, at the node's path: the entry walkFS makes of the node
   (directory header, or file / symlink / device / recorded hard link) is inside
   [entry_okb].  No reference to the walk, its order or its concatenation. *)
Fixpoint tree_bytes_okb (ev : env) (cs : list (N * bytes)) (cid_of : bytes -> N) (p : path) (t : tree) {struct t} : bool :=
  match t with
  | File m l h => entry_okb cs cid_of (file_entry ev p m l h)
  | Dir m ch =>
      (entry_okb cs cid_of (dir_entry ev p m) &&
       forallb (fun nc : string * tree => let (n, c) := nc in tree_bytes_okb ev cs cid_of (p ++ [n]) c) ch)%bool
  end.
Definition forest_bytes_okb (ev : env) (cs : list (N * bytes)) (cid_of : bytes -> N) (f : forest) : bool :=
  forallb (fun nc : string * tree => let (n, c) := nc in tree_bytes_okb ev cs cid_of [n] c) f.
