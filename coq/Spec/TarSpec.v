(* C06 — what "the layer faithfully and canonically serialises the built
   filesystem" means for a list of tar entries, independent of how apko
   produces them, and the boolean validator run on the entries the harness's
   own tar reader finds in the bytes the implementation wrote. *)
From Apko Require Import Base.Prelude Model.Tar.
From Coq Require Import Sorting.Sorted.
Open Scope string_scope. Open Scope list_scope.

(* ---- the fixed order: lexicographic on components, bytewise on names -----
   (a directory sorts before everything beneath it; siblings bytewise) *)
Fixpoint path_ltb (a b : path) : bool :=
  match a, b with
  | [], [] => false
  | [], _ :: _ => true
  | _ :: _, [] => false
  | x :: a', y :: b' =>
      match String.compare x y with Lt => true | Gt => false | Eq => path_ltb a' b' end
  end.
Definition path_lt (a b : path) : Prop := path_ltb a b = true.

(* ---- names: the tar header's Uname/Gname is a passwd/group name of the
   numeric id, and absent exactly when the id has no entry *)
Definition NameOk (tbl : list (Z * string)) (id : Z) (nm : option string) : Prop :=
  match nm with
  | Some n => In (id, n) tbl
  | None => forall n, ~ In (id, n) tbl
  end.

(* ---- the property ------------------------------------------------------------
   [t] is the built filesystem (children of the root), [es] the entries of the
   layer. Extraction by the reference extractor succeeds and yields exactly
   [t] (every node: type, content, mode bits, numeric owner, link target,
   device numbers, xattrs, mtime, hard-link sharing); paths are strictly
   increasing in the fixed order (hence each appears once, and a parent
   precedes its children); names follow passwd/group. *)
Definition Faithful (us gs : list (Z * string)) (t : forest) (es : list entry) : Prop :=
  extract es = Ok (canon_forest t) /\
  Sorted path_lt (map e_path es) /\
  Forall (fun e => NameOk us (e_uid e) (e_uname e) /\ NameOk gs (e_gid e) (e_gname e)) es.

(* ---- boolean side --------------------------------------------------------- *)
Definition xattrs_eqb (a b : list (string * string)) : bool :=
  list_eqb (fun x y => String.eqb (fst x) (fst y) && String.eqb (snd x) (snd y)) a b.
Definition meta_eqb (a b : meta) : bool :=
  N.eqb (m_mode a) (m_mode b) && Z.eqb (m_uid a) (m_uid b) && Z.eqb (m_gid a) (m_gid b) &&
  Z.eqb (m_mtime a) (m_mtime b) && N.eqb (m_mnsec a) (m_mnsec b) && xattrs_eqb (m_xattrs a) (m_xattrs b).
Definition leaf_eqb (a b : leaf) : bool :=
  match a, b with
  | LReg c s, LReg c' s' => N.eqb c c' && N.eqb s s'
  | LSym t, LSym t' => String.eqb t t'
  | LChr x y, LChr x' y' => N.eqb x x' && N.eqb y y'
  | _, _ => false
  end.
Fixpoint tree_eqb (a b : tree) {struct a} : bool :=
  match a, b with
  | File m l h, File m' l' h' => meta_eqb m m' && leaf_eqb l l' && option_eqb path_eqb h h'
  | Dir m cs, Dir m' cs' =>
      meta_eqb m m' &&
      (fix go (x y : list (string * tree)) {struct x} : bool :=
         match x, y with
         | [], [] => true
         | (n, c) :: x', (n', c') :: y' => String.eqb n n' && tree_eqb c c' && go x' y'
         | _, _ => false
         end) cs cs'
  | _, _ => false
  end.
Fixpoint forest_eqb (x y : forest) : bool :=
  match x, y with
  | [], [] => true
  | (n, c) :: x', (n', c') :: y' => String.eqb n n' && tree_eqb c c' && forest_eqb x' y'
  | _, _ => false
  end.

Fixpoint sortedb (ps : list path) : bool :=
  match ps with
  | [] => true
  | a :: r => match r with [] => true | b :: _ => path_ltb a b && sortedb r end
  end.

Definition name_okb (tbl : list (Z * string)) (id : Z) (nm : option string) : bool :=
  match nm with
  | Some n => existsb (fun x => Z.eqb (fst x) id && String.eqb (snd x) n) tbl
  | None => negb (existsb (fun x => Z.eqb (fst x) id) tbl)
  end.

Definition faithfulb (us gs : list (Z * string)) (t : forest) (es : list entry) : bool :=
  match extract es with Ok f => forest_eqb f (canon_forest t) | _ => false end &&
  sortedb (map e_path es) &&
  forallb (fun e => name_okb us (e_uid e) (e_uname e) && name_okb gs (e_gid e) (e_gname e)) es.

(* ---- diagnosis: WHY a failing layer fails (tags name the mechanism) --------
   The expected listing is the walk of the tree in which every additional
   hard-link name is a link entry; the decision itself is [faithfulb]. *)
Definition ideal_env : env := {| users := []; groups := []; has_hdr := fun _ => true |}.

Definition kind_eqb (a b : kind) : bool :=
  match a, b with
  | KDir, KDir | KReg, KReg | KSym, KSym | KChr, KChr | KLink, KLink => true
  | _, _ => false
  end.

Definition entry_eqb (a b : entry) : bool :=
  path_eqb (e_path a) (e_path b) && kind_eqb (e_kind a) (e_kind b) &&
  N.eqb (e_mode a) (e_mode b) && Z.eqb (e_uid a) (e_uid b) && Z.eqb (e_gid a) (e_gid b) &&
  option_eqb String.eqb (e_uname a) (e_uname b) && option_eqb String.eqb (e_gname a) (e_gname b) &&
  String.eqb (e_link a) (e_link b) && N.eqb (e_devmaj a) (e_devmaj b) && N.eqb (e_devmin a) (e_devmin b) &&
  xattrs_eqb (e_xattrs a) (e_xattrs b) && Z.eqb (e_mtime a) (e_mtime b) && N.eqb (e_mnsec a) (e_mnsec b) &&
  N.eqb (e_cid a) (e_cid b) && N.eqb (e_size a) (e_size b).

Fixpoint find_entry (p : path) (es : list entry) : option entry :=
  match es with [] => None | e :: r => if path_eqb p (e_path e) then Some e else find_entry p r end.

Definition diff_entry (x o : entry) : list string :=   (* x expected, o observed *)
  if negb (kind_eqb (e_kind x) (e_kind o)) then
    match e_kind x, e_kind o with
    | KLink, KReg => ["viol:hardlink-serialised-as-copy"]
    | _, _ => ["viol:kind"]
    end
  else match e_kind x with
  | KLink => tag_if (negb (String.eqb (e_link x) (e_link o))) "viol:attr/linkname"
  | _ =>
    tag_if (negb (N.eqb (e_mode x) (e_mode o))) "viol:attr/mode" ++
    tag_if (negb (Z.eqb (e_uid x) (e_uid o))) "viol:attr/uid" ++
    tag_if (negb (Z.eqb (e_gid x) (e_gid o))) "viol:attr/gid" ++
    (if Z.eqb (e_mtime x) (e_mtime o) && N.eqb (e_mnsec x) (e_mnsec o) then []
     else if negb (N.eqb (e_mnsec x) 0) && N.eqb (e_mnsec o) 0 &&
             Z.eqb (e_mtime o) (round_mtime (e_mtime x) (e_mnsec x))
          then ["viol:attr/mtime-rounded-to-second"] else ["viol:attr/mtime"]) ++
    (if xattrs_eqb (e_xattrs x) (e_xattrs o) then []
     else match e_kind x, e_xattrs o with
          | KChr, [] => ["viol:attr/xattrs-dropped-on-chardev"]
          | _, _ => ["viol:attr/xattrs"]
          end) ++
    tag_if (negb (String.eqb (e_link x) (e_link o))) "viol:attr/linkname" ++
    tag_if (negb (N.eqb (e_devmaj x) (e_devmaj o))) "viol:attr/devmajor" ++
    tag_if (negb (N.eqb (e_devmin x) (e_devmin o))) "viol:attr/devminor" ++
    tag_if (negb (N.eqb (e_cid x) (e_cid o))) "viol:attr/content" ++
    tag_if (negb (N.eqb (e_size x) (e_size o))) "viol:attr/size"
  end.

(* chardev xattrs are part of the tree but the model's file_entry (like the
   code) never lists them; the expected listing puts them back *)
Definition expected_entries (t : forest) : list entry :=
  walk ideal_env t.

Definition chr_xattrs (p : path) (f : forest) : option (list (string * string)) :=
  match lookup f p with
  | Some (File m (LChr _ _) _) => Some (m_xattrs m)
  | _ => None
  end.

Definition expect_fix (t : forest) (x : entry) : entry :=
  match e_kind x, chr_xattrs (e_path x) t with
  | KChr, Some xa =>
      {| e_path := e_path x; e_kind := e_kind x; e_mode := e_mode x; e_uid := e_uid x; e_gid := e_gid x;
         e_uname := e_uname x; e_gname := e_gname x; e_link := e_link x; e_devmaj := e_devmaj x;
         e_devmin := e_devmin x; e_xattrs := xa; e_mtime := e_mtime x; e_mnsec := e_mnsec x;
         e_cid := e_cid x; e_size := e_size x |}
  | _, _ => x
  end.

Fixpoint link_order_tags (seen : list path) (es : list entry) : list string :=
  match es with
  | [] => []
  | e :: r =>
      (match e_kind e with
       | KLink => tag_if (negb (existsb (path_eqb (split_slash (e_link e))) seen)) "viol:hardlink-before-target"
       | _ => []
       end) ++ link_order_tags (e_path e :: seen) r
  end.

(* a link entry whose Linkname is the path of a SYMLINK of the built tree while the
   name it is written for is not that symlink in the built tree: extracting makes
   the name a second name of the symlink (finding C06-F5) *)
Definition link_names_symlink (t : forest) (o : entry) : bool :=
  match e_kind o, lookup t (split_slash (e_link o)), lookup t (e_path o) with
  | KLink, Some (File _ (LSym _) _), Some (File _ (LSym _) _) => false
  | KLink, Some (File _ (LSym _) _), _ => true
  | _, _, _ => false
  end.

Definition diagnose (us gs : list (Z * string)) (t : forest) (es : list entry) : list string :=
  let xs := map (expect_fix t) (expected_entries t) in
  flat_map (fun x => match find_entry (e_path x) es with
                     | None => ["viol:missing-path"]
                     | Some o => diff_entry x o
                     end) xs ++
  flat_map (fun o => match find_entry (e_path o) xs with
                     | None => ["viol:extra-path"] | Some _ => [] end) es ++
  link_order_tags [] es ++
  tag_if (existsb (link_names_symlink t) es) "viol:hardlink-names-symlink" ++
  tag_if (negb (sortedb (map e_path es))) "viol:order" ++
  tag_if (negb (forallb (fun e => name_okb us (e_uid e) (e_uname e)) es)) "viol:uname" ++
  tag_if (negb (forallb (fun e => name_okb gs (e_gid e) (e_gname e)) es)) "viol:gname".

Fixpoint dedup_tags (l : list string) : list string :=
  match l with
  | [] => []
  | x :: r => if existsb (String.eqb x) r then dedup_tags r else x :: dedup_tags r
  end.

Definition validate (us gs : list (Z * string)) (t : forest) (es : list entry) : list string :=
  if faithfulb us gs t es then []
  else match dedup_tags (diagnose us gs t es) with
       | [] => ["viol:unfaithful"]
       | d => d
       end.

(* ---- the envelope in which the serialisation is proved faithful ---------------
   [wf_tree]: child names are distinct (they are Go map keys); no additional
   hard-link names; extended attributes only on regular files and directories
   (the interface cannot put them on a symlink: SetXattr follows it). *)
Fixpoint nodupb (l : list string) : bool :=
  match l with [] => true | x :: r => negb (existsb (String.eqb x) r) && nodupb r end.

Fixpoint wf_tree (t : tree) : bool :=
  match t with
  | File m l h =>
      match h with None => true | Some _ => false end &&
      match l with LReg _ _ => true | _ => match m_xattrs m with [] => true | _ => false end end
  | Dir m cs => nodupb (map fst cs) && forallb (fun nc : string * tree => wf_tree (snd nc)) cs
  end.
Definition wf_forest (f : forest) : bool :=
  nodupb (map fst f) && forallb (fun nc : string * tree => wf_tree (snd nc)) f.

(* only the name condition (enough for the statements about order and completeness) *)
Fixpoint wf_names (t : tree) : bool :=
  match t with
  | File _ _ _ => true
  | Dir m cs => nodupb (map fst cs) && forallb (fun nc : string * tree => wf_names (snd nc)) cs
  end.
Definition wf_names_forest (f : forest) : bool :=
  nodupb (map fst f) && forallb (fun nc : string * tree => wf_names (snd nc)) f.

Fixpoint whole_seconds (t : tree) : bool :=
  match t with
  | File m _ _ => N.eqb (m_mnsec m) 0
  | Dir m cs => N.eqb (m_mnsec m) 0 && forallb (fun nc : string * tree => whole_seconds (snd nc)) cs
  end.
Definition whole_seconds_forest (f : forest) : bool :=
  forallb (fun nc : string * tree => whole_seconds (snd nc)) f.

(* ---- the envelope WITH recorded hard links (c06_extract_walk_links) -----------
   [hh p] = the tarfs node at p has a recorded tar header for the name p
   (node.hardlinks, filled by WriteHeader(TypeLink)).  A node [File m l (Some q)]
   at path p — "p is an additional name of the inode first known as q" — is inside
   the envelope when
     - its name was recorded with a header ([hh p]; without one walkFS writes an
       independent copy: finding C06-F1),
     - its target path q sorts before p in the walk order ([path_ltb q p]; otherwise
       the link entry precedes its target and cannot be extracted: finding C06-F2),
     - q is a path a Linkname can carry (components non-empty, without '/'),
     - the node at q in the SAME tree is a non-directory with the same metadata and
       content as the node at p (that is what sharing an inode means here; tarfs
       link() resolves a final symlink in q, so a link recorded against a symlink
       shares the node of the symlink's target instead: finding C06-F5),
     - the shared node is not a symlink with a non-empty target (walkFS re-types
       such an entry as TypeSymlink with the hard-link path as target; no state
       reachable through tarfs has a recorded link sharing a symlink node).
   Names that are not additional links obey the conditions of [wf_tree]. *)
Fixpoint no_slash (s : string) : bool :=
  match s with EmptyString => true | String c r => negb (Ascii.eqb c "/"%char) && no_slash r end.
Definition comp_ok (s : string) : bool := negb (String.eqb s "") && no_slash s.

Definition link_ok (hh : path -> bool) (root : forest) (p : path) (m : meta) (l : leaf) (q : path) : bool :=
  hh p && path_ltb q p && forallb comp_ok q &&
  match l with LSym t => String.eqb t "" | _ => true end &&
  match lookup root q with
  | Some (File m' l' _) => meta_eqb m m' && leaf_eqb l l'
  | _ => false
  end.

Definition node_ok (hh : path -> bool) (root : forest) (p : path) (t : tree) : bool :=
  match t with
  | Dir _ _ => true
  | File m l None =>
      match l with LReg _ _ => true | _ => match m_xattrs m with [] => true | _ => false end end
  | File m l (Some q) => link_ok hh root p m l q
  end.

Fixpoint wfl_tree (hh : path -> bool) (root : forest) (p : path) (t : tree) {struct t} : bool :=
  node_ok hh root p t &&
  match t with
  | File _ _ _ => true
  | Dir m cs =>
      nodupb (map fst cs) &&
      forallb (fun nc : string * tree => wfl_tree hh root (p ++ [fst nc]) (snd nc)) cs
  end.
Definition wfl_forest (hh : path -> bool) (f : forest) : bool :=
  nodupb (map fst f) && forallb (fun nc : string * tree => wfl_tree hh f [fst nc] (snd nc)) f.
