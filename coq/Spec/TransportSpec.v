(* C20 — what the property demands of any sequence of Read results, as a
   readable Prop and as the boolean validator that the correspondence check
   runs on the implementation's observed results. *)
From Apko Require Import Base.Prelude Model.Transport.
Open Scope string_scope. Open Scope list_scope.

(* The consumer's view: after every Read, everything handed over so far is a
   prefix of the bytes the server holds (nothing duplicated, skipped or
   altered), and end-of-file is reported only once all of them were handed over
   (a short body is never accepted as complete). *)
Definition Faithful (dat : list N) (outs : list (list N * err)) : Prop :=
  forall pre o post, outs = pre ++ o :: post ->
    (exists suf, dat = delivered (pre ++ [o]) ++ suf) /\
    (snd o = EEOF -> delivered (pre ++ [o]) = dat).

Fixpoint is_prefix (a b : list N) : bool :=
  match a, b with
  | [], _ => true
  | x :: a', y :: b' => N.eqb x y && is_prefix a' b'
  | _ :: _, [] => false
  end.

Fixpoint valid_outs (dat acc : list N) (outs : list (list N * err)) : list string :=
  match outs with
  | [] => []
  | (bs, e) :: more =>
      let acc' := acc ++ bs in
      tag_if (negb (is_prefix acc' dat)) "viol:delivered-not-prefix-of-server-bytes" ++
      tag_if (match e with EEOF => negb (list_eqb N.eqb acc' dat) | _ => false end) "viol:eof-before-complete" ++
      (if is_prefix acc' dat then valid_outs dat acc' more else [])
  end.
