(* C20 — what the property demands of any sequence of Read results, as a
   readable Prop and as the boolean validator that the correspondence check
   runs on the implementation's observed results. *)
From Apko Require Import Base.Prelude Model.Transport.
Open Scope string_scope. Open Scope list_scope.

(* The consumer's view: after every Read, everything handed over so far is a
   prefix of the bytes the server holds (nothing duplicated, skipped or
   altered), and end-of-file is reported only once all of them were handed over
   (a short body is never accepted as complete). *)
Definition Faithful (dat : list N) (outs : list (list N * err)) : Prop :=
  forall pre o post, outs = pre ++ o :: post ->
    (exists suf, dat = delivered (pre ++ [o]) ++ suf) /\
    (snd o = EEOF -> delivered (pre ++ [o]) = dat).

Fixpoint is_prefix (a b : list N) : bool :=
  match a, b with
  | [], _ => true
  | x :: a', y :: b' => N.eqb x y && is_prefix a' b'
  | _ :: _, [] => false
  end.

Fixpoint valid_outs (dat acc : list N) (outs : list (list N * err)) : list string :=
  match outs with
  | [] => []
  | (bs, e) :: more =>
      let acc' := acc ++ bs in
      tag_if (negb (is_prefix acc' dat)) "viol:delivered-not-prefix-of-server-bytes" ++
      tag_if (match e with EEOF => negb (list_eqb N.eqb acc' dat) | _ => false end) "viol:eof-before-complete" ++
      (if is_prefix acc' dat then valid_outs dat acc' more else [])
  end.

(* ---- framing ------------------------------------------------------------- *)
(* every response of the session is framed (Content-Length or chunked): a
   connection that ends early surfaces as a read error, never as EOF *)
Definition framed_ev (c : conn_ev) : bool := match c with CCloseDelim _ _ => false | _ => true end.
Definition framed (cns : list conn_ev) : Prop := forallb framed_ev cns = true.

(* every connection is answered, framed, by the session's server kind *)
Definition all_serve (cns : list conn_ev) : Prop := Forall (fun c => c = CServe) cns.

(* ---- completion (liveness) ----------------------------------------------- *)
(* Which fault scripts the reader is expected to survive, said on the inputs
   alone (lengths, buffer sizes, the script): an accounting of the body-read
   events each Read call meets. [p] = bytes handed over before the call. *)

(* the events a restarted (200) connection spends on discarding [left] bytes;
   None = one of them fails (the reset fails and the Read with it, whatever
   retries remain). An exhausted script is a healthy connection. *)
Fixpoint skip_ok (left : nat) (evs : list rd_ev) : option (list rd_ev) :=
  match left with
  | O => Some evs
  | _ =>
    match evs with
    | [] => Some []
    | ev :: evs' =>
      if rfail ev then None
      else skip_ok (left - Nat.min (Nat.max 1 (rk ev)) (Nat.min discard_buf left)) evs'
    end
  end.

(* re-connecting after a fault at progress [p] against a server of kind [k]
   holding [len] bytes *)
Definition reconnect_ok (len : nat) (k : skind) (p : nat) (evs : list rd_ev) : option (list rd_ev) :=
  match p with
  | O => Some evs                                  (* no Range header: the whole body again *)
  | _ =>
    match k with
    | HonoursRange => if Nat.ltb p len then Some evs else None   (* bytes=len- is answered 416 *)
    | IgnoresRange => skip_ok p evs
    | RejectsRange => None
    end
  end.

(* one Read(p) with len p = lenp: every failing body read must find a [true]
   in the schedule and a successful re-connection; the first body read that does
   not fail ends the call. Some (n, rest of the script) = the call hands over n bytes. *)
Fixpoint call_ok (len : nat) (k : skind) (sched : list bool) (lenp p : nat) (evs : list rd_ev)
  : option (nat * list rd_ev) :=
  match sched with
  | [] => None
  | retry :: more =>
    match evs with
    | [] => Some (Nat.min lenp (len - p), [])
    | ev :: evs' =>
      if rfail ev then
        if retry then
          match reconnect_ok len k p evs' with
          | Some evs'' => call_ok len k more lenp p evs''
          | None => None
          end
        else None
      else Some (Nat.min (Nat.max 1 (rk ev)) (Nat.min lenp (len - p)), evs')
    end
  end.

Fixpoint tolerated (len : nat) (k : skind) (sched : list bool) (bufs : list nat) (p : nat) (evs : list rd_ev) : bool :=
  match bufs with
  | [] => true
  | lenp :: more =>
    match lenp with
    | O => false
    | _ =>
      match call_ok len k sched lenp p evs with
      | Some (n, evs') => tolerated len k sched more (p + n) evs'
      | None => false
      end
    end
  end.

Definition is_fail (e : err) : bool := match e with EFail => true | _ => false end.
Definition is_eof (e : err) : bool := match e with EEOF => true | _ => false end.

(* the download completed: every byte handed over, end-of-file seen, no Read
   ever reported an error *)
Definition Complete (dat : list N) (outs : list (list N * err)) : Prop :=
  delivered outs = dat /\
  Forall (fun o => snd o <> EFail) outs /\
  Exists (fun o => snd o = EEOF) outs.

Definition complete_b (dat : list N) (outs : list (list N * err)) : bool :=
  list_eqb N.eqb (delivered outs) dat &&
  forallb (fun o => negb (is_fail (snd o))) outs &&
  existsb (fun o => is_eof (snd o)) outs.

(* ---- the retry budget, said on the script alone ------------------------------ *)
(* no more than [b] failing body reads in a row ([cur] = length of the run the
   script is in) *)
Fixpoint runs_le (b cur : nat) (evs : list rd_ev) : bool :=
  match evs with
  | [] => true
  | ev :: t => if rfail ev then Nat.ltb cur b && runs_le b (S cur) t else runs_le b 0 t
  end.

(* every failing body read comes while fewer than [len] bytes can have been
   handed over ([acc] bounds them: a body read that does not fail hands over at
   most max 1 rk bytes): the resumption asks for an offset inside the body *)
Fixpoint early_faults (len acc : nat) (evs : list rd_ev) : bool :=
  match evs with
  | [] => true
  | ev :: t => if rfail ev then Nat.ltb acc len && early_faults len acc t
               else early_faults len (acc + Nat.max 1 (rk ev)) t
  end.
