(* C03 — the apk version order and constraint operators, stated independently
   of how apko implements them. *)
From Apko Require Import Base.Prelude Base.Regex.
Open Scope Z_scope.

Inductive presuf := PAlpha | PBeta | PPre | PRC | PNone.          (* alpha < beta < pre < rc < none *)
Inductive postsuf := SNone | SCVS | SSVN | SGit | SHG | SP.       (* none < cvs < svn < git < hg < p *)

Definition rank_pre (p : presuf) : Z :=
  match p with PAlpha => 0 | PBeta => 1 | PPre => 2 | PRC => 3 | PNone => 4 end.
Definition rank_post (p : postsuf) : Z :=
  match p with SNone => 0 | SCVS => 1 | SSVN => 2 | SGit => 3 | SHG => 4 | SP => 5 end.

Record ver := {
  nums : list Z;        (* numeric components, first to last *)
  letter : Z;           (* 0 = none, otherwise the byte of the letter *)
  pre : presuf; pre_n : Z;
  post : postsuf; post_n : Z;
  rev : Z               (* -rN, 0 when absent *)
}.

(* component lists: first difference decides; on a common prefix the longer wins *)
Fixpoint cmp_nums (a b : list Z) : comparison :=
  match a, b with
  | [], [] => Eq
  | [], _ :: _ => Lt
  | _ :: _, [] => Gt
  | x :: a', y :: b' => match x ?= y with Eq => cmp_nums a' b' | c => c end
  end.

Definition lex (c : comparison) (k : comparison) : comparison :=
  match c with Eq => k | _ => c end.

Definition spec_cmp (a b : ver) : comparison :=
  lex (cmp_nums (nums a) (nums b))
  (lex (letter a ?= letter b)
  (lex (rank_pre (pre a) ?= rank_pre (pre b))
  (lex (pre_n a ?= pre_n b)
  (lex (rank_post (post a) ?= rank_post (post b))
  (lex (post_n a ?= post_n b)
       (rev a ?= rev b)))))).

(* constraint operators *)
Inductive vop := OpAny | OpEq | OpGt | OpLt | OpGe | OpLe | OpTilde.

Fixpoint is_prefix_z (r a : list Z) : bool :=
  match r, a with
  | [], _ => true
  | x :: r', y :: a' => (x =? y) && is_prefix_z r' a'
  | _ :: _, [] => false
  end.

(* ~ : the actual version's numeric components extend the required ones, and
   when the counts match every further field the requirement spells out (a
   letter, a suffix, a non-zero number) is equal *)
Definition presuf_eqb (a b : presuf) : bool := rank_pre a =? rank_pre b.
Definition postsuf_eqb (a b : postsuf) : bool := rank_post a =? rank_post b.
Definition spec_tilde (a r : ver) : bool :=
  is_prefix_z (nums r) (nums a) &&
  (if (Z.of_nat (List.length (nums r)) <? Z.of_nat (List.length (nums a))) then true
   else
     ((letter r =? 0) || (letter a =? letter r)) &&
     (presuf_eqb (pre r) PNone || presuf_eqb (pre a) (pre r)) &&
     ((pre_n r =? 0) || (pre_n a =? pre_n r)) &&
     (postsuf_eqb (post r) SNone || postsuf_eqb (post a) (post r)) &&
     ((post_n r =? 0) || (post_n a =? post_n r)) &&
     ((rev r =? 0) || (rev a =? rev r))).

Definition spec_sat (op : vop) (a r : ver) : bool :=
  match op with
  | OpAny => true
  | OpEq => match spec_cmp a r with Eq => true | _ => false end
  | OpGt => match spec_cmp a r with Gt => true | _ => false end
  | OpLt => match spec_cmp a r with Lt => true | _ => false end
  | OpGe => match spec_cmp a r with Lt => false | _ => true end
  | OpLe => match spec_cmp a r with Gt => false | _ => true end
  | OpTilde => spec_tilde a r
  end.

Definition vop_of_string (s : string) : vop :=
  if String.eqb s "=" then OpEq else if String.eqb s ">" then OpGt else if String.eqb s "<" then OpLt
  else if String.eqb s ">=" then OpGe else if String.eqb s "<=" then OpLe else if String.eqb s "~" then OpTilde
  else OpAny.

Definition presuf_of_string (s : string) : option presuf :=
  if String.eqb s "_alpha" then Some PAlpha else if String.eqb s "_beta" then Some PBeta
  else if String.eqb s "_pre" then Some PPre else if String.eqb s "_rc" then Some PRC
  else if String.eqb s "" then Some PNone else None.
Definition postsuf_of_string (s : string) : option postsuf :=
  if String.eqb s "_cvs" then Some SCVS else if String.eqb s "_svn" then Some SSVN
  else if String.eqb s "_git" then Some SGit else if String.eqb s "_hg" then Some SHG
  else if String.eqb s "_p" then Some SP else if String.eqb s "" then Some SNone else None.

(* the apk version grammar, in the factored shape Go's parser gives the source pattern
   digits ( . digits )* letter? ( _(alpha|beta|pre|rc) digits* )? ( _(cvs|svn|git|hg|p) digits* )? ( -r digits )? *)
Definition digit := Cls [(48, 57)]%N.
Definition lit (s : string) := Lit (bytes_of_string s).
Definition apk_version_re : re :=
  Cat (Plus digit)
 (Cat (Star (Cat (lit ".") (Plus digit)))
 (Cat (Opt (Cls [(97, 122)]%N))
 (Cat (Opt (Cat (Cat (lit "_") (Alt (lit "alpha") (Alt (lit "beta") (Alt (lit "pre") (lit "rc"))))) (Star digit)))
 (Cat (Opt (Cat (Cat (lit "_") (Alt (lit "cvs") (Alt (lit "svn") (Alt (lit "git") (Alt (lit "hg") (lit "p")))))) (Star digit)))
 (Cat (Opt (Cat (lit "-r") (Plus digit))) Eps))))).
