package main

// -stage baseimage: an image built ON TOP OF A BASE IMAGE through the library entry points
// (build.New + BuildLayers; the repository's own testdata/image_on_top.apko.yaml with its lock
// file, base image layout and package repository), twice per architecture with nothing changed
// but the directory that holds the build's temporary files (TMPDIR and WithTempDir). The layer
// and the /etc/apk/repositories file inside it must be the same, and must not name a temporary
// path: initializeApk appends the base image's auxiliary index (a file below the temp dir) to the
// repositories while installing, postBuildSetApk takes it out again. Judged here (Go), reported as
// IMPL-VIOLATION lines; the Coq side has no model of base images.

import (
	"archive/tar"
	"compress/gzip"
	"context"
	"errors"
	"fmt"
	"io"
	"os"
	"path/filepath"
	"strings"

	v1 "github.com/google/go-containerregistry/pkg/v1"

	"chainguard.dev/apko/pkg/build"
	"chainguard.dev/apko/pkg/build/types"
	"chainguard.dev/apko/pkg/tarfs"
)

func layerFile(l v1.Layer, name string) (string, error) {
	rc, err := l.Compressed()
	if err != nil {
		return "", err
	}
	defer rc.Close()
	zr, err := gzip.NewReader(rc)
	if err != nil {
		return "", err
	}
	tr := tar.NewReader(zr)
	for {
		hdr, err := tr.Next()
		if errors.Is(err, io.EOF) {
			return "<not in layer>", nil
		}
		if err != nil {
			return "", err
		}
		if strings.TrimPrefix(hdr.Name, "./") == name {
			b, err := io.ReadAll(tr)
			return string(b), err
		}
	}
}

func baseImageBuild(arch, tmpRoot string) (digest, repos string, err error) {
	os.Setenv("TMPDIR", tmpRoot)
	apkoTemp := filepath.Join(tmpRoot, "apko-temp")
	if err := os.MkdirAll(apkoTemp, 0o755); err != nil {
		return "", "", err
	}
	ctx := context.Background()
	err = guard("build on a base image", func() error {
		bc, err := build.New(ctx, tarfs.New(),
			build.WithConfig(filepath.Join("testdata", "image_on_top.apko.yaml"), []string{}),
			build.WithLockFile(filepath.Join("testdata", "image_on_top.apko.lock.json")),
			build.WithArch(types.ParseArchitecture(arch)),
			build.WithTempDir(apkoTemp))
		if err != nil {
			return err
		}
		layers, err := bc.BuildLayers(ctx)
		if err != nil {
			return err
		}
		if len(layers) != 1 {
			return fmt.Errorf("want 1 layer, got %d", len(layers))
		}
		d, err := layers[0].Digest()
		if err != nil {
			return err
		}
		digest = d.String()
		repos, err = layerFile(layers[0], "etc/apk/repositories")
		return err
	})
	return digest, repos, err
}

func stageBaseImage() {
	root, err := os.MkdirTemp("", "c01base")
	if err != nil {
		fatal("%v", err)
	}
	defer os.RemoveAll(root)
	os.Unsetenv("SOURCE_DATE_EPOCH")
	os.Setenv("HOME", "")
	os.Setenv("XDG_CACHE_HOME", "")
	if err := os.Chdir(filepath.Join(repoDir(), "pkg", "build")); err != nil {
		fatal("%v", err)
	}
	builds, skipped := 0, 0
	for _, arch := range []string{"x86_64", "aarch64"} {
		dA, rA, errA := baseImageBuild(arch, filepath.Join(root, "first-tmp"))
		dB, rB, errB := baseImageBuild(arch, filepath.Join(root, "second tmp", "deeper"))
		builds += 2
		if errA != nil || errB != nil {
			// the repository's testdata no longer builds this way: nothing to compare (reported, not judged)
			skipped++
			fmt.Printf("STAT %s\n", jsonOf(map[string]any{"baseimage_build_error_" + arch: fmt.Sprint(errA, " / ", errB)}))
			continue
		}
		d := map[string]any{"configuration": "pkg/build/testdata/image_on_top.apko.yaml", "arch": arch, "first_digest": dA, "second_digest": dB, "first_repositories": rA, "second_repositories": rB}
		switch {
		case rA != rB || strings.Contains(rA, root):
			fmt.Printf("IMPL-VIOLATION tag=digest-differs/base-image-temp-path-in-repositories %s\n", jsonOf(d))
		case dA != dB:
			fmt.Printf("IMPL-VIOLATION tag=digest-differs/base-image-tempdir %s\n", jsonOf(d))
		}
	}
	fmt.Printf("STAT %s\n", jsonOf(map[string]any{"baseimage_builds": builds, "baseimage_architectures_not_built": skipped}))
}
