package main

// -stage baseimage: an image built ON TOP OF A BASE IMAGE through the library entry points
// (build.New + BuildLayers; the repository's own testdata/image_on_top.apko.yaml with its lock
// file, base image layout and package repository), twice per architecture with nothing changed
// but the directory that holds the build's temporary files (TMPDIR and WithTempDir). The layer
// and the /etc/apk/repositories file inside it must be the same, and must not name a temporary
// path: initializeApk appends the base image's auxiliary index (a file below the temp dir) to the
// repositories while installing, postBuildSetApk takes it out again. Judged in Coq (Corr/C01.v
// check_base): the build-time file against the model of initializeApk (lists read from the source),
// the final file against the generated build steps, and the validator (nothing of the temp
// directory in the image, both runs equal).

import (
	"archive/tar"
	"compress/gzip"
	"context"
	"errors"
	"fmt"
	"io"
	"os"
	"path/filepath"
	"strings"

	v1 "github.com/google/go-containerregistry/pkg/v1"

	"chainguard.dev/apko/pkg/build"
	"chainguard.dev/apko/pkg/build/types"
	"chainguard.dev/apko/pkg/tarfs"

	"verifharness/gal"
)

func layerFile(l v1.Layer, name string) (string, error) {
	rc, err := l.Compressed()
	if err != nil {
		return "", err
	}
	defer rc.Close()
	zr, err := gzip.NewReader(rc)
	if err != nil {
		return "", err
	}
	tr := tar.NewReader(zr)
	for {
		hdr, err := tr.Next()
		if errors.Is(err, io.EOF) {
			return "<not in layer>", nil
		}
		if err != nil {
			return "", err
		}
		if strings.TrimPrefix(hdr.Name, "./") == name {
			b, err := io.ReadAll(tr)
			return string(b), err
		}
	}
}

type baseRun struct {
	Tmp            string
	BuildTime      []string // lines of etc/apk/repositories after build.New (initializeApk)
	Final          []string // lines of that file inside the layer
	Digest         string
	Build, Runtime []string // the configuration's lists as build.New sees them
}

func fileLines(s string) []string {
	s = strings.TrimSuffix(s, "\n")
	if s == "" {
		return nil
	}
	return strings.Split(s, "\n")
}

func baseImageBuild(arch, tmpRoot string, xbuild, xruntime []string) (run baseRun, err error) {
	os.Setenv("TMPDIR", tmpRoot)
	apkoTemp := filepath.Join(tmpRoot, "apko-temp")
	if err := os.MkdirAll(apkoTemp, 0o755); err != nil {
		return run, err
	}
	run.Tmp = tmpRoot
	ctx := context.Background()
	err = guard("build on a base image", func() error {
		fs := tarfs.New()
		bc, err := build.New(ctx, fs,
			build.WithConfig(filepath.Join("testdata", "image_on_top.apko.yaml"), []string{}),
			build.WithLockFile(filepath.Join("testdata", "image_on_top.apko.lock.json")),
			build.WithArch(types.ParseArchitecture(arch)),
			build.WithExtraBuildRepos(xbuild), build.WithExtraRuntimeRepos(xruntime),
			build.WithTempDir(apkoTemp))
		if err != nil {
			return err
		}
		ic := bc.ImageConfiguration()
		run.Build, run.Runtime = ic.Contents.BuildRepositories, ic.Contents.RuntimeRepositories
		b, err := fs.ReadFile("etc/apk/repositories")
		if err != nil {
			return err
		}
		run.BuildTime = fileLines(string(b))
		layers, err := bc.BuildLayers(ctx)
		if err != nil {
			return err
		}
		if len(layers) != 1 {
			return fmt.Errorf("want 1 layer, got %d", len(layers))
		}
		d, err := layers[0].Digest()
		if err != nil {
			return err
		}
		run.Digest = d.String()
		repos, err := layerFile(layers[0], "etc/apk/repositories")
		run.Final = fileLines(repos)
		return err
	})
	return run, err
}

func stageBaseImage() {
	root, err := os.MkdirTemp("", "c01base")
	if err != nil {
		fatal("%v", err)
	}
	defer os.RemoveAll(root)
	os.Unsetenv("SOURCE_DATE_EPOCH")
	os.Setenv("HOME", "")
	os.Setenv("XDG_CACHE_HOME", "")
	if err := os.Chdir(filepath.Join(repoDir(), "pkg", "build")); err != nil {
		fatal("%v", err)
	}
	w := &gal.Writer{Dir: *outDir, Require: "From Apko Require Import Corr.C01.", Type: "base_case", Check: "check_base", Shard: 50}
	builds, skipped := 0, 0
	type variant struct {
		name             string
		xbuild, xruntime []string
	}
	// the configuration as it is (no build-time repositories at all), and with --repository-append / build repositories
	variants := []variant{{"as-configured", nil, nil}, {"extra-repositories", []string{"/opt/c01/build-only", "./testdata/packages"}, []string{"/opt/c01/runtime-extra"}}}
	for _, arch := range []string{"x86_64", "aarch64"} {
		for _, v := range variants {
			a, errA := baseImageBuild(arch, filepath.Join(root, "first-tmp"), v.xbuild, v.xruntime)
			b, errB := baseImageBuild(arch, filepath.Join(root, "second tmp", "deeper"), v.xbuild, v.xruntime)
			builds += 2
			if errA != nil || errB != nil {
				// the repository's testdata no longer builds this way: nothing to compare (reported, not judged)
				skipped++
				fmt.Printf("STAT %s\n", jsonOf(map[string]any{"baseimage_build_error_" + arch + "_" + v.name: fmt.Sprint(errA, " / ", errB)}))
				continue
			}
			var runs []string
			for _, r := range []baseRun{a, b} {
				runs = append(runs, fmt.Sprintf("{| br_tmp := %s; br_build_time := %s; br_final := %s; br_digest := %s |}",
					gal.Str(r.Tmp), gal.StrList(r.BuildTime), gal.StrList(r.Final), gal.Str(r.Digest)))
			}
			term := fmt.Sprintf("{| bi_arch := %s; bi_cfg := {| rc_build := %s; rc_runtime := %s; rc_xbuild := %s; rc_xruntime := %s |}; bi_root := %s; bi_runs := %s |}",
				gal.Str(arch), gal.StrList(a.Build), gal.StrList(a.Runtime), gal.StrList(v.xbuild), gal.StrList(v.xruntime), gal.Str(root), gal.List(runs))
			w.Add(gal.Case{Term: term, Class: "baseimage/" + v.name, Trivial: false, Key: arch + "/" + v.name,
				Desc: map[string]any{"configuration": "pkg/build/testdata/image_on_top.apko.yaml", "arch": arch, "variant": v.name,
					"extra_build_repositories": v.xbuild, "extra_runtime_repositories": v.xruntime, "first": a, "second": b}})
		}
	}
	if err := w.Flush(); err != nil {
		fatal("%v", err)
	}
	fmt.Printf("STAT %s\n", jsonOf(map[string]any{"baseimage_builds": builds, "baseimage_variants_not_built": skipped}))
}
