package main

// Stage canon: the canonicaliser / build-date / schedule models of
// Model/Repro.v against the real functions, reached through public API or the
// wrappers in pkg/build/export_c01_verif.go.

import (
	"context"
	"fmt"
	"net/http"
	"net/http/httptest"
	"os"
	"path/filepath"
	"runtime"
	"strings"
	"sync"
	"time"

	"github.com/google/go-containerregistry/pkg/v1/empty"
	"github.com/google/go-containerregistry/pkg/v1/static"
	ggcrtypes "github.com/google/go-containerregistry/pkg/v1/types"
	coci "github.com/sigstore/cosign/v2/pkg/oci"

	"chainguard.dev/apko/pkg/apk/apk"
	apkfs "chainguard.dev/apko/pkg/apk/fs"
	"chainguard.dev/apko/pkg/build"
	"chainguard.dev/apko/pkg/build/oci"
	"chainguard.dev/apko/pkg/build/types"
	"chainguard.dev/apko/pkg/tarfs"

	"verifharness/gal"
	"verifharness/synthrepo"
)

func guard(what string, f func() error) (err error) {
	defer func() {
		if r := recover(); r != nil {
			fmt.Printf("IMPL-VIOLATION tag=panic/%s %s\n", what, jsonOf(map[string]any{"panic": fmt.Sprint(r)}))
			err = fmt.Errorf("panic: %v", r)
		}
	}()
	return f()
}

func shuffled[T any](r *gal.Rand, xs []T) []T {
	out := append([]T{}, xs...)
	for i := len(out) - 1; i > 0; i-- {
		j := r.Intn(i + 1)
		out[i], out[j] = out[j], out[i]
	}
	return out
}

// pickSome returns k random elements (with repetition allowed when dup).
func pickSome(r *gal.Rand, pool []string, k int, dup bool) []string {
	var out []string
	if dup {
		for i := 0; i < k; i++ {
			out = append(out, gal.Pick(r, pool))
		}
		return out
	}
	return shuffled(r, pool)[:min(k, len(pool))]
}

var namePool = []string{"a", "B", "b", "a-b", "a.b", "a_b", "ab", "a=1.0", "a>1", "zz", "Z", "0", "00", "a0", "lib", "lib-dev", "libz", "li", "~x", "-x", "x-", "é", "a b"[:1] + "+"}

func pairList(m [][2]string) string {
	items := make([]string, len(m))
	for i, kv := range m {
		items[i] = gal.Pair(gal.Str(kv[0]), gal.Str(kv[1]))
	}
	return gal.List(items)
}

func nList(xs []uint64) string {
	items := make([]string, len(xs))
	for i, x := range xs {
		items[i] = gal.N(x)
	}
	return gal.List(items)
}
func zList(xs []int64) string {
	items := make([]string, len(xs))
	for i, x := range xs {
		items[i] = gal.Z(x)
	}
	return gal.List(items)
}
func natList(xs []int) string {
	items := make([]string, len(xs))
	for i, x := range xs {
		items[i] = gal.Nat(x)
	}
	return gal.List(items)
}

func stageCanon() {
	os.Unsetenv("HOME")
	os.Unsetenv("XDG_CACHE_HOME")
	os.Unsetenv("SOURCE_DATE_EPOCH")
	ctx := context.Background()
	r := gal.NewRand(*seed)
	w := &gal.Writer{Dir: *outDir, Require: "From Apko Require Import Corr.C01.", Type: "canon_case", Check: "check_canon", Shard: 200}
	scale := 1
	if *tier == "thorough" {
		scale = 8
	}
	tmp, err := os.MkdirTemp("", "c01-canon-")
	if err != nil {
		fatal("%v", err)
	}
	defer os.RemoveAll(tmp)

	// ---- initializeApk / SetWorld / postBuildSetApk through build.New ------
	keyPool := []string{}
	for i, n := range []string{"k1.rsa.pub", "alpha.rsa.pub", "Zeta.rsa.pub", "k10.rsa.pub", "k2.rsa.pub"} {
		p := filepath.Join(tmp, fmt.Sprintf("keys%d", i%2), n)
		_ = os.MkdirAll(filepath.Dir(p), 0o755)
		_ = os.WriteFile(p, []byte("key "+n+"\n"), 0o644)
		keyPool = append(keyPool, p)
	}
	// local paths only: an http(s) repository makes InitDB try key discovery over the network
	repoPool := []string{"/local/os", "/local/extras", "/a/local/x", "/local/repo", "@local /tagged/repo", "/local/OS", "/local/os-2", "relative/repo"}
	for i := 0; i < 12*scale; i++ {
		pkgs := pickSome(r, namePool, r.Intn(7), true)
		xp := pickSome(r, namePool, r.Intn(4), true)
		br := pickSome(r, repoPool, r.Intn(3), true)
		rr := pickSome(r, repoPool, 1+r.Intn(3), true)
		xb := pickSome(r, repoPool, r.Intn(2), true)
		xr := pickSome(r, repoPool, r.Intn(2), true)
		kr := pickSome(r, keyPool, r.Intn(4), true)
		xk := pickSome(r, keyPool, r.Intn(3), true)
		var world, brepos, rrepos string
		var keys []string
		err := guard("build.New", func() error {
			fs := apkfs.NewMemFS()
			ic := types.ImageConfiguration{Contents: types.ImageContents{BuildRepositories: br, RuntimeRepositories: rr, Keyring: kr, Packages: pkgs}}
			bc, err := build.New(ctx, fs, build.WithImageConfiguration(ic), build.WithExtraPackages(xp), build.WithExtraBuildRepos(xb),
				build.WithExtraRuntimeRepos(xr), build.WithExtraKeys(xk), build.WithArch(types.ParseArchitecture("amd64")))
			if err != nil {
				return err
			}
			b, err := fs.ReadFile("etc/apk/world")
			if err != nil {
				return err
			}
			world = string(b)
			b, err = fs.ReadFile("etc/apk/repositories")
			if err != nil {
				return err
			}
			brepos = string(b)
			ents, err := fs.ReadDir("etc/apk/keys")
			if err != nil {
				return err
			}
			for _, e := range ents {
				keys = append(keys, e.Name())
			}
			if err := bc.VerifC01PostBuildSetApk(ctx); err != nil {
				return err
			}
			b, err = fs.ReadFile("etc/apk/repositories")
			if err != nil {
				return err
			}
			rrepos = string(b)
			return nil
		})
		if err != nil {
			fmt.Printf("IMPL-VIOLATION tag=canon-init-fails %s\n", jsonOf(map[string]any{"error": err.Error(), "packages": pkgs, "repositories": rr}))
			continue
		}
		term := fmt.Sprintf("(KInit %s %s %s %s %s %s %s %s %s %s %s %s)", gal.StrList(pkgs), gal.StrList(xp), gal.StrList(br), gal.StrList(rr), gal.StrList(xb), gal.StrList(xr),
			gal.StrList(kr), gal.StrList(xk), gal.Str(world), gal.Str(brepos), gal.Str(rrepos), gal.StrList(keys))
		w.Add(gal.Case{Term: term, Class: "init", Trivial: len(pkgs)+len(xp) < 2,
			Desc: map[string]any{"kind": "initializeApk", "packages": pkgs, "extra_packages": xp, "build_repos": br, "runtime_repos": rr, "extra_build": xb, "extra_runtime": xr, "keyring": kr, "extra_keys": xk}})
	}

	// ---- environment -----------------------------------------------------------
	layer := static.NewLayer([]byte("c01"), ggcrtypes.OCILayer)
	envNames := []string{"PATH", "SSL_CERT_FILE", "A", "a", "AB", "A_B", "Z", "HOME", "LANG", "EMPTY", "A=", "PATH2", "0"}
	envVals := []string{"", "x", "/usr/bin", "=v", "a b", "Z", "1"}
	for i := 0; i < 15*scale; i++ {
		env := map[string]string{}
		for _, k := range pickSome(r, envNames, r.Intn(7), false) {
			env[k] = gal.Pick(r, envVals)
		}
		var pairs [][2]string
		for k, v := range env {
			pairs = append(pairs, [2]string{k, v})
		}
		var got []string
		err := guard("BuildImageFromLayer", func() error {
			ic := types.ImageConfiguration{Environment: env}
			if len(env) == 0 && r.Bool() {
				ic.Environment = nil
			}
			img, err := oci.BuildImageFromLayer(ctx, empty.Image, layer, ic, time.Unix(0, 0).UTC(), types.ParseArchitecture("amd64"))
			if err != nil {
				return err
			}
			cf, err := img.ConfigFile()
			if err != nil {
				return err
			}
			got = cf.Config.Env
			return nil
		})
		if err != nil {
			fmt.Printf("IMPL-VIOLATION tag=canon-env-fails %s\n", jsonOf(map[string]any{"error": err.Error(), "env": env}))
			continue
		}
		w.Add(gal.Case{Term: fmt.Sprintf("(KEnv %s %s)", pairList(pairs), gal.StrList(got)), Class: "env", Trivial: len(env) == 0,
			Desc: map[string]any{"kind": "environment", "env": env}})
	}

	// ---- architectures in the index -----------------------------------------------
	for i := 0; i < 6*scale; i++ {
		sel := shuffled(r, types.AllArchs)[:1+r.Intn(len(types.AllArchs))]
		imgs := map[types.Architecture]coci.SignedImage{}
		byDigest := map[string]string{}
		var ord, got []string
		err := guard("GenerateIndex", func() error {
			for _, a := range sel {
				img, err := oci.BuildImageFromLayer(ctx, empty.Image, layer, types.ImageConfiguration{}, time.Unix(0, 0).UTC(), a)
				if err != nil {
					return err
				}
				d, err := img.Digest()
				if err != nil {
					return err
				}
				if prev, dup := byDigest[d.String()]; dup {
					return fmt.Errorf("architectures %s and %s give the same image digest", prev, a)
				}
				byDigest[d.String()] = a.String()
				imgs[a] = img
			}
			for a := range imgs {
				ord = append(ord, a.String())
			}
			_, idx, err := oci.GenerateIndex(ctx, types.ImageConfiguration{}, imgs, time.Unix(0, 0).UTC())
			if err != nil {
				return err
			}
			m, err := idx.IndexManifest()
			if err != nil {
				return err
			}
			for _, d := range m.Manifests {
				got = append(got, byDigest[d.Digest.String()])
			}
			return nil
		})
		if err != nil {
			fmt.Printf("IMPL-VIOLATION tag=canon-index-fails %s\n", jsonOf(map[string]any{"error": err.Error(), "archs": ord}))
			continue
		}
		w.Add(gal.Case{Term: fmt.Sprintf("(KArchs %s %s)", gal.StrList(ord), gal.StrList(got)), Class: "archs", Trivial: len(ord) < 2,
			Desc: map[string]any{"kind": "index architectures", "archs_in_map_order": ord}})
	}

	// ---- ReadDir ----------------------------------------------------------------
	for i := 0; i < 12*scale; i++ {
		names := pickSome(r, []string{"a", "B", "b", "a-b", "a.b", "a_b", "ab", "zz", "Z", "0", "00", "a0", "lib", "lib64", "libz", "li", "~x", "-x", "x-", ".hidden", "..x", "A"}, 1+r.Intn(12), false)
		var got []string
		err := guard("ReadDir", func() error {
			fs := tarfs.New()
			if err := fs.MkdirAll("d", 0o755); err != nil {
				return err
			}
			for _, n := range names {
				if r.Bool() {
					if err := fs.MkdirAll("d/"+n, 0o755); err != nil {
						return err
					}
				} else if err := fs.WriteFile("d/"+n, []byte(n), 0o644); err != nil {
					return err
				}
			}
			ents, err := fs.ReadDir("d")
			if err != nil {
				return err
			}
			for _, e := range ents {
				got = append(got, e.Name())
			}
			return nil
		})
		if err != nil {
			fmt.Printf("IMPL-VIOLATION tag=canon-readdir-fails %s\n", jsonOf(map[string]any{"error": err.Error(), "names": names}))
			continue
		}
		w.Add(gal.Case{Term: fmt.Sprintf("(KReadDir %s %s)", gal.StrList(names), gal.StrList(got)), Class: "readdir", Trivial: len(names) < 2,
			Desc: map[string]any{"kind": "tarfs ReadDir", "created_in_order": names}})
	}

	// ---- layer groups: the final sort with its tie-breaker ----------------------------
	for i := 0; i < 12*scale+4; i++ {
		norig := 1 + r.Intn(6)
		var pkgs []*apk.Package
		byOrigin := map[string][]string{}
		sizes := map[string]uint64{}
		names := shuffled(r, []string{"a", "b", "c", "d", "e", "f", "g", "h", "i", "j", "k", "l", "m", "A", "a-b", "zz"})
		np := norig + r.Intn(len(names)-norig+1)
		zeroOrigins := 0
		if i < 4 { // corners: several origins whose packages all have installed size 0 (symlink-only packages), next to ordinary ones
			norig, np, zeroOrigins = 3+i, 3+i+i%2, 2+i%3
		}
		for j := 0; j < np; j++ {
			o := fmt.Sprintf("o%d", j%norig)
			if j >= norig {
				o = fmt.Sprintf("o%d", r.Intn(norig))
			}
			sz := uint64([]int{0, 10, 10, 20, 30}[r.Intn(5)])
			if i < 4 {
				sz = 10 * uint64(j+1)
				var on int
				fmt.Sscanf(o, "o%d", &on)
				if on < zeroOrigins {
					sz = 0
				}
			}
			pkgs = append(pkgs, &apk.Package{Name: names[j], Version: "1.0-r0", Origin: o, InstalledSize: sz})
			byOrigin[o] = append(byOrigin[o], names[j])
			sizes[o] += sz
		}
		pkgs = shuffled(r, pkgs)
		var got []build.VerifC01Group
		budget := norig + r.Intn(3)
		err := guard("groupByOriginAndSize", func() error {
			var err error
			got, err = build.VerifC01GroupByOriginAndSize(pkgs, budget)
			return err
		})
		if err != nil {
			fmt.Printf("IMPL-VIOLATION tag=canon-groups-fails %s\n", jsonOf(map[string]any{"error": err.Error()}))
			continue
		}
		// the same packages in other orders, several times: one answer (Go map iteration inside the function differs between calls)
		for rep := 0; rep < 6; rep++ {
			var again []build.VerifC01Group
			if e := guard("groupByOriginAndSize", func() error {
				var err error
				again, err = build.VerifC01GroupByOriginAndSize(shuffled(r, pkgs), budget)
				return err
			}); e != nil {
				break
			}
			same := len(again) == len(got)
			for k := 0; same && k < len(got); k++ {
				same = strings.Join(again[k].Names, " ") == strings.Join(got[k].Names, " ")
			}
			if !same && len(again) == len(got) {
				desc := func(gs []build.VerifC01Group) (o [][]string) {
					for _, g := range gs {
						o = append(o, g.Names)
					}
					return
				}
				fmt.Printf("IMPL-VIOLATION tag=layer-groups-differ-between-runs %s\n", jsonOf(map[string]any{"by_origin": byOrigin, "sizes": sizes, "one_run": desc(got), "another_run": desc(again)}))
				break
			}
		}
		var in, out []string
		for o, ns := range byOrigin { // Go map order: any order will do
			in = append(in, gal.Pair(gal.N(sizes[o]), gal.StrList(ns)))
		}
		for _, g := range got {
			out = append(out, gal.Pair(gal.Pair(gal.N(g.Size), gal.Str(g.Tiebreaker)), gal.StrList(g.Names)))
		}
		w.Add(gal.Case{Term: fmt.Sprintf("(KGroups %s %s)", gal.List(in), gal.List(out)), Class: "groups", Trivial: norig < 2,
			Desc: map[string]any{"kind": "groupByOriginAndSize (no replaces, budget >= origins)", "by_origin": byOrigin, "sizes": sizes}})
	}

	// ---- build date ---------------------------------------------------------------------
	for i := 0; i < 14*scale; i++ {
		flag := int64([]int{0, 1, 1600000000, 1700000500, 1900000000}[r.Intn(5)])
		envMode := r.Intn(4) // 0 unset, 1 empty, 2 blank, 3 value
		envVal := int64([]int{0, 5, 1650000000, 1712345678, 2000000000}[r.Intn(5)])
		var times []int64
		for j, n := 0, r.Intn(6); j < n; j++ {
			times = append(times, int64([]int{1, 1500000000, 1700000000, 1700000500, 1700000501, 1800000000}[r.Intn(6)]))
		}
		var got int64
		envTerm := "None"
		err := guard("GetBuildDateEpoch", func() error {
			switch envMode {
			case 0:
				os.Unsetenv("SOURCE_DATE_EPOCH")
			case 1:
				os.Setenv("SOURCE_DATE_EPOCH", "")
				envTerm = "(Some None)"
			case 2:
				os.Setenv("SOURCE_DATE_EPOCH", "  ")
				envTerm = "(Some None)"
			case 3:
				os.Setenv("SOURCE_DATE_EPOCH", fmt.Sprint(envVal))
				envTerm = "(Some (Some " + gal.Z(envVal) + "))"
			}
			defer os.Unsetenv("SOURCE_DATE_EPOCH")
			fs := apkfs.NewMemFS()
			ic := types.ImageConfiguration{Contents: types.ImageContents{RuntimeRepositories: []string{"/r"}}}
			bc, err := build.New(ctx, fs, build.WithImageConfiguration(ic), build.WithSourceDateEpoch(time.Unix(flag, 0).UTC()), build.WithArch(types.ParseArchitecture("amd64")))
			if err != nil {
				return err
			}
			for j, t := range times {
				if err := bc.APK().AddInstalledPackage(&apk.Package{Name: fmt.Sprintf("p%d", j), Version: "1.0-r0", Arch: "x86_64", BuildTime: time.Unix(t, 0).UTC()}, nil); err != nil {
					return err
				}
			}
			bde, err := bc.GetBuildDateEpoch()
			if err != nil {
				return err
			}
			got = bde.Unix()
			return nil
		})
		if err != nil {
			fmt.Printf("IMPL-VIOLATION tag=canon-bde-fails %s\n", jsonOf(map[string]any{"error": err.Error()}))
			continue
		}
		w.Add(gal.Case{Term: fmt.Sprintf("(KBde %s %s %s %s)", gal.Z(flag), envTerm, zList(times), gal.Z(got)), Class: fmt.Sprintf("bde/env-mode-%d", envMode), Trivial: len(times) == 0,
			Desc: map[string]any{"kind": "GetBuildDateEpoch", "flag": flag, "env_mode(0 unset,1 empty,2 blank,3 value)": envMode, "env_value": envVal, "package_build_times": times}})
	}

	// ---- InstallPackages under scripted completion orders ------------------------------------
	stageSched(ctx, r, w, tmp, scale)

	if err := w.Flush(); err != nil {
		fatal("%v", err)
	}
}

type instPkg struct{ url, name, sum string }

func (p instPkg) URL() string            { return p.url }
func (p instPkg) PackageName() string    { return p.name }
func (p instPkg) ChecksumString() string { return p.sum }
func (p instPkg) String() string         { return p.name }

func stageSched(ctx context.Context, r *gal.Rand, w *gal.Writer, tmp string, scale int) {
	key, err := fixedKey()
	if err != nil {
		fatal("%v", err)
	}
	if runtime.GOMAXPROCS(0) < 8 {
		runtime.GOMAXPROCS(8) // every expansion must be able to be in flight at once
	}
	const maxN = 5
	var built []*synthrepo.Built
	for i := 0; i < maxN; i++ {
		name := fmt.Sprintf("p%d", i)
		b, err := (&synthrepo.Pkg{Name: name, Version: "1.0-r0", Arch: "x86_64", Origin: name, License: "MIT", BuildTime: 1700000000,
			Files: append(dirs("usr", "usr/share", "usr/share/"+name), synthrepo.File{Name: "usr/share/" + name + "/f", Mode: 0o644, Content: []byte(name)})}).Build(key)
		if err != nil {
			fatal("%v", err)
		}
		built = append(built, b)
	}
	var mu sync.Mutex
	gates := map[string]chan struct{}{}
	serveBad := map[string]bool{}
	srv := httptest.NewServer(http.HandlerFunc(func(rw http.ResponseWriter, req *http.Request) {
		name := strings.TrimSuffix(filepath.Base(req.URL.Path), "-1.0-r0.apk")
		mu.Lock()
		g := gates[name]
		bad := serveBad[name]
		mu.Unlock()
		if g != nil {
			select {
			case <-g:
			case <-time.After(15 * time.Second):
			}
		}
		for i, b := range built {
			if b.Pkg.Name == name {
				if bad { // another package's bytes: the checksum comparison in expandPackage fails
					b = built[(i+1)%len(built)]
				}
				_, _ = rw.Write(b.Bytes)
				return
			}
		}
		http.NotFound(rw, req)
	}))
	defer srv.Close()
	for it := 0; it < 10*scale; it++ {
		n := 2 + r.Intn(maxN-1)
		perm := shuffled(r, []int{0, 1, 2, 3, 4}[:n])
		bad := -1
		if r.Chance(1, 4) {
			bad = r.Intn(n)
		}
		var pkgs []apk.InstallablePackage
		mu.Lock()
		for i := 0; i < n; i++ {
			name := built[i].Pkg.Name
			gates[name] = make(chan struct{})
			serveBad[name] = i == bad
			pkgs = append(pkgs, instPkg{url: srv.URL + "/x86_64/" + built[i].Filename(), name: name, sum: built[i].Checksum()})
		}
		mu.Unlock()
		var installed []string
		ok := false
		t0 := time.Now()
		err := guard("InstallPackages", func() error {
			a, err := apk.New(apk.WithFS(apkfs.NewMemFS()), apk.WithArch("x86_64"), apk.WithIgnoreMknodErrors(true))
			if err != nil {
				return err
			}
			if err := a.InitDB(ctx); err != nil {
				return err
			}
			go func() {
				for _, i := range perm {
					mu.Lock()
					g := gates[built[i].Pkg.Name]
					mu.Unlock()
					close(g)
					time.Sleep(20 * time.Millisecond) // let this expansion finish before the next is released
				}
			}()
			sde := time.Unix(0, 0).UTC()
			if _, err := a.InstallPackages(ctx, &sde, pkgs); err != nil {
				return nil // observed: error
			}
			ok = true
			inst, err := a.GetInstalled()
			if err != nil {
				return err
			}
			for _, p := range inst {
				installed = append(installed, p.Name)
			}
			return nil
		})
		if err != nil {
			fmt.Printf("IMPL-VIOLATION tag=canon-sched-harness %s\n", jsonOf(map[string]any{"error": err.Error()}))
			continue
		}
		if os.Getenv("C01_DEBUG") != "" {
			fmt.Fprintf(os.Stderr, "sched n=%d perm=%v bad=%d ok=%v took %v\n", n, perm, bad, ok, time.Since(t0))
		}
		badTerm := "None"
		if bad >= 0 {
			badTerm = "(Some " + gal.Nat(bad) + ")"
		}
		w.Add(gal.Case{Term: fmt.Sprintf("(KSched %s %s %s %s %s)", gal.Nat(n), badTerm, natList(perm), gal.Bool(ok), gal.StrList(installed)),
			Class: fmt.Sprintf("sched/n=%d/bad=%v", n, bad >= 0), Trivial: false,
			Desc: map[string]any{"kind": "InstallPackages with scripted completion order", "n": n, "completion_order": perm, "failing_expansion": bad}})
	}

	// ---- the limit of the goroutine group: g.SetLimit(GOMAXPROCS + k) --------------------------------------
	// under GOMAXPROCS = jobs the requests must arrive as the limited model allows (expansion i is started only
	// while fewer than the limit run: i < responses completed + limit), the call must return (a limit that
	// leaves no slot beside the installer blocks for ever) and install in index order
	var arrivals [][2]int
	completed := 0
	lsrv := httptest.NewServer(http.HandlerFunc(func(rw http.ResponseWriter, req *http.Request) {
		name := strings.TrimSuffix(filepath.Base(req.URL.Path), "-1.0-r0.apk")
		idx := -1
		for i, b := range built {
			if b.Pkg.Name == name {
				idx = i
			}
		}
		if idx < 0 {
			http.NotFound(rw, req)
			return
		}
		mu.Lock()
		arrivals = append(arrivals, [2]int{idx, completed})
		g := gates[name]
		mu.Unlock()
		if g != nil {
			select {
			case <-g:
			case <-time.After(15 * time.Second):
			}
		}
		// counted before the bytes leave: the client cannot have finished an expansion the server has not counted
		mu.Lock()
		completed++
		mu.Unlock()
		_, _ = rw.Write(built[idx].Bytes)
	}))
	defer lsrv.Close()
	jobsList := []int{1, 2, 1, 3}
	if scale > 1 {
		jobsList = []int{1, 2, 3, 1, 2, 4, 1, 2, 3, 1, 1, 2}
	}
limitRuns:
	for _, jobs := range jobsList {
		n := 3 + r.Intn(maxN-2)
		perm := shuffled(r, []int{0, 1, 2, 3, 4}[:n])
		var pkgs []apk.InstallablePackage
		mu.Lock()
		arrivals, completed = nil, 0
		for i := 0; i < n; i++ {
			name := built[i].Pkg.Name
			gates[name] = make(chan struct{})
			serveBad[name] = false
			pkgs = append(pkgs, instPkg{url: lsrv.URL + "/x86_64/" + built[i].Filename(), name: name, sum: built[i].Checksum()})
		}
		mu.Unlock()
		var installed []string
		ok := false
		prev := runtime.GOMAXPROCS(jobs)
		doneCh := make(chan error, 1)
		go func() {
			doneCh <- guard("InstallPackages", func() error {
				a, err := apk.New(apk.WithFS(apkfs.NewMemFS()), apk.WithArch("x86_64"), apk.WithIgnoreMknodErrors(true))
				if err != nil {
					return err
				}
				if err := a.InitDB(ctx); err != nil {
					return err
				}
				go func() {
					for _, i := range perm {
						mu.Lock()
						g := gates[built[i].Pkg.Name]
						mu.Unlock()
						close(g)
						time.Sleep(20 * time.Millisecond)
					}
				}()
				sde := time.Unix(0, 0).UTC()
				if _, err := a.InstallPackages(ctx, &sde, pkgs); err != nil {
					return nil // observed: error
				}
				ok = true
				inst, err := a.GetInstalled()
				if err != nil {
					return err
				}
				for _, p := range inst {
					installed = append(installed, p.Name)
				}
				return nil
			})
		}()
		var err error
		select {
		case err = <-doneCh:
		case <-time.After(40 * time.Second):
			runtime.GOMAXPROCS(prev)
			mu.Lock()
			seen := append([][2]int(nil), arrivals...)
			mu.Unlock()
			fmt.Printf("IMPL-VIOLATION tag=install-packages-never-returns %s\n", jsonOf(map[string]any{"GOMAXPROCS": jobs, "packages": n, "release_order": perm,
				"requests_seen(package index, responses released before)": seen}))
			break limitRuns // the leaked call keeps its goroutines; one witness is enough
		}
		runtime.GOMAXPROCS(prev)
		if err != nil {
			fmt.Printf("IMPL-VIOLATION tag=canon-sched-harness %s\n", jsonOf(map[string]any{"error": err.Error()}))
			continue
		}
		mu.Lock()
		var starts []string
		for _, a := range arrivals {
			starts = append(starts, gal.Pair(gal.Nat(a[0]), gal.Nat(a[1])))
		}
		seen := append([][2]int(nil), arrivals...)
		mu.Unlock()
		w.Add(gal.Case{Term: fmt.Sprintf("(KLimit %s %s %s %s %s %s)", gal.Nat(jobs), gal.Nat(n), natList(perm), gal.List(starts), gal.Bool(ok), gal.StrList(installed)),
			Class: fmt.Sprintf("limit/GOMAXPROCS=%d/n=%d", jobs, n), Trivial: false,
			Desc: map[string]any{"kind": "InstallPackages under GOMAXPROCS", "GOMAXPROCS": jobs, "n": n, "release_order": perm,
				"requests_seen(package index, responses released before)": seen}})
	}
}
