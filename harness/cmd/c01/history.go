package main

// -stage history: the same build with a HISTORY behind it, compared with that build in a fresh
// process with fresh directories (wave 3):
//
//	process history   several images built in ONE process through the library (build.New +
//	                  BuildLayers + BuildImageFromLayers, what `apko build` does per architecture)
//	                  against one repository whose parsed index and per-index caches stay in the
//	                  process: an image whose world rules packages out (a version constraint, a
//	                  provider chosen, a conflict) first, then the image under test;
//	temp-dir history  the image under test built into a temp directory (WithTempDir) / tarball
//	                  path (WithTarball) that holds the LONGER result of an earlier build;
//	output history    `apko build … out.tar` onto an out.tar left by a bigger build.
//
// The reference of every case is the image under test built by a fresh process (this binary
// re-executed with -stage one-build) in a fresh temp directory. Judged in Coq by check_build
// (Corr/C01.v): every observable equal, a failing build is a violation.

import (
	"context"
	"encoding/json"
	"fmt"
	"io"
	"os"
	"os/exec"
	"path/filepath"
	"sort"
	"strings"
	"time"

	"github.com/google/go-containerregistry/pkg/v1/empty"

	"chainguard.dev/apko/pkg/build"
	"chainguard.dev/apko/pkg/build/oci"
	"chainguard.dev/apko/pkg/build/types"
	"chainguard.dev/apko/pkg/tarfs"

	"verifharness/gal"
	"verifharness/synthrepo"
)

type libSpec struct {
	Repo     string   `json:"repository"`
	Key      string   `json:"key"`
	Packages []string `json:"packages"`
	Arch     string   `json:"arch"`
	TempDir  string   `json:"temp_dir"`
	Tarball  string   `json:"tarball,omitempty"`
}

type libResult struct {
	Arts []artifact `json:"artifacts"`
	Err  string     `json:"error,omitempty"`
}

const historyDate = 1712345678

// libBuild builds one single-layer image the way buildImageComponents does for one architecture.
func libBuild(spec libSpec) (res libResult) {
	os.Setenv("SOURCE_DATE_EPOCH", fmt.Sprint(historyDate))
	ctx := context.Background()
	add := func(role, sum string) { res.Arts = append(res.Arts, artifact{role, sum}) }
	err := guard("library build", func() error {
		if err := os.MkdirAll(spec.TempDir, 0o755); err != nil {
			return err
		}
		ic := types.ImageConfiguration{Contents: types.ImageContents{RuntimeRepositories: []string{spec.Repo}, Keyring: []string{spec.Key}, Packages: spec.Packages},
			Cmd: "/bin/true", Environment: map[string]string{"ONLY": "one"}}
		arch := types.ParseArchitecture(spec.Arch)
		opts := []build.Option{build.WithImageConfiguration(ic), build.WithArch(arch), build.WithSourceDateEpoch(time.Unix(historyDate, 0).UTC()), build.WithTempDir(spec.TempDir)}
		if spec.Tarball != "" {
			opts = append(opts, build.WithTarball(spec.Tarball))
		}
		bc, err := build.New(ctx, tarfs.New(), opts...)
		if err != nil {
			return err
		}
		layers, err := bc.BuildLayers(ctx)
		if err != nil {
			return err
		}
		inst, err := bc.APK().GetInstalled()
		if err != nil {
			return err
		}
		var names []string
		for _, p := range inst {
			names = append(names, p.Name+"="+p.Version)
		}
		add("installed-packages", strings.Join(names, " "))
		add("layer-count", fmt.Sprint(len(layers)))
		for i, l := range layers {
			d, err := l.Digest()
			if err != nil {
				return err
			}
			add(fmt.Sprintf("layer[%d]/digest", i), d.String())
			sz, err := l.Size()
			if err != nil {
				return err
			}
			add(fmt.Sprintf("layer[%d]/size-in-descriptor", i), fmt.Sprint(sz))
			rc, err := l.Compressed()
			if err != nil {
				return err
			}
			b, err := io.ReadAll(rc)
			rc.Close()
			if err != nil {
				return err
			}
			if i == 0 {
				if f, err := layerFile(l, "etc/apk/repositories"); err == nil {
					add("etc/apk/repositories", f)
				}
			}
			add(fmt.Sprintf("layer[%d]/blob-length", i), fmt.Sprint(len(b)))
			add(fmt.Sprintf("layer[%d]/blob-sha256", i), "sha256:"+sha(b))
		}
		bde, err := bc.GetBuildDateEpoch()
		if err != nil {
			return err
		}
		img, err := oci.BuildImageFromLayers(ctx, empty.Image, layers, bc.ImageConfiguration(), bde, bc.Arch())
		if err != nil {
			return err
		}
		cn, err := img.ConfigName()
		if err != nil {
			return err
		}
		add("config", cn.String())
		id, err := img.Digest()
		if err != nil {
			return err
		}
		add("manifest", id.String())
		return nil
	})
	if err != nil {
		res.Err = err.Error()
	}
	return res
}

// stageOneBuild: the fresh process. Reads the spec from the environment, prints the result as JSON on the last line.
func stageOneBuild() {
	os.Unsetenv("HOME")
	os.Unsetenv("XDG_CACHE_HOME")
	var spec libSpec
	if err := json.Unmarshal([]byte(os.Getenv("C01_ONE_BUILD")), &spec); err != nil {
		fatal("one-build: %v", err)
	}
	fmt.Printf("\nC01-ONE-BUILD %s\n", jsonOf(libBuild(spec)))
}

func freshProcessBuild(spec libSpec) libResult {
	cmd := exec.Command(os.Args[0], "-stage", "one-build", "-out", os.TempDir())
	cmd.Env = append(os.Environ(), "C01_ONE_BUILD="+jsonOf(spec))
	out, err := cmd.Output()
	for _, line := range strings.Split(string(out), "\n") {
		if rest, ok := strings.CutPrefix(line, "C01-ONE-BUILD "); ok {
			var r libResult
			if json.Unmarshal([]byte(rest), &r) == nil {
				return r
			}
		}
	}
	return libResult{Err: fmt.Sprintf("fresh process gave no result: %v", err)}
}

func historyCase(kind, dim string, ref, got libResult, desc map[string]any) gal.Case {
	term := fmt.Sprintf("{| b_cfg := %s; b_dim := %s; b_group := %s; b_ref := %s; b_got := %s; b_failed := %s; b_members := []; b_images := []; b_manifests := []; b_date0 := %s; b_arch_created := []; b_index_created := [] |}",
		gal.Str(kind), gal.Str(dim), gal.Str(kind), galArts(ref.Arts), galArts(got.Arts), gal.Bool(got.Err != ""), gal.Z(historyDate))
	desc["history"] = dim
	desc["kind"] = kind
	desc["first_differing_artifact"] = firstDiff(ref.Arts, got.Arts)
	desc["error"] = got.Err
	desc["reference"] = "the same build in a fresh process with a fresh temp directory"
	return gal.Case{Term: term, Desc: desc, Class: "history/" + kind, Trivial: false, Key: kind + "|" + dim}
}

// historyUniverse: lib in two versions; app takes any, legacy-app only the old one; two providers of one
// virtual name; a conflict; a big package (incompressible 600 KiB) and a tiny one for the temp-dir histories.
func historyUniverse() []*synthrepo.Pkg {
	// long and incompressible, a function of the seed
	big := make([]byte, 600<<10)
	rnd := gal.NewRand(*seed)
	for i := 0; i+8 <= len(big); i += 8 {
		x := rnd.U64()
		for j := 0; j < 8; j++ {
			big[i+j] = byte(x >> (8 * j))
		}
	}
	mk := func(name, version string, p *synthrepo.Pkg, content []byte) *synthrepo.Pkg {
		p.Name, p.Version, p.Arch, p.Origin, p.License, p.BuildTime = name, version, "x86_64", name, "MIT", 1700000000
		p.Files = append(dirs("usr", "usr/share", "usr/share/"+name), synthrepo.File{Name: "usr/share/" + name + "/f-" + version, Mode: 0o644, Content: content})
		return p
	}
	return []*synthrepo.Pkg{
		mk("lib", "1.0-r0", &synthrepo.Pkg{}, []byte("lib one\n")),
		mk("lib", "2.0-r0", &synthrepo.Pkg{}, []byte("lib two\n")),
		mk("app", "1.0-r0", &synthrepo.Pkg{Deps: []string{"lib"}}, []byte("app\n")),
		mk("legacy-app", "1.0-r0", &synthrepo.Pkg{Deps: []string{"lib<2"}}, []byte("legacy\n")),
		mk("impl-a", "1.0-r0", &synthrepo.Pkg{Provides: []string{"virt=1"}}, []byte("a\n")),
		mk("impl-b", "1.0-r0", &synthrepo.Pkg{Provides: []string{"virt=1"}, ProviderPriority: 5}, []byte("b\n")),
		mk("needs-virt", "1.0-r0", &synthrepo.Pkg{Deps: []string{"virt"}}, []byte("nv\n")),
		mk("anti-lib2", "1.0-r0", &synthrepo.Pkg{Deps: []string{"!impl-b"}}, []byte("anti\n")),
		mk("huge", "1.0-r0", &synthrepo.Pkg{}, big),
		mk("tiny", "1.0-r0", &synthrepo.Pkg{}, []byte("t\n")),
	}
}

func stageHistory() {
	root, apko := setup("history") // builds the CLI: needs HOME
	os.Unsetenv("HOME")
	os.Unsetenv("XDG_CACHE_HOME")
	if os.Getenv("C01_KEEP") == "" {
		defer os.RemoveAll(root)
	}
	key, err := fixedKey()
	if err != nil {
		fatal("%v", err)
	}
	repo, err := synthrepo.Write(filepath.Join(root, "repo"), key, historyUniverse())
	if err != nil {
		fatal("synthrepo: %v", err)
	}
	w := &gal.Writer{Dir: *outDir, Require: "From Apko Require Import Corr.C01.", Type: "build_case", Check: "check_build", Shard: 100}
	n := 0
	tmp := func() string { n++; return filepath.Join(root, fmt.Sprintf("tmp%03d", n)) }
	spec := func(pkgs ...string) libSpec {
		return libSpec{Repo: repo.Dir, Key: repo.KeyPath(), Packages: pkgs, Arch: "x86_64", TempDir: tmp()}
	}
	refs := map[string]libResult{}
	ref := func(pkgs ...string) libResult {
		k := strings.Join(pkgs, " ")
		if r, ok := refs[k]; ok {
			return r
		}
		r := freshProcessBuild(spec(pkgs...))
		if r.Err != "" {
			fmt.Printf("IMPL-VIOLATION tag=reference-build-fails %s\n", jsonOf(map[string]any{"stage": "history", "packages": pkgs, "error": r.Err}))
		}
		refs[k] = r
		return r
	}

	// ---- process history: what an earlier image of this process ruled out must not reach a later one ------------
	type pair struct {
		why           string
		first, tested []string
	}
	pairs := []pair{
		{"the first image's world constrains a version", []string{"lib<2"}, []string{"app"}},
		{"the first image's dependency constrains a version", []string{"legacy-app"}, []string{"app"}},
		{"the first image picks a provider", []string{"impl-a", "needs-virt"}, []string{"needs-virt"}},
		{"the first image excludes a package", []string{"anti-lib2", "needs-virt"}, []string{"needs-virt", "impl-b"}},
	}
	if *tier == "thorough" {
		pairs = append(pairs,
			pair{"the first image pins the version", []string{"lib=1.0-r0", "app"}, []string{"lib", "app"}},
			pair{"the first image wants the newer version", []string{"lib>1.5"}, []string{"legacy-app"}},
			pair{"the first image is the tested one", []string{"app"}, []string{"app"}},
			pair{"three images", []string{"impl-b"}, []string{"impl-a", "needs-virt"}})
	}
	for _, p := range pairs {
		r := ref(p.tested...)
		if r.Err != "" {
			continue
		}
		first := libBuild(spec(p.first...))
		got := libBuild(spec(p.tested...))
		again := libBuild(spec(p.tested...))
		d := func() map[string]any {
			return map[string]any{"why": p.why, "packages_of_the_image_built_first_in_this_process": p.first, "packages_of_the_image_under_test": p.tested, "first_image_error": first.Err,
				"universe": "lib 1.0-r0 and 2.0-r0; app -> lib; legacy-app -> lib<2; impl-a, impl-b (priority 5) provide virt=1; needs-virt -> virt; anti-lib2 -> !impl-b"}
		}
		w.Add(historyCase("process", "in-one-process-after-another-image", r, got, d()))
		w.Add(historyCase("process", "in-one-process-after-another-image-and-itself", r, again, d()))
	}

	// ---- temp-dir history: a longer earlier result at the path the layer is written to ---------------------------
	{
		r := ref("tiny")
		if r.Err == "" {
			shared := tmp()
			s1 := spec("huge", "app")
			s1.TempDir = shared
			big := libBuild(s1)
			s2 := spec("tiny")
			s2.TempDir = shared
			got := libBuild(s2)
			w.Add(historyCase("temp-dir", "temp-dir-holds-a-longer-earlier-layer", r, got, map[string]any{"packages_of_the_earlier_build": s1.Packages, "packages_of_the_image_under_test": s2.Packages,
				"temp_dir_of_both": shared, "earlier_build_error": big.Err}))
			tb := filepath.Join(tmp(), "layer.tar.gz")
			_ = os.MkdirAll(filepath.Dir(tb), 0o755)
			s3 := spec("huge", "app")
			s3.Tarball = tb
			big2 := libBuild(s3)
			s4 := spec("tiny")
			s4.Tarball = tb
			got2 := libBuild(s4)
			w.Add(historyCase("temp-dir", "tarball-path-holds-a-longer-earlier-layer", r, got2, map[string]any{"packages_of_the_earlier_build": s3.Packages, "packages_of_the_image_under_test": s4.Packages,
				"tarball_path_of_both": tb, "earlier_build_error": big2.Err}))
			// the other direction: a shorter earlier result
			s5 := spec("tiny")
			s5.TempDir = shared
			_ = libBuild(s5)
			rb := ref("huge", "app")
			if rb.Err == "" {
				s6 := spec("huge", "app")
				s6.TempDir = shared
				w.Add(historyCase("temp-dir", "temp-dir-holds-a-shorter-earlier-layer", rb, libBuild(s6), map[string]any{"packages_of_the_earlier_build": s5.Packages, "packages_of_the_image_under_test": s6.Packages, "temp_dir_of_both": shared}))
			}
		}
	}

	// ---- output history: `apko build … out.tar` onto the out.tar of a bigger build ------------------------------------
	{
		cli := func(out string, pkgs ...string) libResult {
			cfg := imageCfg{Name: "output-history", Packages: pkgs, Archs: []string{"x86_64"}, Lean: true}
			y := filepath.Join(root, fmt.Sprintf("cfg%03d.yaml", n))
			n++
			if err := os.WriteFile(y, []byte(cfg.yaml(repo.Dir, repo.KeyPath())), 0o644); err != nil {
				return libResult{Err: err.Error()}
			}
			ctx, cancel := context.WithTimeout(context.Background(), buildTimeout)
			defer cancel()
			cmd := exec.CommandContext(ctx, apko, "build", y, "synth/image:latest", out, "--sbom=false", "--log-level", "error")
			cmd.Env = []string{"PATH=" + os.Getenv("PATH"), "TMPDIR=" + root, "SOURCE_DATE_EPOCH=" + fmt.Sprint(historyDate)}
			if b, err := cmd.CombinedOutput(); err != nil {
				return libResult{Err: fmt.Sprintf("%v: %s", err, tail(string(b), 800))}
			}
			return libResult{}
		}
		observe := func(out string, prefix int) (res libResult, length int) {
			members, order, err := readTar(out)
			if err != nil {
				return libResult{Err: err.Error()}, 0
			}
			var set []string
			for name, b := range members {
				set = append(set, name+" "+sha(b))
			}
			sort.Strings(set)
			b, err := os.ReadFile(out)
			if err != nil {
				return libResult{Err: err.Error()}, 0
			}
			if prefix <= 0 || prefix > len(b) {
				prefix = len(b)
			}
			res.Arts = []artifact{{"index", sha(members["index.json"])}, {"tarball-member-set", sha([]byte(strings.Join(set, "\n")))}, {"tarball-member-order", sha([]byte(strings.Join(order, "\n")))},
				// the bytes a fresh build writes: the first <length of the fresh file> bytes
				{"output-tarball-first-bytes", sha(b[:prefix])},
				{"output-tarball-length", fmt.Sprint(len(b))}, {"output-tarball", sha(b)}}
			return res, len(b)
		}
		fresh := filepath.Join(tmp(), "out.tar")
		_ = os.MkdirAll(filepath.Dir(fresh), 0o755)
		if r := cli(fresh, "tiny"); r.Err != "" {
			fmt.Printf("IMPL-VIOLATION tag=reference-build-fails %s\n", jsonOf(map[string]any{"stage": "history/output", "error": r.Err}))
		} else {
			refRes, refLen := observe(fresh, 0)
			for _, earlier := range [][]string{{"huge", "app"}, {"tiny"}} {
				out := filepath.Join(tmp(), "out.tar")
				_ = os.MkdirAll(filepath.Dir(out), 0o755)
				e := cli(out, earlier...)
				got := cli(out, "tiny")
				if got.Err == "" {
					got, _ = observe(out, refLen)
				}
				dim := "output-path-holds-a-longer-earlier-tarball"
				if len(earlier) == 1 {
					dim = "output-path-holds-the-same-tarball"
				}
				w.Add(historyCase("output-path", dim, refRes, got, map[string]any{"packages_of_the_earlier_build": earlier, "packages_of_the_image_under_test": []string{"tiny"},
					"command": "apko build cfg.yaml synth/image:latest out.tar --sbom=false (twice onto the same out.tar)", "earlier_build_error": e.Err}))
			}
		}
	}
	if err := w.Flush(); err != nil {
		fatal("%v", err)
	}
	fmt.Printf("STAT %s\n", jsonOf(map[string]any{"history_cases": w.Len()}))
}
