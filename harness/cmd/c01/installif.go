package main

// Stage installif: configurations built to trigger what was finding C01-F1
// (install_if packages appended in Go map order; fixed by c03e0c0).
// (1) the real resolver, in process, many fresh resolutions of universes with
// several install_if packages (flat, chains, several triggers): every observed
// order must EQUAL the one order of the model and all runs must agree;
// (2) repeated identical CLI builds of that universe: install order (read
// back from lib/apk/db/installed inside the layer) and image digests.

import (
	"archive/tar"
	"bufio"
	"bytes"
	"compress/gzip"
	"context"
	"fmt"
	"io"
	"os"
	"path/filepath"
	"strings"

	"chainguard.dev/apko/pkg/apk/apk"

	"verifharness/gal"
	"verifharness/synthrepo"
)

// one install_if universe: top depends on the leaf packages Deps; Pkgs are the
// install_if packages in INDEX order (the order of the per-key lists of
// installIfMap); an install_if entry is a name or name=version (every package has
// version 1.0-r0). The index lists the install_if packages, then the leaves, then
// top; the Coq side runs Model/Resolver.v on exactly that universe.
type iiPkg struct {
	Name string   `json:"name"`
	If   []string `json:"install_if"`
}
type iiUniverse struct {
	Kind string   `json:"kind"`
	Deps []string `json:"leaf_dependencies_of_top"`
	Pkgs []iiPkg  `json:"install_if_packages_in_index_order"`
}

func flatUniverse(n int) iiUniverse {
	u := iiUniverse{Kind: fmt.Sprintf("flat-%d", n)}
	for i := 1; i <= n; i++ {
		d := fmt.Sprintf("d%d", i)
		u.Deps = append(u.Deps, d)
		u.Pkgs = append(u.Pkgs, iiPkg{fmt.Sprintf("x%d", i), []string{d}})
	}
	return u
}

// install_if structure the map-order loop could not handle deterministically:
// chains (y1 after x1 after d1, three deep), several triggers per package, a
// package waiting for two appended packages, packages listed in the index
// BEFORE the packages that trigger them, two packages under one key.
func iiUniverses() []iiUniverse {
	us := []iiUniverse{flatUniverse(1), flatUniverse(2), flatUniverse(4)}
	us = append(us, iiUniverse{Kind: "chain", Deps: []string{"d1", "d2", "d3"}, Pkgs: []iiPkg{
		{"z1", []string{"y1"}}, {"y1", []string{"x1"}}, {"x1", []string{"d1"}}, {"x2", []string{"d2"}}, {"y2", []string{"x2"}}, {"x3", []string{"d3"}}}})
	us = append(us, iiUniverse{Kind: "multi-trigger", Deps: []string{"d1", "d2", "d3", "d4"}, Pkgs: []iiPkg{
		{"m12", []string{"d1", "d2"}}, {"m23", []string{"d3", "d2"}}, {"m1234", []string{"d4", "d1", "d3", "d2"}},
		{"mm", []string{"m12", "m23"}}, {"never", []string{"d1", "absent"}}, {"x4", []string{"d4"}}, {"x4b", []string{"d4"}}}})
	us = append(us, iiUniverse{Kind: "chain-and-multi", Deps: []string{"d1", "d2", "d3", "d4"}, Pkgs: []iiPkg{
		{"c3", []string{"c2", "d4"}}, {"c2", []string{"c1"}}, {"c1", []string{"d2"}}, {"x1", []string{"d1"}}, {"x3", []string{"d3"}},
		{"j", []string{"x1", "x3"}}, {"k", []string{"j", "c3"}}, {"x4", []string{"d4"}}}})
	// the CLI universe: every install_if package sorts after "top", so that in the
	// locked world (sorted) they are all still untracked when top is resolved and
	// their install order is the order of the install_if loop
	us = append(us, iiUniverse{Kind: "cli", Deps: []string{"d1", "d2", "d3", "d4"}, Pkgs: []iiPkg{
		{"z", []string{"y12", "y3"}}, {"y12", []string{"x2", "x1"}}, {"y3", []string{"x3"}}, {"x4", []string{"d4"}}, {"x3", []string{"d3"}},
		{"x2", []string{"d2"}}, {"x1", []string{"d1"}}, {"w", []string{"d4", "d1"}}, {"c1", []string{"d2"}}, {"c2", []string{"c1", "z"}},
		{"xv", []string{"x4=1.0-r0"}}, {"xw", []string{"xv=1.0-r0", "d1"}}, {"xn", []string{"x4=3.0-r0"}}}})
	// versioned entries (name=version): one that matches the resolved version, one that does not, a mixed pair,
	// a chain through a versioned entry, a versioned entry naming an appended package
	us = append(us, iiUniverse{Kind: "versioned", Deps: []string{"d1", "d2", "d3"}, Pkgs: []iiPkg{
		{"v1", []string{"d1=1.0-r0"}}, {"v2", []string{"d2=2.0-r0"}}, {"v12", []string{"d1=1.0-r0", "d2"}},
		{"vchain", []string{"v1=1.0-r0"}}, {"v3", []string{"d3=1.0-r0", "v12=1.0-r0"}}, {"vnever", []string{"d3=1.0-r1"}}}})
	// the list under the bare name hides the list under name=version (the loop looks the second up only when
	// the first is absent): b is not installed although its entry matches
	us = append(us, iiUniverse{Kind: "versioned-shadowed", Deps: []string{"d1", "d2"}, Pkgs: []iiPkg{
		{"a", []string{"d1"}}, {"b", []string{"d1=1.0-r0"}}, {"c", []string{"d2=1.0-r0"}}, {"e", []string{"d2=1.0-r0", "d1"}},
		{"f", []string{"a=1.0-r0", "c"}}}})
	return us
}

func resolveOnce(u iiUniverse) ([]string, error) {
	var pkgs []*apk.Package
	// install_if packages first (they come before their triggers in the index), leaves, top
	for _, p := range u.Pkgs {
		pkgs = append(pkgs, &apk.Package{Name: p.Name, Version: "1.0-r0", InstallIf: append([]string(nil), p.If...)})
	}
	for _, d := range u.Deps {
		pkgs = append(pkgs, &apk.Package{Name: d, Version: "1.0-r0"})
	}
	pkgs = append(pkgs, &apk.Package{Name: "top", Version: "1.0-r0", Dependencies: append([]string(nil), u.Deps...)})
	repo := &apk.Repository{URI: "https://example.invalid/c01/x86_64"}
	ix := []apk.NamedIndex{apk.NewNamedRepositoryWithIndex("", repo.WithIndex(&apk.APKIndex{Packages: pkgs}))}
	ctx := context.Background()
	r := apk.NewPkgResolver(ctx, ix)
	got, _, err := r.GetPackagesWithDependencies(ctx, []string{"top"}, nil)
	if err != nil {
		return nil, err
	}
	var names []string
	for _, p := range got {
		names = append(names, p.Name)
	}
	return names, nil
}

// installedOrder reads lib/apk/db/installed from the (single) layer of the
// x86_64 image inside an output tarball.
func installedOrder(outTar string) ([]string, error) {
	members, _, err := readTar(outTar)
	if err != nil {
		return nil, err
	}
	for name, b := range members {
		if !strings.HasSuffix(name, ".tar.gz") {
			continue
		}
		zr, err := gzip.NewReader(bytes.NewReader(b))
		if err != nil {
			return nil, err
		}
		tr := tar.NewReader(zr)
		for {
			h, err := tr.Next()
			if err == io.EOF {
				break
			}
			if err != nil {
				return nil, err
			}
			if h.Name == "lib/apk/db/installed" {
				var names []string
				sc := bufio.NewScanner(tr)
				sc.Buffer(make([]byte, 1<<20), 1<<20)
				for sc.Scan() {
					if strings.HasPrefix(sc.Text(), "P:") {
						names = append(names, sc.Text()[2:])
					}
				}
				return names, nil
			}
		}
	}
	return nil, fmt.Errorf("no lib/apk/db/installed in any layer")
}

func stageInstallIf() {
	w := &gal.Writer{Dir: *outDir, Require: "From Apko Require Import Corr.C01.", Type: "installif_case", Check: "check_installif", Shard: 50}
	// (1) resolver in process
	nres := 60
	if *tier == "thorough" {
		nres = 400
	}
	for _, u := range iiUniverses() {
		var orders [][]string
		seen := map[string]bool{}
		for i := 0; i < nres; i++ {
			o, err := resolveOnce(u)
			if err != nil {
				fmt.Printf("IMPL-VIOLATION tag=resolver-fails-on-install-if-universe %s\n", jsonOf(map[string]any{"universe": u, "error": err.Error()}))
				break
			}
			k := strings.Join(o, " ")
			if !seen[k] {
				seen[k] = true
				orders = append(orders, o)
			}
		}
		w.Add(installIfCase("resolver", u, orders, nil, nres, nil))
	}
	// (2) CLI builds
	root, apko := setup("installif")
	if os.Getenv("C01_KEEP") == "" {
		defer os.RemoveAll(root)
	}
	key, err := fixedKey()
	if err != nil {
		fatal("%v", err)
	}
	cliU := iiUniverses()[6]
	repo, err := synthrepo.Write(filepath.Join(root, "repo"), key, installIfUniverse(cliU))
	if err != nil {
		fatal("synthrepo: %v", err)
	}
	cfg := imageCfg{Name: "install-if", Packages: []string{"top"}, Archs: []string{"x86_64"}, Lean: true}
	e := &env{root: root, apko: apko, repoURL: repo.Dir, keyPath: repo.KeyPath(), cfgName: cfg.Name}
	e.cfgYAML = cfg.yaml(repo.Dir, repo.KeyPath())
	nb := 8
	if *tier == "thorough" {
		nb = 24
	}
	var orders [][]string
	var digests []string
	var cmds []string
	os.Setenv("C01_KEEP", "1") // keep each run's output until it has been read
	for i := 0; i < nb; i++ {
		c := refCell
		c.Dim = "identical-repeat"
		res := e.run(c)
		if res.Err != "" {
			fmt.Printf("IMPL-VIOLATION tag=install-if-build-fails %s\n", jsonOf(map[string]any{"cmd": res.Cmd, "error": res.Err}))
			continue
		}
		out := filepath.Join(root, cfg.Name, fmt.Sprintf("run%03d", e.n), "out.tar")
		o, err := installedOrder(out)
		if err != nil {
			fmt.Printf("IMPL-VIOLATION tag=install-if-build-unreadable %s\n", jsonOf(map[string]any{"cmd": res.Cmd, "error": err.Error()}))
			continue
		}
		_ = os.RemoveAll(filepath.Dir(out))
		d := ""
		for _, a := range res.Arts {
			if a.Role == "amd64/manifest" {
				d = a.Sum
			}
		}
		orders = append(orders, o)
		digests = append(digests, d)
		cmds = append(cmds, res.Cmd)
	}
	w.Add(installIfCase("cli-build", cliU, orders, digests, nb, cmds))
	if err := w.Flush(); err != nil {
		fatal("%v", err)
	}
	distinct := map[string]bool{}
	for _, d := range digests {
		distinct[d] = true
	}
	fmt.Printf("STAT %s\n", jsonOf(map[string]any{"installif_builds": len(digests), "installif_distinct_image_digests": len(distinct)}))
}

func installIfCase(kind string, u iiUniverse, orders [][]string, digests []string, runs int, cmds []string) gal.Case {
	ol := make([]string, len(orders))
	for i, o := range orders {
		ol[i] = gal.StrList(o)
	}
	// the universe in index order (as resolveOnce / installIfUniverse build it); the synthetic repository of the CLI
	// builds gives every package its name as origin, the in-process packages have none
	origin := func(n string) string {
		if kind == "cli-build" {
			return n
		}
		return ""
	}
	var pl []string
	for _, p := range u.Pkgs {
		pl = append(pl, fmt.Sprintf("(RP %s %s %s [] %s)", gal.Str(p.Name), gal.Str("1.0-r0"), gal.Str(origin(p.Name)), gal.StrList(p.If)))
	}
	for _, d := range u.Deps {
		pl = append(pl, fmt.Sprintf("(RP %s %s %s [] [])", gal.Str(d), gal.Str("1.0-r0"), gal.Str(origin(d))))
	}
	pl = append(pl, fmt.Sprintf("(RP %s %s %s %s [])", gal.Str("top"), gal.Str("1.0-r0"), gal.Str(origin("top")), gal.StrList(u.Deps)))
	term := fmt.Sprintf("{| f_kind := %s; f_univ := %s; f_world := %s; f_orders := %s; f_digests := %s |}",
		gal.Str(kind), gal.List(pl), gal.StrList([]string{"top"}), gal.List(ol), gal.StrList(digests))
	desc := map[string]any{"kind": kind, "universe": u, "world": []string{"top"}, "runs": runs, "observed_orders": orders, "image_manifest_digests": digests}
	if len(cmds) > 0 {
		desc["command_line_of_every_build"] = cmds[0]
	}
	return gal.Case{Term: term, Desc: desc, Class: fmt.Sprintf("%s/%s", kind, u.Kind), Trivial: len(u.Pkgs) < 2, Key: fmt.Sprintf("%s/%s", kind, u.Kind)}
}
