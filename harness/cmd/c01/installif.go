package main

// Stage installif: the configuration built to trigger finding C01-F1.
// (1) the real resolver, in process, many fresh resolutions of one universe
// with four install_if packages: every observed order must be an order the
// model produces for SOME iteration order of the dependency map;
// (2) repeated identical CLI builds of that universe: install order (read
// back from lib/apk/db/installed inside the layer) and image digests.

import (
	"archive/tar"
	"bufio"
	"bytes"
	"compress/gzip"
	"context"
	"fmt"
	"io"
	"os"
	"path/filepath"
	"strings"

	"chainguard.dev/apko/pkg/apk/apk"

	"verifharness/gal"
	"verifharness/synthrepo"
)

func resolveOnce(n int) ([]string, error) {
	var pkgs []*apk.Package
	var deps []string
	for i := 1; i <= n; i++ {
		d := fmt.Sprintf("d%d", i)
		deps = append(deps, d)
		pkgs = append(pkgs, &apk.Package{Name: d, Version: "1.0-r0"})
		pkgs = append(pkgs, &apk.Package{Name: fmt.Sprintf("x%d", i), Version: "1.0-r0", InstallIf: []string{d}})
	}
	pkgs = append(pkgs, &apk.Package{Name: "top", Version: "1.0-r0", Dependencies: deps})
	repo := &apk.Repository{URI: "https://example.invalid/c01/x86_64"}
	ix := []apk.NamedIndex{apk.NewNamedRepositoryWithIndex("", repo.WithIndex(&apk.APKIndex{Packages: pkgs}))}
	ctx := context.Background()
	r := apk.NewPkgResolver(ctx, ix)
	got, _, err := r.GetPackagesWithDependencies(ctx, []string{"top"}, nil)
	if err != nil {
		return nil, err
	}
	var names []string
	for _, p := range got {
		names = append(names, p.Name)
	}
	return names, nil
}

// installedOrder reads lib/apk/db/installed from the (single) layer of the
// x86_64 image inside an output tarball.
func installedOrder(outTar string) ([]string, error) {
	members, _, err := readTar(outTar)
	if err != nil {
		return nil, err
	}
	for name, b := range members {
		if !strings.HasSuffix(name, ".tar.gz") {
			continue
		}
		zr, err := gzip.NewReader(bytes.NewReader(b))
		if err != nil {
			return nil, err
		}
		tr := tar.NewReader(zr)
		for {
			h, err := tr.Next()
			if err == io.EOF {
				break
			}
			if err != nil {
				return nil, err
			}
			if h.Name == "lib/apk/db/installed" {
				var names []string
				sc := bufio.NewScanner(tr)
				sc.Buffer(make([]byte, 1<<20), 1<<20)
				for sc.Scan() {
					if strings.HasPrefix(sc.Text(), "P:") {
						names = append(names, sc.Text()[2:])
					}
				}
				return names, nil
			}
		}
	}
	return nil, fmt.Errorf("no lib/apk/db/installed in any layer")
}

func stageInstallIf() {
	w := &gal.Writer{Dir: *outDir, Require: "From Apko Require Import Corr.C01.", Type: "installif_case", Check: "check_installif", Shard: 50}
	// (1) resolver in process
	nres := 60
	if *tier == "thorough" {
		nres = 400
	}
	for _, n := range []int{1, 2, 4} {
		var orders [][]string
		seen := map[string]bool{}
		for i := 0; i < nres; i++ {
			o, err := resolveOnce(n)
			if err != nil {
				fmt.Printf("IMPL-VIOLATION tag=resolver-fails-on-install-if-universe %s\n", jsonOf(map[string]any{"n": n, "error": err.Error()}))
				break
			}
			k := strings.Join(o, " ")
			if !seen[k] {
				seen[k] = true
				orders = append(orders, o)
			}
		}
		w.Add(installIfCase("resolver", n, orders, nil, nres, nil))
	}
	// (2) CLI builds
	root, apko := setup("installif")
	if os.Getenv("C01_KEEP") == "" {
		defer os.RemoveAll(root)
	}
	key, err := fixedKey()
	if err != nil {
		fatal("%v", err)
	}
	repo, err := synthrepo.Write(filepath.Join(root, "repo"), key, installIfUniverse())
	if err != nil {
		fatal("synthrepo: %v", err)
	}
	cfg := imageCfg{Name: "install-if", Packages: []string{"top"}, Archs: []string{"x86_64"}, Lean: true}
	e := &env{root: root, apko: apko, repoURL: repo.Dir, keyPath: repo.KeyPath(), cfgName: cfg.Name}
	e.cfgYAML = cfg.yaml(repo.Dir, repo.KeyPath())
	nb := 8
	if *tier == "thorough" {
		nb = 24
	}
	var orders [][]string
	var digests []string
	var cmds []string
	os.Setenv("C01_KEEP", "1") // keep each run's output until it has been read
	for i := 0; i < nb; i++ {
		c := refCell
		c.Dim = "identical-repeat"
		res := e.run(c)
		if res.Err != "" {
			fmt.Printf("IMPL-VIOLATION tag=install-if-build-fails %s\n", jsonOf(map[string]any{"cmd": res.Cmd, "error": res.Err}))
			continue
		}
		out := filepath.Join(root, cfg.Name, fmt.Sprintf("run%03d", e.n), "out.tar")
		o, err := installedOrder(out)
		if err != nil {
			fmt.Printf("IMPL-VIOLATION tag=install-if-build-unreadable %s\n", jsonOf(map[string]any{"cmd": res.Cmd, "error": err.Error()}))
			continue
		}
		_ = os.RemoveAll(filepath.Dir(out))
		d := ""
		for _, a := range res.Arts {
			if a.Role == "amd64/manifest" {
				d = a.Sum
			}
		}
		orders = append(orders, o)
		digests = append(digests, d)
		cmds = append(cmds, res.Cmd)
	}
	w.Add(installIfCase("cli-build", 4, orders, digests, nb, cmds))
	if err := w.Flush(); err != nil {
		fatal("%v", err)
	}
	distinct := map[string]bool{}
	for _, d := range digests {
		distinct[d] = true
	}
	fmt.Printf("STAT %s\n", jsonOf(map[string]any{"installif_builds": len(digests), "installif_distinct_image_digests": len(distinct)}))
}

func installIfCase(kind string, n int, orders [][]string, digests []string, runs int, cmds []string) gal.Case {
	ol := make([]string, len(orders))
	for i, o := range orders {
		ol[i] = gal.StrList(o)
	}
	term := fmt.Sprintf("{| f_kind := %s; f_n := %s; f_orders := %s; f_digests := %s |}", gal.Str(kind), gal.Nat(n), gal.List(ol), gal.StrList(digests))
	desc := map[string]any{"kind": kind, "install_if_packages": n, "runs": runs, "observed_orders": orders, "image_manifest_digests": digests}
	if len(cmds) > 0 {
		desc["command_line_of_every_build"] = cmds[0]
	}
	return gal.Case{Term: term, Desc: desc, Class: fmt.Sprintf("%s/n=%d", kind, n), Trivial: n < 2, Key: fmt.Sprintf("%s/%d", kind, n)}
}
