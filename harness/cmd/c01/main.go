// c01: harness for property C01 (builds are bit-for-bit reproducible).
//
//	-stage matrix    build the same synthetic configuration with the CLI under a
//	                 matrix of GOMAXPROCS / TMPDIR / cwd / TZ / umask / cache states
//	                 and compare the sha256 of every emitted artifact
//	-stage installif the configuration built to trigger finding C01-F1
//	-stage canon     canonicaliser / schedule models against the real functions
package main

import (
	"flag"
	"fmt"
	"net/http"
	"net/http/httptest"
	"os"
	"path/filepath"
	"runtime/debug"
	"strings"
	"sync/atomic"
	"time"

	"verifharness/gal"
	"verifharness/synthrepo"
)

var (
	outDir = flag.String("out", "", "cases directory")
	seed   = flag.Uint64("seed", 1, "seed")
	tier   = flag.String("tier", "quick", "quick|thorough")
	stage  = flag.String("stage", "matrix", "matrix|installif|canon")
	replay = flag.String("replay", "", "unused")
)

func fatal(f string, a ...any) {
	fmt.Fprintf(os.Stderr, f+"\n", a...)
	os.Exit(2)
}

func verifDir() string {
	if d := os.Getenv("VERIF_DIR"); d != "" {
		return d
	}
	return "/verif"
}
func repoDir() string {
	if d := os.Getenv("VERIF_REPO"); d != "" {
		return d
	}
	return "/repo"
}

func main() {
	flag.Parse()
	if *outDir == "" {
		fatal("-out required")
	}
	defer func() {
		if r := recover(); r != nil {
			fmt.Printf("IMPL-VIOLATION tag=harness-panic {\"panic\":%q}\n", fmt.Sprint(r))
			debug.PrintStack()
			os.Exit(2)
		}
	}()
	switch *stage {
	case "matrix":
		stageMatrix()
	case "installif":
		stageInstallIf()
	case "canon":
		stageCanon()
	case "baseimage":
		stageBaseImage()
	case "history":
		stageHistory()
	case "one-build":
		stageOneBuild()
	default:
		fatal("unknown stage %q", *stage)
	}
}

// setup builds the CLI from the tree under test and a scratch root.
func setup(tag string) (root, apko string) {
	root, err := os.MkdirTemp("", "c01-"+tag+"-")
	if err != nil {
		fatal("%v", err)
	}
	apko = filepath.Join(verifDir(), "build", "bin", "apko-c01-"+tag)
	if err := buildCLI(repoDir(), apko); err != nil {
		fatal("%v", err)
	}
	return root, apko
}

func galArts(as []artifact) string {
	items := make([]string, len(as))
	for i, a := range as {
		items[i] = gal.Pair(gal.Str(a.Role), gal.Str(a.Sum))
	}
	return gal.List(items)
}

func buildCase(cfg string, ref, got buildResult) gal.Case {
	imgs := make([]string, len(got.Images))
	var manifests []string
	for i, im := range got.Images {
		imgs[i] = gal.Pair(gal.Str(im.Config), gal.StrList(im.Layers))
		// BuildIndex appends the image manifests (named by digest) in index order, then index.json
		manifests = append(manifests, im.Manifest)
	}
	var date0 int64
	fmt.Sscan(got.Cell.SDE, &date0)
	term := fmt.Sprintf("{| b_cfg := %s; b_dim := %s; b_group := %s; b_ref := %s; b_got := %s; b_failed := %s; b_members := %s; b_images := %s; b_manifests := %s; b_date0 := %s; b_arch_created := %s; b_index_created := %s |}",
		gal.Str(cfg), gal.Str(got.Cell.Dim), gal.Str(got.Cell.group()), galArts(ref.Arts), galArts(got.Arts), gal.Bool(got.Err != ""),
		gal.StrList(got.Members), gal.List(imgs), gal.StrList(manifests), gal.Z(date0), zList(got.Dates.Arch), zList(got.Dates.Index))
	desc := map[string]any{"configuration": cfg, "dimension": got.Cell.Dim, "group": got.Cell.group(),
		"reference_cmd": ref.Cmd, "this_cmd": got.Cmd, "first_differing_artifact": firstDiff(ref.Arts, got.Arts), "error": got.Err,
		"seconds_between_starts": got.Started.Sub(ref.Started).Seconds(), "created_per_architecture": got.Dates.Arch, "created_index": got.Dates.Index}
	return gal.Case{Term: term, Desc: desc, Class: cfg + "/" + got.Cell.group() + "/" + got.Cell.Dim, Trivial: got.Cell.Dim == "reference", Key: cfg + "|" + got.Cmd}
}

func stageMatrix() {
	root, apko := setup("matrix")
	if os.Getenv("C01_KEEP") == "" {
		defer os.RemoveAll(root)
	} else {
		fmt.Println("keeping", root)
	}
	key, err := fixedKey()
	if err != nil {
		fatal("%v", err)
	}
	w := &gal.Writer{Dir: *outDir, Require: "From Apko Require Import Corr.C01.", Type: "build_case", Check: "check_build", Shard: 80}
	cfgs := mainConfigs()
	reps := 1
	if *tier != "thorough" {
		cfgs = cfgs[:1]
	} else {
		reps = 3
	}
	builds, failed := 0, 0
	var secs float64
	for ci, cfg := range cfgs {
		if buildsTimedOut > 0 {
			break
		}
		repo, err := synthrepo.Write(filepath.Join(root, "repo-"+cfg.Name), key, mainUniverse(*seed, ci))
		if err != nil {
			fatal("synthrepo: %v", err)
		}
		srv := repo.Serve()
		e := &env{root: root, apko: apko, repoURL: srv.URL, keyPath: repo.KeyPath(), cfgName: cfg.Name}
		e.cfgYAML = cfg.yaml(srv.URL, repo.KeyPath())
		rnd := gal.NewRand(*seed*31 + uint64(ci))
		var cells []cell
		if *tier == "thorough" {
			cells = thoroughCells(rnd.Intn)
		} else {
			cells = quickCells()
		}
		refs := map[string]buildResult{}
		for rep := 0; rep < reps && buildsTimedOut == 0; rep++ {
			for _, c := range cells {
				if buildsTimedOut > 0 {
					break
				}
				if c.Dim == "repeat" {
					// make sure the repeat starts in a later wall-clock second than the reference
					if r, ok := refs[c.group()]; ok {
						if d := time.Since(r.Started); d < 1200*time.Millisecond {
							time.Sleep(1200*time.Millisecond - d)
						}
					}
				}
				if rep > 0 {
					c.Dim += fmt.Sprintf("(repetition-%d)", rep)
				}
				res := e.run(c)
				builds++
				secs += res.Seconds
				ref, ok := refs[c.group()]
				if !ok {
					if res.Err != "" {
						// the reference itself fails: nothing to compare with; report and stop
						fmt.Printf("IMPL-VIOLATION tag=reference-build-fails %s\n", jsonOf(map[string]any{"configuration": cfg.Name, "cmd": res.Cmd, "error": res.Err}))
						failed++
						continue
					}
					refs[c.group()] = res
					ref = res
				}
				if res.Err != "" {
					failed++
				}
				w.Add(buildCase(cfg.Name, ref, res))
			}
		}
		srv.Close()
	}
	// ---- architectures out of step -----------------------------------------------------------
	// the newest package build date differs per architecture (no SOURCE_DATE_EPOCH: the multi-architecture date is the maximum
	// over the architectures) and one architecture's packages arrive late, first the one, then the other: which per-architecture
	// build finishes last must not show in the index, its SBOM or the per-image artifacts
	{
		var pkgs []*synthrepo.Pkg
		for i, arch := range archs {
			bt := int64(1700000000 + 50000*i)
			pkgs = append(pkgs,
				&synthrepo.Pkg{Name: "base", Version: "1.0-r0", Arch: arch, Origin: "base", License: "MIT", Description: "base", BuildTime: bt,
					Files: append(dirs("etc", "usr", "usr/bin"), synthrepo.File{Name: "etc/os-release", Mode: 0o644, Content: []byte("ID=synth\nNAME=\"Synth Linux\"\nVERSION_ID=\"1\"\n")})},
				&synthrepo.Pkg{Name: "tool", Version: "2.0-r0", Arch: arch, Origin: "tool", License: "MIT", Description: "tool", BuildTime: bt + 77, Deps: []string{"base"},
					Files: append(dirs("usr", "usr/bin"), synthrepo.File{Name: "usr/bin/tool", Mode: 0o755, Content: []byte("#!/bin/sh\necho tool\n")})})
		}
		repo, err := synthrepo.Write(filepath.Join(root, "repo-archskew"), key, pkgs)
		if err != nil {
			fatal("synthrepo: %v", err)
		}
		var slow atomic.Value
		slow.Store("")
		fsrv := http.FileServer(http.Dir(repo.Dir))
		srv := httptest.NewServer(http.HandlerFunc(func(rw http.ResponseWriter, req *http.Request) {
			if a := slow.Load().(string); a != "" && strings.Contains(req.URL.Path, "/"+a+"/") && strings.HasSuffix(req.URL.Path, ".apk") {
				time.Sleep(700 * time.Millisecond)
			}
			fsrv.ServeHTTP(rw, req)
		}))
		cfg := imageCfg{Name: "arch-skew", Packages: []string{"tool"}, Archs: archs, Lean: true}
		e := &env{root: root, apko: apko, repoURL: srv.URL, keyPath: repo.KeyPath(), cfgName: cfg.Name}
		e.cfgYAML = cfg.yaml(srv.URL, repo.KeyPath())
		var ref buildResult
		for i, a := range []string{archs[0], archs[1], archs[0], ""} {
			if buildsTimedOut > 0 {
				break
			}
			slow.Store(a)
			c := with(refCell, "no-sde+late-architecture="+a, func(c *cell) { c.SDE = "" })
			res := e.run(c)
			builds++
			secs += res.Seconds
			if i == 0 {
				if res.Err != "" {
					fmt.Printf("IMPL-VIOLATION tag=reference-build-fails %s\n", jsonOf(map[string]any{"configuration": cfg.Name, "cmd": res.Cmd, "error": res.Err}))
					failed++
					break
				}
				ref = res
			}
			if res.Err != "" {
				failed++
			}
			w.Add(buildCase(cfg.Name, ref, res))
		}
		srv.Close()
	}
	// ---- two repositories offering the same name and version ---------------------------------------------------
	// a mirror next to the primary repository: `dup` 1.0-r0 is in both, as different files. Which one is installed
	// is decided by the (sorted) repository list — not by which index answers first: each repository's
	// APKINDEX.tar.gz is served late in turn
	if buildsTimedOut == 0 {
		mk := func(name, content string) *synthrepo.Pkg {
			return &synthrepo.Pkg{Name: name, Version: "1.0-r0", Arch: "x86_64", Origin: name, License: "MIT", Description: name, BuildTime: 1700000000,
				Files: append(dirs("usr", "usr/share", "usr/share/"+name), synthrepo.File{Name: "usr/share/" + name + "/f", Mode: 0o644, Content: []byte(content)})}
		}
		mroot := filepath.Join(root, "mirrors")
		ra, err := synthrepo.Write(filepath.Join(mroot, "a"), key, []*synthrepo.Pkg{mk("dup", "the primary repository's build\n"), mk("only-a", "a\n"), mk("both", "same in both\n")})
		if err != nil {
			fatal("synthrepo: %v", err)
		}
		if _, err := synthrepo.Write(filepath.Join(mroot, "b"), key, []*synthrepo.Pkg{mk("dup", "the mirror's build, other bytes\n"), mk("only-b", "b\n"), mk("both", "same in both\n")}); err != nil {
			fatal("synthrepo: %v", err)
		}
		var slow atomic.Value
		slow.Store("")
		fsrv := http.FileServer(http.Dir(mroot))
		srv := httptest.NewServer(http.HandlerFunc(func(rw http.ResponseWriter, req *http.Request) {
			if a := slow.Load().(string); a != "" && strings.HasPrefix(req.URL.Path, "/"+a+"/") && strings.HasSuffix(req.URL.Path, "APKINDEX.tar.gz") {
				time.Sleep(600 * time.Millisecond)
			}
			fsrv.ServeHTTP(rw, req)
		}))
		cfg := imageCfg{Name: "two-repositories", Packages: []string{"dup", "only-a", "only-b", "both"}, Archs: []string{"x86_64"}, Lean: true}
		e := &env{root: root, apko: apko, repoURL: srv.URL, keyPath: ra.KeyPath(), cfgName: cfg.Name}
		e.cfgYAML = cfg.yaml(srv.URL+"/a\n    - "+srv.URL+"/b", ra.KeyPath())
		var ref buildResult
		for i, a := range []string{"", "a", "b", "a"} {
			if buildsTimedOut > 0 {
				break
			}
			slow.Store(a)
			dim := "late-index-of-repository=" + a
			if i == 0 {
				dim = "reference"
			}
			c := with(refCell, dim, func(c *cell) {})
			res := e.run(c)
			builds++
			secs += res.Seconds
			if i == 0 {
				if res.Err != "" {
					fmt.Printf("IMPL-VIOLATION tag=reference-build-fails %s\n", jsonOf(map[string]any{"configuration": cfg.Name, "cmd": res.Cmd, "error": res.Err}))
					failed++
					break
				}
				ref = res
			}
			if res.Err != "" {
				failed++
			}
			w.Add(buildCase(cfg.Name, ref, res))
		}
		srv.Close()
	}
	w.Extra = map[string]any{"builds": builds, "failed_builds": failed, "build_seconds": secs,
		"label": "exploration: repeated real builds compared by sha256; not a proof obligation"}
	if err := w.Flush(); err != nil {
		fatal("%v", err)
	}
	fmt.Printf("STAT %s\n", jsonOf(map[string]any{"matrix_builds": builds, "matrix_failed_builds": failed, "matrix_build_seconds": int(secs)}))
}
