package main

// The build matrix: run the apko CLI (built from the tree under test) on the
// same synthetic configuration under different GOMAXPROCS / TMPDIR / cwd / TZ /
// umask / cache states, and collect the sha256 of every emitted artifact.

import (
	"archive/tar"
	"bytes"
	"context"
	"crypto/sha256"
	"encoding/hex"
	"encoding/json"
	"fmt"
	"io"
	"io/fs"
	"os"
	"os/exec"
	"path/filepath"
	"sort"
	"strings"
	"time"
)

type cell struct {
	Dim    string // which dimension(s) differ from the reference
	Procs  int
	Tmp    int // index of the TMPDIR to use
	Cwd    int // index of the working directory
	TZ     string
	Umask  int
	Cache  string // disabled | cold | warm | offline
	SDE    string // SOURCE_DATE_EPOCH ("" = unset)
	Mode   string // tar | layout | lock | lockbuild
	CacheK int    // which cache directory (warm/offline reuse the one a cold cell filled)
}

func (c cell) group() string { return c.Mode + "/sde=" + c.SDE }

type artifact struct{ Role, Sum string }

type image struct {
	Manifest string // member name of the image manifest (its digest)
	Config   string
	Layers   []string
}

// dates shown by a build: org.opencontainers.image.created of every image manifest (index order) and of the index
type dates struct {
	Arch  []int64
	Index []int64 // one element, or none when the index carries no such annotation
}

type buildResult struct {
	Members []string // names of the output tarball's members, in order
	Images  []image  // per index entry: config and layer member names
	Dates   dates
	Cell    cell
	Cmd     string
	Arts    []artifact
	Err     string
	Seconds float64
	Started time.Time
}

type env struct {
	root    string // scratch root of this harness run
	apko    string // CLI binary
	repoURL string
	keyPath string
	cfgYAML string
	cfgName string
	n       int
}

// far above what a build takes on a loaded machine (seconds)
const buildTimeout = 4 * time.Minute

// builds that did not end; after the first one the matrix stops (one witness is enough, every further one costs the timeout)
var buildsTimedOut int

func sha(b []byte) string { s := sha256.Sum256(b); return hex.EncodeToString(s[:]) }

func shaFile(p string) (string, error) {
	f, err := os.Open(p)
	if err != nil {
		return "", err
	}
	defer f.Close()
	h := sha256.New()
	if _, err := io.Copy(h, f); err != nil {
		return "", err
	}
	return hex.EncodeToString(h.Sum(nil)), nil
}

// buildCLI compiles the apko CLI from the repository under test.
func buildCLI(repo, out string) error {
	cmd := exec.Command("go", "build", "-o", out, ".")
	cmd.Dir = repo
	cmd.Env = append(os.Environ(), "GOFLAGS=-mod=mod", "GOPROXY=off", "GOSUMDB=off", "GOTOOLCHAIN=local", "CGO_ENABLED=0")
	b, err := cmd.CombinedOutput()
	if err != nil {
		return fmt.Errorf("go build apko: %v\n%s", err, b)
	}
	return nil
}

func (e *env) dirFor(kind string, i int) string {
	// deliberately different shapes and depths for the two variants
	names := map[string][]string{
		"tmp": {"t0", "second tmp/with space/deeper"},
		"cwd": {"w0", "other-cwd/x/y/z"},
	}
	d := filepath.Join(e.root, e.cfgName, names[kind][i])
	_ = os.MkdirAll(d, 0o755)
	return d
}

// run executes one cell and hashes everything it emitted.
func (e *env) run(c cell) (res buildResult) {
	e.n++
	res = buildResult{Cell: c, Started: time.Now()}
	work := filepath.Join(e.root, e.cfgName, fmt.Sprintf("run%03d", e.n))
	_ = os.MkdirAll(work, 0o755)
	tmp := e.dirFor("tmp", c.Tmp)
	cwd := e.dirFor("cwd", c.Cwd)
	// the configuration is given by a relative path from the cwd
	if err := os.WriteFile(filepath.Join(cwd, "apko.yaml"), []byte(e.cfgYAML), 0o644); err != nil {
		res.Err = err.Error()
		return res
	}
	sbomDir := filepath.Join(work, "sbom")
	_ = os.MkdirAll(sbomDir, 0o755)
	cacheDir := filepath.Join(e.root, e.cfgName, fmt.Sprintf("cache%d", c.CacheK))
	var args []string
	out := filepath.Join(work, "out.tar")
	lockPath := filepath.Join(e.root, e.cfgName, "ref.lock.json")
	switch c.Mode {
	case "tar":
		args = []string{"build", "apko.yaml", "synth/image:latest", out, "--sbom-path", sbomDir}
	case "layout":
		out = filepath.Join(work, "layout")
		_ = os.MkdirAll(out, 0o755)
		args = []string{"build", "apko.yaml", "synth/image:latest", out, "--sbom-path", sbomDir}
	case "lock":
		out = filepath.Join(work, "apko.lock.json")
		args = []string{"lock", "apko.yaml", "--output", out}
	case "lockbuild":
		args = []string{"build", "apko.yaml", "synth/image:latest", out, "--sbom-path", sbomDir, "--lockfile", lockPath}
	}
	envv := []string{"PATH=" + os.Getenv("PATH"), "TMPDIR=" + tmp, "GOMAXPROCS=" + fmt.Sprint(c.Procs)}
	if c.TZ != "" {
		envv = append(envv, "TZ="+c.TZ)
	}
	if c.SDE != "" {
		envv = append(envv, "SOURCE_DATE_EPOCH="+c.SDE)
	}
	switch c.Cache {
	case "disabled":
		// no HOME, no XDG_CACHE_HOME: os.UserCacheDir fails and apko runs without a cache
	case "cold":
		_ = os.RemoveAll(cacheDir)
		args = append(args, "--cache-dir", cacheDir)
	case "warm":
		args = append(args, "--cache-dir", cacheDir)
	case "offline":
		args = append(args, "--cache-dir", cacheDir, "--offline")
	}
	args = append(args, "--log-level", "error")
	quoted := make([]string, len(args))
	for i, a := range args {
		quoted[i] = "'" + strings.ReplaceAll(a, "'", `'\''`) + "'"
	}
	script := fmt.Sprintf("umask %03o; exec '%s' %s", c.Umask, e.apko, strings.Join(quoted, " "))
	// a build that never ends (a blocked goroutine group, say) is a failed build, not a hung harness
	ctx, cancel := context.WithTimeout(context.Background(), buildTimeout)
	defer cancel()
	cmd := exec.CommandContext(ctx, "/bin/sh", "-c", script)
	cmd.WaitDelay = 5 * time.Second
	cmd.Dir = cwd
	cmd.Env = envv
	res.Cmd = fmt.Sprintf("cd '%s' && env -i %s /bin/sh -c \"%s\"", cwd, strings.Join(quoteEnv(envv), " "), script)
	var stderr bytes.Buffer
	cmd.Stdout, cmd.Stderr = &stderr, &stderr
	t0 := time.Now()
	err := cmd.Run()
	res.Seconds = time.Since(t0).Seconds()
	if ctx.Err() != nil {
		buildsTimedOut++
		res.Err = fmt.Sprintf("the build did not end within %v: %s", buildTimeout, tail(stderr.String(), 1500))
		return res
	}
	if err != nil {
		res.Err = fmt.Sprintf("%v: %s", err, tail(stderr.String(), 1500))
		return res
	}
	var arts []artifact
	add := func(role, sum string) { arts = append(arts, artifact{role, sum}) }
	switch c.Mode {
	case "lock":
		s, err := shaFile(out)
		if err != nil {
			res.Err = err.Error()
			return res
		}
		add("lock.json", s)
		if _, err := os.Stat(lockPath); err != nil {
			b, _ := os.ReadFile(out)
			_ = os.WriteFile(lockPath, b, 0o644)
		}
	case "tar", "lockbuild":
		whole, err := shaFile(out)
		if err != nil {
			res.Err = err.Error()
			return res
		}
		members, order, err := readTar(out)
		if err != nil {
			res.Err = "reading output tarball: " + err.Error()
			return res
		}
		res.Members = order
		if err := indexRoles(members["index.json"], func(d string) ([]byte, bool) {
			if b, ok := members[d]; ok { // manifests and configs: "sha256:<hex>"
				return b, true
			}
			b, ok := members[strings.TrimPrefix(d, "sha256:")+".tar.gz"] // layers
			return b, ok
		}, add, &res.Images, &res.Dates); err != nil {
			res.Err = "output tarball: " + err.Error()
			return res
		}
		if m, ok := members["manifest.json"]; ok {
			add("docker-manifest.json", sha(m))
		}
		var set []string
		for n, b := range members {
			set = append(set, n+" "+sha(b))
		}
		sort.Strings(set)
		add("tarball-member-set", sha([]byte(strings.Join(set, "\n"))))
		add("tarball-member-count", fmt.Sprint(len(order)))
		defer func() {
			// least specific last, so that the first differing artifact is the most specific one
			if res.Err == "" {
				res.Arts = append(res.Arts, artifact{"tarball-member-order", sha([]byte(strings.Join(order, "\n")))}, artifact{"output-tarball", whole})
			}
		}()
	case "layout":
		idx, err := os.ReadFile(filepath.Join(out, "index.json"))
		if err != nil {
			res.Err = err.Error()
			return res
		}
		// the layout's index.json points at the image index blob
		// layout.Write stores the image index itself as the layout's index.json
		blob := func(d string) ([]byte, bool) {
			b, err := os.ReadFile(filepath.Join(out, "blobs", "sha256", strings.TrimPrefix(d, "sha256:")))
			return b, err == nil
		}
		if err := indexRoles(idx, blob, add, nil, &res.Dates); err != nil {
			res.Err = "layout: " + err.Error()
			return res
		}
		// and the whole tree: every path with its hash and permission bits
		var lines []string
		_ = filepath.WalkDir(out, func(p string, d fs.DirEntry, err error) error {
			if err != nil || d.IsDir() {
				return nil
			}
			s, _ := shaFile(p)
			rel, _ := filepath.Rel(out, p)
			lines = append(lines, rel+" "+s)
			return nil
		})
		sort.Strings(lines)
		add("layout-tree", sha([]byte(strings.Join(lines, "\n"))))
		add("layout-file-count", fmt.Sprint(len(lines)))
	}
	if c.Mode != "lock" {
		ents, _ := os.ReadDir(sbomDir)
		var names []string
		for _, en := range ents {
			names = append(names, en.Name())
		}
		sort.Strings(names)
		add("sbom-file-list", strings.Join(names, ","))
		for _, n := range names {
			s, _ := shaFile(filepath.Join(sbomDir, n))
			add(n, s)
		}
	}
	res.Arts = arts
	if os.Getenv("C01_KEEP") == "" {
		_ = os.RemoveAll(work)
	}
	return res
}

func quoteEnv(envv []string) []string {
	out := make([]string, len(envv))
	for i, kv := range envv {
		out[i] = "'" + kv + "'"
	}
	return out
}

func tail(s string, n int) string {
	if len(s) > n {
		return s[len(s)-n:]
	}
	return s
}

func readTar(p string) (map[string][]byte, []string, error) {
	f, err := os.Open(p)
	if err != nil {
		return nil, nil, err
	}
	defer f.Close()
	tr := tar.NewReader(f)
	m := map[string][]byte{}
	var order []string
	for {
		h, err := tr.Next()
		if err == io.EOF {
			break
		}
		if err != nil {
			return nil, nil, err
		}
		b, err := io.ReadAll(tr)
		if err != nil {
			return nil, nil, err
		}
		m[h.Name] = b
		order = append(order, h.Name)
	}
	return m, order, nil
}

// indexRoles walks index -> per-architecture manifest -> config, layers and
// reports the sha256 of the bytes actually found under each role.
func createdOf(ann map[string]string) (int64, bool) {
	t, err := time.Parse(time.RFC3339, ann["org.opencontainers.image.created"])
	if err != nil {
		return 0, false
	}
	return t.Unix(), true
}

func indexRoles(index []byte, blob func(digest string) ([]byte, bool), add func(role, sum string), images *[]image, dts *dates) error {
	if index == nil {
		return fmt.Errorf("no index.json")
	}
	var ix struct {
		Manifests []struct {
			Digest   string
			Platform struct{ Architecture, Variant string }
		} `json:"manifests"`
		Annotations map[string]string `json:"annotations"`
	}
	if err := json.Unmarshal(index, &ix); err != nil {
		return err
	}
	if t, ok := createdOf(ix.Annotations); ok && dts != nil {
		dts.Index = []int64{t}
	}
	// leaves first (layers, config, manifest, then the index), so that the first
	// differing artifact is the most specific one
	for _, m := range ix.Manifests {
		arch := m.Platform.Architecture + m.Platform.Variant
		mb, ok := blob(m.Digest)
		if !ok {
			return fmt.Errorf("manifest %s (%s) not found", m.Digest, arch)
		}
		var im struct {
			Config      struct{ Digest string }
			Layers      []struct{ Digest string }
			Annotations map[string]string `json:"annotations"`
		}
		if err := json.Unmarshal(mb, &im); err != nil {
			return err
		}
		if dts != nil {
			if t, ok := createdOf(im.Annotations); ok {
				dts.Arch = append(dts.Arch, t)
			} else {
				dts.Index = nil // an image without the annotation: nothing to compare the index date with
				dts = nil
			}
		}
		img := image{Manifest: m.Digest, Config: im.Config.Digest}
		for _, l := range im.Layers {
			img.Layers = append(img.Layers, strings.TrimPrefix(l.Digest, "sha256:")+".tar.gz")
		}
		if images != nil {
			*images = append(*images, img)
		}
		add(arch+"/layer-count", fmt.Sprint(len(im.Layers)))
		for i, l := range im.Layers {
			lb, ok := blob(l.Digest)
			if !ok {
				return fmt.Errorf("layer %s (%s) not found", l.Digest, arch)
			}
			add(fmt.Sprintf("%s/layer[%d]", arch, i), sha(lb))
		}
		cb, ok := blob(im.Config.Digest)
		if !ok {
			return fmt.Errorf("config %s (%s) not found", im.Config.Digest, arch)
		}
		add(arch+"/config", sha(cb))
		add(arch+"/manifest", sha(mb))
	}
	var order []string
	for _, m := range ix.Manifests {
		order = append(order, m.Platform.Architecture+m.Platform.Variant)
	}
	add("index-platform-order", strings.Join(order, ","))
	add("index", sha(index))
	return nil
}

// firstDiff returns the first role whose value differs (or is missing).
func firstDiff(a, b []artifact) string {
	for i := range a {
		if i >= len(b) {
			return a[i].Role + " (missing)"
		}
		if a[i] != b[i] {
			if a[i].Role != b[i].Role {
				return a[i].Role + " vs " + b[i].Role
			}
			return a[i].Role
		}
	}
	if len(b) > len(a) {
		return b[len(a)].Role + " (extra)"
	}
	return ""
}

var refCell = cell{Dim: "reference", Procs: 16, Tmp: 0, Cwd: 0, TZ: "UTC", Umask: 0o022, Cache: "disabled", SDE: "1712345678", Mode: "tar"}

func with(c cell, dim string, f func(*cell)) cell { c.Dim = dim; f(&c); return c }

// quickCells: the most different corners in few builds.
func quickCells() []cell {
	r := refCell
	return []cell{
		r,
		with(r, "procs+tmpdir+cwd+tz+umask+cache-cold", func(c *cell) {
			c.Procs, c.Tmp, c.Cwd, c.TZ, c.Umask, c.Cache, c.CacheK = 1, 1, 1, "America/Los_Angeles", 0o077, "cold", 1
		}),
		with(r, "procs+tz+umask+cache-warm+layout", func(c *cell) {
			c.Procs, c.TZ, c.Umask, c.Cache, c.CacheK, c.Mode = 2, "Asia/Kolkata", 0, "warm", 1, "layout"
		}),
		with(r, "tmpdir+cache-offline", func(c *cell) { c.Tmp, c.Cache, c.CacheK = 1, "offline", 1 }),
		with(r, "no-sde", func(c *cell) { c.SDE = "" }),
		with(r, "no-sde+procs+tz+cwd", func(c *cell) { c.SDE, c.Procs, c.TZ, c.Cwd = "", 1, "Pacific/Auckland", 1 }),
		with(r, "lock", func(c *cell) { c.Mode = "lock" }),
		with(r, "lock+procs+cwd+tz+umask", func(c *cell) { c.Mode, c.Procs, c.Cwd, c.TZ, c.Umask = "lock", 1, 1, "Asia/Tokyo", 0o077 }),
		with(r, "lockbuild", func(c *cell) { c.Mode = "lockbuild" }),
		with(r, "lockbuild+procs+tmpdir+cache-cold", func(c *cell) { c.Mode, c.Procs, c.Tmp, c.Cache, c.CacheK = "lockbuild", 2, 1, "cold", 2 }),
		with(r, "repeat", func(c *cell) {}), // identical command line, later in time
	}
}

// thoroughCells: every dimension swept on its own from the reference, for
// every output mode that the dimension can influence, plus seeded random
// combinations; the caller repeats the whole list.
func thoroughCells(rnd func(int) int) []cell {
	r := refCell
	var cs []cell
	cs = append(cs, r)
	for _, p := range []int{1, 2} {
		cs = append(cs, with(r, "procs", func(c *cell) { c.Procs = p }))
	}
	cs = append(cs, with(r, "tmpdir", func(c *cell) { c.Tmp = 1 }))
	cs = append(cs, with(r, "cwd", func(c *cell) { c.Cwd = 1 }))
	for _, tz := range []string{"America/Los_Angeles", "Asia/Kolkata", ""} {
		cs = append(cs, with(r, "tz", func(c *cell) { c.TZ = tz }))
	}
	for _, u := range []int{0, 0o077} {
		cs = append(cs, with(r, "umask", func(c *cell) { c.Umask = u }))
	}
	cs = append(cs, with(r, "cache-cold", func(c *cell) { c.Cache, c.CacheK = "cold", 1 }))
	cs = append(cs, with(r, "cache-warm", func(c *cell) { c.Cache, c.CacheK = "warm", 1 }))
	cs = append(cs, with(r, "cache-offline", func(c *cell) { c.Cache, c.CacheK = "offline", 1 }))
	cs = append(cs, with(r, "layout", func(c *cell) { c.Mode = "layout" }))
	cs = append(cs, with(r, "layout+procs+umask", func(c *cell) { c.Mode, c.Procs, c.Umask = "layout", 1, 0o077 }))
	// without SOURCE_DATE_EPOCH: dates come from the packages
	cs = append(cs, with(r, "no-sde", func(c *cell) { c.SDE = "" }))
	cs = append(cs, with(r, "no-sde+procs", func(c *cell) { c.SDE, c.Procs = "", 1 }))
	cs = append(cs, with(r, "no-sde+tz", func(c *cell) { c.SDE, c.TZ = "", "America/Los_Angeles" }))
	cs = append(cs, with(r, "no-sde+cache-warm", func(c *cell) { c.SDE, c.Cache, c.CacheK = "", "warm", 1 }))
	// lock files and builds from the lock file
	cs = append(cs, with(r, "lock", func(c *cell) { c.Mode = "lock" }))
	cs = append(cs, with(r, "lock+procs", func(c *cell) { c.Mode, c.Procs = "lock", 1 }))
	cs = append(cs, with(r, "lock+cwd+tz", func(c *cell) { c.Mode, c.Cwd, c.TZ = "lock", 1, "Asia/Tokyo" }))
	cs = append(cs, with(r, "lock+cache-warm", func(c *cell) { c.Mode, c.Cache, c.CacheK = "lock", "warm", 1 }))
	cs = append(cs, with(r, "lockbuild", func(c *cell) { c.Mode = "lockbuild" }))
	cs = append(cs, with(r, "lockbuild+procs", func(c *cell) { c.Mode, c.Procs = "lockbuild", 1 }))
	cs = append(cs, with(r, "lockbuild+cache-offline", func(c *cell) { c.Mode, c.Cache, c.CacheK = "lockbuild", "offline", 1 }))
	// random combinations
	for i := 0; i < 8; i++ {
		cs = append(cs, with(r, "random-combination", func(c *cell) {
			c.Procs = []int{1, 2, 16}[rnd(3)]
			c.Tmp, c.Cwd = rnd(2), rnd(2)
			c.TZ = []string{"UTC", "America/Los_Angeles", "Asia/Kolkata", "Pacific/Auckland"}[rnd(4)]
			c.Umask = []int{0, 0o022, 0o077}[rnd(3)]
			c.Cache = []string{"disabled", "warm", "offline", "cold"}[rnd(4)]
			c.CacheK = 1
			if c.Cache == "cold" {
				c.CacheK = 3
			}
			c.Mode = []string{"tar", "tar", "layout", "lockbuild"}[rnd(4)]
		}))
	}
	cs = append(cs, with(r, "repeat", func(c *cell) {}))
	return cs
}
