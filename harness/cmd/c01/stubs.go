package main

func stageInstallIf() {}
func stageCanon()     {}
