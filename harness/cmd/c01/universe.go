package main

// Synthetic repositories and image configurations for the C01 build matrix.
// Everything is a function of the seed: the RSA key is a fixed test key, the
// file contents come from a splitmix generator, so the repository bytes are
// the same on every run (only the HTTP port in the repository URL varies).

import (
	"archive/tar"
	"crypto/rsa"
	"crypto/x509"
	_ "embed"
	"encoding/pem"
	"fmt"
	"sort"
	"strings"

	"verifharness/gal"
	"verifharness/synthrepo"
)

//go:embed testkey.pem
var testKeyPEM []byte

const keyName = "c01@verif-0001.rsa.pub"

func fixedKey() (*synthrepo.Key, error) {
	blk, _ := pem.Decode(testKeyPEM)
	if blk == nil {
		return nil, fmt.Errorf("testkey.pem: no PEM block")
	}
	k, err := x509.ParsePKCS8PrivateKey(blk.Bytes)
	if err != nil {
		return nil, err
	}
	priv, ok := k.(*rsa.PrivateKey)
	if !ok {
		return nil, fmt.Errorf("testkey.pem: not RSA")
	}
	der, err := x509.MarshalPKIXPublicKey(&priv.PublicKey)
	if err != nil {
		return nil, err
	}
	return &synthrepo.Key{Name: keyName, Priv: priv, Pub: pem.EncodeToMemory(&pem.Block{Type: "PUBLIC KEY", Bytes: der})}, nil
}

var archs = []string{"x86_64", "aarch64"}

// blob returns n bytes that compress a little but not to nothing (so that
// pgzip really has several 1 MiB blocks of work on the big files).
func blob(r *gal.Rand, n int) []byte {
	b := make([]byte, n)
	var w uint64
	for i := range b {
		if i%8 == 0 {
			w = r.U64()
		}
		if i%64 < 40 {
			b[i] = byte('a' + (w>>(uint(i%8)*8))%16)
		} else {
			b[i] = byte(w >> (uint(i%8) * 8))
		}
	}
	return b
}

func dir(name string) synthrepo.File {
	return synthrepo.File{Name: name, Type: tar.TypeDir, Mode: 0o755}
}
func dirs(names ...string) []synthrepo.File {
	out := []synthrepo.File{}
	for _, n := range names {
		out = append(out, dir(n))
	}
	return out
}

// mainUniverse: many packages, several origins, three origin groups of equal
// installed size (the layering tie-break), a replaces edge between two
// origins (group merge), xattrs, hard links, symlinks, empty directories,
// setuid/setgid/sticky bits, non-root owners, a busybox with a paths file, an
// os-release, files above pgzip's 1 MiB block size. NO install_if package:
// that mechanism is the recorded finding C01-F1 and has its own universe.
func mainUniverse(seed uint64, variant int) []*synthrepo.Pkg {
	var pkgs []*synthrepo.Pkg
	for _, arch := range archs {
		r := gal.NewRand(seed*7919 + uint64(variant)) // same contents for both archs except where arch is written in
		add := func(p *synthrepo.Pkg) {
			p.Arch = arch
			if p.License == "" {
				p.License = "MIT"
			}
			if p.Description == "" {
				p.Description = p.Name + " (synthetic)"
			}
			p.URL = "https://example.invalid/" + p.Name
			p.Maintainer = "verif <verif@example.invalid>"
			p.Commit = fmt.Sprintf("%040x", r.U64())
			pkgs = append(pkgs, p)
		}
		add(&synthrepo.Pkg{Name: "base", Version: "1.0-r0", Origin: "base", BuildTime: 1700000000,
			Files: append(dirs("etc", "usr", "usr/bin", "usr/lib", "var", "var/empty", "tmp"),
				synthrepo.File{Name: "etc/os-release", Mode: 0o644, Content: []byte("ID=synth\nNAME=\"Synth Linux\"\nPRETTY_NAME=\"Synth\"\nVERSION_ID=\"1\"\nHOME_URL=\"https://example.invalid\"\n")},
				synthrepo.File{Name: "etc/base.conf", Mode: 0o600, Content: []byte("arch=" + arch + "\n")},
				synthrepo.File{Name: "tmp/.keep", Mode: 0o644, Content: nil},
			)})
		pkgs[len(pkgs)-1].Files[6].Mode = 0o1777 // tmp: sticky
		add(&synthrepo.Pkg{Name: "busybox", Version: "1.36.1-r2", Origin: "busybox", BuildTime: 1700000500, Deps: []string{"base"},
			Provides: []string{"cmd:busybox=1.36.1-r2", "cmd:sh=1.36.1-r2"},
			Files: append(dirs("bin", "etc", "etc/busybox-paths.d"),
				synthrepo.File{Name: "bin/busybox", Mode: 0o4755, Content: blob(r, 70000)},
				synthrepo.File{Name: "etc/busybox-paths.d/busybox", Mode: 0o644, Content: []byte("/bin/busybox\n/bin/sh\n/bin/ls\n/usr/bin/env\n/usr/sbin/chroot\n")},
			)})
		add(&synthrepo.Pkg{Name: "libfoo", Version: "2.0-r1", Origin: "foo", BuildTime: 1700001000, Deps: []string{"base"},
			Provides: []string{"so:libfoo.so.2=2.0"},
			Files: append(dirs("usr", "usr/lib"),
				synthrepo.File{Name: "usr/lib/libfoo.so.2.0", Mode: 0o755, Content: blob(r, 40000)},
				synthrepo.File{Name: "usr/lib/libfoo.so.2", Type: tar.TypeSymlink, Linkname: "libfoo.so.2.0", Mode: 0o777},
			)})
		add(&synthrepo.Pkg{Name: "foo", Version: "2.0-r1", Origin: "foo", BuildTime: 1700001001, Deps: []string{"so:libfoo.so.2", "busybox"},
			Provides: []string{"cmd:foo=2.0-r1"},
			Files: append(dirs("usr", "usr/bin", "usr/libexec", "usr/libexec/foo"),
				synthrepo.File{Name: "usr/bin/foo", Mode: 0o755, Content: blob(r, 12345), Xattrs: map[string]string{"security.capability": "\x01\x00\x00\x02\x00\x04\x00\x00", "user.synth": "v1"}},
				synthrepo.File{Name: "usr/bin/foo-alias", Type: tar.TypeLink, Linkname: "usr/bin/foo", Mode: 0o755},
				synthrepo.File{Name: "usr/libexec/foo/helper", Mode: 0o2755, UID: 0, GID: 42, Content: []byte("#!/bin/sh\nexit 0\n")},
			)})
		add(&synthrepo.Pkg{Name: "foo-doc", Version: "2.0-r1", Origin: "foo", BuildTime: 1700001002,
			Files: append(dirs("usr", "usr/share", "usr/share/doc", "usr/share/doc/foo"),
				synthrepo.File{Name: "usr/share/doc/foo/README", Mode: 0o644, Content: []byte(strings.Repeat("read me\n", 100))},
			)})
		// three origins with identical installed size: the tiebreaker decides
		tie := func(name, ver string, extra ...synthrepo.File) {
			add(&synthrepo.Pkg{Name: name, Version: ver, Origin: name, BuildTime: 1700002000, Deps: []string{"base"},
				Files: append(append(dirs("usr", "usr/bin", "usr/share", "usr/share/"+name),
					synthrepo.File{Name: "usr/bin/" + name, Mode: 0o755, Content: blob(r, 5000)},
					synthrepo.File{Name: "usr/share/" + name + "/config", Mode: 0o644, Content: blob(r, 1000)}), extra...)})
		}
		tie("bar", "3.1-r0")
		tie("baz", "0.9-r4", synthrepo.File{Name: "var", Type: tar.TypeDir, Mode: 0o755}, synthrepo.File{Name: "var/spool", Type: tar.TypeDir, Mode: 0o755},
			synthrepo.File{Name: "var/spool/baz", Type: tar.TypeDir, Mode: 0o2775, UID: 100, GID: 101, Xattrs: map[string]string{"user.dirattr": "d"}})
		tie("qux", "1.2.3-r0", synthrepo.File{Name: "var", Type: tar.TypeDir, Mode: 0o755}, synthrepo.File{Name: "var/lib", Type: tar.TypeDir, Mode: 0o755},
			synthrepo.File{Name: "var/lib/qux", Type: tar.TypeDir, Mode: 0o700, UID: 65532, GID: 65532}, synthrepo.File{Name: "var/log", Type: tar.TypeDir, Mode: 0o755}, synthrepo.File{Name: "var/log/qux", Type: tar.TypeDir, Mode: 0o750})
		// replaces across origins: the two origin groups are merged by the layering
		add(&synthrepo.Pkg{Name: "replacer", Version: "1.0-r0", Origin: "rep", BuildTime: 1700003000, Deps: []string{"bar"}, Replaces: []string{"bar"},
			Files: append(dirs("usr", "usr/share", "usr/share/bar"),
				synthrepo.File{Name: "usr/share/bar/config", Mode: 0o644, Content: []byte("replaced\n")},
			)})
		// big files: several pgzip blocks
		add(&synthrepo.Pkg{Name: "data-a", Version: "2024.1-r0", Origin: "data", BuildTime: 1700004000,
			Files: append(dirs("usr", "usr/share", "usr/share/data"),
				synthrepo.File{Name: "usr/share/data/a.bin", Mode: 0o644, Content: blob(r, 3<<20+12345)},
			)})
		add(&synthrepo.Pkg{Name: "data-b", Version: "2024.1-r0", Origin: "data", BuildTime: 1700004001, Deps: []string{"data-a"},
			Files: append(dirs("usr", "usr/share", "usr/share/data"),
				synthrepo.File{Name: "usr/share/data/b.bin", Mode: 0o644, Content: blob(r, 1<<20+1)},
				synthrepo.File{Name: "usr/share/data/b.lnk", Type: tar.TypeLink, Linkname: "usr/share/data/b.bin", Mode: 0o644},
			)})
		// many small libraries over seven origins; pairs of equal size
		var libs []string
		nlibs := 20 + 4*variant
		for i := 0; i < nlibs; i++ {
			name := fmt.Sprintf("lib%02d", i)
			libs = append(libs, name)
			deps := []string{"base"}
			if i > 0 {
				deps = append(deps, fmt.Sprintf("lib%02d", r.Intn(i)))
			}
			add(&synthrepo.Pkg{Name: name, Version: fmt.Sprintf("0.%d.%d-r%d", i, variant, i%3), Origin: fmt.Sprintf("o%d", i%7), BuildTime: 1700005000 + int64(i), Deps: deps,
				Files: append(dirs("usr", "usr/lib", "usr/lib/"+name),
					synthrepo.File{Name: "usr/lib/" + name + "/" + name + ".so", Mode: 0o755, Content: blob(r, 2000+(i/2)*100)},
					synthrepo.File{Name: "usr/lib/" + name + "/current", Type: tar.TypeSymlink, Linkname: name + ".so", Mode: 0o777},
				)})
		}
		// the service-bundle entrypoint adds "s6" to the world
		add(&synthrepo.Pkg{Name: "s6", Version: "2.12.0.3-r1", Origin: "s6", BuildTime: 1700006000, Deps: []string{"base"},
			Files: append(dirs("bin", "sv"),
				synthrepo.File{Name: "bin/s6-svscan", Mode: 0o755, Content: blob(r, 3000)},
			)})
		add(&synthrepo.Pkg{Name: "meta", Version: "1-r0", Origin: "meta", BuildTime: 1700009999,
			Deps: append([]string{"foo", "baz", "qux", "data-b"}, libs...)})
	}
	return pkgs
}

// installIfUniverse: a configuration built to trigger what was C01-F1. top
// depends on the leaves; the install_if packages (chains, several triggers)
// stand BEFORE their triggers in the index.
func installIfUniverse(u iiUniverse) []*synthrepo.Pkg {
	var pkgs []*synthrepo.Pkg
	mk := func(name string, p *synthrepo.Pkg) {
		p.Name, p.Version, p.Arch, p.Origin, p.License, p.BuildTime = name, "1.0-r0", "x86_64", name, "MIT", 1700000000
		p.Files = append(dirs("usr", "usr/share", "usr/share/"+name), synthrepo.File{Name: "usr/share/" + name + "/f", Mode: 0o644, Content: []byte(name + "\n")})
		pkgs = append(pkgs, p)
	}
	for _, p := range u.Pkgs {
		mk(p.Name, &synthrepo.Pkg{InstallIf: append([]string(nil), p.If...)})
	}
	for _, d := range u.Deps {
		mk(d, &synthrepo.Pkg{})
	}
	mk("top", &synthrepo.Pkg{Deps: append([]string(nil), u.Deps...)})
	return pkgs
}

type imageCfg struct {
	Name     string
	Packages []string
	Layering int // 0 = single layer, otherwise the budget
	Archs    []string
	Services bool
	Lean     bool // few extras (third configuration)
}

func (c imageCfg) yaml(repo, key string) string {
	var b strings.Builder
	fmt.Fprintf(&b, "contents:\n  repositories:\n    - %s\n  keyring:\n    - %s\n  packages:\n", repo, key)
	for _, p := range c.Packages {
		fmt.Fprintf(&b, "    - %s\n", p)
	}
	if c.Lean {
		fmt.Fprintf(&b, "cmd: /bin/true\nenvironment:\n  ONLY: one\n")
	} else {
		b.WriteString(`entrypoint:
  command: /usr/bin/foo --serve "two words"
cmd: --help
stop-signal: SIGTERM
work-dir: /srv
volumes:
  - /data
  - /cache
  - /a
environment:
  ZED: last
  ALPHA: first
  PATH: /usr/bin:/bin
  LANG: C.UTF-8
  EMPTY: ""
  alpha: lower
annotations:
  org.example.zz: "1"
  org.example.aa: "2"
  org.example.mm: "3"
accounts:
  groups:
    - groupname: web
      gid: 101
      members: [app, extra]
    - groupname: app
      gid: 1000
    - groupname: games
      gid: 42
  users:
    - username: app
      uid: 1000
      gid: 1000
      homedir: /home/app
      shell: /bin/sh
    - username: spool
      uid: 100
      gid: 101
    - username: nonroot
      uid: 65532
      gid: 1000
  run-as: app
paths:
  - path: /srv
    type: directory
    uid: 1000
    gid: 1000
    permissions: 0o750
  - path: /srv/empty.txt
    type: empty-file
    uid: 1000
    gid: 1000
    permissions: 0o640
  - path: /srv/link
    type: symlink
    source: /usr/bin/foo
  - path: /srv/hard
    type: hardlink
    source: /etc/base.conf
  - path: /usr/share/doc
    type: permissions
    uid: 65532
    gid: 65532
    permissions: 0o555
    recursive: true
`)
	}
	if c.Services {
		b.WriteString("entrypoint:\n  type: service-bundle\n  services:\n    zeta: /usr/bin/foo z\n    alpha: /usr/bin/foo a\n    mid: /usr/bin/bar\n    beta: /usr/bin/baz\n")
	}
	if c.Layering > 0 {
		fmt.Fprintf(&b, "layering:\n  strategy: origin\n  budget: %d\n", c.Layering)
	}
	fmt.Fprintf(&b, "archs:\n")
	as := append([]string{}, c.Archs...)
	sort.Strings(as)
	for _, a := range as {
		fmt.Fprintf(&b, "  - %s\n", a)
	}
	return b.String()
}

func mainConfigs() []imageCfg {
	world := []string{"meta", "foo-doc", "replacer", "busybox", "data-a"}
	return []imageCfg{
		{Name: "multi-layer", Packages: world, Layering: 4, Archs: archs},
		{Name: "single-layer", Packages: world, Layering: 0, Archs: archs},
		{Name: "budget-1-services", Packages: []string{"foo", "bar", "baz", "qux", "lib03", "lib04"}, Layering: 1, Archs: []string{"x86_64"}, Lean: true, Services: true},
	}
}
