package main

import "encoding/json"

func jsonOf(v any) string {
	b, err := json.Marshal(v)
	if err != nil {
		return `{"error":"unprintable"}`
	}
	return string(b)
}
