package main

// Hand-picked corners, run before anything generated: every known-finding
// replay, the shapes repo_test.go uses, and the quirks met while modelling.

func pk(n, v string, deps ...string) Pkg { return Pkg{Name: n, Version: v, Origin: n, Deps: deps} }
func (p Pkg) prov(s ...string) Pkg       { p.Provides = append(p.Provides, s...); return p }
func (p Pkg) iif(s ...string) Pkg        { p.InstallIf = append(p.InstallIf, s...); return p }
func (p Pkg) prio(n uint64) Pkg          { p.Prio = n; return p }
func (p Pkg) origin(o string) Pkg        { p.Origin = o; return p }

func arch(name string, ixs ...Index) Arch { return Arch{Name: name, Indexes: ixs} }
func index(pin string, n int, arch string, pkgs ...Pkg) Index {
	return Index{Pin: pin, URI: "https://repo" + string(rune('0'+n)) + ".example/" + arch, Pkgs: pkgs}
}
func single(note string, pkgs []Pkg, worlds ...[]string) *Case {
	c := &Case{Stream: "corpus", Note: note, Archs: []Arch{arch("x86_64", index("", 0, "x86_64", pkgs...))}}
	for i, w := range worlds {
		c.Runs = append(c.Runs, Run{Arch: 0, World: w, Multi: i%2 == 0})
	}
	return c
}
func w(s ...string) []string { return s }

func corpusC02() []*Case {
	var cs []*Case
	// C02-F1: a -> c>2, b -> c<4, c in {1.0, 3.0, 5.0}; world [a b] succeeds with [c=5.0 a b]
	cs = append(cs, single("C02-F1 greedy leaf pick + de-duplication by name",
		[]Pkg{pk("a", "1.0", "c>2"), pk("b", "1.0", "c<4"), pk("c", "1.0"), pk("c", "3.0"), pk("c", "5.0")},
		w("a", "b"), w("b", "a"), w("a"), w("b"), w("a", "b", "c"), w("c", "a", "b"), w("a", "b", "c=3.0")))
	// C02-F2: dependencies of an install_if-triggered package are never expanded
	cs = append(cs, single("C02-F2 install_if member's dependencies",
		[]Pkg{pk("w", "1", "d"), pk("d", "1"), pk("d-x", "1", "zz").iif("d"), pk("zz", "1")},
		w("w"), w("d"), w("w", "zz"), w("zz", "w")))
	// C02-F3 candidate: a package that depends on a name it provides itself at a failing version
	cs = append(cs, single("C02-F3 self-provided dependency skipped by myProvides",
		[]Pkg{pk("a", "1.0", "v>2").prov("v=1"), pk("x", "1.0").prov("v=3")},
		w("a"), w("a", "x"), w("x", "a")))
	// selected-branch quirks: operator of the PROVIDE / own version of a provider
	cs = append(cs, single("selected[name]: provide's operator and provider's own version",
		[]Pkg{pk("b", "1.0", "y"), pk("y", "1.0", "z").prov("x=2"), pk("z", "1.0"), pk("a", "1.0", "y", "x<2"), pk("a2", "1.0", "y", "x>5"),
			pk("a3", "1.0", "y", "x=2"), pk("a4", "1.0", "x<2", "y")},
		w("b", "a"), w("a", "b"), w("b", "a2"), w("b", "a3"), w("b", "a4"), w("a"), w("a2")))
	// request met by an install_if package of the same name at another version
	cs = append(cs, single("request vs install_if package of the requested name",
		[]Pkg{pk("a", "1.0"), pk("r", "1.0", "a"), pk("c", "5.0").iif("a"), pk("c", "1.0")},
		w("r", "c<2"), w("c<2", "r"), w("r"), w("r", "c")))
	// C02-F5: the cycle cut is by name: another version of an ancestor's name is appended unexpanded
	cs = append(cs, single("C02-F5 dependency met by another version of an ancestor's name",
		[]Pkg{pk("d", "3", "d~2.0a", "l"), pk("d", "2.0a", "g"), pk("l", "1"), pk("g", "1"), pk("a", "2.0", "b"), pk("b", "1.0", "a<1"), pk("a", "0.5", "g")},
		w("d"), w("d", "g"), w("a"), w("b")))
	// C02-F1c minimal: the requested provider is dropped by the de-duplication by name
	cs = append(cs, single("C02-F1c requested provider dropped in favour of a sibling version",
		[]Pkg{pk("d", "2.0", "l").prov("k"), pk("d", "1.0").prov("l")},
		w("k"), w("d"), w("l"), w("k", "l")))
	// C02-F1b minimal: a dependency on a virtual met by y=2.0, but y=1.0 entered the list first
	cs = append(cs, single("C02-F1b provider of a virtual lost the de-duplication",
		[]Pkg{pk("a", "1.0", "y<2"), pk("b", "1.0", "x"), pk("y", "1.0"), pk("y", "2.0").prov("x")},
		w("a", "b"), w("b", "a"), w("b"), w("a")))
	// C02-F6 minimal
	cs = append(cs, single("C02-F6 install_if package of the requested name ignores dq",
		[]Pkg{pk("a", "1.0"), pk("r", "1.0", "a"), pk("c", "5.0").iif("a"), pk("c", "1.0")},
		w("r", "c<2"), w("c<2", "r")))
	// shapes from repo_test.go
	cs = append(cs, single("virtual with several providers, priorities",
		[]Pkg{pk("app", "1.0", "v"), pk("p1", "1.0").prov("v").prio(10), pk("p2", "2.0").prov("v").prio(20), pk("p3", "3.0").prov("v=1.0")},
		w("app"), w("app", "p1"), w("p1", "app"), w("v"), w("v", "p3"), w("app", "!p2")))
	cs = append(cs, single("cycle and self-dependency",
		[]Pkg{pk("a", "1.0", "b"), pk("b", "1.0", "c"), pk("c", "1.0", "a", "c"), pk("d", "1.0", "d>2"), pk("e", "3.0", "e>2")},
		w("a"), w("c"), w("b", "a"), w("d"), w("e")))
	cs = append(cs, single("conflicts with !name",
		[]Pkg{pk("a", "1.0", "!b", "c"), pk("b", "1.0"), pk("c", "1.0", "b"), pk("c", "0.9"), pk("d", "1.0", "!d")},
		w("a"), w("a", "b"), w("b", "a"), w("d"), w("c")))
	// the origin of C09-F6: c's conflict entry !b is applied after b was chosen for a (the set holds both);
	// the lock of that result resolves in no order of its entries
	cs = append(cs, single("member excluded by another member's conflict entry",
		[]Pkg{pk("a", "1.0", "b", "c"), pk("b", "1.0"), pk("c", "1.0", "!b")},
		w("a"), w("b=1.0", "c=1.0", "a=1.0"), w("a=1.0", "b=1.0", "c=1.0"), w("c=1.0", "b=1.0", "a=1.0"), w("a=1.0", "c=1.0", "b=1.0"),
		w("c", "b"), w("b", "c")))
	// a dependency with an unknown operator keeps its version text ("b><zz": name b, version zz, no operator): it is
	// ignored while b is not in `selected` and a parse error once it is (needed hypothesis of c09_fixpoint_resolver_partial)
	cs = append(cs, single("dependency with an unknown operator and an unparsable version",
		[]Pkg{pk("a", "1.0", "b><zz"), pk("b", "1.0", "c"), pk("c", "1.0")},
		w("a"), w("c=1.0", "b=1.0", "a=1.0"), w("a=1.0", "b=1.0", "c=1.0"), w("b", "a"), w("a", "b")))
	cs = append(cs, single("existing version and origin preference",
		[]Pkg{pk("app", "1.0", "lib"), pk("lib", "1.0").origin("o"), pk("lib", "2.0").origin("o"), pk("tool", "1.0", "lib=1.0"), pk("q", "1.0").origin("o").prov("lib=9")},
		w("tool", "app"), w("app", "tool"), w("app"), w("lib=1.0", "app"), w("app", "lib<2")))
	cs = append(cs, single("provides of own name, duplicate provides",
		[]Pkg{pk("a", "1.0", "b").prov("a=1.0"), pk("b", "1.0").prov("x=1", "x=2"), pk("c", "1.0", "b", "d"), pk("d", "1.0")},
		w("a"), w("b"), w("c"), w("x")))
	cs = append(cs, single("all six operators, tilde, odd operator strings",
		[]Pkg{pk("a", "1.2.3"), pk("a", "1.2"), pk("a", "1.3.0"), pk("a", "2.0_rc1"), pk("a", "2.0")},
		w("a=1.2"), w("a<1.3"), w("a<=1.2.3"), w("a>1.3.0"), w("a>=2.0"), w("a~1.2"), w("a==1.2"), w("a>9"), w("a><1"), w("a~2")))
	// pinned repositories
	cp := &Case{Stream: "corpus", Note: "pinned repository: allow / prefer pin",
		Archs: []Arch{arch("x86_64",
			index("", 0, "x86_64", pk("a", "1.0", "b"), pk("b", "1.0")),
			index("edge", 1, "x86_64", pk("a", "2.0", "b>1.0"), pk("b", "2.0"), pk("z", "1.0", "b")))}}
	for _, ww := range [][]string{w("a"), w("a@edge"), w("b@edge", "a"), w("z"), w("z@edge"), w("a@edge", "b"), w("a=2.0"), w("a", "z@edge")} {
		cp.Runs = append(cp.Runs, Run{Arch: 0, World: ww})
	}
	cs = append(cs, cp)
	// install_if order (C08-F1): several triggers
	cs = append(cs, single("install_if: several triggers, chained trigger, versioned trigger",
		[]Pkg{pk("app", "1.0", "a", "b", "c"), pk("a", "1.0"), pk("b", "1.0"), pk("c", "2.0"),
			pk("a-doc", "1.0").iif("a"), pk("b-doc", "1.0").iif("b"), pk("c-doc", "1.0").iif("c=2.0"), pk("c-old", "1.0").iif("c=1.0"),
			pk("ab-glue", "1.0").iif("a", "b"), pk("docs", "1.0").iif("a-doc", "b-doc")},
		w("app"), w("app", "a-doc"), w("a", "app"), w("app", "docs")))
	// replays of the fixed findings C08-F1 (order) and C08-F3 (chain membership): one answer each
	cs = append(cs, single("fixed c03e0c0 (was C08-F1): two install_if packages, order is list order",
		[]Pkg{pk("w", "1", "a", "b"), pk("a", "1"), pk("b", "1"), pk("a-x", "1").iif("a"), pk("b-x", "1").iif("b")},
		w("w"), w("w"), w("w"), w("b", "w"), w("w", "b-x")))
	cs = append(cs, single("fixed c03e0c0 (was C08-F3): chained install_if always fires",
		[]Pkg{pk("w", "1", "a"), pk("a", "1"), pk("c", "1").iif("b"), pk("b", "1").iif("a")},
		w("w"), w("w"), w("w"), w("a"), w("a", "w")))
	// corners of the index-order loop
	cs = append(cs, single("install_if: chain of three, package before its trigger in the index, waits for two appended packages",
		[]Pkg{pk("z3", "1").iif("z2"), pk("z2", "1").iif("z1"), pk("z1", "1").iif("a"), pk("join", "1").iif("z3", "b-x"),
			pk("w", "1", "a", "b"), pk("a", "1"), pk("b", "1"), pk("b-x", "1").iif("b")},
		w("w"), w("a"), w("b", "a"), w("w", "join")))
	cs = append(cs, single("install_if: name=version keys — right version, wrong version, shadowed by an unversioned key of the same name, another operator",
		[]Pkg{pk("w", "1", "a", "b", "c"), pk("a", "1.0"), pk("b", "2.0"), pk("c", "3.0"),
			pk("a-v", "1").iif("a=1.0"), pk("a-w", "1").iif("a=9.9"),
			pk("b-v", "1").iif("b=2.0"), pk("b-any", "1").iif("b", "nosuch"), // installIfMap["b"] exists: the key b=2.0 is never looked up
			pk("c-op", "1").iif("c>3.0"), pk("c-op2", "1").iif("c<1.0"), pk("c-v", "1").iif("c=3.0"),
			pk("a-v-more", "1").iif("a-v=1"), pk("a-v-less", "1").iif("a-v=2")},
		w("w"), w("a"), w("b"), w("c", "a")))
	cs = append(cs, single("install_if: entry on a provided name, two versions of one install_if package, install_if package that is also a dependency",
		[]Pkg{pk("w", "1", "a", "v"), pk("a", "1"), pk("p", "1").prov("v=1"), pk("on-v", "1").iif("v"), pk("on-p", "1").iif("p"),
			pk("a-doc", "1.0").iif("a"), pk("a-doc", "2.0").iif("a"), pk("u", "1", "a-doc"), pk("a-doc-x", "1").iif("a-doc=2.0"), pk("a-doc-y", "1").iif("a-doc=1.0")},
		w("w"), w("u"), w("u", "w"), w("w", "u"), w("a-doc=1.0", "w")))
	// disqualifyConflicts / conflictingVersion: two builds of one name share a versioned provide at the SAME version; once one is
	// chosen through the provide (no dependencies of its own, so never entered in `selected`) the other must be disqualified,
	// otherwise a later constraint by name picks it and the de-duplication by name drops it (seeded change C02-4)
	cs = append(cs, single("two builds share a versioned provide at one version (disqualifyConflicts)",
		[]Pkg{pk("libfoo", "1.4.0-r0").prov("so:libfoo.so.1=1"), pk("libfoo", "2.0.0-r0").prov("so:libfoo.so.1=1"),
			pk("app", "1.0.0-r0", "so:libfoo.so.1"), pk("app2", "1.0.0-r0", "so:libfoo.so.1=1"), pk("plugin", "1.0.0-r0", "libfoo<2"), pk("plugin2", "1.0.0-r0", "libfoo>=2")},
		w("app", "plugin"), w("plugin", "app"), w("app", "plugin2"), w("app2", "plugin"), w("plugin", "app2"), w("app"), w("plugin"), w("so:libfoo.so.1", "libfoo<2")))
	cs = append(cs, single("two different names share a versioned provide: same version, other version, unversioned",
		[]Pkg{pk("impl-a", "1.0").prov("virt=1"), pk("impl-b", "2.0").prov("virt=1"), pk("impl-c", "3.0").prov("virt=2"), pk("impl-d", "0.5").prov("virt"),
			pk("u1", "1", "virt"), pk("u2", "1", "impl-a"), pk("u3", "1", "impl-b"), pk("u4", "1", "virt=2"), pk("u5", "1", "impl-d")},
		w("u1", "u2"), w("u2", "u1"), w("u1", "u3"), w("u1", "u4"), w("u4", "u1"), w("u1", "u5"), w("u5", "u1"), w("virt", "impl-a"), w("impl-a", "impl-b")))
	// ---- session 6 ----------------------------------------------------------------------------------------------
	// C02-F1 through the ORIGIN preference of comparePackages (witness of clause 4 of the wider envelope): z is expanded
	// before c is chosen (fewer candidates), its dependency y has origin o1, so c=1.0 (origin o1) is preferred for m;
	// n then needs c=2.0, which the de-duplication by name drops
	cs = append(cs, single("C02-F1 through the origin preference: siblings with different origins",
		[]Pkg{pk("m", "1", "z", "c"), pk("n", "1", "c>1.5"), pk("z", "1", "y"), pk("y", "1").origin("o1"), pk("c", "1.0").origin("o1"), pk("c", "2.0").origin("o2")},
		w("m", "n"), w("n", "m"), w("m"), w("n")))
	// C02-F1 through a sibling in a pinned repository (the other witness of clause 4)
	cpin := &Case{Stream: "corpus", Note: "C02-F1 through a pinned sibling: c=1.0 in the repository pinned @edge, c=2.0 not pinned",
		Archs: []Arch{arch("x86_64", index("", 0, "x86_64", pk("n", "1", "c>1.5"), pk("c", "2.0")), index("edge", 1, "x86_64", pk("c", "1.0")))}}
	for _, ww := range [][]string{w("c@edge", "n"), w("n", "c@edge"), w("c", "n"), w("n")} {
		cpin.Runs = append(cpin.Runs, Run{Arch: 0, World: ww})
	}
	cs = append(cs, cpin)
	// inside the wider envelope (Example c02_closed_multi_version_example): four versions of c, a provide shared by two of
	// them, a versioned dependency and a versioned request, the cycle c=5.0 -> b -> c, a conflict entry
	cs = append(cs, single("wider envelope: several versions per name, winner chosen every time",
		[]Pkg{pk("a", "1.0", "c>2", "v"), pk("b", "1.0", "c>=3", "c"), pk("c", "1.0").prov("v=1"), pk("c", "3.0").prov("v=1"),
			pk("c", "5.0", "b", "!zz").prov("v=2"), pk("c", "4.0_rc1")},
		w("a", "b", "c<9"), w("b", "a"), w("v", "c"), w("c", "v"), w("c=5.0", "a"), w("a", "c<5"), w("c<5", "a")))
	// ... and a pure virtual with three provider names of different priorities (Example c02_closed_multi_version_example_virtual)
	cs = append(cs, single("wider envelope: pure virtual with several provider names and priorities",
		[]Pkg{pk("app", "1", "sh", "c>1"), pk("bash", "5.0").prov("sh").prio(10), pk("busybox", "1.0", "c").prov("sh").prio(20), pk("dash", "0.5").prov("sh"),
			pk("dash", "0.4"), pk("c", "1.0"), pk("c", "2.0"), pk("tool", "1", "sh", "bash")},
		w("tool", "app", "sh"), w("app", "tool"), w("sh"), w("dash", "app"), w("app", "dash"), w("bash", "sh", "busybox")))
	// conflict entries: the three ways a result can hold a member excluded by a member's entry (C02-F7 and its two
	// install_if variants), and the orders in which the entry is honoured (error)
	cs = append(cs, single("C02-F7 conflict entry read after the excluded package was chosen; versioned entry; entry on a provided name",
		[]Pkg{pk("a", "1.0", "b", "c"), pk("b", "1.0").prov("vb=1"), pk("c", "1.0", "!b"), pk("c2", "1.0", "!b<2"), pk("c3", "1.0", "!b>2"), pk("c4", "1.0", "!vb"),
			pk("a2", "1.0", "b", "c2"), pk("a3", "1.0", "b", "c3"), pk("a4", "1.0", "b", "c4"), pk("s", "1.0", "!s").prov("vs"), pk("s2", "1.0", "!vs2").prov("vs2")},
		w("a"), w("c", "a"), w("a2"), w("c2", "a2"), w("a3"), w("a4"), w("c4", "b"), w("b", "c4"), w("s"), w("s2")))
	cs = append(cs, single("conflict entries and install_if: an install_if member is excluded by a member's entry; the entry of an install_if member",
		[]Pkg{pk("w", "1", "x", "a"), pk("a", "1"), pk("x", "1", "!a-doc"), pk("a-doc", "1").iif("a"),
			pk("w2", "1", "b", "y"), pk("b", "1"), pk("y", "1"), pk("b-doc", "1", "!y").iif("b")},
		w("w"), w("x", "a"), w("a", "x"), w("w2"), w("y", "b"), w("b", "y")))
	// session 7: constrain disqualifies an own-name provider whose version does not parse; that is observable only when
	// every parsable version is out of the way later: a -> x>1 (x=2.0 chosen, x=abc disqualified), b -> !x>1, x (x=2.0
	// excluded, x=abc already disqualified: error).  Mutant s7-m1 (x=abc kept) went unnoticed by 8732 generated universes.
	cs = append(cs, single("constrain disqualifies an own-name provider with an unparsable version",
		[]Pkg{pk("a", "1", "x>1"), pk("b", "1", "!x>1", "x"), pk("x", "2.0"), pk("x", "abc"), pk("c", "1", "x")},
		w("a", "b"), w("b", "a"), w("b"), w("a", "c"), w("c")))
	return cs
}

func corpusC14() []*Case {
	var cs []*Case
	multi := func(note string, archs []Arch, worlds ...[]string) *Case {
		c := &Case{Stream: "corpus", Note: note, Archs: archs}
		for _, ww := range worlds {
			for i := range archs {
				c.Runs = append(c.Runs, Run{Arch: i, World: ww, Multi: true, Plain: true})
			}
		}
		return c
	}
	// C14-F1: install_if members bypass the cross-architecture filter
	cs = append(cs, multi("C14-F1 install_if bypasses the cross-arch filter",
		[]Arch{arch("x86_64", index("", 0, "x86_64", pk("w", "1", "a"), pk("a", "1"), pk("a-x", "1").iif("a"))),
			arch("aarch64", index("", 0, "aarch64", pk("w", "1", "a"), pk("a", "1")))},
		w("w"), w("a"), w("w", "a-x")))
	// TestDisqualifyingOtherArchitectures shape: newer build on one side only
	cs = append(cs, multi("newer build on one architecture only",
		[]Arch{arch("x86_64", index("", 0, "x86_64", pk("app", "1.0", "lib"), pk("lib", "1.0"), pk("lib", "2.0"))),
			arch("aarch64", index("", 0, "aarch64", pk("app", "1.0", "lib"), pk("lib", "1.0")))},
		w("app"), w("lib"), w("lib=2.0"), w("lib>1.0", "app")))
	cs = append(cs, multi("package missing three levels deep",
		[]Arch{arch("x86_64", index("", 0, "x86_64", pk("a", "1", "b"), pk("b", "1", "c"), pk("c", "1", "d"), pk("d", "1"), pk("d", "2"))),
			arch("aarch64", index("", 0, "aarch64", pk("a", "1", "b"), pk("b", "1", "c"), pk("c", "1", "d"), pk("d", "1"))),
			arch("riscv64", index("", 0, "riscv64", pk("a", "1", "b"), pk("b", "1", "c"), pk("c", "1", "d"), pk("d", "1"), pk("d", "2"), pk("e", "1")))},
		w("a"), w("d"), w("e"), w("a", "d>1")))
	cs = append(cs, multi("provider available on one side only",
		[]Arch{arch("x86_64", index("", 0, "x86_64", pk("app", "1", "v"), pk("p1", "1").prov("v"), pk("p2", "2").prov("v"))),
			arch("aarch64", index("", 0, "aarch64", pk("app", "1", "v"), pk("p1", "1").prov("v")))},
		w("app"), w("v"), w("p2")))
	// single architecture: allArchs = {arch} must behave like allArchs = nil
	s := single("single architecture is unaffected", []Pkg{pk("a", "1", "b"), pk("b", "1"), pk("b", "2")}, w("a"), w("b"), w("a", "b<2"))
	for i := range s.Runs {
		s.Runs[i].Multi, s.Runs[i].Plain = true, true
	}
	cs = append(cs, s)
	// the former false alarm of this check (install_if additions in map order, C08-F1): with the
	// index-order loop both calls give the same ORDERED list
	s2 := single("single architecture with install_if additions: same ordered list with allArchs={arch} and nil",
		[]Pkg{pk("w", "1", "g", "l"), pk("g", "1"), pk("l", "1"), pk("l-doc", "1").iif("l"), pk("g-g-glue", "1").iif("g"), pk("both", "1").iif("l-doc", "g-g-glue")},
		w("w"), w("w"), w("l", "g"), w("g", "w"))
	for i := range s2.Runs {
		s2.Runs[i].Multi, s2.Runs[i].Plain = true, true
	}
	cs = append(cs, s2)
	// C14-F1 with a chain: the install_if member missing elsewhere pulls in a second one
	cs = append(cs, multi("C14-F1 through a chain of install_if packages",
		[]Arch{arch("x86_64", index("", 0, "x86_64", pk("w", "1", "a"), pk("a", "1"), pk("a-x", "1").iif("a"), pk("a-x-y", "1").iif("a-x"), pk("a-z", "1").iif("a=1"))),
			arch("aarch64", index("", 0, "aarch64", pk("w", "1", "a"), pk("a", "1"), pk("a-z", "1").iif("a=1")))},
		w("w"), w("a")))
	return cs
}
