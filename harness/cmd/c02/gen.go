package main

import (
	"fmt"
	"strings"

	"verifharness/gal"
)

var namePool = []string{"a", "b", "c", "d", "e", "f", "g", "h", "lib-i", "j2", "k", "l"}
var virtPool = []string{"v1", "v2", "v3", "cmd:x", "so:libz.so.1"}
var verPool = []string{"1.0", "1.1", "2.0", "3.0", "5.0", "1.0-r1", "1.0-r2", "2.0_rc1", "1.2.3", "0.9", "10.0", "2.0a", "2", "1"}
var opPool = []string{"=", "<", "<=", ">", ">=", "~"}
var pinPool = []string{"edge", "testing"}
var badVersions = []string{"", "abc", "1..2", "1.0-rX", "v1", "1.0_foo"}
var badStrings = []string{"%s==1.0", "%s>", "%s=", "%s@", "%s=1.0@", "%s><1.0", "%s~", "%s=1.0=2.0", "%s =1.0", "%s@edge@x", "=1.0", "%s=abc", "%s>1..2"}

type gen struct {
	r     *gal.Rand
	names []string
	virts []string
	pins  []string
	vers  map[string][]string // versions that exist per real name
}

func (g *gen) ver() string { return gal.Pick(g.r, verPool) }

func (g *gen) constraintOn(target string, pOp int) string {
	s := target
	if g.r.Chance(pOp, 100) {
		v := g.ver()
		if vs := g.vers[target]; len(vs) > 0 && g.r.Chance(2, 3) {
			v = gal.Pick(g.r, vs)
		}
		s += gal.Pick(g.r, opPool) + v
	}
	return s
}

func (g *gen) target(pVirt int) string {
	if len(g.virts) > 0 && g.r.Chance(pVirt, 100) {
		return gal.Pick(g.r, g.virts)
	}
	return gal.Pick(g.r, g.names)
}

func pickWeighted(r *gal.Rand, w []int) int {
	t := 0
	for _, x := range w {
		t += x
	}
	k := r.Intn(t)
	for i, x := range w {
		if k < x {
			return i
		}
		k -= x
	}
	return 0
}

func distinctVersions(r *gal.Rand, n int) []string {
	seen := map[string]bool{}
	var out []string
	for len(out) < n {
		v := gal.Pick(r, verPool)
		if !seen[v] {
			seen[v] = true
			out = append(out, v)
		}
	}
	return out
}

func nNames(r *gal.Rand, tier string) int {
	if tier == "thorough" {
		return 3 + r.Intn(10) // 3..12
	}
	return 3 + r.Intn(6) // 3..8
}

// general (out-of-envelope) universe; bad = include malformed versions / constraint strings
func genArch(r *gal.Rand, tier string, bad bool, archName string) (Arch, *gen) {
	g := &gen{r: r, vers: map[string][]string{}}
	n := nNames(r, tier)
	perm := append([]string(nil), namePool...)
	for i := range perm {
		j := i + r.Intn(len(perm)-i)
		perm[i], perm[j] = perm[j], perm[i]
	}
	g.names = perm[:n]
	if r.Chance(3, 5) {
		g.virts = append([]string(nil), virtPool[:1+r.Intn(len(virtPool))]...)
	}
	nIdx := 1 + pickWeighted(r, []int{60, 30, 10})
	idx := make([]Index, nIdx)
	for i := range idx {
		idx[i].URI = fmt.Sprintf("https://repo%d.example/%s", i, archName)
		if i > 0 && r.Chance(1, 2) {
			idx[i].Pin = gal.Pick(r, pinPool)
			g.pins = append(g.pins, idx[i].Pin)
		}
	}
	for _, nm := range g.names {
		g.vers[nm] = distinctVersions(r, 1+pickWeighted(r, []int{50, 25, 15, 10}))
	}
	so := r.Chance(1, 12)
	for _, nm := range g.names {
		for _, v := range g.vers[nm] {
			p := Pkg{Name: nm, Version: v}
			switch pickWeighted(r, []int{70, 20, 10}) {
			case 0:
				p.Origin = nm
			case 1:
				p.Origin = gal.Pick(r, []string{"o1", "o2"})
			}
			for k, nd := 0, pickWeighted(r, []int{30, 35, 25, 10}); k < nd; k++ {
				t := g.target(20)
				d := g.constraintOn(t, 30)
				if r.Chance(6, 100) {
					d = "!" + d
				}
				if len(g.pins) > 0 && r.Chance(3, 100) {
					d += "@" + gal.Pick(r, g.pins)
				}
				if bad && r.Chance(1, 12) {
					d = fmt.Sprintf(gal.Pick(r, badStrings), t)
				}
				if bad && r.Chance(1, 25) {
					d = "missing" + d
				}
				p.Deps = append(p.Deps, d)
			}
			if len(g.virts) > 0 && r.Chance(25, 100) {
				for k, np := 0, 1+r.Intn(2); k < np; k++ {
					t := gal.Pick(r, g.virts)
					if r.Chance(3, 10) {
						t = gal.Pick(r, g.names)
					}
					if r.Chance(1, 2) {
						pv := g.ver()
						if r.Chance(1, 3) {
							pv = v
						}
						t += "=" + pv
					}
					p.Provides = append(p.Provides, t)
				}
			}
			if r.Chance(3, 100) {
				p.Provides = append(p.Provides, nm+"="+v)
			}
			if so {
				if r.Chance(1, 4) {
					p.Provides = append(p.Provides, gal.Pick(r, []string{"so:libq.so.2=2", "so:libq.so.2=2.1-r0", "so:libq.so.2"}))
				}
				if r.Chance(1, 4) {
					p.Deps = append(p.Deps, gal.Pick(r, []string{"so:libq.so.2", "so:libq.so.2=2", "so:libq.so.2>=2"}))
				}
			}
			if r.Chance(1, 10) {
				p.Prio = uint64(1 + r.Intn(20))
			}
			if bad && len(p.Provides) == 0 && r.Chance(1, 15) {
				p.Version = gal.Pick(r, badVersions)
			}
			i := r.Intn(nIdx)
			idx[i].Pkgs = append(idx[i].Pkgs, p)
			if nIdx > 1 && r.Chance(1, 20) { // the same name-version in a second repository
				j := (i + 1) % nIdx
				idx[j].Pkgs = append(idx[j].Pkgs, p)
			}
		}
	}
	return Arch{Name: archName, Indexes: idx}, g
}

// install_if packages. The install_if loop is deterministic since fix c03e0c0
// (it walks the dependency list by index), so any amount of structure can be
// compared with the model: several packages per trigger, several triggers per
// package, chains (x-doc triggers x-doc-extra triggers x-doc-extra-more),
// versioned entries name=version (right and wrong version, and next to an
// unversioned entry for the same name, which shadows the versioned key), entries
// with another operator (the loop compares the version text only), entries on
// provided (virtual) names, two versions of one install_if package.
func addInstallIf(r *gal.Rand, a *Arch, g *gen) {
	n := 1 + r.Intn(3)
	if r.Chance(1, 3) {
		n += 2 + r.Intn(4)
	}
	var made []string // names of install_if packages made so far (chain targets)
	put := func(p Pkg) {
		if r.Chance(1, 3) {
			p.Deps = []string{g.constraintOn(g.target(10), 20)}
		}
		i := r.Intn(len(a.Indexes))
		if r.Chance(1, 4) && len(a.Indexes[i].Pkgs) > 0 {
			// not at the end of its index: before some of its triggers
			j := r.Intn(len(a.Indexes[i].Pkgs))
			a.Indexes[i].Pkgs = append(a.Indexes[i].Pkgs[:j:j], append([]Pkg{p}, a.Indexes[i].Pkgs[j:]...)...)
		} else {
			a.Indexes[i].Pkgs = append(a.Indexes[i].Pkgs, p)
		}
		made = append(made, p.Name)
	}
	versioned := func(x string) string {
		v := gal.Pick(r, g.vers[x])
		if r.Chance(1, 5) {
			v = g.ver() // possibly a version that does not exist
		}
		return x + "=" + v
	}
	for k := 0; k < n; k++ {
		x := gal.Pick(r, g.names)
		p := Pkg{Name: x + "-doc", Version: gal.Pick(r, []string{"1.0", "2.0"}), Origin: x}
		want := []string{x}
		switch r.Intn(12) {
		case 0: // two triggers
			y := gal.Pick(r, g.names)
			p.Name = x + "-" + y + "-glue"
			want = []string{x, y}
		case 1: // versioned trigger
			want = []string{versioned(x)}
		case 2: // waits for another install_if package
			want = []string{x, gal.Pick(r, g.names) + "-doc"}
			p.Name = x + "-extra"
		case 3: // chain on a package made before (or after: the -doc of some name)
			t := gal.Pick(r, g.names) + "-doc"
			if len(made) > 0 && r.Chance(2, 3) {
				t = gal.Pick(r, made)
			}
			p.Name = t + "-more"
			want = []string{t}
		case 4: // three triggers, one of them versioned
			y, z := gal.Pick(r, g.names), gal.Pick(r, g.names)
			p.Name = x + "-" + y + "-" + z + "-trio"
			want = []string{x, versioned(y), z}
		case 5: // install_if on a provided name
			if len(g.virts) > 0 {
				v := gal.Pick(r, g.virts)
				p.Name = x + "-on-virtual"
				want = []string{v}
				if r.Chance(1, 2) {
					want = []string{x, v}
				}
			}
		case 6: // an operator other than "="
			p.Name = x + "-op"
			want = []string{x + gal.Pick(r, []string{">", ">=", "<", "~"}) + gal.Pick(r, g.vers[x])}
		case 7: // versioned and unversioned entries for the same name in one universe
			p.Name = x + "-ver"
			want = []string{versioned(x)}
			put(p)
			p = Pkg{Name: x + "-any", Version: "1.0", Origin: x}
			want = []string{x}
			if r.Chance(1, 2) {
				want = []string{x, gal.Pick(r, g.names)}
			}
		case 8: // two versions of one install_if package under one key
			p.InstallIf = want
			put(p)
			p = Pkg{Name: x + "-doc", Version: gal.Pick(r, []string{"0.5", "3.0"}), Origin: x}
		case 9: // versioned entry on an install_if package (chain through name=version)
			if len(made) > 0 {
				t := gal.Pick(r, made)
				p.Name = t + "-pin"
				want = []string{t + "=" + gal.Pick(r, []string{"1.0", "2.0"})}
			}
		}
		p.InstallIf = want
		put(p)
	}
}

func (g *gen) world(bad bool) []string {
	r := g.r
	var w []string
	for k, n := 0, 1+pickWeighted(r, []int{35, 35, 20, 10}); k < n; k++ {
		t := g.target(20)
		s := g.constraintOn(t, 25)
		if len(g.pins) > 0 && r.Chance(40, 100) || r.Chance(3, 100) {
			p := "edge"
			if len(g.pins) > 0 {
				p = gal.Pick(r, g.pins)
			}
			s += "@" + p
		}
		if r.Chance(3, 100) {
			s = "nosuchpkg"
		}
		if bad && r.Chance(1, 8) {
			s = fmt.Sprintf(gal.Pick(r, badStrings), t)
		}
		if bad && r.Chance(1, 30) {
			s = "!" + t
		}
		w = append(w, s)
	}
	if r.Chance(1, 25) && len(w) > 0 {
		w = append(w, w[0])
	}
	return w
}

// shared provides: a library in 2-3 builds that all provide one soname/virtual (at one version, at differing versions, or
// unversioned), consumers by provide (plain and versioned) and by name with every operator; worlds list two or three
// consumers in every order. This is the neighbourhood of disqualifyConflicts / conflictingVersion and of `pick`.
func genSharedProvide(r *gal.Rand, tier string) *Case {
	lib := gal.Pick(r, []string{"libfoo", "libbar", "zq"})
	virt := gal.Pick(r, []string{"so:" + lib + ".so.1", "cmd:" + lib, "v" + lib})
	vers := distinctVersions(r, 2+r.Intn(2))
	var pkgs []Pkg
	shape := r.Intn(4)
	for i, v := range vers {
		p := Pkg{Name: lib, Version: v, Origin: lib}
		switch shape {
		case 0: // same provided version everywhere
			p.Provides = []string{virt + "=1"}
		case 1: // provided version follows the build
			p.Provides = []string{virt + "=" + v}
		case 2: // unversioned
			p.Provides = []string{virt}
		default: // only some builds provide it
			if i%2 == 0 {
				p.Provides = []string{virt + "=1"}
			}
		}
		if r.Chance(1, 3) {
			p.Deps = []string{"base"}
		}
		pkgs = append(pkgs, p)
	}
	if r.Chance(1, 3) { // another name providing the same virtual
		pkgs = append(pkgs, Pkg{Name: lib + "-compat", Version: "1.0", Origin: gal.Pick(r, []string{lib, lib + "-compat"}), Provides: []string{virt + gal.Pick(r, []string{"=1", "", "=9"})}})
	}
	pkgs = append(pkgs, Pkg{Name: "base", Version: "1.0", Origin: "base"})
	ops := []string{"<", "<=", "=", ">", ">=", "~"}
	var consumers []string
	nc := 3 + r.Intn(3)
	for i := 0; i < nc; i++ {
		name := fmt.Sprintf("use%d", i)
		var dep string
		switch r.Intn(4) {
		case 0:
			dep = virt
		case 1:
			dep = virt + gal.Pick(r, []string{"=1", ">=1", "<2", "=" + vers[0]})
		case 2:
			dep = lib + gal.Pick(r, ops) + gal.Pick(r, vers)
		default:
			dep = lib
		}
		p := Pkg{Name: name, Version: "1.0", Origin: name, Deps: []string{dep}}
		if r.Chance(1, 4) {
			p.Deps = append(p.Deps, "base")
		}
		pkgs = append(pkgs, p)
		consumers = append(consumers, name)
	}
	// shuffle the index order: the resolver's tie-breaks depend on it
	for i := range pkgs {
		j := i + r.Intn(len(pkgs)-i)
		pkgs[i], pkgs[j] = pkgs[j], pkgs[i]
	}
	c := &Case{Stream: "shared-provide", Archs: []Arch{arch("x86_64", index("", 0, "x86_64", pkgs...))}}
	for k := 0; k < 6; k++ {
		a, b := gal.Pick(r, consumers), gal.Pick(r, consumers)
		w := []string{a, b}
		if r.Chance(1, 3) {
			w = append(w, gal.Pick(r, consumers))
		}
		if r.Chance(1, 5) {
			w = append(w, gal.Pick(r, []string{virt, lib, lib + "<" + vers[len(vers)-1]}))
		}
		c.Runs = append(c.Runs, Run{Arch: 0, World: w, Multi: k%2 == 0})
	}
	return c
}

func genGeneral(r *gal.Rand, tier string, bad bool) *Case {
	a, g := genArch(r, tier, bad, "x86_64")
	stream := "general"
	if bad {
		stream = "malformed"
	}
	if !bad && r.Chance(35, 100) || bad && r.Chance(1, 10) {
		addInstallIf(r, &a, g)
	}
	c := &Case{Stream: stream, Archs: []Arch{a}}
	for k := 0; k < 5; k++ {
		c.Runs = append(c.Runs, Run{Arch: 0, World: g.world(bad), Multi: k%2 == 0})
	}
	return c
}

// the envelope of c02_closed_partial, by construction: one version per name, one
// provider per virtual, virtuals are never package names, no install_if, no
// dependency on a name the package provides, versions only on package names
func genEnvelope(r *gal.Rand, tier string) *Case {
	g := &gen{r: r, vers: map[string][]string{}}
	n := nNames(r, tier)
	perm := append([]string(nil), namePool...)
	for i := range perm {
		j := i + r.Intn(len(perm)-i)
		perm[i], perm[j] = perm[j], perm[i]
	}
	g.names = perm[:n]
	nv := r.Intn(4)
	g.virts = append([]string(nil), virtPool[:nv]...)
	provider := map[string]string{} // virtual -> package
	for _, v := range g.virts {
		provider[v] = gal.Pick(r, g.names)
	}
	nIdx := 1 + pickWeighted(r, []int{70, 30})
	idx := make([]Index, nIdx)
	for i := range idx {
		idx[i].URI = fmt.Sprintf("https://repo%d.example/x86_64", i)
		if i > 0 && r.Chance(1, 2) {
			idx[i].Pin = gal.Pick(r, pinPool)
			g.pins = append(g.pins, idx[i].Pin)
		}
	}
	for _, nm := range g.names {
		g.vers[nm] = []string{g.ver()}
	}
	for _, nm := range g.names {
		p := Pkg{Name: nm, Version: g.vers[nm][0], Origin: gal.Pick(r, []string{nm, nm, "o1", ""})}
		for _, v := range g.virts {
			if provider[v] == nm {
				s := v
				if r.Chance(1, 2) {
					s += "=" + g.ver()
				}
				p.Provides = append(p.Provides, s)
			}
		}
		for k, nd := 0, pickWeighted(r, []int{25, 35, 25, 15}); k < nd; k++ {
			var d string
			if len(g.virts) > 0 && r.Chance(1, 4) {
				d = gal.Pick(r, g.virts) // unversioned dependency on a virtual
				if provider[d] == nm {
					continue
				}
			} else {
				d = g.constraintOn(gal.Pick(r, g.names), 35)
			}
			if r.Chance(5, 100) {
				d = "!" + d
			}
			p.Deps = append(p.Deps, d)
		}
		if r.Chance(1, 10) {
			p.Prio = uint64(1 + r.Intn(20))
		}
		i := r.Intn(nIdx)
		idx[i].Pkgs = append(idx[i].Pkgs, p)
	}
	c := &Case{Stream: "envelope", Archs: []Arch{{Name: "x86_64", Indexes: idx}}}
	for k := 0; k < 5; k++ {
		var w []string
		for j, m := 0, 1+pickWeighted(r, []int{35, 35, 20, 10}); j < m; j++ {
			var s string
			if len(g.virts) > 0 && r.Chance(1, 5) {
				s = gal.Pick(r, g.virts)
			} else {
				s = g.constraintOn(gal.Pick(r, g.names), 30)
			}
			if len(g.pins) > 0 && r.Chance(1, 3) {
				s += "@" + gal.Pick(r, g.pins)
			}
			w = append(w, s)
		}
		c.Runs = append(c.Runs, Run{Arch: 0, World: w, Multi: k%2 == 0})
	}
	return c
}

// ---- C14: families of per-architecture universes that drifted apart -------------

func cloneArch(a Arch, name string) Arch {
	b := Arch{Name: name}
	for _, ix := range a.Indexes {
		nx := Index{Pin: ix.Pin, URI: strings.Replace(ix.URI, a.Name, name, 1)}
		for _, p := range ix.Pkgs {
			q := p
			q.Deps = append([]string(nil), p.Deps...)
			q.Provides = append([]string(nil), p.Provides...)
			q.InstallIf = append([]string(nil), p.InstallIf...)
			nx.Pkgs = append(nx.Pkgs, q)
		}
		b.Indexes = append(b.Indexes, nx)
	}
	return b
}

func drift(r *gal.Rand, a *Arch, g *gen, allowIif bool) {
	nmut := 1 + r.Intn(3)
	for m := 0; m < nmut; m++ {
		i := r.Intn(len(a.Indexes))
		ix := &a.Indexes[i]
		if len(ix.Pkgs) == 0 {
			continue
		}
		j := r.Intn(len(ix.Pkgs))
		switch pickWeighted(r, []int{35, 25, 15, 10, 15}) {
		case 0: // version missing here
			ix.Pkgs = append(ix.Pkgs[:j:j], ix.Pkgs[j+1:]...)
		case 1: // a newer build exists only here (old one kept)
			q := ix.Pkgs[j]
			q.Version = gal.Pick(r, []string{"9.0", "9.1", "10.0"})
			ix.Pkgs = append(ix.Pkgs, q)
		case 2: // rebuilt here: the old version is replaced by another one
			ix.Pkgs[j].Version = gal.Pick(r, []string{"9.0", "1.0-r7", "0.1"})
		case 3: // different provides
			if len(g.virts) > 0 {
				ix.Pkgs[j].Provides = []string{gal.Pick(r, g.virts)}
			} else {
				ix.Pkgs[j].Provides = nil
			}
		case 4: // a package that exists only here
			x := gal.Pick(r, g.names)
			p := Pkg{Name: x + "-only", Version: "1.0", Origin: x}
			if allowIif && r.Chance(1, 2) {
				p.Name = x + "-doc"
				p.InstallIf = []string{x}
			} else {
				// something depends on it
				k := r.Intn(len(ix.Pkgs))
				ix.Pkgs[k].Deps = append(ix.Pkgs[k].Deps, p.Name)
			}
			ix.Pkgs = append(ix.Pkgs, p)
		}
	}
}

// chain c0 -> c1 -> ... -> cN whose LEAF differs between architectures
func addChain(r *gal.Rand, a *Arch, depth int) {
	ix := &a.Indexes[0]
	for d := 0; d <= depth; d++ {
		p := Pkg{Name: fmt.Sprintf("c%d", d), Version: "1.0", Origin: "chain"}
		if d < depth {
			p.Deps = []string{fmt.Sprintf("c%d", d+1)}
		}
		ix.Pkgs = append(ix.Pkgs, p)
	}
	ix.Pkgs = append(ix.Pkgs, Pkg{Name: fmt.Sprintf("c%d", depth), Version: "2.0", Origin: "chain"})
}

func genFamily(r *gal.Rand, tier string) *Case {
	base, g := genArch(r, tier, false, "x86_64")
	withIif := r.Chance(1, 4)
	if withIif {
		addInstallIf(r, &base, g)
	}
	chain := r.Chance(1, 3)
	depth := 2 + r.Intn(3)
	if chain {
		addChain(r, &base, depth)
	}
	names := []string{"x86_64", "aarch64", "riscv64"}
	na := 2 + r.Intn(2)
	c := &Case{Stream: "family"}
	for i := 0; i < na; i++ {
		a := cloneArch(base, names[i])
		if i > 0 || r.Chance(1, 3) {
			drift(r, &a, g, withIif || r.Chance(1, 6))
		}
		if chain && i == 1 {
			// the newest leaf is missing on the second architecture
			ix := &a.Indexes[0]
			leaf := fmt.Sprintf("c%d", depth)
			for j := range ix.Pkgs {
				if ix.Pkgs[j].Name == leaf && ix.Pkgs[j].Version == "2.0" {
					ix.Pkgs = append(ix.Pkgs[:j:j], ix.Pkgs[j+1:]...)
					break
				}
			}
		}
		c.Archs = append(c.Archs, a)
	}
	if chain {
		c.Stream = "family-deep"
	}
	for k := 0; k < 3; k++ {
		w := g.world(false)
		if chain && k == 0 {
			w = append(w, "c0")
		}
		for i := range c.Archs {
			c.Runs = append(c.Runs, Run{Arch: i, World: w, Multi: true, Plain: true})
		}
	}
	return c
}

func genSingleArch(r *gal.Rand, tier string) *Case {
	a, g := genArch(r, tier, false, "x86_64")
	if r.Chance(1, 4) {
		addInstallIf(r, &a, g)
	}
	c := &Case{Stream: "single-arch", Archs: []Arch{a}}
	for k := 0; k < 4; k++ {
		c.Runs = append(c.Runs, Run{Arch: 0, World: g.world(false), Multi: true, Plain: true})
	}
	return c
}
