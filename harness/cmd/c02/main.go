// c02 harness (stages c02 and c14): builds synthetic repository indexes in
// memory, resolves generated worlds with the REAL apk.PkgResolver through its
// public API (NewPkgResolver + GetPackagesWithDependencies), and prints the
// universes with the observed results as Gallina terms for Corr/C02.v and
// Corr/C14.v.  Index objects are fresh for every case, so neither process-wide
// cache (resolver trie, disqualification trie) can carry anything from one case
// to the next; within a case the same index objects are resolved repeatedly,
// which goes through both caches and their Clone paths.
package main

import (
	"context"
	"encoding/json"
	"flag"
	"fmt"
	"os"
	"sort"
	"strings"
	"time"

	"chainguard.dev/apko/pkg/apk/apk"
	"verifharness/gal"
)

// ---- universe description ---------------------------------------------------

type Pkg struct {
	Name      string   `json:"n"`
	Version   string   `json:"v"`
	Origin    string   `json:"o,omitempty"`
	Deps      []string `json:"d,omitempty"`
	Provides  []string `json:"p,omitempty"`
	InstallIf []string `json:"i,omitempty"`
	Prio      uint64   `json:"prio,omitempty"`
}

type Index struct {
	Pin  string `json:"pin,omitempty"` // NamedIndex.Name()
	URI  string `json:"uri"`
	Pkgs []Pkg  `json:"pkgs"`
}

type Arch struct {
	Name    string  `json:"arch"`
	Indexes []Index `json:"indexes"`
}

type Run struct {
	Arch  int      `json:"arch"`
	World []string `json:"world"`
	Multi bool     `json:"multi"` // allArchs = all architectures of the case (false: nil)
	Plain bool     `json:"-"`     // also resolve with allArchs = nil and record it (single-arch cases)

	Obs      []int `json:"obs"`
	ObsErr   string `json:"err,omitempty"`
	ErrClass string `json:"errclass,omitempty"` // innermost cause, read off the whole (multi-line) error text
	ObsOK    bool  `json:"ok"`
	PlainObs []int `json:"plain_obs,omitempty"`
	PlainOK  bool  `json:"plain_ok,omitempty"`
	HasPlain bool  `json:"has_plain,omitempty"`
}

type Case struct {
	Stream string `json:"stream"`
	Note   string `json:"note,omitempty"`
	Archs  []Arch `json:"archs"`
	Runs   []Run  `json:"runs"`
}

func (a Arch) flat() []Pkg {
	var out []Pkg
	for _, ix := range a.Indexes {
		out = append(out, ix.Pkgs...)
	}
	return out
}

// ---- running the implementation ----------------------------------------------

type built struct {
	indexes []apk.NamedIndex
	pid     map[*apk.RepositoryPackage]int
}

func build(a Arch) built {
	b := built{pid: map[*apk.RepositoryPackage]int{}}
	n := 0
	for _, ix := range a.Indexes {
		pkgs := make([]*apk.Package, len(ix.Pkgs))
		for i, p := range ix.Pkgs {
			pkgs[i] = &apk.Package{Name: p.Name, Version: p.Version, Origin: p.Origin, Arch: a.Name,
				Dependencies: append([]string(nil), p.Deps...), Provides: append([]string(nil), p.Provides...),
				InstallIf: append([]string(nil), p.InstallIf...), ProviderPriority: p.Prio}
		}
		repo := &apk.Repository{URI: ix.URI}
		rwi := repo.WithIndex(&apk.APKIndex{Packages: pkgs})
		for _, rp := range rwi.Packages() {
			b.pid[rp] = n
			n++
		}
		b.indexes = append(b.indexes, apk.NewNamedRepositoryWithIndex(ix.Pin, rwi))
	}
	return b
}

type outcome struct {
	ok     bool
	pids   []int
	err    string
	panic  string
	timed  bool
}

func resolveOnce(b built, world []string, allArchs map[string][]apk.NamedIndex) (o outcome) {
	done := make(chan outcome, 1)
	ctx, cancel := context.WithTimeout(context.Background(), 20*time.Second)
	defer cancel()
	go func() {
		var r outcome
		defer func() {
			if e := recover(); e != nil {
				r = outcome{panic: fmt.Sprint(e)}
			}
			done <- r
		}()
		res := apk.NewPkgResolver(ctx, b.indexes)
		pkgs, _, err := res.GetPackagesWithDependencies(ctx, append([]string(nil), world...), allArchs)
		if err != nil {
			r = outcome{err: err.Error()}
			return
		}
		r.ok = true
		for _, p := range pkgs {
			id, found := b.pid[p]
			if !found {
				id = 1 << 20 // not one of ours: reported by Coq as out of range
			}
			r.pids = append(r.pids, id)
		}
	}()
	select {
	case o = <-done:
	case <-time.After(30 * time.Second):
		o = outcome{timed: true}
	}
	return o
}

var implViolations int

func runCase(c *Case) {
	bs := make([]built, len(c.Archs))
	all := map[string][]apk.NamedIndex{}
	for i, a := range c.Archs {
		bs[i] = build(a)
		all[a.Name] = bs[i].indexes
	}
	var extra []Run
	for i := range c.Runs {
		r := &c.Runs[i]
		var aa map[string][]apk.NamedIndex
		if r.Multi {
			aa = all
		}
		o := resolveOnce(bs[r.Arch], r.World, aa)
		// universes with install_if packages: the same resolution again, several
		// times (fresh resolver clone each time). The model is a function, so every
		// answer must be the model's; an answer that differs from the first one is
		// recorded as a run of its own (Coq then reports it against the model) and
		// reported here as well. This is what catches a return to map order.
		if hasInstallIf(c.Archs[r.Arch]) {
			for k := 0; k < iifRepeats; k++ {
				o2 := resolveOnce(bs[r.Arch], r.World, aa)
				repeatsTotal++
				if o2.ok != o.ok || fmt.Sprint(o2.pids) != fmt.Sprint(o.pids) {
					implViolations++
					fmt.Printf("IMPL-VIOLATION tag=resolution-not-repeatable {\"world\":%q,\"first\":%s,\"again\":%s,\"archs\":%s}\n", r.World, jsonOf(o.pids), jsonOf(o2.pids), jsonOf(c.Archs))
					extra = append(extra, Run{Arch: r.Arch, World: r.World, Multi: r.Multi, ObsOK: o2.ok, Obs: o2.pids, ObsErr: firstLine(o2.err)})
					break
				}
			}
		}
		report := func(o outcome, what string) {
			if o.panic != "" || o.timed {
				tag := "resolver-panics"
				if o.timed {
					tag = "resolver-does-not-terminate"
				}
				implViolations++
				fmt.Printf("IMPL-VIOLATION tag=%s {\"what\":%q,\"detail\":%q,\"world\":%q,\"archs\":%s}\n", tag, what, o.panic, r.World, jsonOf(c.Archs))
			}
		}
		report(o, "resolve")
		r.ObsOK, r.Obs, r.ObsErr = o.ok, o.pids, firstLine(o.err)
		if !o.ok {
			r.ErrClass = errorClass(o.err)
		}
		runsTotal++
		if o.ok {
			runsOK++
		}
		if r.Plain {
			p := resolveOnce(bs[r.Arch], r.World, nil)
			report(p, "resolve(allArchs=nil)")
			r.HasPlain, r.PlainOK, r.PlainObs = true, p.ok, p.pids
			if len(c.Archs) > 1 {
				switch {
				case p.ok && !o.ok:
					filterMadeError++
				case p.ok && o.ok && fmt.Sprint(p.pids) != fmt.Sprint(o.pids):
					filterChangedChoice++
				case p.ok && o.ok:
					filterNoEffect++
				}
			}
		}
	}
	c.Runs = append(c.Runs, extra...)
}

const iifRepeats = 4

var repeatsTotal int

func hasInstallIf(a Arch) bool {
	for _, ix := range a.Indexes {
		for _, p := range ix.Pkgs {
			if len(p.InstallIf) > 0 {
				return true
			}
		}
	}
	return false
}

func firstLine(s string) string {
	if i := strings.IndexByte(s, '\n'); i >= 0 {
		s = s[:i]
	}
	if len(s) > 160 {
		s = s[:160]
	}
	return s
}

// ---- Gallina ------------------------------------------------------------------

func galPkg(p Pkg, ix Index) string {
	return fmt.Sprintf("(P %s %s %s %s %s %s %s %s %s)", gal.Str(p.Name), gal.Str(p.Version), gal.Str(p.Origin),
		gal.StrList(p.Deps), gal.StrList(p.Provides), gal.StrList(p.InstallIf), gal.N(p.Prio), gal.Str(ix.Pin), gal.Str(ix.URI))
}

func galArch(a Arch) string {
	var items []string
	for _, ix := range a.Indexes {
		for _, p := range ix.Pkgs {
			items = append(items, galPkg(p, ix))
		}
	}
	return gal.Pair(gal.Str(a.Name), "["+strings.Join(items, ";\n      ")+"]")
}

func galPids(ok bool, pids []int) string {
	if !ok {
		return "None"
	}
	it := make([]string, len(pids))
	for i, p := range pids {
		it[i] = gal.Nat(p)
	}
	return "(Some " + gal.List(it) + ")"
}

func galRun(r Run) string {
	plain := "None"
	if r.HasPlain {
		plain = "(Some " + galPids(r.PlainOK, r.PlainObs) + ")"
	}
	return fmt.Sprintf("(Rn %s %s %s %s %s)", gal.Nat(r.Arch), gal.StrList(r.World), gal.Bool(r.Multi), galPids(r.ObsOK, r.Obs), plain)
}

func galCase(c *Case) string {
	as := make([]string, len(c.Archs))
	for i, a := range c.Archs {
		as[i] = galArch(a)
	}
	rs := make([]string, len(c.Runs))
	for i, r := range c.Runs {
		rs[i] = galRun(r)
	}
	return fmt.Sprintf("{| c_archs := [%s];\n     c_runs := [%s] |}", strings.Join(as, ";\n    "), strings.Join(rs, ";\n      "))
}

func classOf(c *Case) string {
	npk, iif, prov, pins := 0, 0, 0, 0
	for _, a := range c.Archs {
		for _, ix := range a.Indexes {
			if ix.Pin != "" {
				pins++
			}
			for _, p := range ix.Pkgs {
				npk++
				if len(p.InstallIf) > 0 {
					iif++
				}
				if len(p.Provides) > 0 {
					prov++
				}
			}
		}
	}
	ok := 0
	for _, r := range c.Runs {
		if r.ObsOK {
			ok++
		}
	}
	sz := "pkgs<=8"
	if npk > 24 {
		sz = "pkgs>24"
	} else if npk > 8 {
		sz = "pkgs<=24"
	}
	fl := []string{c.Stream, fmt.Sprintf("archs=%d", len(c.Archs)), sz}
	if iif > 0 {
		fl = append(fl, "install_if")
	}
	if prov > 0 {
		fl = append(fl, "provides")
	}
	if pins > 0 {
		fl = append(fl, "pinned")
	}
	switch {
	case ok == 0:
		fl = append(fl, "all-error")
	case ok == len(c.Runs):
		fl = append(fl, "all-ok")
	default:
		fl = append(fl, "mixed")
	}
	return strings.Join(fl, "/")
}

func add(w *gal.Writer, c *Case) {
	runCase(c)
	recordShapes(c)
	triv := true
	for _, r := range c.Runs {
		if r.ObsOK && len(r.Obs) > 1 {
			triv = false
		}
	}
	w.Add(gal.Case{Term: galCase(c), Desc: c, Class: classOf(c), Trivial: triv})
}

// ---- stages ----------------------------------------------------------------------

func stageC02(dir string, seed uint64, tier string) error {
	w := &gal.Writer{Dir: dir, Require: "From Apko Require Import Corr.C02.", Type: "rcase", Check: "check_c02", Shard: 40}
	for _, c := range corpusC02() {
		add(w, c)
	}
	r := gal.NewRand(seed)
	nEnv, nGen, nBad := 120, 260, 60
	if tier == "thorough" {
		nEnv, nGen, nBad = 1500, 4000, 700
	}
	for i := 0; i < nEnv; i++ {
		add(w, genEnvelope(r, tier))
	}
	for i := 0; i < nGen; i++ {
		add(w, genGeneral(r, tier, false))
	}
	for i := 0; i < nBad; i++ {
		add(w, genGeneral(r, tier, true))
	}
	// after the older streams, so that their cases stay what they were for a given seed
	for i := 0; i < nGen/4; i++ {
		add(w, genSharedProvide(r, tier))
	}
	// session 6: the wider envelope of c02_closed_multi_version (after everything older, same reason)
	nMulti := 100
	if tier == "thorough" {
		nMulti = 1500
	}
	for i := 0; i < nMulti; i++ {
		add(w, genMulti(r, tier))
	}
	stat(w)
	statShapes()
	if err := w.Flush(); err != nil {
		return err
	}
	if miss := missingShapes(); len(miss) > 0 {
		return fmt.Errorf("generator self-check: shapes that do not occur in this run: %v", miss)
	}
	return nil
}

func stageC14(dir string, seed uint64, tier string) error {
	w := &gal.Writer{Dir: dir, Require: "From Apko Require Import Corr.C14.", Type: "rcase", Check: "check_c14", Shard: 30}
	for _, c := range corpusC14() {
		add(w, c)
	}
	r := gal.NewRand(seed + 1414)
	nFam, nSingle := 180, 60
	if tier == "thorough" {
		nFam, nSingle = 2500, 500
	}
	for i := 0; i < nFam; i++ {
		add(w, genFamily(r, tier))
	}
	for i := 0; i < nSingle; i++ {
		add(w, genSingleArch(r, tier))
	}
	stat(w)
	return w.Flush()
}

var runsTotal, runsOK int

// multi-architecture runs compared with the same call without allArchs: how often the cross-architecture filter mattered
var filterMadeError, filterChangedChoice, filterNoEffect int

func stat(w *gal.Writer) {
	fmt.Printf("STAT {\"resolutions\":%d,\"repeated_resolutions_of_install_if_universes\":%d,\"resolutions_ok\":%d,\"panics_or_timeouts\":%d,\"cross_arch_filter_turned_success_into_error\":%d,\"cross_arch_filter_changed_the_install_list\":%d,\"cross_arch_filter_no_effect\":%d}\n", runsTotal, repeatsTotal, runsOK, implViolations, filterMadeError, filterChangedChoice, filterNoEffect)
}

func jsonOf(v any) string {
	b, err := json.Marshal(v)
	if err != nil {
		return "null"
	}
	return string(b)
}

func main() {
	out := flag.String("out", "", "cases directory")
	seed := flag.Uint64("seed", 1, "seed")
	tier := flag.String("tier", "quick", "tier")
	stage := flag.String("stage", "c02", "c02|c14")
	_ = flag.String("replay", "", "unused: cases are regenerated from the seed")
	flag.Parse()
	var err error
	switch *stage {
	case "c02":
		err = stageC02(*out, *seed, *tier)
	case "c14":
		err = stageC14(*out, *seed, *tier)
	default:
		err = fmt.Errorf("unknown stage %q", *stage)
	}
	if err != nil {
		fmt.Fprintln(os.Stderr, err)
		os.Exit(1)
	}
	_ = sort.Strings
}
