package main

// Session 6: (1) the stream for the WIDER envelope of c02_closed_multi_version
// (several versions per name, virtuals provided by several versions of one
// name, versioned constraints that the best version passes, conflict entries),
// (2) the distribution of universe shapes and of outcomes, printed as a STAT
// line into the evidence, with a self-check that every shape occurs in the
// quick tier.

import (
	"fmt"
	"sort"
	"strings"

	"verifharness/gal"
)

// versions in ascending apk order (the generator only needs "which one is the best")
var orderedVers = []string{"0.9", "1.0", "1.0-r1", "1.0-r2", "1.1", "1.2.3", "2.0_rc1", "2.0", "3.0", "5.0", "10.0"}

func pickAscending(r *gal.Rand, n int) []string {
	idx := map[int]bool{}
	for len(idx) < n {
		idx[r.Intn(len(orderedVers))] = true
	}
	var ks []int
	for k := range idx {
		ks = append(ks, k)
	}
	sort.Ints(ks)
	out := make([]string, len(ks))
	for i, k := range ks {
		out[i] = orderedVers[k]
	}
	return out
}

// a versioned constraint on name that the best (last) version of vs passes
func passingConstraint(r *gal.Rand, name string, vs []string) string {
	best := vs[len(vs)-1]
	switch r.Intn(6) {
	case 0:
		return name + ">=" + gal.Pick(r, vs)
	case 1:
		if len(vs) > 1 {
			return name + ">" + vs[r.Intn(len(vs)-1)]
		}
		return name + ">=" + best
	case 2:
		return name + "<=" + best
	case 3:
		return name + "=" + best
	case 4:
		return name + "~" + best
	default:
		return name + "<" + "99"
	}
}

// genMulti: inside the wider envelope by construction (what is not — an ordering of the pool that apk sees
// differently, say — is simply a general case: Coq decides membership, the generator only aims).
func genMulti(r *gal.Rand, tier string) *Case {
	n := nNames(r, tier)
	perm := append([]string(nil), namePool...)
	for i := range perm {
		j := i + r.Intn(len(perm)-i)
		perm[i], perm[j] = perm[j], perm[i]
	}
	names := perm[:n]
	vers := map[string][]string{}
	for _, nm := range names {
		vers[nm] = pickAscending(r, 1+pickWeighted(r, []int{30, 30, 25, 15}))
	}
	nv := r.Intn(4)
	virts := append([]string(nil), virtPool[:nv]...)
	provider := map[string]string{}
	for _, v := range virts {
		provider[v] = gal.Pick(r, names)
	}
	// pure virtuals with several provider NAMES: provided without a version, by the best version of each
	// provider only; the providers differ in provider priority
	pure := map[string][]string{}
	var pures []string
	for k, pv := range []string{"cmd:sh", "virt-mta"} {
		if r.Chance(1, 2+k) {
			np := 2 + r.Intn(2)
			if np > len(names) {
				np = len(names)
			}
			pure[pv] = append([]string(nil), names[r.Intn(len(names)-np+1):][:np]...)
			pures = append(pures, pv)
		}
	}
	providesPure := func(nm string) []string {
		var out []string
		for _, pv := range pures {
			for _, x := range pure[pv] {
				if x == nm {
					out = append(out, pv)
				}
			}
		}
		return out
	}
	nIdx := 1 + pickWeighted(r, []int{70, 30}) // several repositories, none pinned
	idx := make([]Index, nIdx)
	for i := range idx {
		idx[i].URI = fmt.Sprintf("https://repo%d.example/x86_64", i)
	}
	dep := func(self string) string {
		if len(virts) > 0 && r.Chance(1, 4) {
			d := gal.Pick(r, virts)
			if provider[d] == self {
				return ""
			}
			return d
		}
		if len(pures) > 0 && r.Chance(1, 5) {
			d := gal.Pick(r, pures)
			for _, x := range pure[d] {
				if x == self {
					return ""
				}
			}
			return d
		}
		t := gal.Pick(r, names)
		if r.Chance(40, 100) {
			return passingConstraint(r, t, vers[t])
		}
		return t
	}
	for _, nm := range names {
		origin := gal.Pick(r, []string{nm, nm, "o1", ""})
		prio := uint64(0)
		if r.Chance(1, 8) || len(providesPure(nm)) > 0 && r.Chance(2, 3) {
			prio = uint64(1 + r.Intn(20))
		}
		vs := vers[nm]
		// which versions provide the virtuals of this name: the best one always, the others mostly;
		// the provided version grows with the build, or is one version for all, or there is none
		mode := map[string]int{}
		for _, v := range virts {
			mode[v] = r.Intn(3)
		}
		for k, ver := range vs {
			p := Pkg{Name: nm, Version: ver, Origin: origin, Prio: prio}
			for _, v := range virts {
				if provider[v] != nm {
					continue
				}
				if k != len(vs)-1 && r.Chance(1, 4) {
					continue
				}
				switch mode[v] {
				case 0:
					p.Provides = append(p.Provides, v+"="+ver)
				case 1:
					p.Provides = append(p.Provides, v+"=1")
				default:
					p.Provides = append(p.Provides, v)
				}
			}
			if k == len(vs)-1 {
				p.Provides = append(p.Provides, providesPure(nm)...)
			}
			for j, nd := 0, pickWeighted(r, []int{25, 35, 25, 15}); j < nd; j++ {
				d := dep(nm)
				if d == "" {
					continue
				}
				if r.Chance(6, 100) {
					// conflict entries: unversioned (uniform over the versions) or aimed below every version
					t := gal.Pick(r, names)
					d = "!" + t
					if r.Chance(1, 3) {
						d = "!" + t + "<0.1"
					}
				}
				p.Deps = append(p.Deps, d)
			}
			i := r.Intn(nIdx)
			idx[i].Pkgs = append(idx[i].Pkgs, p)
		}
	}
	// shuffle inside each index: the name map's order follows the index
	for i := range idx {
		ps := idx[i].Pkgs
		for a := range ps {
			b := a + r.Intn(len(ps)-a)
			ps[a], ps[b] = ps[b], ps[a]
		}
	}
	c := &Case{Stream: "multi-envelope", Archs: []Arch{{Name: "x86_64", Indexes: idx}}}
	for k := 0; k < 5; k++ {
		var w []string
		for j, m := 0, 1+pickWeighted(r, []int{35, 35, 20, 10}); j < m; j++ {
			if len(virts) > 0 && r.Chance(1, 5) {
				w = append(w, gal.Pick(r, virts))
				continue
			}
			if len(pures) > 0 && r.Chance(1, 6) {
				w = append(w, gal.Pick(r, pures))
				continue
			}
			t := gal.Pick(r, names)
			s := t
			if r.Chance(35, 100) {
				s = passingConstraint(r, t, vers[t])
			}
			if r.Chance(1, 10) {
				s += "@edge" // a pin that no repository carries
			}
			w = append(w, s)
		}
		c.Runs = append(c.Runs, Run{Arch: 0, World: w, Multi: k%2 == 0})
	}
	return c
}

// ---- distribution of shapes and outcomes -------------------------------------------------------

type shapeStats struct {
	universes          int
	versionsPerName    map[string]int // "1","2","3","4+": names with that many packages
	providersPerVirt   map[string]int // distinct provider NAMES per provided name
	packagesPerVirt    map[string]int // provider PACKAGES per provided name
	depOps             map[string]int // operator of every dependency entry
	worldOps           map[string]int
	features           map[string]int // universes that have the feature
	outcomes           map[string]int
	resultSizes        map[string]int
	perStream          map[string]int
}

var shapes = shapeStats{versionsPerName: map[string]int{}, providersPerVirt: map[string]int{}, packagesPerVirt: map[string]int{},
	depOps: map[string]int{}, worldOps: map[string]int{}, features: map[string]int{}, outcomes: map[string]int{}, resultSizes: map[string]int{},
	perStream: map[string]int{}}

func bucket(n int) string {
	if n >= 4 {
		return "4+"
	}
	return fmt.Sprint(n)
}

// operator of a constraint string (after a leading "!"), "" -> "none"; strings the parser would refuse -> "malformed"
func opOf(s string) (name, op string) {
	s = strings.TrimPrefix(s, "!")
	if i := strings.IndexByte(s, '@'); i >= 0 {
		s = s[:i]
	}
	i := strings.IndexAny(s, "<>=~")
	if i < 0 {
		return s, "none"
	}
	j := i
	for j < len(s) && strings.IndexByte("<>=~", s[j]) >= 0 {
		j++
	}
	op = s[i:j]
	switch op {
	case "=", "<", "<=", ">", ">=", "~":
		if j == len(s) {
			return s[:i], "malformed"
		}
		return s[:i], op
	}
	return s[:i], "malformed"
}

func errorClass(msg string) string {
	where := "request"
	if strings.Contains(msg, " deps:") {
		where = "dependency"
	}
	cause := "other"
	switch {
	case strings.Contains(msg, "we already selected"):
		cause = "selected-version-conflicts"
	case strings.Contains(msg, "selecting package"):
		cause = "pick-refused"
	case strings.Contains(msg, "excluded by !"):
		cause = "excluded-by-conflict-entry"
	case strings.Contains(msg, "already provides"):
		cause = "disqualified-by-chosen-provider"
	case strings.Contains(msg, "does not satisfy"):
		cause = "no-version-satisfies"
	case strings.Contains(msg, "not in indexes"):
		cause = "filtered-out-by-version-or-pin"
	case strings.Contains(msg, "invalid version") || strings.Contains(msg, "parsing"):
		cause = "version-parse"
	case strings.Contains(msg, "nothing provides"):
		cause = "nothing-provides"
	case strings.Contains(msg, "could not find package"):
		cause = "could-not-find"
	case msg == "":
		cause = "panic-or-timeout"
	}
	return "error/" + where + "/" + cause
}

func hasCycle(pkgs []Pkg) bool {
	names := map[string]bool{}
	provides := map[string][]string{}
	for _, p := range pkgs {
		names[p.Name] = true
		for _, pv := range p.Provides {
			n, _ := opOf(pv)
			provides[n] = append(provides[n], p.Name)
		}
	}
	edges := map[string]map[string]bool{}
	for _, p := range pkgs {
		for _, d := range p.Deps {
			if strings.HasPrefix(d, "!") {
				continue
			}
			n, _ := opOf(d)
			ts := provides[n]
			if names[n] {
				ts = append(ts, n)
			}
			for _, t := range ts {
				if t == p.Name {
					continue
				}
				if edges[p.Name] == nil {
					edges[p.Name] = map[string]bool{}
				}
				edges[p.Name][t] = true
			}
		}
	}
	state := map[string]int{}
	var visit func(string) bool
	visit = func(u string) bool {
		state[u] = 1
		for v := range edges[u] {
			if state[v] == 1 || state[v] == 0 && visit(v) {
				return true
			}
		}
		state[u] = 2
		return false
	}
	var keys []string
	for k := range edges {
		keys = append(keys, k)
	}
	sort.Strings(keys)
	for _, k := range keys {
		if state[k] == 0 && visit(k) {
			return true
		}
	}
	return false
}

func recordShapes(c *Case) {
	shapes.universes++
	shapes.perStream[c.Stream]++
	feat := map[string]bool{}
	if len(c.Archs) > 1 {
		feat["several-architectures"] = true
	}
	for _, a := range c.Archs[:1] {
		pkgs := a.flat()
		byName := map[string]int{}
		seenNV := map[string]bool{}
		provNames := map[string]map[string]bool{}
		provPkgs := map[string]int{}
		if len(a.Indexes) > 1 {
			feat["several-repositories"] = true
		}
		for _, ix := range a.Indexes {
			if ix.Pin != "" {
				feat["pinned-repository"] = true
			}
		}
		for _, p := range pkgs {
			byName[p.Name]++
			if seenNV[p.Name+"="+p.Version] {
				feat["same-name-version-twice"] = true
			}
			seenNV[p.Name+"="+p.Version] = true
			if len(p.InstallIf) > 0 {
				feat["install_if"] = true
			}
			if p.Prio > 0 {
				feat["provider-priority"] = true
			}
			for _, pv := range p.Provides {
				n, op := opOf(pv)
				if provNames[n] == nil {
					provNames[n] = map[string]bool{}
				}
				provNames[n][p.Name] = true
				provPkgs[n]++
				if op == "none" {
					feat["unversioned-provide"] = true
				} else {
					feat["versioned-provide"] = true
				}
				if n == p.Name {
					feat["provides-own-name"] = true
				}
			}
			for _, d := range p.Deps {
				n, op := opOf(d)
				if strings.HasPrefix(d, "!") {
					shapes.depOps["conflict:"+op]++
					feat["conflict-entry"] = true
					continue
				}
				shapes.depOps[op]++
				if n == p.Name {
					feat["self-dependency"] = true
				}
				if strings.Contains(d, "@") {
					feat["pinned-dependency"] = true
				}
			}
		}
		for _, k := range byName {
			shapes.versionsPerName[bucket(k)]++
		}
		for n, m := range provNames {
			shapes.providersPerVirt[bucket(len(m))]++
			shapes.packagesPerVirt[bucket(provPkgs[n])]++
			if byName[n] > 0 {
				feat["provided-name-is-a-package-name"] = true
			}
		}
		if hasCycle(pkgs) {
			feat["dependency-cycle"] = true
		}
	}
	for f := range feat {
		shapes.features[f]++
	}
	for _, r := range c.Runs {
		for _, w := range r.World {
			_, op := opOf(w)
			if strings.HasPrefix(w, "!") {
				op = "conflict:" + op
			}
			shapes.worldOps[op]++
			if strings.Contains(w, "@") {
				shapes.worldOps["pinned-request"]++
			}
		}
		if r.ObsOK {
			shapes.outcomes["ok"]++
			switch n := len(r.Obs); {
			case n <= 1:
				shapes.resultSizes["1"]++
			case n <= 3:
				shapes.resultSizes["2-3"]++
			case n <= 7:
				shapes.resultSizes["4-7"]++
			default:
				shapes.resultSizes["8+"]++
			}
		} else {
			shapes.outcomes[r.ErrClass]++
		}
	}
}

// every shape the property's quantifier names must occur, in the quick tier already
var requiredShapes = []struct{ where, key string }{
	{"versions", "1"}, {"versions", "2"}, {"versions", "3"}, {"versions", "4+"},
	{"providers", "1"}, {"providers", "2"}, {"providers", "3"},
	{"packages-per-virtual", "2"}, {"packages-per-virtual", "4+"},
	{"dep", "none"}, {"dep", "="}, {"dep", "<"}, {"dep", "<="}, {"dep", ">"}, {"dep", ">="}, {"dep", "~"}, {"dep", "conflict:none"}, {"dep", "conflict:<"},
	{"world", "none"}, {"world", "="}, {"world", "<"}, {"world", "<="}, {"world", ">"}, {"world", ">="}, {"world", "~"}, {"world", "pinned-request"},
	{"feature", "install_if"}, {"feature", "pinned-repository"}, {"feature", "dependency-cycle"}, {"feature", "self-dependency"},
	{"feature", "conflict-entry"}, {"feature", "provider-priority"}, {"feature", "versioned-provide"}, {"feature", "unversioned-provide"},
	{"feature", "several-repositories"}, {"feature", "same-name-version-twice"}, {"feature", "provided-name-is-a-package-name"}, {"feature", "provides-own-name"},
	{"outcome", "ok"}, {"outcome", "error/request/nothing-provides"}, {"outcome", "error/dependency/nothing-provides"},
	{"outcome", "error/dependency/selected-version-conflicts"}, {"outcome", "error/dependency/pick-refused"},
	{"outcome", "error/dependency/excluded-by-conflict-entry"}, {"outcome", "error/dependency/disqualified-by-chosen-provider"},
	{"outcome", "error/request/no-version-satisfies"}, {"outcome", "error/dependency/no-version-satisfies"}, {"outcome", "error/request/version-parse"},
}

func missingShapes() []string {
	var miss []string
	for _, q := range requiredShapes {
		var m map[string]int
		switch q.where {
		case "versions":
			m = shapes.versionsPerName
		case "providers":
			m = shapes.providersPerVirt
		case "packages-per-virtual":
			m = shapes.packagesPerVirt
		case "dep":
			m = shapes.depOps
		case "world":
			m = shapes.worldOps
		case "feature":
			m = shapes.features
		case "outcome":
			m = shapes.outcomes
		}
		if m[q.key] == 0 {
			miss = append(miss, q.where+":"+q.key)
		}
	}
	return miss
}

func statShapes() {
	fmt.Printf("STAT {\"universe_shapes\":{\"universes\":%d,\"per_stream\":%s,\"names_by_number_of_versions\":%s,\"provided_names_by_number_of_provider_names\":%s,\"provided_names_by_number_of_provider_packages\":%s,\"dependency_entries_by_operator\":%s,\"requests_by_operator\":%s,\"universes_with\":%s},\"outcomes\":{\"by_class\":%s,\"ok_by_result_size\":%s},\"shapes_missing\":%s}\n",
		shapes.universes, jsonOf(shapes.perStream), jsonOf(shapes.versionsPerName), jsonOf(shapes.providersPerVirt), jsonOf(shapes.packagesPerVirt),
		jsonOf(shapes.depOps), jsonOf(shapes.worldOps), jsonOf(shapes.features), jsonOf(shapes.outcomes), jsonOf(shapes.resultSizes), jsonOf(append([]string{}, missingShapes()...)))
}
