// c03 harness: ParseVersion / CompareVersions / SatisfiedBy /
// ResolvePackageNameVersionPin on grammar-derived and malformed strings.
package main

import (
	"flag"
	"fmt"
	"os"
	"strings"

	"chainguard.dev/apko/pkg/apk/apk"
	"verifharness/gal"
)

var numPool = []string{"0", "1", "2", "9", "10", "007", "01", "11", "100", "2147483648", "9223372036854775807", "20240131", "0", "1", "2", "3", "12", "100", "65535", "4294967296", "9223372036854775806", "000", "9223372036854775808", "99999999999999999999"}
var smallNums = []string{"0", "1", "2", "3", "10"}
var preS = []string{"", "_alpha", "_beta", "_pre", "_rc"}
var postS = []string{"", "_cvs", "_svn", "_git", "_hg", "_p"}
var letters = []string{"", "a", "b", "z"}

type vparts struct {
	nums             []string
	letter           string
	pre, preN        string
	post, postN, rev string
}

func (v vparts) String() string {
	s := strings.Join(v.nums, ".") + v.letter
	if v.pre != "" {
		s += v.pre + v.preN
	}
	if v.post != "" {
		s += v.post + v.postN
	}
	if v.rev != "" {
		s += "-r" + v.rev
	}
	return s
}

func genParts(r *gal.Rand, small bool) vparts {
	pool := numPool
	if small {
		pool = smallNums
	}
	var v vparts
	for i, n := 0, 1+r.Intn(4); i < n; i++ {
		v.nums = append(v.nums, gal.Pick(r, pool))
	}
	v.letter = gal.Pick(r, letters)
	if r.Chance(1, 2) {
		v.pre = gal.Pick(r, preS)
		if v.pre != "" && r.Chance(2, 3) {
			v.preN = gal.Pick(r, pool)
		}
	}
	if r.Chance(1, 2) {
		v.post = gal.Pick(r, postS)
		if v.post != "" && r.Chance(2, 3) {
			v.postN = gal.Pick(r, pool)
		}
	}
	if r.Chance(2, 3) {
		v.rev = gal.Pick(r, pool)
	}
	return v
}

// neighbour changes exactly one field (where ladders go wrong)
func neighbour(r *gal.Rand, v vparts, small bool) vparts {
	pool := numPool
	if small {
		pool = smallNums
	}
	w := v
	w.nums = append([]string(nil), v.nums...)
	switch r.Intn(9) {
	case 0:
		w.nums[r.Intn(len(w.nums))] = gal.Pick(r, pool)
	case 1:
		w.nums = append(w.nums, gal.Pick(r, pool))
	case 2:
		if len(w.nums) > 1 {
			w.nums = w.nums[:len(w.nums)-1]
		}
	case 3:
		w.letter = gal.Pick(r, letters)
	case 4:
		w.pre = gal.Pick(r, preS)
		if w.pre == "" {
			w.preN = ""
		}
	case 5:
		if w.pre != "" {
			w.preN = gal.Pick(r, pool)
		}
	case 6:
		w.post = gal.Pick(r, postS)
		if w.post == "" {
			w.postN = ""
		}
	case 7:
		if w.post != "" {
			w.postN = gal.Pick(r, pool)
		}
	case 8:
		w.rev = gal.Pick(r, append([]string{""}, pool...))
	}
	return w
}

func mutate(r *gal.Rand, s string) string {
	b := []byte(s)
	alphabet := []byte("0123456789.abzAZ_-r@=<>~ +\x00\xc3\xa9\n")
	switch r.Intn(5) {
	case 0:
		if len(b) > 0 {
			b[r.Intn(len(b))] = gal.Pick(r, alphabet)
		}
	case 1:
		i := r.Intn(len(b) + 1)
		b = append(b[:i], append([]byte{gal.Pick(r, alphabet)}, b[i:]...)...)
	case 2:
		if len(b) > 0 {
			i := r.Intn(len(b))
			b = append(b[:i], b[i+1:]...)
		}
	case 3:
		b = append(b, []byte(gal.Pick(r, []string{".", "..1", "_", "_alpha_beta", "-r", "-r1-r2", "_p_p", "A", "_rc1_pre2", "\n"}))...)
	case 4:
		if len(b) > 1 {
			i := r.Intn(len(b) - 1)
			b[i], b[i+1] = b[i+1], b[i]
		}
	}
	return string(b)
}

func galObsVer(v apk.Version) string {
	nums, letter, pre, preN, post, postN, rev := apk.VerifVersionFields(v)
	it := make([]string, len(nums))
	for i, n := range nums {
		it[i] = gal.Z(int64(n))
	}
	return fmt.Sprintf("{| o_nums := %s; o_letter := %s; o_pre := %s; o_pre_n := %s; o_post := %s; o_post_n := %s; o_rev := %s |}",
		gal.List(it), gal.Z(int64(letter)), gal.Z(int64(pre)), gal.Z(int64(preN)), gal.Z(int64(post)), gal.Z(int64(postN)), gal.Z(int64(rev)))
}

func parseCase(w *gal.Writer, s, class string) {
	v, err := apk.ParseVersion(s)
	obs := "None"
	if err == nil {
		obs = "(Some " + galObsVer(v) + ")"
	}
	w.Add(gal.Case{Term: fmt.Sprintf("{| p_str := %s; p_obs := %s |}", gal.Str(s), obs), Class: class,
		Trivial: s == "", Desc: map[string]any{"parse": s, "accepted": err == nil}})
}

func cmpCase(w *gal.Writer, a, b, class string) {
	va, e1 := apk.ParseVersion(a)
	vb, e2 := apk.ParseVersion(b)
	if e1 != nil || e2 != nil {
		return
	}
	c, d := apk.CompareVersions(va, vb), apk.CompareVersions(vb, va)
	w.Add(gal.Case{Term: fmt.Sprintf("{| k_a := %s; k_b := %s; k_obs := %s; k_obs_rev := %s |}", gal.Str(a), gal.Str(b), gal.Z(int64(c)), gal.Z(int64(d))),
		Class: class, Trivial: a == b, Desc: map[string]any{"compare": []string{a, b}, "result": c, "reverse": d}})
}

func resolveObs(s string) (name, ver, pin string, dep int) {
	return apk.VerifConstraintFields(apk.ResolvePackageNameVersionPin(s))
}

func satCase(w *gal.Writer, name, op, cver, pin, ver string, clean bool, class string) {
	full := name + op + cver
	if pin != "" {
		full += "@" + pin
	}
	pc := apk.ResolvePackageNameVersionPin(full)
	rn, rv, rp, rd := resolveObs(full)
	v, err := apk.ParseVersion(ver)
	if err != nil {
		return
	}
	ok, serr := pc.SatisfiedBy(v)
	obs := 0
	if serr != nil {
		obs = 2
	} else if ok {
		obs = 1
	}
	w.Add(gal.Case{Term: fmt.Sprintf("{| s_name := %s; s_op := %s; s_cver := %s; s_pin := %s; s_ver := %s; s_obs := %s; s_rname := %s; s_rver := %s; s_rdep := %s; s_rpin := %s; s_clean := %s |}",
		gal.Str(name), gal.Str(op), gal.Str(cver), gal.Str(pin), gal.Str(ver), gal.Z(int64(obs)), gal.Str(rn), gal.Str(rv), gal.Z(int64(rd)), gal.Str(rp), gal.Bool(clean)),
		Class: class, Desc: map[string]any{"constraint": full, "version": ver, "satisfied": obs}})
}

// one candidate through the REAL filterPackages (apk.VerifFilterAccepts): own version and provides against name+op+cver
func fltCase(w *gal.Writer, name, op, cver, ver string, provs []string, clean bool, class string) {
	if _, err := apk.ParseVersion(ver); err != nil && clean {
		return
	}
	obs := apk.VerifFilterAccepts(name, ver, provs, name+op+cver)
	ps := make([]string, len(provs))
	for i, p := range provs {
		ps[i] = gal.Str(p)
	}
	w.Add(gal.Case{Term: fmt.Sprintf("{| f_name := %s; f_op := %s; f_cver := %s; f_ver := %s; f_provs := [%s]; f_obs := %s; f_clean := %s |}",
		gal.Str(name), gal.Str(op), gal.Str(cver), gal.Str(ver), strings.Join(ps, "; "), gal.Bool(obs), gal.Bool(clean)),
		Class: class, Desc: map[string]any{"constraint": name + op + cver, "candidate_version": ver, "provides": provs, "passes_filter": obs}})
}

// a shared-library provide against a shared-library constraint: both strings go through ResolvePackageNameVersionPin
func soCase(w *gal.Writer, name, op, cver, pver, class string) {
	pc := apk.ResolvePackageNameVersionPin(name + op + cver)
	_, pv, _, _ := resolveObs(name + "=" + pver)
	obs := 3
	if v, err := apk.ParseVersion(pv); err == nil {
		ok, serr := pc.SatisfiedBy(v)
		switch {
		case serr != nil:
			obs = 2
		case ok:
			obs = 1
		default:
			obs = 0
		}
	}
	w.Add(gal.Case{Term: fmt.Sprintf("{| so_name := %s; so_op := %s; so_cver := %s; so_pver := %s; so_obs := %s |}",
		gal.Str(name), gal.Str(op), gal.Str(cver), gal.Str(pver), gal.Z(int64(obs))),
		Class: class, Desc: map[string]any{"constraint": name + op + cver, "provide": name + "=" + pver, "satisfied": obs}})
}

// a candidate list through the REAL filterPackages with dq map, pins and installed package (apk.VerifFilterList)
func fltlCase(w *gal.Writer, name, op, cver, allow, prefer string, installed *apk.VerifFilterCandidate, cands []apk.VerifFilterCandidate, clean bool, class string) {
	passed, urls, instURL := apk.VerifFilterList(cands, name+op+cver, allow, prefer, installed)
	items := make([]string, len(cands))
	descs := make([]map[string]any, len(cands))
	for i, c := range cands {
		items[i] = fmt.Sprintf("{| fc_id := %s; fc_ver := %s; fc_provs := %s; fc_url := %s; fc_pinned := %s; fc_dq := %s |}",
			gal.N(uint64(i)), gal.Str(c.Version), gal.StrList(c.Provides), gal.Str(urls[i]), gal.Str(c.Pinned), gal.Bool(c.Disqualified))
		descs[i] = map[string]any{"version": c.Version, "provides": c.Provides, "url": urls[i], "pinned": c.Pinned, "disqualified": c.Disqualified}
	}
	obs := make([]string, len(passed))
	for i, p := range passed {
		obs[i] = gal.N(uint64(p))
	}
	w.Add(gal.Case{Term: fmt.Sprintf("{| fl_name := %s; fl_op := %s; fl_cver := %s; fl_allow := %s; fl_prefer := %s; fl_installed := %s; fl_cands := %s; fl_obs := %s; fl_clean := %s |}",
		gal.Str(name), gal.Str(op), gal.Str(cver), gal.Str(allow), gal.Str(prefer), gal.Opt(installed != nil, gal.Str(instURL)), gal.List(items), gal.List(obs), gal.Bool(clean)),
		Class: class, Trivial: len(cands) == 0,
		Desc: map[string]any{"constraint": name + op + cver, "allow_pin": allow, "prefer_pin": prefer, "installed_url": instURL, "candidates": descs, "passed": passed}})
}

func resCase(w *gal.Writer, s, class string) {
	n, v, p, d := resolveObs(s)
	w.Add(gal.Case{Term: fmt.Sprintf("{| r_str := %s; r_name := %s; r_ver := %s; r_dep := %s; r_pin := %s |}", gal.Str(s), gal.Str(n), gal.Str(v), gal.Z(int64(d)), gal.Str(p)),
		Class: class, Desc: map[string]any{"resolve": s, "name": n, "version": v, "dep": d, "pin": p}})
}

// constraint names from the whole class the grammar admits in a name: every byte except @ = > < ~ (and NUL, which the
// harness keeps out of constraint strings); the punctuation a hand-written character class would forget comes up often
var nameSpecials = []byte("[]{}!$,%&'()*;?\\^`| \"#")

func genName(r *gal.Rand) string {
	for {
		n := 1 + r.Intn(5)
		b := make([]byte, 0, n+4)
		if r.Chance(1, 2) {
			b = append(b, gal.Pick(r, []string{"cmd:", "pc:", "py3-", "lib", "a", "/usr/bin/"})...)
		}
		for i := 0; i < n; i++ {
			var c byte
			switch r.Intn(4) {
			case 0:
				c = gal.Pick(r, nameSpecials)
			case 1:
				c = byte(1 + r.Intn(255)) // any byte, non-ASCII included
			default:
				c = gal.Pick(r, []byte("abcxyzABZ0189._+:/-"))
			}
			if strings.IndexByte("@=><~\x00", c) >= 0 {
				continue
			}
			b = append(b, c)
		}
		if len(b) == 0 || strings.HasPrefix(string(b), "so:") {
			continue
		}
		return string(b)
	}
}

// the names of the corpus: one per character a narrowed class would lose (seeded C03-7), a real-world one first
var classNames = []string{"cmd:[", "a[b]", "x{y}", "bang!", "$var", "a,b", "100%", "a&b", "it's", "f(x)", "glob*", "a;b", "why?", "back\\slash", "a^b", "tick`", "a|b",
	"two words", "caf\xc3\xa9", "\xff\xfe", "quote\"d", "#tag", "tab\there", "[", " "}

func pickN(r *gal.Rand) int {
	if r.Chance(1, 2) {
		return 0
	}
	return 1 + r.Intn(2)
}

func main() {
	out := flag.String("out", "", "cases directory")
	seed := flag.Uint64("seed", 1, "seed")
	tier := flag.String("tier", "quick", "tier")
	stage := flag.String("stage", "parse", "parse|compare|constraint|resolve|filter|soname|pins")
	_ = flag.String("replay", "", "unused")
	flag.Parse()
	scale := 1
	if *tier == "thorough" {
		scale = 20
	}
	r := gal.NewRand(*seed + uint64(len(*stage)))
	var w *gal.Writer
	switch *stage {
	case "parse":
		w = &gal.Writer{Dir: *out, Require: "From Apko Require Import Corr.C03.", Type: "parse_case", Check: "check_parse", Shard: 500}
		for _, s := range []string{"1", "1.2.3", "0", "1.01", "1.1", "1a", "1.2_alpha", "1.2_alpha3", "1_rc1_p2-r100", "1.2.3.4.5.6.7.8.9.10_rc1_p2-r100",
			"10.20.30a_alpha12_git20230331-r7", "20040923-r2", "99999999999999999999", "1.99999999999999999999", "1-r99999999999999999999", "1_p99999999999999999999",
			"9223372036854775807", "9223372036854775808", "", ".", "1.", ".1", "1..2", "1.A", "1_alphx", "1_pre", "1_p", "1_pre1_p1", "1_p1_pre1", "1-r", "1-r1-r2", "1a1", "1ab",
			"1\n", "\n1", "1 ", " 1", "1.2é", "1_hg_hg", "1_cvs1_svn2", "v1", "1.2-r0@edge", "1_alpha_beta", "1_RC1", "١"} {
			parseCase(w, s, "corpus")
		}
		for i := 0; i < 1200*scale; i++ {
			parseCase(w, genParts(r, false).String(), "grammar-derived")
		}
		for i := 0; i < 1000*scale; i++ {
			s := genParts(r, r.Bool()).String()
			for k, n := 0, 1+r.Intn(2); k < n; k++ {
				s = mutate(r, s)
			}
			parseCase(w, s, "malformed")
		}
	case "compare":
		w = &gal.Writer{Dir: *out, Require: "From Apko Require Import Corr.C03.", Type: "cmp_case", Check: "check_cmp", Shard: 500}
		for _, p := range [][2]string{{"1", "1"}, {"1.01", "1.1"}, {"1", "1.0"}, {"1.0", "1"}, {"1a", "1b"}, {"1", "1a"}, {"1_alpha", "1_beta"}, {"1_beta", "1_pre"}, {"1_pre", "1_rc"}, {"1_rc", "1"},
			{"1", "1_cvs"}, {"1_cvs", "1_svn"}, {"1_svn", "1_git"}, {"1_git", "1_hg"}, {"1_hg", "1_p"}, {"1_alpha1", "1_alpha2"}, {"1_p1", "1_p2"}, {"1-r1", "1-r2"}, {"1_alpha", "1_p"},
			{"1_alpha_p1", "1_p1"}, {"1_rc1_p1", "1_p1"}, {"2", "10"}, {"1.2", "1.10"}, {"1_alpha", "1_alpha0"}, {"1-r0", "1"}, {"1z", "1_p1"}, {"1.2.3", "1.2.3a"}} {
			cmpCase(w, p[0], p[1], "corpus")
		}
		// all pre x post suffix pairs against each other
		for _, a := range preS {
			for _, b := range preS {
				cmpCase(w, "1"+a+"1", "1"+b+"1", "suffix-grid")
			}
		}
		for _, a := range postS {
			for _, b := range postS {
				cmpCase(w, "1"+a+"1", "1"+b+"1", "suffix-grid")
				cmpCase(w, "1_rc1"+a, "1"+b, "suffix-grid")
			}
		}
		for i := 0; i < 1500*scale; i++ {
			small := r.Chance(2, 3)
			a := genParts(r, small)
			b := neighbour(r, a, small)
			if r.Chance(1, 4) {
				b = neighbour(r, b, small)
			}
			if r.Chance(1, 10) {
				b = genParts(r, small)
			}
			cmpCase(w, a.String(), b.String(), "neighbour-pairs")
		}
	case "constraint":
		w = &gal.Writer{Dir: *out, Require: "From Apko Require Import Corr.C03.", Type: "sat_case", Check: "check_sat", Shard: 500}
		ops := []string{"=", ">", "<", ">=", "<=", "~"}
		names := []string{"a", "foo-bar", "so:libc.so.6", "cmd:x", "pc:y+z", "py3.11-foo", "a.b_c"}
		pins := []string{"", "", "edge", "local1"}
		satCase(w, "a", "=", "1.2.3", "", "1.2.3", true, "corpus")
		satCase(w, "a", "~", "1.2", "", "1.2.3", true, "corpus")
		satCase(w, "a", "~", "1.2", "", "1.3", true, "corpus")
		satCase(w, "a", "~", "1.2a", "", "1.2b", true, "corpus")
		satCase(w, "a", "~", "1.2", "", "1.2_rc1-r5", true, "corpus")
		satCase(w, "a", "", "", "", "1", true, "corpus")
		satCase(w, "a", "", "", "edge", "1", true, "corpus")
		satCase(w, "so:libfoo.so.1", "=", "1.2", "", "0.1.2", false, "corpus") // so: rewrite prefixes 0.
		satCase(w, "so:libfoo.so.1", "=", "1.2-r3", "", "1.2-r3", false, "corpus")
		satCase(w, "a", "=", "notaversion", "", "1", false, "corpus") // error result
		// names from the whole class under every operator (seeded C03-7: a narrowed name class returns the whole string as a
		// name with "any version"): the split must keep the parts and the operator must judge
		for _, nm := range classNames {
			for _, op := range ops {
				satCase(w, nm, op, "9.5", "", "9.5-r0", true, "corpus-name-class")
				satCase(w, nm, op, "9.4-r0", "edge", "9.4", true, "corpus-name-class")
			}
		}
		for i := 0; i < 1200*scale; i++ {
			small := r.Chance(3, 4)
			cv := genParts(r, small)
			v := neighbour(r, cv, small)
			if r.Chance(1, 5) {
				v = genParts(r, small)
			}
			name := gal.Pick(r, names)
			class := "structured"
			if r.Chance(1, 2) {
				name, class = genName(r), "structured-name-class"
			}
			op := gal.Pick(r, ops)
			clean := !strings.HasPrefix(name, "so:")
			satCase(w, name, op, cv.String(), gal.Pick(r, pins), v.String(), clean, class)
		}
		// operator runs and odd shapes: not in the clean envelope, model vs implementation only
		for i := 0; i < 300*scale; i++ {
			opr := ""
			for k, n := 0, 1+r.Intn(3); k < n; k++ {
				opr += gal.Pick(r, []string{"=", ">", "<", "~"})
			}
			cv := genParts(r, true).String()
			if r.Chance(1, 4) {
				cv = mutate(r, cv)
			}
			if strings.ContainsAny(cv, "\x00") {
				continue
			}
			satCase(w, gal.Pick(r, names), opr, cv, gal.Pick(r, pins), genParts(r, true).String(), false, "odd-operators")
		}
	case "filter":
		w = &gal.Writer{Dir: *out, Require: "From Apko Require Import Corr.C03.", Type: "flt_case", Check: "check_filter", Shard: 500}
		ops := []string{"=", ">", "<", ">=", "<=", "~"}
		// equal versions spelled differently, under every operator, both ways round (seeded change C03-6: '=' by string)
		for _, p := range [][2]string{{"1.2.3", "1.2.3-r0"}, {"1.06", "1.6"}, {"2.0_rc", "2.0_rc0"}, {"3.1_p", "3.1_p0-r0"}, {"1", "1-r0"}, {"1.0", "1.00"}, {"1_alpha", "1_alpha0"},
			{"1.2.3", "1.2.3"}, {"1.2", "1.2.0"}, {"1_hg", "1"}, {"1_hg2", "1_git3"}, {"1_cvs", "1_svn"}, {"1a", "1"}, {"1-r1", "1-r01"}} {
			for _, op := range ops {
				fltCase(w, "a", op, p[0], p[1], nil, true, "corpus-spellings")
				fltCase(w, "a", op, p[1], p[0], nil, true, "corpus-spellings")
				fltCase(w, "a", op, p[0], "0.1", []string{"a=" + p[1]}, true, "corpus-spellings-provided")
				fltCase(w, "a", op, p[1], "9", []string{"x", "a=" + p[0]}, true, "corpus-spellings-provided")
			}
		}
		for _, nm := range classNames {
			for _, op := range ops {
				fltCase(w, nm, op, "9.5", "9.5-r0", nil, true, "corpus-name-class")
				fltCase(w, nm, op, "9.5", "1", []string{nm + "=9.4-r0"}, true, "corpus-name-class")
			}
		}
		fltCase(w, "a", "", "", "1", nil, true, "corpus")
		fltCase(w, "a", "", "", "notaversion", nil, false, "corpus")
		fltCase(w, "a", "=", "notaversion", "1", nil, false, "corpus")
		fltCase(w, "a", "=", "1", "notaversion", []string{"a=1"}, false, "corpus")
		fltCase(w, "a", ">=", "2", "1.0", []string{"a=2.5.0"}, true, "corpus")
		fltCase(w, "a", ">=", "2", "1.0", []string{"a=bad", "a=2.5.0"}, false, "corpus")
		fltCase(w, "a", ">=", "2", "1.0", []string{"a", "b=3"}, false, "corpus") // a provide of ANOTHER name counts (the loop ignores names)
		for i := 0; i < 900*scale; i++ {
			small := r.Chance(3, 4)
			cv := genParts(r, small)
			v := neighbour(r, cv, small)
			if r.Chance(1, 5) {
				v = genParts(r, small)
			}
			var provs []string
			for k, n := 0, pickN(r); k < n; k++ {
				pv := neighbour(r, cv, small)
				if r.Chance(1, 4) {
					pv = cv
				}
				switch r.Intn(5) {
				case 0:
					provs = append(provs, "a")
				default:
					provs = append(provs, "a="+pv.String())
				}
			}
			if r.Chance(1, 3) {
				nm := genName(r)
				for k := range provs {
					provs[k] = nm + strings.TrimPrefix(provs[k], "a")
				}
				fltCase(w, nm, gal.Pick(r, ops), cv.String(), v.String(), provs, true, "structured-name-class")
				continue
			}
			fltCase(w, "a", gal.Pick(r, ops), cv.String(), v.String(), provs, true, "structured")
		}
		for i := 0; i < 150*scale; i++ {
			cv := genParts(r, true).String()
			v := genParts(r, true).String()
			if r.Bool() {
				cv = mutate(r, cv)
			} else {
				v = mutate(r, v)
			}
			if strings.ContainsAny(cv+v, "\x00") {
				continue
			}
			fltCase(w, "a", gal.Pick(r, ops), cv, v, []string{"a=" + mutate(r, genParts(r, true).String())}, false, "malformed")
		}
	case "soname":
		w = &gal.Writer{Dir: *out, Require: "From Apko Require Import Corr.C03.", Type: "so_case", Check: "check_so", Shard: 500}
		ops := []string{"=", ">", "<", ">=", "<=", "~"}
		sonames := []string{"so:libx.so.1", "so:libc.musl-x86_64.so.1", "so:libfoo.so.0.3", "so:libstdc++.so.6"}
		vers := []string{"1", "6", "1.2", "1.1", "2.0", "0.1.2", "1.2.3", "1.10"}
		rels := []string{"", "-r0", "-r1", "-r3", "-r10"}
		for _, op := range ops {
			for _, cv := range vers[:5] {
				for _, pv := range vers[:5] {
					for _, cr := range rels {
						for _, pr := range rels {
							soCase(w, sonames[0], op, cv+cr, pv+pr, "grid")
						}
					}
				}
			}
		}
		for i := 0; i < 600*scale; i++ {
			small := r.Chance(3, 4)
			cv := genParts(r, small)
			pv := neighbour(r, cv, small)
			soCase(w, gal.Pick(r, sonames), gal.Pick(r, ops), cv.String(), pv.String(), "structured")
		}
		for i := 0; i < 100*scale; i++ {
			soCase(w, gal.Pick(r, sonames), gal.Pick(r, ops), mutate(r, genParts(r, true).String()), genParts(r, true).String(), "malformed")
		}
	case "pins":
		w = &gal.Writer{Dir: *out, Require: "From Apko Require Import Corr.C03.", Type: "fltl_case", Check: "check_filter_list", Shard: 150}
		ops := []string{"=", ">", "<", ">=", "<=", "~"}
		repos := []string{"https://r1.example/os/x86_64", "https://r2.example/os/x86_64", "/local/packages/x86_64"}
		pinNames := []string{"", "", "edge", "local", "testing"}
		cand := func(ver, repo, pinned string, dq bool, provs ...string) apk.VerifFilterCandidate {
			return apk.VerifFilterCandidate{Name: "a", Version: ver, Provides: provs, RepoURI: repo, Pinned: pinned, Disqualified: dq}
		}
		// corners: nothing pinned or disqualified = the version filter; a pinned candidate needs its pin allowed or preferred,
		// or to be the installed package itself (same URL); dq always removes; an unparsable required version returns nothing
		// even when pins or dq would have let candidates through; a bare name keeps every eligible candidate
		base := []apk.VerifFilterCandidate{cand("1.0", repos[0], "", false), cand("2.0", repos[0], "edge", false), cand("2.0", repos[1], "local", false),
			cand("3.0", repos[1], "", true), cand("0.5", repos[2], "edge", false, "a=2.5"), cand("2.0-r0", repos[0], "", false)}
		inst := cand("2.0", repos[0], "", false)
		instOther := cand("2.0", repos[2], "", false)
		instDq := cand("3.0", repos[1], "", false) // the installed package is the disqualified candidate: dq still removes it (mutation s6-m1)
		for _, op := range append([]string{""}, ops...) {
			cv := "2.0"
			if op == "" {
				cv = ""
			}
			fltlCase(w, "a", op, cv, "", "", nil, base, true, "corpus")
			fltlCase(w, "a", op, cv, "edge", "", nil, base, true, "corpus")
			fltlCase(w, "a", op, cv, "", "local", nil, base, true, "corpus")
			fltlCase(w, "a", op, cv, "edge", "local", nil, base, true, "corpus")
			fltlCase(w, "a", op, cv, "", "", &inst, base, true, "corpus")
			fltlCase(w, "a", op, cv, "", "", &instOther, base, true, "corpus")
			fltlCase(w, "a", op, cv, "testing", "", &inst, base, true, "corpus")
			fltlCase(w, "a", op, cv, "", "", &instDq, base, true, "corpus")
		}
		fltlCase(w, "a", "=", "notaversion", "edge", "local", nil, base, false, "corpus")
		fltlCase(w, "a", "=", "notaversion", "", "", nil, []apk.VerifFilterCandidate{cand("1", repos[0], "edge", false), cand("1", repos[0], "", true)}, false, "corpus")
		fltlCase(w, "a", "=", "1", "", "", nil, nil, true, "corpus")
		fltlCase(w, "a", ">", "1", "", "", nil, []apk.VerifFilterCandidate{cand("bad", repos[0], "", false, "a=2"), cand("2", repos[0], "", false)}, false, "corpus")
		for i := 0; i < 300*scale; i++ {
			small := r.Chance(3, 4)
			cv := genParts(r, small)
			var cands []apk.VerifFilterCandidate
			for k, n := 0, r.Intn(6); k < n; k++ {
				v := neighbour(r, cv, small)
				if r.Chance(1, 4) {
					v = cv
				}
				var provs []string
				if r.Chance(1, 4) {
					provs = append(provs, "a="+neighbour(r, cv, small).String())
				}
				cands = append(cands, cand(v.String(), gal.Pick(r, repos), gal.Pick(r, pinNames), r.Chance(1, 5), provs...))
			}
			var installed *apk.VerifFilterCandidate
			if len(cands) > 0 && r.Chance(1, 2) {
				c := cands[r.Intn(len(cands))]
				if r.Chance(1, 4) {
					c.RepoURI = gal.Pick(r, repos)
				}
				c.Pinned, c.Disqualified = "", false
				installed = &c
			}
			op, cvs := gal.Pick(r, ops), cv.String()
			if r.Chance(1, 8) {
				op, cvs = "", ""
			}
			clean := true
			for _, c := range cands {
				if _, err := apk.ParseVersion(c.Version); err != nil {
					clean = false
				}
			}
			if _, err := apk.ParseVersion(cvs); err != nil && op != "" {
				clean = false
			}
			fltlCase(w, "a", op, cvs, gal.Pick(r, pinNames), gal.Pick(r, pinNames), installed, cands, clean, "structured")
		}
		for i := 0; i < 40*scale; i++ {
			cv := genParts(r, true).String()
			if r.Bool() {
				cv = mutate(r, cv)
			}
			var cands []apk.VerifFilterCandidate
			for k, n := 0, 1+r.Intn(4); k < n; k++ {
				v := genParts(r, true).String()
				if r.Chance(1, 3) {
					v = mutate(r, v)
				}
				cands = append(cands, cand(v, gal.Pick(r, repos), gal.Pick(r, pinNames), r.Chance(1, 5)))
			}
			bad := strings.ContainsAny(cv, "\x00")
			for _, c := range cands {
				bad = bad || strings.ContainsAny(c.Version, "\x00")
			}
			if bad {
				continue
			}
			fltlCase(w, "a", gal.Pick(r, ops), cv, gal.Pick(r, pinNames), gal.Pick(r, pinNames), nil, cands, false, "malformed")
		}
	case "resolve":
		names := []string{"a", "foo-bar", "so:libc.so.6", "cmd:x", "pc:y+z", "py3.11-foo", "a.b_c"}
		ops := []string{"=", ">", "<", ">=", "<=", "~"}
		w = &gal.Writer{Dir: *out, Require: "From Apko Require Import Corr.C03.", Type: "res_case", Check: "check_res", Shard: 500}
		for _, s := range []string{"", "a", "a=", "a==1", "a=1@", "a@", "@x", "=1", "a=1@e@f", "a>=1@edge", "a=>1", "a~=1", "a<>1", "a=1=2", "a b=1", "a=1 ", "so:=1", "so:x=", "so:x=1-r", "so:x=1-r1", "so:x=1-r1x", "so:x=a=b", "so:x>=1", "so:x<=1-r2", "so:x>1", "so:x~1", "so:x~=1", "so:x=>1", "so:x==1", "so:x=1@edge", "so:x=1-r1@edge", "so:x>=1@edge", "so:libstdc++.so.6>=6.0.33", "so:=", "so:>=1", "sox=1", "a=1@e-f", "a@e=1", "é=1", "a=\n1"} {
			resCase(w, s, "corpus")
		}
		for _, nm := range classNames {
			resCase(w, nm, "corpus-name-class")
			for _, op := range ops {
				resCase(w, nm+op+"9.4-r0", "corpus-name-class")
				resCase(w, nm+op+"1.2_rc3@edge", "corpus-name-class")
			}
		}
		for i := 0; i < 800*scale; i++ {
			nm := gal.Pick(r, names)
			if r.Chance(1, 2) {
				nm = genName(r)
			}
			s := nm + gal.Pick(r, ops) + genParts(r, true).String()
			if r.Chance(1, 2) {
				s += "@" + gal.Pick(r, []string{"edge", "x1", "a-b", ""})
			}
			for k, n := 0, r.Intn(3); k < n; k++ {
				s = mutate(r, s)
			}
			resCase(w, s, "malformed")
		}
	}
	if err := w.Flush(); err != nil {
		fmt.Fprintln(os.Stderr, err)
		os.Exit(1)
	}
}
