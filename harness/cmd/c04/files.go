package main

// files stage (wave 3): histories of real GetRepositoryIndexes calls over LOCAL
// repositories whose index files are rewritten between the calls, with explicit
// modification times (os.Chtimes): a rewrite is "visible" when its mtime is later than
// every earlier one of that file, "invisible" when it keeps or lowers the mtime. Every
// version of a file has its own marker package (from-r<i>-v<k>), so what a call returns
// says which version of which file it used. The validator (Coq, Spec/IndexHistSpec.v)
// demands, per call: every returned version is one the repository carried and is
// authorised by THIS call, and a repository whose version in place is visibly the newest
// is used only if that version is authorised by this call — whatever was cached before
// and however often the call is repeated. The outcome is also compared with the model of
// the local-file branch of indexCache.get (Model/IndexCacheFiles.v).

import (
	"context"
	"fmt"
	"net/http"
	"net/http/httptest"
	"os"
	"path/filepath"
	"sort"
	"strconv"
	"strings"
	"sync"
	"time"

	"chainguard.dev/apko/pkg/apk/apk"

	"verifharness/gal"
	"verifharness/synthrepo"
)

type fEvent struct {
	// a rewrite ...
	Rewrite bool   `json:"rewrite,omitempty"`
	Repo    int    `json:"repo"`
	ID      int    `json:"version,omitempty"`
	Kind    string `json:"kind,omitempty"` // signed | unsigned | spliced | truncated
	Signer  string `json:"signer,omitempty"`
	Mtime   int    `json:"mtime,omitempty"` // seconds after the base time
	Visible bool   `json:"visible,omitempty"`
	// ... or a call
	Call *repoCall `json:"call,omitempty"`
	Got  [][2]int  `json:"returned,omitempty"` // (repository, version)
}

type filesWorld struct {
	keys map[string]*synthrepo.Key
	tmp  string
	n    int
	base time.Time
	// etag mode: the same histories over a remote repository served with an ETag (the event's Mtime is the ETag's number)
	etag   bool
	srv    *httptest.Server
	mu     sync.Mutex
	served map[string]servedIndex // URL path of the index -> what is served now
}

type servedIndex struct {
	body []byte
	etag string
}

func (w *filesWorld) handler(rw http.ResponseWriter, req *http.Request) {
	w.mu.Lock()
	sv, ok := w.served[req.URL.Path]
	w.mu.Unlock()
	if !ok {
		http.NotFound(rw, req)
		return
	}
	rw.Header().Set("ETag", sv.etag)
	rw.Header().Set("Content-Length", strconv.Itoa(len(sv.body)))
	if req.Method == http.MethodHead {
		return
	}
	_, _ = rw.Write(sv.body)
}

func fMarker(r, id int) string {
	return fmt.Sprintf("C:Q1AAAAAAAAAAAAAAAAAAAAAAAAAAA=\nP:from-r%d-v%d\nV:1.0-r0\nA:x86_64\nS:1\nI:1\nT:marker\nU:u\nL:l\no:m\nt:1700000000\nc:0\n\n", r, id)
}

func (w *filesWorld) archive(e *fEvent) ([]byte, error) {
	text := fMarker(e.Repo, e.ID)
	switch e.Kind {
	case "signed":
		whole, _, err := synthrepo.IndexArchive(text, w.keys[e.Signer], "RSA256")
		return whole, err
	case "unsigned":
		whole, _, err := synthrepo.IndexArchive(text, nil, "")
		return whole, err
	case "truncated": // a validly signed archive cut in the middle of the signed part
		whole, signed, err := synthrepo.IndexArchive(text, w.keys["alice.rsa.pub"], "RSA256")
		if err != nil {
			return nil, err
		}
		return whole[:len(whole)-len(signed)/2], nil
	case "spliced":
		_, other, err := synthrepo.IndexArchive(fMarker(e.Repo, 900+e.ID), nil, "")
		if err != nil {
			return nil, err
		}
		seg, err := synthrepo.SignatureSegment(other, w.keys["alice.rsa.pub"], "RSA256")
		if err != nil {
			return nil, err
		}
		_, mine, err := synthrepo.IndexArchive(text, nil, "")
		if err != nil {
			return nil, err
		}
		return append(append([]byte{}, seg...), mine...), nil
	}
	return nil, fmt.Errorf("unknown kind %q", e.Kind)
}

// run one history in a directory of its own (the process-wide cache never carries anything from one history into another)
func (w *filesWorld) run(evs []*fEvent) error {
	w.n++
	dir := filepath.Join(w.tmp, fmt.Sprintf("h%d", w.n))
	loc := func(r int) string { return filepath.Join(dir, fmt.Sprintf("r%d", r)) }
	if w.etag {
		loc = func(r int) string { return fmt.Sprintf("%s/h%d/r%d", w.srv.URL, w.n, r) }
	}
	maxM := map[int]int{}
	seen := map[int]bool{}
	for _, e := range evs {
		if e.Rewrite {
			b, err := w.archive(e)
			if err != nil {
				return err
			}
			if w.etag {
				w.mu.Lock()
				w.served[fmt.Sprintf("/h%d/r%d/x86_64/APKINDEX.tar.gz", w.n, e.Repo)] = servedIndex{body: b, etag: fmt.Sprintf(`"e%d"`, e.Mtime)}
				w.mu.Unlock()
				continue
			}
			f := filepath.Join(loc(e.Repo), "x86_64", "APKINDEX.tar.gz")
			if err := os.MkdirAll(filepath.Dir(f), 0o755); err != nil {
				return err
			}
			// write beside and rename: a reader never sees a half-written file
			if err := os.WriteFile(f+".new", b, 0o644); err != nil {
				return err
			}
			t := w.base.Add(time.Duration(e.Mtime) * time.Second)
			if err := os.Chtimes(f+".new", t, t); err != nil {
				return err
			}
			if err := os.Rename(f+".new", f); err != nil {
				return err
			}
			e.Visible = !seen[e.Repo] || e.Mtime > maxM[e.Repo]
			if !seen[e.Repo] || e.Mtime > maxM[e.Repo] {
				maxM[e.Repo] = e.Mtime
			}
			seen[e.Repo] = true
			continue
		}
		c := e.Call
		var locs, ex []string
		for _, r := range c.Repos {
			locs = append(locs, loc(r))
		}
		for _, r := range c.Exempt {
			ex = append(ex, loc(r))
		}
		keys := map[string][]byte{}
		for _, k := range c.Keys {
			keys[w.keys[k].Name] = w.keys[k].Pub
		}
		opts := []apk.IndexOption{}
		if w.etag {
			opts = append(opts, apk.WithHTTPClient(w.srv.Client()))
		}
		if c.Ignore {
			opts = append(opts, apk.WithIgnoreSignatures(true))
		}
		if len(ex) > 0 {
			opts = append(opts, apk.WithIgnoreSignatureForIndexes(ex...))
		}
		var ixs []apk.NamedIndex
		var err error
		func() {
			defer func() {
				if x := recover(); x != nil {
					err = fmt.Errorf("panic: %v", x)
					fmt.Printf("IMPL-VIOLATION tag=panic-GetRepositoryIndexes {\"files_history\":%d,\"panic\":%q}\n", w.n, fmt.Sprint(x))
				}
			}()
			ixs, err = apk.GetRepositoryIndexes(context.Background(), locs, keys, "x86_64", opts...)
		}()
		c.Err = err != nil
		c.Got = []int{}
		e.Got = nil
		if err != nil {
			c.ErrMsg = err.Error()
			if len(c.ErrMsg) > 160 {
				c.ErrMsg = c.ErrMsg[:160]
			}
			continue
		}
		for _, ix := range ixs {
			for _, p := range ix.Packages() {
				var r, id int
				if n, _ := fmt.Sscanf(p.Name, "from-r%d-v%d", &r, &id); n == 2 {
					e.Got = append(e.Got, [2]int{r, id})
					c.Got = append(c.Got, r)
				}
			}
		}
		sort.Ints(c.Got)
	}
	return nil
}

func filesTerm(nrepos int, evs []*fEvent) string {
	var locs, es []string
	for i := 0; i < nrepos; i++ {
		locs = append(locs, gal.Str("repo"+strconv.Itoa(i)))
	}
	for _, e := range evs {
		if e.Rewrite {
			es = append(es, fmt.Sprintf("EvRewrite %s {| fv_id := %s; fv_signer := %s; fv_mtime := %s; fv_parses := %s |}", gal.Nat(e.Repo), gal.Nat(e.ID),
				gal.Opt(e.Kind == "signed", gal.Str(e.Signer)), gal.N(uint64(e.Mtime)), gal.Bool(e.Kind != "truncated")))
			continue
		}
		c := e.Call
		var got []string
		for _, p := range e.Got {
			got = append(got, gal.Pair(gal.Nat(p[0]), gal.Nat(p[1])))
		}
		es = append(es, fmt.Sprintf("EvCall {| rc_repos := %s; rc_keys := %s; rc_ignore := %s; rc_exempt := %s; o_err := %s; o_got := %s |} %s",
			galNats(c.Repos), gal.StrList(c.Keys), gal.Bool(c.Ignore), galNats(c.Exempt), gal.Bool(c.Err), galNats(c.Got), gal.List(got)))
	}
	return fmt.Sprintf("{| fc_locs := %s; fc_arch := \"x86_64\"%%string; fc_events := %s |}", gal.List(locs), gal.List(es))
}

// what a history exercises: for every load of a repository whose file was rewritten after an earlier load, the how-manieth
// load since the rewrite it is, whether the rewrite was visible, how the replaced version fared at its last load and how the
// version in place fares under this call
func filesFeatures(evs []*fEvent) []string {
	seenF := map[string]bool{}
	var fs []string
	add := func(f string) {
		if !seenF[f] {
			seenF[f] = true
			fs = append(fs, f)
		}
	}
	good := func(e *fEvent, c *repoCall) string {
		if c.Ignore {
			return "good"
		}
		for _, x := range c.Exempt {
			if x == e.Repo {
				return "good"
			}
		}
		if e.Kind == "signed" {
			for _, k := range c.Keys {
				if k == e.Signer {
					return "good"
				}
			}
		}
		return "bad"
	}
	cur := map[int]*fEvent{}
	loads := map[int]int{}
	curJudged := map[int]string{}
	prevJudged := map[int]string{}
	maxM := map[int]int{}
	for _, e := range evs {
		if e.Rewrite {
			vis := cur[e.Repo] == nil || e.Mtime > maxM[e.Repo]
			if cur[e.Repo] != nil {
				if vis {
					add("rewrite=visible")
				} else {
					add("rewrite=invisible")
				}
			}
			if vis {
				maxM[e.Repo] = e.Mtime
			}
			e.Visible = vis
			prevJudged[e.Repo] = curJudged[e.Repo]
			curJudged[e.Repo] = ""
			cur[e.Repo] = e
			loads[e.Repo] = 0
			continue
		}
		for _, r := range e.Call.Repos {
			v := cur[r]
			if v == nil {
				continue
			}
			loads[r]++
			g := good(v, e.Call)
			add("version-in-place=" + v.Kind)
			if prevJudged[r] != "" {
				vis := "invisible"
				if v.Visible {
					vis = "visible"
				}
				k := loads[r]
				if k > 3 {
					k = 3
				}
				add(fmt.Sprintf("load-%d-after-%s-rewrite:%s-then-%s", k, vis, prevJudged[r], g))
			}
			curJudged[r] = g
		}
	}
	return fs
}

var requiredFilesFeatures = []string{
	"rewrite=visible", "rewrite=invisible",
	"load-1-after-visible-rewrite:good-then-bad", "load-2-after-visible-rewrite:good-then-bad", "load-3-after-visible-rewrite:good-then-bad",
	"load-1-after-visible-rewrite:bad-then-good", "load-2-after-visible-rewrite:bad-then-good", "load-1-after-visible-rewrite:good-then-good",
	"load-1-after-invisible-rewrite:good-then-bad", "load-2-after-invisible-rewrite:good-then-bad", "load-1-after-invisible-rewrite:bad-then-good",
	"version-in-place=signed", "version-in-place=unsigned", "version-in-place=spliced", "version-in-place=truncated",
}

func filesStage(dir string, seed uint64, tier string) error { return filesStageMode(dir, seed, tier, false) }

// etag stage: the same kind of histories over remote repositories served with an ETag; a "rewrite" makes the server serve a
// new version under an ETag whose number is fresh (later than every earlier one: the change can be seen) or reused
func etagStage(dir string, seed uint64, tier string) error { return filesStageMode(dir, seed, tier, true) }

func filesStageMode(dir string, seed uint64, tier string, etag bool) error {
	r := gal.NewRand(seed ^ 0xf11e)
	if etag {
		r = gal.NewRand(seed ^ 0xe7a6)
	}
	tmp, err := os.MkdirTemp("", "c04files")
	if err != nil {
		return err
	}
	defer os.RemoveAll(tmp)
	w := &filesWorld{keys: map[string]*synthrepo.Key{}, tmp: tmp, base: time.Unix(1_700_000_000, 0), etag: etag, served: map[string]servedIndex{}}
	check := "check_files"
	if etag {
		w.srv = httptest.NewServer(http.HandlerFunc(w.handler))
		defer w.srv.Close()
		check = "check_etag"
	}
	A, B := "alice.rsa.pub", "bob.rsa.pub"
	for _, n := range []string{A, B} {
		k, err := synthrepo.NewKey(n)
		if err != nil {
			return err
		}
		w.keys[n] = k
	}
	wr := &gal.Writer{Dir: dir, Require: "From Apko Require Import Corr.C04.", Type: "files_case", Check: check, Shard: 100}
	hist := map[string]int{}
	const nrepos = 3
	add := func(evs []*fEvent, class, note string) error {
		fs := filesFeatures(evs) // also settles Visible
		if err := w.run(evs); err != nil {
			return err
		}
		for _, f := range fs {
			hist[f]++
		}
		wr.Add(gal.Case{Term: filesTerm(nrepos, evs), Class: class, Desc: map[string]any{"note": note, "events": evs}})
		return nil
	}
	id := 0
	rw := func(repo int, kind, signer string, mtime int) *fEvent {
		id++
		return &fEvent{Rewrite: true, Repo: repo, ID: id, Kind: kind, Signer: signer, Mtime: mtime}
	}
	call := func(keys []string, repos ...int) *fEvent {
		return &fEvent{Call: &repoCall{Repos: repos, Keys: keys}}
	}
	kA := []string{A}
	// ---- corpus ------------------------------------------------------------------------------------
	corpus := []struct {
		note string
		evs  []*fEvent
	}{
		{"good, replaced by an unsigned newer file, loaded three times, repaired, loaded", []*fEvent{rw(0, "signed", A, 10), call(kA, 0), rw(0, "unsigned", "", 20), call(kA, 0), call(kA, 0), call(kA, 0), rw(0, "signed", A, 30), call(kA, 0)}},
		{"good, replaced by one signed with a key that is not configured, loaded twice", []*fEvent{rw(0, "signed", A, 10), call(kA, 0), rw(0, "signed", B, 20), call(kA, 0), call(kA, 0)}},
		{"good, replaced by a spliced one, loaded twice", []*fEvent{rw(0, "signed", A, 10), call(kA, 0), rw(0, "spliced", "", 20), call(kA, 0), call(kA, 0)}},
		{"good, replaced by a truncated one, loaded twice", []*fEvent{rw(0, "signed", A, 10), call(kA, 0), rw(0, "truncated", "", 20), call(kA, 0), call(kA, 0)}},
		{"bad from the start, loaded twice, then repaired", []*fEvent{rw(0, "unsigned", "", 10), call(kA, 0), call(kA, 0), rw(0, "signed", A, 20), call(kA, 0), call(kA, 0)}},
		{"good, replaced by a bad file with the SAME mtime (the change cannot be seen), loaded twice", []*fEvent{rw(0, "signed", A, 10), call(kA, 0), rw(0, "unsigned", "", 10), call(kA, 0), call(kA, 0)}},
		{"good, replaced by a bad file with an OLDER mtime, loaded, then a visible bad one", []*fEvent{rw(0, "signed", A, 10), call(kA, 0), rw(0, "unsigned", "", 5), call(kA, 0), rw(0, "unsigned", "", 11), call(kA, 0), call(kA, 0)}},
		{"replaced by a bad file, first loaded by a call that ignores signatures, then by a verifying one, twice", []*fEvent{rw(0, "signed", A, 10), call(kA, 0), rw(0, "unsigned", "", 20), {Call: &repoCall{Repos: []int{0}, Ignore: true}}, call(kA, 0), call(kA, 0)}},
		{"two repositories in one call, one of them replaced by a bad file", []*fEvent{rw(0, "signed", A, 10), rw(1, "signed", A, 10), call(kA, 0, 1), rw(1, "unsigned", "", 20), call(kA, 0, 1), call(kA, 0, 1), call(kA, 0)}},
		{"key ring changes between the loads of a replaced file", []*fEvent{rw(0, "signed", A, 10), call(kA, 0), rw(0, "signed", B, 20), call(kA, 0), call([]string{B}, 0), call(kA, 0), call([]string{A, B}, 0)}},
		{"exempted while bad, then no longer exempted", []*fEvent{rw(0, "signed", A, 10), call(kA, 0), rw(0, "unsigned", "", 20), {Call: &repoCall{Repos: []int{0}, Keys: kA, Exempt: []int{0}}}, call(kA, 0), call(kA, 0)}},
	}
	for _, c := range corpus {
		if err := add(c.evs, "corpus", c.note); err != nil {
			return err
		}
	}
	// ---- generated ----------------------------------------------------------------------------------
	n := 60
	if tier == "thorough" {
		n = 1200
	}
	if etag {
		n = n / 2
	}
	gen := func() []*fEvent {
		var evs []*fEvent
		clock := map[int]int{}
		nr := 1 + r.Intn(nrepos)
		rewrite := func(repo int, first bool) {
			kind, signer := "signed", A
			switch r.Intn(8) {
			case 0, 1:
				kind, signer = "unsigned", ""
			case 2:
				signer = B
			case 3:
				kind, signer = gal.Pick(r, []string{"spliced", "truncated"}), ""
			}
			m := clock[repo] + 1 + r.Intn(5)
			if !first && r.Chance(1, 4) {
				m = clock[repo] - r.Intn(2) // same or older: invisible
				if m < 1 {
					m = 1
				}
			}
			if m > clock[repo] {
				clock[repo] = m
			}
			evs = append(evs, rw(repo, kind, signer, m))
		}
		for i := 0; i < nr; i++ {
			rewrite(i, true)
		}
		steps := 3 + r.Intn(8)
		for s := 0; s < steps; s++ {
			if r.Chance(1, 3) {
				rewrite(r.Intn(nr), false)
				continue
			}
			c := &repoCall{}
			for i := 0; i < nr; i++ {
				if r.Chance(2, 3) {
					c.Repos = append(c.Repos, i)
				}
			}
			if len(c.Repos) == 0 {
				c.Repos = []int{r.Intn(nr)}
			}
			c.Keys = [][]string{{A}, {A}, {A}, {B}, {A, B}, {}}[r.Intn(6)]
			c.Ignore = r.Chance(1, 10)
			for _, x := range c.Repos {
				if r.Chance(1, 8) {
					c.Exempt = append(c.Exempt, x)
				}
			}
			evs = append(evs, &fEvent{Call: c})
		}
		return evs
	}
	for i := 0; i < n; i++ {
		evs := gen()
		if err := add(evs, fmt.Sprintf("generated/%d-events", len(evs)/4*4), ""); err != nil {
			return err
		}
	}
	var missing []string
	for _, f := range requiredFilesFeatures {
		for tries := 0; hist[f] == 0 && tries < 20000; tries++ {
			evs := gen()
			for _, g := range filesFeatures(evs) {
				if g == f {
					if err := add(evs, "generated/directed", "directed: "+f); err != nil {
						return err
					}
					break
				}
			}
		}
		if hist[f] == 0 {
			missing = append(missing, f)
		}
	}
	wr.Extra = map[string]any{"files_histogram": hist, "required_files_shapes_missing": missing}
	if len(missing) > 0 {
		return fmt.Errorf("generator cannot produce the file-history shapes %v", missing)
	}
	_ = strings.Join
	return wr.Flush()
}
