package main

// interleave stage (wave 3): concurrent / interleaved loads of remote indexes whose bodies
// have EQUAL LENGTH. One repository is signed by a configured key (its signature stream may
// start with stale entries of another configured key, which the verifier tries, logs and
// skips — a legal input), the other is an unsigned mirror that the call exempts. What a
// call returns for a repository must be what THAT repository serves: every index object
// carries marker packages naming its repository and round.
//
// Schedules (each repeated, under GOMAXPROCS 1 and 2, no ETag so nothing is cached):
//   hook:     the trusted load runs with a logger in its context whose handler, at every log
//             record of that load (i.e. between hashing and parsing, when a stale entry is
//             reported), runs the mirror's load to completion before the trusted load goes on;
//   stalled:  ONE GetRepositoryIndexes call for both repositories (goroutine per repository);
//             the server holds the mirror's body back until the trusted load's logger fires,
//             which then waits for the server to have sent it (and a moment longer);
//   free:     one call for both repositories, nothing steered.
// This is a best-effort search for interleavings, not a proof: see notes/C04.md for how
// reliably each schedule exposes an aliasing bug.

import (
	"context"
	"fmt"
	"log/slog"
	"net/http"
	"net/http/httptest"
	"regexp"
	"runtime"
	"strconv"
	"strings"
	"sync"
	"time"

	"chainguard.dev/apko/pkg/apk/apk"
	"github.com/chainguard-dev/clog"

	"verifharness/gal"
	"verifharness/synthrepo"
)

type hookHandler struct {
	mu   sync.Mutex
	hook func()
}

func (h *hookHandler) Enabled(context.Context, slog.Level) bool { return true }
func (h *hookHandler) WithAttrs([]slog.Attr) slog.Handler       { return h }
func (h *hookHandler) WithGroup(string) slog.Handler            { return h }
func (h *hookHandler) Handle(context.Context, slog.Record) error {
	h.mu.Lock()
	f := h.hook
	h.mu.Unlock()
	if f != nil {
		f()
	}
	return nil
}

func ilText(repo, round int) string {
	// fixed width: the two repositories' texts have the same length
	return fmt.Sprintf("C:Q1AAAAAAAAAAAAAAAAAAAAAAAAAAA=\nP:from-r%d-n%06d\nV:1.0-r0\nA:x86_64\nS:1\nI:1\nT:marker\nU:u\nL:l\no:m\nt:1700000000\nc:0\n\n", repo, round)
}

// an index archive made of stored (uncompressed) deflate blocks, so that its length is a function of the lengths of its parts
func ilArchive(text string, sigs [][2]string, keys map[string]*synthrepo.Key, signedBy []string) []byte {
	content := synthrepo.GzStored(append(append(synthrepo.RawEntry("APKINDEX", []byte(text), '0'), synthrepo.RawEntry("DESCRIPTION", []byte("interleave"), '0')...), synthrepo.EOA()...))
	var raw []byte
	for i, s := range sigs {
		// s[0] = entry name, s[1] = what the signature is made over: "content" or "stale"
		over := content
		if s[1] == "stale" {
			over = append([]byte("an earlier revision of the index "), content...)
		}
		sig, err := synthrepo.Sign(over, keys[signedBy[i]], "RSA256")
		if err != nil {
			panic(err)
		}
		raw = append(raw, synthrepo.SigEntryRaw(s[0], sig)...)
	}
	return append(synthrepo.GzStored(raw), content...)
}

var ilMarker = regexp.MustCompile(`^from-r(\d+)-n(\d+)$`)

type ilRow struct {
	Asked   int   `json:"asked"`
	Markers []int `json:"repositories_of_the_marker_packages"`
	Err     string `json:"error,omitempty"`
}

type ilCase struct {
	Schedule string  `json:"schedule"`
	Procs    int     `json:"gomaxprocs"`
	Stale    int     `json:"stale_signature_entries"`
	Round    int     `json:"round"`
	Rows     []ilRow `json:"returned"`
}

func interleaveStage(dir string, seed uint64, tier string) error {
	keys := map[string]*synthrepo.Key{}
	for _, n := range []string{"alice.rsa.pub", "bobby.rsa.pub", "carol.rsa.pub", "dave1.rsa.pub"} { // names of equal length
		k, err := synthrepo.NewKey(n)
		if err != nil {
			return err
		}
		keys[n] = k
	}
	var mu sync.Mutex
	bodies := map[string][]byte{} // path -> body
	gate := map[string]chan struct{}{}
	sent := map[string]chan struct{}{}
	srv := httptest.NewServer(http.HandlerFunc(func(rw http.ResponseWriter, req *http.Request) {
		mu.Lock()
		b, ok := bodies[req.URL.Path]
		g := gate[req.URL.Path]
		s := sent[req.URL.Path]
		mu.Unlock()
		if !ok {
			http.NotFound(rw, req)
			return
		}
		rw.Header().Set("Content-Length", strconv.Itoa(len(b)))
		if req.Method == http.MethodHead {
			return
		}
		if g != nil {
			select {
			case <-g:
			case <-time.After(300 * time.Millisecond): // never hold a load for good
			}
		}
		_, _ = rw.Write(b)
		if f, ok := rw.(http.Flusher); ok {
			f.Flush()
		}
		if s != nil {
			select {
			case <-s:
			default:
				close(s)
			}
		}
	}))
	defer srv.Close()
	defer runtime.GOMAXPROCS(runtime.GOMAXPROCS(0))

	trustedKeys := map[string][]byte{"alice.rsa.pub": keys["alice.rsa.pub"].Pub, "bobby.rsa.pub": keys["bobby.rsa.pub"].Pub}
	wr := &gal.Writer{Dir: dir, Require: "From Apko Require Import Corr.C04.", Type: "interleave_case", Check: "check_interleave", Shard: 500}
	rows := func(asked []int, ixs []apk.NamedIndex, err error) []ilRow {
		var out []ilRow
		if err != nil {
			e := err.Error()
			if len(e) > 160 {
				e = e[:160]
			}
			return []ilRow{{Asked: -1, Err: e}}
		}
		for _, ix := range ixs {
			row := ilRow{Asked: -1}
			for _, a := range asked {
				if strings.Contains(ix.Source(), fmt.Sprintf("/r%d", a)) {
					row.Asked = a
				}
			}
			for _, p := range ix.Packages() {
				if m := ilMarker.FindStringSubmatch(p.Name); m != nil {
					k, _ := strconv.Atoi(m[1])
					row.Markers = append(row.Markers, k)
				}
			}
			out = append(out, row)
		}
		return out
	}
	rounds := 6
	if tier == "thorough" {
		rounds = 60
	}
	round := 0
	for _, procs := range []int{1, 2} {
		runtime.GOMAXPROCS(procs)
		for _, schedule := range []string{"hook", "stalled", "free"} {
			for rep := 0; rep < rounds; rep++ {
				for _, stale := range []int{0, 1, 2} {
					round++
					base := fmt.Sprintf("/i%d", round)
					// repository 0: trusted; repository 1: the exempted mirror, same length
					var s0, s1 [][2]string
					var by0, by1 []string
					for i := 0; i < stale; i++ {
						s0 = append(s0, [2]string{".SIGN.RSA256.bobby.rsa.pub", "stale"})
						by0 = append(by0, "bobby.rsa.pub")
						s1 = append(s1, [2]string{".SIGN.RSA256.carol.rsa.pub", "content"})
						by1 = append(by1, "carol.rsa.pub")
					}
					s0 = append(s0, [2]string{".SIGN.RSA256.alice.rsa.pub", "content"})
					by0 = append(by0, "alice.rsa.pub")
					s1 = append(s1, [2]string{".SIGN.RSA256.dave1.rsa.pub", "content"})
					by1 = append(by1, "dave1.rsa.pub")
					b0 := ilArchive(ilText(0, round), s0, keys, by0)
					b1 := ilArchive(ilText(1, round), s1, keys, by1)
					if len(b0) != len(b1) {
						return fmt.Errorf("interleave: bodies differ in length (%d, %d)", len(b0), len(b1))
					}
					p0, p1 := base+"/r0/x86_64/APKINDEX.tar.gz", base+"/r1/x86_64/APKINDEX.tar.gz"
					mu.Lock()
					bodies[p0], bodies[p1] = b0, b1
					if schedule == "stalled" && stale > 0 { // without a stale entry the verifier logs nothing: nothing would open the gate
						gate[p1] = make(chan struct{})
						sent[p1] = make(chan struct{})
					}
					mu.Unlock()
					u0, u1 := srv.URL+base+"/r0", srv.URL+base+"/r1"
					c := ilCase{Schedule: schedule, Procs: procs, Stale: stale, Round: round}
					h := &hookHandler{}
					ctx := clog.WithLogger(context.Background(), clog.New(h))
					plain := context.Background()
					switch schedule {
					case "hook":
						var once sync.Once
						var mirror []ilRow
						h.hook = func() {
							once.Do(func() {
								ixs, err := apk.GetRepositoryIndexes(plain, []string{u1}, trustedKeys, "x86_64", apk.WithIgnoreSignatureForIndexes(u1), apk.WithHTTPClient(srv.Client()))
								mirror = rows([]int{1}, ixs, err)
							})
						}
						ixs, err := apk.GetRepositoryIndexes(ctx, []string{u0}, trustedKeys, "x86_64", apk.WithHTTPClient(srv.Client()))
						c.Rows = append(rows([]int{0}, ixs, err), mirror...)
					case "stalled":
						var once sync.Once
						g, s := gate[p1], sent[p1]
						h.hook = func() {
							if g == nil {
								return
							}
							once.Do(func() {
								close(g)
								select {
								case <-s:
								case <-time.After(300 * time.Millisecond):
								}
								// let the other goroutine read the body it was sent
								for i := 0; i < 50; i++ {
									runtime.Gosched()
								}
								time.Sleep(2 * time.Millisecond)
							})
						}
						ixs, err := apk.GetRepositoryIndexes(ctx, []string{u0, u1}, trustedKeys, "x86_64", apk.WithIgnoreSignatureForIndexes(u1), apk.WithHTTPClient(srv.Client()))
						c.Rows = rows([]int{0, 1}, ixs, err)
					default:
						ixs, err := apk.GetRepositoryIndexes(plain, []string{u0, u1}, trustedKeys, "x86_64", apk.WithIgnoreSignatureForIndexes(u1), apk.WithHTTPClient(srv.Client()))
						c.Rows = rows([]int{0, 1}, ixs, err)
					}
					mu.Lock()
					delete(bodies, p0)
					delete(bodies, p1)
					delete(gate, p1)
					delete(sent, p1)
					mu.Unlock()
					var rt []string
					for _, r := range c.Rows {
						if r.Asked < 0 {
							continue
						}
						rt = append(rt, gal.Pair(gal.Nat(r.Asked), galNats(r.Markers)))
					}
					wr.Add(gal.Case{Term: fmt.Sprintf("{| il_returned := %s |}", gal.List(rt)), Desc: c,
						Class: fmt.Sprintf("%s/gomaxprocs-%d/stale-%d", schedule, procs, stale), Key: fmt.Sprintf("%s|%d|%d|%d", schedule, procs, stale, rep), Trivial: len(rt) == 0})
				}
			}
		}
	}
	return wr.Flush()
}
