// c04 harness: repository index signature checking.
//
//	-stage names  signatureFileRegex.FindStringSubmatch vs the model's splitter
//	-stage parse  generated index archives (abstract view + bytes) x option
//	              combinations through the real parseRepositoryIndex; the truth
//	              table of signature verification is computed with crypto/rsa
//	              directly and handed to the model
//	-stage sweep  exhaustive byte-level mutation of validly signed archives on
//	              the real code; every mutant is handed to the mutant-oracle
//	              validator (Spec/IndexBytesSpec.v), see sweep.go
//	-stage repos  histories of GetRepositoryIndexes calls, see repos.go
//	-stage vctx   verificationContext on pairs of requests, see vctx.go
package main

import (
	"bytes"
	"context"
	"crypto"
	"crypto/ecdsa"
	"crypto/elliptic"
	crand "crypto/rand"
	"crypto/rsa"
	"crypto/sha1" //nolint:gosec
	"crypto/sha256"
	"crypto/x509"
	"encoding/json"
	"encoding/pem"
	"flag"
	"fmt"
	"io"
	"log/slog"
	"os"
	"strings"

	"chainguard.dev/apko/pkg/apk/apk"
	"verifharness/gal"
	"verifharness/synthrepo"
)

// ---- abstract archives ------------------------------------------------------

type entry struct {
	Name string `json:"name"`
	Body []byte `json:"-"`
	Note string `json:"note,omitempty"` // what the body is (for replays)
}
type meta struct {
	Rename *string `json:"rename,omitempty"`
	Resize *int64  `json:"resize,omitempty"`
	Gnu    bool    `json:"gnu,omitempty"` // GNU 'L' header instead of PAX 'x'
}
type member struct {
	Entries []entry `json:"entries"`
	Pending *meta   `json:"pending,omitempty"`
	Tail    int     `json:"tail"` // 0 clean, 1 one zero block, 2 end-of-archive marker
	Stored  bool    `json:"stored,omitempty"`
}

func (m member) rawTar() []byte {
	var raw []byte
	for _, e := range m.Entries {
		raw = append(raw, synthrepo.RawEntry(e.Name, e.Body, '0')...)
	}
	if p := m.Pending; p != nil {
		if p.Gnu {
			raw = append(raw, synthrepo.GnuLongName(*p.Rename)...)
		} else {
			recs := map[string]string{}
			if p.Rename != nil {
				recs["path"] = *p.Rename
			}
			if p.Resize != nil {
				recs["size"] = fmt.Sprint(*p.Resize)
			}
			raw = append(raw, synthrepo.PaxMeta(recs)...)
		}
	}
	raw = append(raw, make([]byte, 512*m.Tail)...)
	return raw
}

func (m member) gz() []byte {
	if m.Stored {
		return synthrepo.GzStored(m.rawTar())
	}
	b, err := synthrepo.Gz(m.rawTar())
	if err != nil {
		panic(err)
	}
	return b
}

func concatGz(ms []member) []byte {
	var out []byte
	for _, m := range ms {
		out = append(out, m.gz()...)
	}
	return out
}

// a signature entry to be placed in the first member
type sigSpec struct {
	Name   string `json:"name"`             // tar entry name
	Signer string `json:"signer,omitempty"` // key used to sign ("" = random bytes)
	Digest string `json:"digest,omitempty"` // "SHA1" | "SHA256": digest actually signed
	Over   string `json:"over,omitempty"`   // "" = the real rest, "other" = different bytes
	Extra  bool   `json:"extra,omitempty"`  // not a signature at all: some other file
}

type world struct {
	keys map[string]*synthrepo.Key // by key name
}

func (w *world) key(name string) *synthrepo.Key {
	if k, ok := w.keys[name]; ok {
		return k
	}
	k, err := synthrepo.NewKey(name)
	if err != nil {
		panic(err)
	}
	w.keys[name] = k
	return k
}

func sign(k *synthrepo.Key, digest string, over []byte) []byte {
	var sig []byte
	var err error
	if digest == "SHA1" {
		d := sha1.Sum(over) //nolint:gosec
		sig, err = rsa.SignPKCS1v15(nil, k.Priv, crypto.SHA1, d[:])
	} else {
		d := sha256.Sum256(over)
		sig, err = rsa.SignPKCS1v15(nil, k.Priv, crypto.SHA256, d[:])
	}
	if err != nil {
		panic(err)
	}
	return sig
}

func fingerprint(b []byte) []byte {
	s := sha256.Sum256(b)
	return s[:6]
}

// ---- one parse case ---------------------------------------------------------

type parseCase struct {
	Label   string            `json:"label"`
	Ignore  bool              `json:"ignore_signatures"`
	Listed  []string          `json:"no_signature_indexes"`
	URL     string            `json:"url"`
	Arch    string            `json:"arch"`
	Keys    []string          `json:"keys"`            // configured key names
	BadKeys map[string]string `json:"bad_keys,omitempty"` // key name -> non-PEM content
	KeyForm map[string]string `json:"key_form,omitempty"` // key name -> how the key file is written (see keyFile)
	Sigs    []sigSpec         `json:"first_member"`
	First   member            `json:"first_member_shape"` // Pending / Tail / Stored only
	Rest    []member          `json:"rest"`
	NoFirst bool              `json:"no_signature_member,omitempty"` // archive = Rest only
	Texts   map[string]string `json:"texts,omitempty"`
}

func pkgList(idx *apk.APKIndex) []string {
	out := []string{}
	for _, p := range idx.Packages {
		out = append(out, p.Name+"="+p.Version)
	}
	return out
}

func parseText(b []byte) (ok bool, pkgs []string) {
	defer func() {
		if r := recover(); r != nil {
			ok = false
		}
	}()
	ps, err := apk.ParsePackageIndex(bytes.NewReader(b))
	if err != nil {
		return false, nil
	}
	out := []string{}
	for _, p := range ps {
		out = append(out, p.Name+"="+p.Version)
	}
	return true, out
}

func galHalg(d string) string {
	if d == "SHA1" {
		return "SHA1"
	}
	return "SHA256"
}

func galEntry(name string, body []byte) string {
	return fmt.Sprintf("{| e_name := %s; e_body := %s |}", gal.Str(name), gal.Bytes(body))
}

func galMember(entries []string, p *meta, tail int) string {
	pend := "None"
	if p != nil {
		ren, rez := "None", "None"
		if p.Rename != nil {
			ren = "(Some " + gal.Str(*p.Rename) + ")"
		}
		if p.Resize != nil {
			rez = fmt.Sprintf("(Some %d%%N)", *p.Resize)
		}
		pend = fmt.Sprintf("(Some {| mt_rename := %s; mt_resize := %s |})", ren, rez)
	}
	return fmt.Sprintf("{| m_entries := %s; m_pending := %s; m_tail := %s |}", gal.List(entries), pend, []string{"TClean", "TZero1", "TEOA"}[tail])
}

func blocks(n int64) int64 { return (n + 511) / 512 }

// resized mirrors the reader: the first k bytes of the entry's blocks
func resized(body []byte, k int64) ([]byte, bool) {
	n := int64(len(body))
	if k < 0 || blocks(k) != blocks(n) {
		return nil, false
	}
	padded := append(append([]byte{}, body...), make([]byte, blocks(n)*512-n)...)
	return padded[:k], true
}

func runParse(w *world, pc *parseCase) (gal.Case, []byte) {
	restBytes := concatGz(pc.Rest)
	other := append([]byte("something else entirely"), restBytes...)
	// first member
	first := pc.First
	first.Entries = nil
	type sigBody struct {
		name string
		body []byte
	}
	var sb []sigBody
	for i, s := range pc.Sigs {
		var body []byte
		switch {
		case s.Extra:
			body = []byte("not a signature")
		case s.Signer == "":
			body = bytes.Repeat([]byte{byte(0x40 + i)}, 256)
		default:
			over := restBytes
			if s.Over == "other" {
				over = other
			}
			body = sign(w.key(s.Signer), s.Digest, over)
		}
		first.Entries = append(first.Entries, entry{Name: s.Name, Body: body})
		sb = append(sb, sigBody{s.Name, body})
	}
	var whole []byte
	var members []member
	if pc.NoFirst {
		whole = restBytes
		members = pc.Rest
	} else {
		whole = append(first.gz(), restBytes...)
		members = append([]member{first}, pc.Rest...)
	}
	// the raw bytes after the first member, as the code under test sees them
	var signedRegion []byte
	if len(members) > 0 {
		signedRegion = concatGz(members[1:])
	}

	// configured keys
	keys := map[string][]byte{}
	for _, k := range pc.Keys {
		if bad, ok := pc.BadKeys[k]; ok {
			keys[k] = []byte(bad)
			continue
		}
		keys[k] = keyFile(w.key(k), pc.KeyForm[k])
	}

	// what the harness's own decoding makes of every configured key file
	var kk []string
	for _, kn := range pc.Keys {
		kind := "KRsa"
		if block, _ := pem.Decode(keys[kn]); block == nil {
			kind = "KNoPem"
		} else if pub, err := x509.ParsePKIXPublicKey(block.Bytes); err != nil {
			kind = "KBadDer"
		} else if _, ok := pub.(*rsa.PublicKey); !ok {
			kind = "KNotRsa"
		}
		kk = append(kk, gal.Pair(gal.Str(kn), kind))
	}
	// truth table of verification over the signed region, with crypto/rsa directly
	var vt []string
	if len(members) > 0 {
		for _, e := range members[0].Entries {
			for _, kn := range pc.Keys {
				pub := parsePub(keys[kn])
				if pub == nil {
					continue
				}
				d1 := sha1.Sum(signedRegion) //nolint:gosec
				d2 := sha256.Sum256(signedRegion)
				if rsa.VerifyPKCS1v15(pub, crypto.SHA1, d1[:], e.Body) == nil {
					vt = append(vt, fmt.Sprintf("(%s, SHA1, %s)", gal.Str(kn), gal.Bytes(fingerprint(e.Body))))
				}
				if rsa.VerifyPKCS1v15(pub, crypto.SHA256, d2[:], e.Body) == nil {
					vt = append(vt, fmt.Sprintf("(%s, SHA256, %s)", gal.Str(kn), gal.Bytes(fingerprint(e.Body))))
				}
			}
		}
	}

	// text table: every body that can reach ParsePackageIndex
	textSeen := map[string]bool{}
	var tt []string
	addText := func(b []byte) {
		if textSeen[string(b)] {
			return
		}
		textSeen[string(b)] = true
		ok, pk := parseText(b)
		r := "None"
		if ok {
			r = "(Some " + gal.StrList(pk) + ")"
		}
		tt = append(tt, fmt.Sprintf("(%s, %s)", gal.Bytes(b), r))
	}
	for mi, m := range members {
		for ei, e := range m.Entries {
			body := e.Body
			if mi == 0 && !pc.NoFirst {
				body = fingerprint(e.Body)
			}
			addText(body)
			if ei == 0 && mi > 0 && members[mi-1].Pending != nil && members[mi-1].Pending.Resize != nil {
				if rb, ok := resized(e.Body, *members[mi-1].Pending.Resize); ok {
					addText(rb)
				}
			}
		}
	}

	// run the real code
	opts := []apk.IndexOption{apk.WithIgnoreSignatures(pc.Ignore)}
	if len(pc.Listed) > 0 {
		opts = append(opts, apk.WithIgnoreSignatureForIndexes(pc.Listed...))
	}
	should := apk.VerifC04ShouldCheckSignature(pc.URL, pc.Arch, opts...)
	var idx *apk.APKIndex
	var err error
	func() {
		defer func() {
			if r := recover(); r != nil {
				err = fmt.Errorf("panic: %v", r)
				b, _ := json.Marshal(pc)
				fmt.Printf("IMPL-VIOLATION tag=parse-repository-index-panics %s\n", b)
			}
		}()
		idx, err = apk.VerifC04ParseRepositoryIndex(context.Background(), pc.URL, keys, pc.Arch, whole, opts...)
	}()
	obs, obsSig := "None", "None"
	accepted := err == nil && idx != nil
	if accepted {
		obs = fmt.Sprintf("(Some (%s, %s))", gal.StrList(pkgList(idx)), gal.Bytes([]byte(idx.Description)))
		if idx.Signature != nil {
			// the body of an entry of the first member is known to the model by its fingerprint
			sg := idx.Signature
			if !pc.NoFirst {
				for _, e := range first.Entries {
					if bytes.Equal(e.Body, sg) {
						sg = fingerprint(e.Body)
						break
					}
				}
			}
			obsSig = "(Some " + gal.Bytes(sg) + ")"
		}
	}

	// Gallina term
	var gm []string
	for mi, m := range members {
		var es []string
		for _, e := range m.Entries {
			body := e.Body
			if mi == 0 && !pc.NoFirst {
				body = fingerprint(e.Body)
			}
			es = append(es, galEntry(e.Name, body))
		}
		gm = append(gm, galMember(es, m.Pending, m.Tail))
	}
	term := fmt.Sprintf("{| p_ignore := %s; p_listed := %s; p_url := %s; p_arch := %s; p_keys := %s; p_members := %s; p_verify := %s; p_keykinds := %s; p_texts := %s; o_should_check := %s; o_result := %s; o_signature := %s |}",
		gal.Bool(pc.Ignore), gal.StrList(pc.Listed), gal.Str(pc.URL), gal.Str(pc.Arch), gal.StrList(pc.Keys),
		gal.List(gm), gal.List(vt), gal.List(kk), gal.List(tt), gal.Bool(should), obs, obsSig)
	class := "reject"
	if accepted {
		class = "accept"
	}
	if !should {
		class += "/unchecked"
	}
	if first.Pending != nil && !pc.NoFirst {
		class += "/pending-meta"
	}
	if first.Tail != 0 && !pc.NoFirst {
		class += "/zero-blocks"
	}
	pc.Texts = nil
	return gal.Case{Term: term, Desc: pc, Class: class, Trivial: len(pc.Sigs) == 0 && !pc.NoFirst}, whole
}

// keyFile: the bytes configured for a key, in the usual form (PKIX "PUBLIC KEY" PEM) or an unusual one
func keyFile(k *synthrepo.Key, form string) []byte {
	switch form {
	case "pkcs1": // "RSA PUBLIC KEY": x509.ParsePKIXPublicKey refuses it
		return pem.EncodeToMemory(&pem.Block{Type: "RSA PUBLIC KEY", Bytes: x509.MarshalPKCS1PublicKey(&k.Priv.PublicKey)})
	case "ecdsa": // a PKIX key that is not RSA
		ek, err := ecdsa.GenerateKey(elliptic.P256(), crand.Reader)
		if err != nil {
			panic(err)
		}
		der, err := x509.MarshalPKIXPublicKey(&ek.PublicKey)
		if err != nil {
			panic(err)
		}
		return pem.EncodeToMemory(&pem.Block{Type: "PUBLIC KEY", Bytes: der})
	case "junk-block-first": // pem.Decode takes the first block only
		return append(pem.EncodeToMemory(&pem.Block{Type: "PUBLIC KEY", Bytes: []byte("not DER")}), k.Pub...)
	case "trailing-block": // the genuine key first, anything after it is ignored
		return append(append([]byte("leading text\n"), k.Pub...), pem.EncodeToMemory(&pem.Block{Type: "PUBLIC KEY", Bytes: []byte("not DER")})...)
	}
	return k.Pub
}

func parsePub(pemBytes []byte) *rsa.PublicKey {
	block, _ := pem.Decode(pemBytes)
	if block == nil {
		return nil
	}
	pub, err := x509.ParsePKIXPublicKey(block.Bytes)
	if err != nil {
		return nil
	}
	r, _ := pub.(*rsa.PublicKey)
	return r
}

// ---- generators -------------------------------------------------------------

func indexText(r *gal.Rand, npk int, long bool) string {
	var t strings.Builder
	for i := 0; i < npk; i++ {
		fmt.Fprintf(&t, "C:Q1%s=\nP:p%d\nV:%d.%d-r%d\n", strings.Repeat("A", 27), i, 1+r.Intn(3), r.Intn(10), r.Intn(4))
		if long {
			fmt.Fprintf(&t, "T:%s\n", strings.Repeat("x", 40+r.Intn(60)))
		}
		if r.Chance(1, 3) {
			fmt.Fprintf(&t, "D:p%d\n", r.Intn(npk))
		}
		t.WriteString("\n")
	}
	return t.String()
}

// fixedText: n records of exactly 100 bytes each.
func fixedText(n int) string {
	var t strings.Builder
	for i := 0; i < n; i++ {
		rec := fmt.Sprintf("P:p%02d\nV:1.%d-r0\nT:", i, i)
		rec += strings.Repeat("x", 100-len(rec)-2) + "\n\n"
		t.WriteString(rec)
	}
	return t.String()
}

func sp(s string) *string { return &s }
func ip(i int64) *int64   { return &i }

const (
	k1 = "alice@verif-1.rsa.pub"
	k2 = "bob@verif-2.rsa.pub"
	k3 = "carol.rsa.pub"
)

func restAFirst(text string) []member {
	return []member{{Entries: []entry{{Name: "APKINDEX", Body: []byte(text)}, {Name: "DESCRIPTION", Body: []byte("desc-a")}}, Tail: 2}}
}
func restDFirst(text string) []member {
	return []member{{Entries: []entry{{Name: "DESCRIPTION", Body: []byte("desc-d")}, {Name: "APKINDEX", Body: []byte(text)}}, Tail: 2}}
}

func corpus(r *gal.Rand) []*parseCase {
	short := "C:Q1AAAAAAAAAAAAAAAAAAAAAAAAAAA=\nP:a\nV:1.0-r0\n\nC:Q1AAAAAAAAAAAAAAAAAAAAAAAAAAA=\nP:b\nV:2.0-r1\nD:a\n\n"
	long := fixedText(12) // 1200 bytes: record boundaries at every multiple of 100
	url := "https://repo.example/os/x86_64/APKINDEX.tar.gz"
	base := func(label string) *parseCase {
		return &parseCase{Label: label, URL: url, Arch: "x86_64", Keys: []string{k1}, Rest: restDFirst(short)}
	}
	valid := func(alg, key string) sigSpec {
		d := "SHA256"
		if alg == "RSA" || alg == "DSA" {
			d = "SHA1"
		}
		return sigSpec{Name: ".SIGN." + alg + "." + key, Signer: key, Digest: d}
	}
	var cs []*parseCase
	add := func(c *parseCase) { cs = append(cs, c) }

	c := base("valid RSA256")
	c.Sigs = []sigSpec{valid("RSA256", k1)}
	add(c)
	c = base("valid RSA (sha1)")
	c.Sigs = []sigSpec{valid("RSA", k1)}
	add(c)
	c = base("valid, APKINDEX first")
	c.Sigs = []sigSpec{valid("RSA256", k1)}
	c.Rest = restAFirst(short)
	add(c)
	c = base("unsigned, checking on")
	c.NoFirst = true
	add(c)
	c = base("unsigned, ignoreSignatures")
	c.NoFirst = true
	c.Ignore = true
	add(c)
	c = base("unsigned, repo listed in noSignatureIndexes")
	c.NoFirst = true
	c.Listed = []string{"https://other.example/os", "https://repo.example/os"}
	add(c)
	c = base("unsigned, another repo listed")
	c.NoFirst = true
	c.Listed = []string{"https://other.example/os"}
	add(c)
	c = base("unsigned, listed with trailing slash (no match)")
	c.NoFirst = true
	c.Listed = []string{"https://repo.example/os/"}
	add(c)
	c = base("unsigned, listed but other arch")
	c.NoFirst = true
	c.Arch = "aarch64"
	c.Listed = []string{"https://repo.example/os"}
	add(c)
	c = base("signed by unknown key only")
	c.Sigs = []sigSpec{valid("RSA256", k2)}
	add(c)
	c = base("known key name, signature made by another key")
	c.Sigs = []sigSpec{{Name: ".SIGN.RSA256." + k1, Signer: k2, Digest: "SHA256"}}
	add(c)
	c = base("known key name, random signature bytes")
	c.Sigs = []sigSpec{{Name: ".SIGN.RSA256." + k1}}
	add(c)
	c = base("zero keys configured")
	c.Keys = nil
	c.Sigs = []sigSpec{valid("RSA256", k1)}
	add(c)
	c = base("a configured key name contains '/'")
	c.Keys = []string{k1, "dir/evil.rsa.pub"}
	c.Sigs = []sigSpec{valid("RSA256", k1)}
	add(c)
	c = base("DSA name carrying a valid RSA/SHA1 signature")
	c.Sigs = []sigSpec{valid("DSA", k1)}
	add(c)
	c = base("RSA512 name carrying a valid RSA/SHA256 signature")
	c.Sigs = []sigSpec{valid("RSA512", k1)}
	add(c)
	c = base("RSA256 name, SHA1 digest signed")
	c.Sigs = []sigSpec{{Name: ".SIGN.RSA256." + k1, Signer: k1, Digest: "SHA1"}}
	add(c)
	c = base("RSA name, SHA256 digest signed")
	c.Sigs = []sigSpec{{Name: ".SIGN.RSA." + k1, Signer: k1, Digest: "SHA256"}}
	add(c)
	c = base("two signatures, only the later verifies")
	c.Sigs = []sigSpec{{Name: ".SIGN.RSA256." + k1}, valid("RSA", k1)}
	add(c)
	c = base("two keys, signature of the second")
	c.Keys = []string{k1, k2}
	c.Sigs = []sigSpec{{Name: ".SIGN.RSA256." + k1, Signer: k1, Digest: "SHA256", Over: "other"}, valid("RSA256", k2)}
	add(c)
	c = base("unknown-key and DSA entries around a valid one")
	c.Sigs = []sigSpec{valid("RSA256", k3), valid("DSA", k1), valid("RSA256", k1), valid("RSA512", k1)}
	add(c)
	c = base("signature over other content")
	c.Sigs = []sigSpec{{Name: ".SIGN.RSA256." + k1, Signer: k1, Digest: "SHA256", Over: "other"}}
	add(c)
	c = base("extra README after a valid signature")
	c.Sigs = []sigSpec{valid("RSA256", k1), {Name: "README", Extra: true}}
	add(c)
	c = base("extra README before a valid signature")
	c.Sigs = []sigSpec{{Name: "README", Extra: true}, valid("RSA256", k1)}
	add(c)
	c = base("APKINDEX entry inside the signature member")
	c.Sigs = []sigSpec{valid("RSA256", k1), {Name: "APKINDEX", Extra: true}}
	add(c)
	c = base("valid signature under a name with something before .SIGN.")
	c.Sigs = []sigSpec{{Name: "x.SIGN.RSA256." + k1, Signer: k1, Digest: "SHA256"}}
	add(c)
	c = base("valid signature under a name with something after .rsa.pub")
	c.Keys = []string{k1, k1 + "x"}
	c.Sigs = []sigSpec{{Name: ".SIGN.RSA256." + k1 + "x", Signer: k1 + "x", Digest: "SHA256"}}
	add(c)
	c = base("name .SIGN.RSA.256.<key>: group 1 ends at the first dot")
	c.Keys = []string{"256." + k1, k1}
	c.Sigs = []sigSpec{{Name: ".SIGN.RSA.256." + k1, Signer: k1, Digest: "SHA256"}}
	add(c)
	c = base("key name is just .rsa.pub")
	c.Keys = []string{".rsa.pub"}
	c.Sigs = []sigSpec{{Name: ".SIGN.RSA256..rsa.pub", Signer: ".rsa.pub", Digest: "SHA256"}}
	add(c)
	c = base("configured key without the .rsa.pub suffix can never match")
	c.Keys = []string{"plainkey"}
	c.Sigs = []sigSpec{{Name: ".SIGN.RSA256.plainkey", Signer: "plainkey", Digest: "SHA256"}}
	add(c)
	c = base("configured key content is not PEM")
	c.BadKeys = map[string]string{k1: "garbage"}
	c.Sigs = []sigSpec{valid("RSA256", k1)}
	add(c)
	for _, form := range []string{"pkcs1", "ecdsa", "junk-block-first", "trailing-block"} {
		c = base("configured key file form: " + form)
		c.KeyForm = map[string]string{k1: form}
		c.Sigs = []sigSpec{valid("RSA256", k1)}
		add(c)
	}
	c = base("empty signature member")
	add(c)
	c = base("rest has two members, both signed")
	c.Sigs = []sigSpec{valid("RSA256", k1)}
	c.Rest = []member{{Entries: []entry{{Name: "DESCRIPTION", Body: []byte("two")}}}, {Entries: []entry{{Name: "APKINDEX", Body: []byte(short)}}, Tail: 2}}
	add(c)
	c = base("APKINDEX twice in the signed part: the last wins")
	c.Sigs = []sigSpec{valid("RSA256", k1)}
	c.Rest = []member{{Entries: []entry{{Name: "APKINDEX", Body: []byte(short)}, {Name: "APKINDEX", Body: []byte("P:z\nV:9\n\n")}}, Tail: 2}}
	add(c)
	c = base("unexpected file in the signed part")
	c.Sigs = []sigSpec{valid("RSA256", k1)}
	c.Rest = []member{{Entries: []entry{{Name: "APKINDEX", Body: []byte(short)}, {Name: "surprise", Body: []byte("x")}}, Tail: 2}}
	add(c)
	c = base("signed part without end-of-archive marker")
	c.Sigs = []sigSpec{valid("RSA256", k1)}
	c.Rest = []member{{Entries: []entry{{Name: "APKINDEX", Body: []byte(short)}}}}
	add(c)
	c = base("unparsable index text, validly signed")
	c.Sigs = []sigSpec{valid("RSA256", k1)}
	c.Rest = restAFirst("this is not an index\n")
	add(c)
	c = base("stored (uncompressed) deflate blocks")
	c.Sigs = []sigSpec{valid("RSA256", k1)}
	c.First.Stored = true
	c.Rest = restAFirst(short)
	c.Rest[0].Stored = true
	add(c)

	// --- the structural gap: what the first member leaves behind for the parse pass
	n := int64(len(long))
	lastBlock := (n - 1) / 512 * 512
	cut := int64(1100) // a record boundary inside the last block: drops exactly the last record
	pend := func(label string, rest []member, m meta) {
		c := base(label)
		c.Sigs = []sigSpec{valid("RSA256", k1)}
		c.Rest = rest
		c.First.Pending = &m
		add(c)
	}
	pend("fixed C04-F1 replay: pending PAX size: signed APKINDEX truncated after a whole record", restAFirst(long), meta{Resize: ip(cut)})
	pend("pending PAX size = real size - 1", restAFirst(long), meta{Resize: ip(n - 1)})
	pend("pending PAX size = real size (no-op)", restAFirst(long), meta{Resize: ip(n)})
	pend("pending PAX size: first byte of the last block", restAFirst(long), meta{Resize: ip(lastBlock + 1)})
	pend("pending PAX size one block short (tar header error)", restAFirst(long), meta{Resize: ip(lastBlock)})
	pend("pending PAX size 0", restAFirst(long), meta{Resize: ip(0)})
	pend("pending PAX size into the padding", restAFirst(long), meta{Resize: ip(n + 1)})
	pend("fixed C04-F1 replay: pending PAX path=.SIGN.x hides the signed APKINDEX", restAFirst(short), meta{Rename: sp(".SIGN.x")})
	pend("fixed C04-F1 replay: pending GNU long name .SIGN.x hides the signed APKINDEX", restAFirst(short), meta{Rename: sp(".SIGN.x"), Gnu: true})
	pend("pending PAX path=DESCRIPTION on APKINDEX", restAFirst(short), meta{Rename: sp("DESCRIPTION")})
	pend("pending PAX path=APKINDEX on DESCRIPTION", restDFirst(short), meta{Rename: sp("APKINDEX")})
	pend("pending PAX path=.SIGN.x on DESCRIPTION", restDFirst(short), meta{Rename: sp(".SIGN.x")})
	pend("pending PAX path=other (unexpected file)", restDFirst(short), meta{Rename: sp("other")})
	pend("pending PAX path+size", restAFirst(long), meta{Rename: sp("APKINDEX"), Resize: ip(cut)})
	pend("pending PAX size on DESCRIPTION-first", restDFirst(short), meta{Resize: ip(3)})
	for _, tl := range []int{1, 2} {
		for _, rest := range [][]member{restAFirst(short), restDFirst(short)} {
			c := base(fmt.Sprintf("fixed C04-F2 replay: %d zero block(s) at the end of the signature member", tl))
			c.Sigs = []sigSpec{valid("RSA256", k1)}
			c.Rest = rest
			c.First.Tail = tl
			add(c)
		}
	}
	// unchecked archives go through the same parse pass
	c = base("unchecked: pending PAX size")
	c.Ignore = true
	c.Sigs = []sigSpec{valid("RSA256", k1)}
	c.Rest = restAFirst(long)
	c.First.Pending = &meta{Resize: ip(cut)}
	add(c)
	return cs
}

func randomCase(r *gal.Rand, i int) *parseCase {
	keyNames := []string{k1, k2, k3}
	pc := &parseCase{Label: fmt.Sprintf("random %d", i), Arch: gal.Pick(r, []string{"x86_64", "aarch64"})}
	repo := gal.Pick(r, []string{"https://repo.example/os", "https://mirror.example/extras", "/local/packages"})
	pc.URL = repo + "/" + pc.Arch + "/APKINDEX.tar.gz"
	if r.Chance(1, 12) {
		pc.URL = repo + "/" + pc.Arch + "/APKINDEX.tar.gz2"
	}
	pc.Ignore = r.Chance(1, 8)
	switch r.Intn(6) {
	case 0:
		pc.Listed = []string{repo}
	case 1:
		pc.Listed = []string{"https://unrelated.example/x"}
	case 2:
		pc.Listed = []string{"https://unrelated.example/x", repo + gal.Pick(r, []string{"", "/", "x"})}
	}
	nk := 1 + r.Intn(3)
	if r.Chance(1, 10) {
		nk = 0
	}
	perm := []int{0, 1, 2}
	for j := 2; j > 0; j-- {
		k := r.Intn(j + 1)
		perm[j], perm[k] = perm[k], perm[j]
	}
	for j := 0; j < nk; j++ {
		pc.Keys = append(pc.Keys, keyNames[perm[j]])
	}
	if r.Chance(1, 25) {
		pc.Keys = append(pc.Keys, "sub/dir.rsa.pub")
	}
	text := indexText(r, 1+r.Intn(4), false)
	if r.Chance(1, 6) {
		text = indexText(r, 6+r.Intn(4), true)
	}
	if r.Bool() {
		pc.Rest = restAFirst(text)
	} else {
		pc.Rest = restDFirst(text)
	}
	if r.Chance(1, 10) {
		pc.Rest[0].Tail = 0
	}
	if r.Chance(1, 10) {
		pc.NoFirst = true
		return pc
	}
	ns := 1 + r.Intn(3)
	if r.Chance(1, 20) {
		ns = 0 // a first member without entries
	}
	for j := 0; j < ns; j++ {
		alg := gal.Pick(r, []string{"RSA", "RSA256", "RSA256", "RSA", "DSA", "RSA512"})
		key := gal.Pick(r, keyNames)
		s := sigSpec{Name: ".SIGN." + alg + "." + key, Signer: key, Digest: "SHA256"}
		if alg == "RSA" || alg == "DSA" {
			s.Digest = "SHA1"
		}
		switch r.Intn(10) {
		case 0:
			s.Signer = gal.Pick(r, keyNames)
		case 1:
			s.Over = "other"
		case 2:
			s.Signer = ""
		case 3:
			s.Digest = gal.Pick(r, []string{"SHA1", "SHA256"})
		case 4:
			if r.Chance(1, 3) {
				s = sigSpec{Name: gal.Pick(r, []string{"README", "APKINDEX", ".SIGN.RSA1024." + key, ".SIGN.RSA256." + strings.TrimSuffix(key, ".pub"), "x.SIGN.RSA." + key}), Extra: true}
			}
		}
		pc.Sigs = append(pc.Sigs, s)
	}
	if r.Chance(1, 4) {
		// the size record applies to the FIRST entry of the signed part; stay inside the
		// modelled envelope (never more blocks than the entry has) — the sweep stage
		// explores the rest on the real code
		n := int64(len(pc.Rest[0].Entries[0].Body))
		m := meta{}
		switch r.Intn(5) {
		case 0, 4:
			m.Rename = sp(gal.Pick(r, []string{".SIGN.x", "APKINDEX", "DESCRIPTION", "other"}))
			m.Gnu = r.Bool()
		case 1, 2:
			lo := (n - 1) / 512 * 512
			m.Resize = ip(lo + 1 + int64(r.Intn(int(blocks(n)*512-lo))))
		case 3:
			m.Resize = ip(int64(r.Intn(int(n) + 1)))
			m.Rename = sp(gal.Pick(r, []string{".SIGN.x", "APKINDEX"}))
		}
		pc.First.Pending = &m
	} else if r.Chance(1, 10) {
		pc.First.Tail = 1 + r.Intn(2)
	}
	pc.First.Stored = r.Chance(1, 6)
	return pc
}

// features of a parse case: the shape of the archive, the key set and the options, one
// "dimension=value" string per dimension (several for the per-entry dimensions). The
// evidence carries their histogram; every value listed in requiredFeatures occurs among
// the GENERATED cases of every run, quick tier included (rejection sampling fills gaps).
func features(pc *parseCase) []string {
	var fs []string
	add := func(f string) { fs = append(fs, f) }
	if pc.NoFirst {
		add("first=absent")
	} else {
		add("first=present")
		n := len(pc.Sigs)
		if n > 3 {
			n = 3
		}
		add(fmt.Sprintf("entries=%d", n))
		for _, sg := range pc.Sigs {
			m := apk.VerifC04SignatureFileSubmatch(sg.Name)
			if len(m) == 3 {
				add("type=" + m[1])
			} else {
				add("type=bad-name")
			}
			switch {
			case sg.Extra:
				add("body=not-a-signature")
			case sg.Signer == "":
				add("body=random-bytes")
			case sg.Over == "other":
				add("body=signature-over-other-content")
			case len(m) == 3 && sg.Signer != m[2]:
				add("body=signature-by-another-key")
			case len(m) == 3 && ((m[1] == "RSA" || m[1] == "DSA") != (sg.Digest == "SHA1")):
				add("body=digest-of-the-other-type")
			default:
				add("body=valid-signature")
			}
		}
		switch p := pc.First.Pending; {
		case p != nil && p.Gnu:
			add("ending=gnu-rename")
		case p != nil && p.Rename != nil && p.Resize != nil:
			add("ending=pax-rename+resize")
		case p != nil && p.Rename != nil:
			add("ending=pax-rename")
		case p != nil:
			add("ending=pax-resize")
		case pc.First.Tail == 1:
			add("ending=one-zero-block")
		case pc.First.Tail == 2:
			add("ending=end-of-archive")
		default:
			add("ending=clean")
		}
		if pc.First.Stored {
			add("deflate=stored")
		} else {
			add("deflate=compressed")
		}
	}
	slash := false
	for _, k := range pc.Keys {
		if strings.Contains(k, "/") {
			slash = true
		}
	}
	switch {
	case slash:
		add("keys=name-with-slash")
	case len(pc.Keys) >= 3:
		add("keys=3")
	default:
		add(fmt.Sprintf("keys=%d", len(pc.Keys)))
	}
	if len(pc.Rest) > 1 {
		add("signed-part=several-members")
	} else if len(pc.Rest) == 1 {
		first := "D-first"
		if len(pc.Rest[0].Entries) > 0 && pc.Rest[0].Entries[0].Name == "APKINDEX" {
			first = "A-first"
		}
		add("signed-part=" + first)
		if pc.Rest[0].Tail == 0 {
			add("signed-part-end=no-end-of-archive")
		} else {
			add("signed-part-end=end-of-archive")
		}
	}
	listedHit := false
	for _, l := range pc.Listed {
		if l+"/"+pc.Arch+"/APKINDEX.tar.gz" == pc.URL {
			listedHit = true
		}
	}
	switch {
	case pc.Ignore:
		add("options=ignore-signatures")
	case listedHit:
		add("options=index-exempted")
	case len(pc.Listed) > 0:
		add("options=other-index-exempted")
	default:
		add("options=plain")
	}
	if !strings.HasSuffix(pc.URL, "/"+pc.Arch+"/APKINDEX.tar.gz") {
		add("url=not-an-index-url")
	}
	return fs
}

var requiredFeatures = []string{
	"first=absent", "first=present", "entries=0", "entries=1", "entries=2", "entries=3",
	"type=RSA", "type=RSA256", "type=DSA", "type=RSA512", "type=bad-name",
	"body=valid-signature", "body=not-a-signature", "body=random-bytes", "body=signature-over-other-content",
	"body=signature-by-another-key", "body=digest-of-the-other-type",
	"ending=clean", "ending=gnu-rename", "ending=pax-rename", "ending=pax-resize", "ending=pax-rename+resize",
	"ending=one-zero-block", "ending=end-of-archive", "deflate=stored", "deflate=compressed",
	"keys=0", "keys=1", "keys=2", "keys=3", "keys=name-with-slash",
	"signed-part=A-first", "signed-part=D-first", "signed-part-end=no-end-of-archive", "signed-part-end=end-of-archive",
	"options=plain", "options=ignore-signatures", "options=index-exempted", "options=other-index-exempted", "url=not-an-index-url",
}

func parseStage(dir string, seed uint64, tier string) error {
	r := gal.NewRand(seed)
	w := &world{keys: map[string]*synthrepo.Key{}}
	wr := &gal.Writer{Dir: dir, Require: "From Apko Require Import Corr.C04.", Type: "parse_case", Check: "check_parse", Shard: 100}
	hist := map[string]int{}    // all cases
	genHist := map[string]int{} // generated cases only
	outcome := map[string]map[string]int{}
	run := func(pc *parseCase, generated bool) {
		fs := features(pc)
		c, _ := runParse(w, pc)
		wr.Add(c)
		acc := "reject"
		if strings.HasPrefix(c.Class, "accept") {
			acc = "accept"
		}
		for _, f := range fs {
			hist[f]++
			if generated {
				genHist[f]++
			}
			if outcome[f] == nil {
				outcome[f] = map[string]int{}
			}
			outcome[f][acc]++
		}
	}
	for _, pc := range corpus(r) {
		run(pc, false)
	}
	n := 250
	if tier == "thorough" {
		n = 2500
	}
	for i := 0; i < n; i++ {
		run(randomCase(r, i), true)
	}
	// every required shape occurs among the generated cases: fill the gaps by rejection sampling
	var missing []string
	for _, f := range requiredFeatures {
		for tries := 0; genHist[f] == 0 && tries < 5000; tries++ {
			pc := randomCase(r, n+tries)
			for _, g := range features(pc) {
				if g == f {
					pc.Label = fmt.Sprintf("directed (%s) %d", f, tries)
					run(pc, true)
					break
				}
			}
		}
		if genHist[f] == 0 {
			missing = append(missing, f)
		}
	}
	wr.Extra = map[string]any{"shape_histogram": hist, "shape_histogram_generated_only": genHist, "shape_by_outcome": outcome, "required_shapes_missing": missing}
	if len(missing) > 0 {
		return fmt.Errorf("generator cannot produce the shapes %v", missing)
	}
	return wr.Flush()
}

// ---- names stage ------------------------------------------------------------

func namesStage(dir string, seed uint64, tier string) error {
	r := gal.NewRand(seed + 77)
	wr := &gal.Writer{Dir: dir, Require: "From Apko Require Import Corr.C04.", Type: "name_case", Check: "check_name", Shard: 500}
	names := []string{
		".SIGN.RSA.k.rsa.pub", ".SIGN.RSA256.k.rsa.pub", ".SIGN.RSA512.k.rsa.pub", ".SIGN.DSA.k.rsa.pub",
		".SIGN.RSA..rsa.pub", ".SIGN.RSA.rsa.pub", ".SIGN.RSA.256.k.rsa.pub", ".SIGN.RSA256.512.rsa.pub",
		".SIGN.RSA1024.k.rsa.pub", ".SIGN.rsa.k.rsa.pub", ".SIGN.RSA.k.rsa.pub ", " .SIGN.RSA.k.rsa.pub",
		".SIGN.RSA.k.rsa.pub\n", ".SIGN.RSA.a\nb.rsa.pub", ".SIGN.RSA.a/b.rsa.pub", ".SIGN.RSA.../../etc/x.rsa.pub",
		"APKINDEX", "DESCRIPTION", "", ".SIGN.", ".SIGN.RSA", ".SIGN.RSA.", ".SIGN.RSA.k.rsa.pubx", ".SIGN.RSA.k.rsa_pub",
		".SIGN.RSA.k.RSA.PUB", "x.SIGN.RSA.k.rsa.pub", ".SIGN.RSA.k.rsa.pub.rsa.pub", ".SIGN.DSA.RSA.k.rsa.pub",
		".SIGN.RSA256.\xff\xfe.rsa.pub", ".SIGN.RSA.\x00.rsa.pub", ".SIGN.RSA.k\r.rsa.pub", ".SIGN.RSA.é.rsa.pub",
		"..SIGN.RSA.k.rsa.pub", ".SIGN..RSA.k.rsa.pub", ".SIGNXRSA.k.rsa.pub", ".SIGN.RSAXk.rsa.pub", ".SIGN.RSA.kXrsaXpub",
	}
	n := 400
	if tier == "thorough" {
		n = 6000
	}
	pieces := []string{".", "SIGN", ".SIGN.", "RSA", "RSA256", "RSA512", "DSA", "256", "512", "k", "key@x-1", ".rsa.pub", "rsa", "pub", "\n", "/", " ", "A", "\xc3\xa9", "\xff"}
	for i := 0; i < n; i++ {
		var s string
		if r.Chance(2, 3) {
			s = ".SIGN." + gal.Pick(r, []string{"RSA", "RSA256", "RSA512", "DSA", "RSA2", "rsa", ""}) + gal.Pick(r, []string{".", "", ".."})
			for j := r.Intn(4); j > 0; j-- {
				s += gal.Pick(r, pieces)
			}
			s += gal.Pick(r, []string{".rsa.pub", ".rsa.pub", ".rsa.pub", "", ".rsa", ".rsa.pub\n", "rsa.pub"})
		} else {
			for j := r.Intn(7); j > 0; j-- {
				s += gal.Pick(r, pieces)
			}
		}
		names = append(names, s)
	}
	for _, nm := range names {
		var m []string
		func() {
			defer func() {
				if rec := recover(); rec != nil {
					fmt.Printf("IMPL-VIOLATION tag=signature-regex-panics %q\n", nm)
				}
			}()
			m = apk.VerifC04SignatureFileSubmatch(nm)
		}()
		obs := "None"
		if len(m) == 3 {
			obs = "(Some " + gal.Pair(gal.Str(m[1]), gal.Str(m[2])) + ")"
		}
		wr.Add(gal.Case{Term: fmt.Sprintf("{| n_name := %s; o_parts := %s |}", gal.Str(nm), obs),
			Desc: map[string]any{"name": nm, "submatches": m}, Class: map[bool]string{true: "match", false: "no-match"}[len(m) == 3], Trivial: nm == ""})
	}
	return wr.Flush()
}

func main() {
	out := flag.String("out", "", "cases dir")
	seed := flag.Uint64("seed", 1, "seed")
	tier := flag.String("tier", "quick", "tier")
	stage := flag.String("stage", "parse", "names|parse|sweep|repos|vctx")
	flag.String("replay", "", "unused")
	flag.Parse()
	slog.SetDefault(slog.New(slog.NewTextHandler(io.Discard, nil))) // the code under test logs every failed verification
	var err error
	switch *stage {
	case "names":
		err = namesStage(*out, *seed, *tier)
	case "parse":
		err = parseStage(*out, *seed, *tier)
	case "sweep":
		err = sweepStage(*out, *seed, *tier)
	case "repos":
		err = reposStage(*out, *seed, *tier)
	case "vctx":
		err = vctxStage(*out, *seed, *tier)
	case "wiring":
		err = wiringStage(*out, *seed, *tier)
	case "files":
		err = filesStage(*out, *seed, *tier)
	case "etag":
		err = etagStage(*out, *seed, *tier)
	case "interleave":
		err = interleaveStage(*out, *seed, *tier)
	default:
		err = fmt.Errorf("unknown stage %q", *stage)
	}
	if err != nil {
		fmt.Fprintln(os.Stderr, "c04:", err)
		os.Exit(2)
	}
}
