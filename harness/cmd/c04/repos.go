package main

// repos stage: the real GetRepositoryIndexes (goroutine per repository, process-wide
// index cache) on HISTORIES of calls over a small world of repositories whose
// indexes are signed by alice, signed by bob, unsigned, or spliced (alice's
// signature in front of other content), reached as local directories, over HTTP
// with an ETag and over HTTP without one. Every call chooses its own key set,
// ignore flag and exemption list. Observed per call: error or the set of
// repositories whose marker package came back. The validator (Coq) demands that
// every index that comes back was authorised BY THAT CALL: verification off,
// repository exempted, or signed by a key the call configured.

import (
	"context"
	"fmt"
	"net/http"
	"net/http/httptest"
	"os"
	"path/filepath"
	"sort"
	"strconv"
	"strings"

	"chainguard.dev/apko/pkg/apk/apk"

	"verifharness/gal"
	"verifharness/synthrepo"
)

type repoSpec struct {
	signer    string // "" = no valid signature (unsigned or spliced)
	kind      string // signed | unsigned | spliced
	transport string // local | http-etag | http-noetag
	archive   []byte
}

type repoCall struct {
	Repos  []int    `json:"repos"`
	Keys   []string `json:"keys"`
	Ignore bool     `json:"ignore_signatures"`
	Exempt []int    `json:"exempt"`
	Err    bool     `json:"error"`
	ErrMsg string   `json:"error_text,omitempty"`
	Got    []int    `json:"got"`
}

type reposWorld struct {
	specs []repoSpec
	keys  map[string]*synthrepo.Key
	dir   string
	srv   *httptest.Server
}

func markerText(i int) string {
	return fmt.Sprintf("C:Q1AAAAAAAAAAAAAAAAAAAAAAAAAAA=\nP:from-r%d\nV:1.0-r0\nA:x86_64\nS:1\nI:1\nT:marker\nU:u\nL:l\no:from-r%d\nt:1700000000\nc:0\n\n", i, i)
}

func newReposWorld() (*reposWorld, error) {
	w := &reposWorld{keys: map[string]*synthrepo.Key{}}
	for _, n := range []string{"alice.rsa.pub", "bob.rsa.pub"} {
		k, err := synthrepo.NewKey(n)
		if err != nil {
			return nil, err
		}
		w.keys[n] = k
	}
	// another key pair stored under alice's FILE NAME (an impostor, or a rotated key): the model's key identifiers name
	// (file name, key material) pairs, the keyring handed to the implementation is keyed by the file name alone
	k2, err := synthrepo.NewKey("alice.rsa.pub")
	if err != nil {
		return nil, err
	}
	w.keys["alice.rsa.pub#2"] = k2
	plan := []struct{ kind, signer, transport string }{
		{"signed", "alice.rsa.pub", "local"},
		{"signed", "bob.rsa.pub", "local"},
		{"unsigned", "", "local"},
		{"unsigned", "", "http-etag"},
		{"spliced", "", "http-noetag"},
		{"signed", "alice.rsa.pub", "http-etag"},
		{"signed", "bob.rsa.pub", "http-noetag"},
		{"spliced", "", "local"},
		{"signed", "alice.rsa.pub#2", "local"},
		{"signed", "alice.rsa.pub#2", "http-etag"},
	}
	for i, p := range plan {
		var arc []byte
		switch p.kind {
		case "signed":
			whole, _, err := synthrepo.IndexArchive(markerText(i), w.keys[p.signer], "RSA256")
			if err != nil {
				return nil, err
			}
			arc = whole
		case "unsigned":
			whole, _, err := synthrepo.IndexArchive(markerText(i), nil, "")
			if err != nil {
				return nil, err
			}
			arc = whole
		case "spliced":
			// alice's genuine signature over OTHER content, in front of this repository's content
			_, otherSigned, err := synthrepo.IndexArchive(markerText(1000+i), nil, "")
			if err != nil {
				return nil, err
			}
			seg, err := synthrepo.SignatureSegment(otherSigned, w.keys["alice.rsa.pub"], "RSA256")
			if err != nil {
				return nil, err
			}
			_, mine, err := synthrepo.IndexArchive(markerText(i), nil, "")
			if err != nil {
				return nil, err
			}
			arc = append(append([]byte{}, seg...), mine...)
		}
		w.specs = append(w.specs, repoSpec{signer: p.signer, kind: p.kind, transport: p.transport, archive: arc})
	}
	d, err := os.MkdirTemp("", "c04repos")
	if err != nil {
		return nil, err
	}
	w.dir = d
	w.srv = httptest.NewServer(http.HandlerFunc(func(rw http.ResponseWriter, req *http.Request) {
		// /h<k>/r<i>/x86_64/APKINDEX.tar.gz
		parts := strings.Split(strings.Trim(req.URL.Path, "/"), "/")
		if len(parts) != 4 || parts[2] != "x86_64" || parts[3] != "APKINDEX.tar.gz" || !strings.HasPrefix(parts[1], "r") {
			http.NotFound(rw, req)
			return
		}
		i, err := strconv.Atoi(parts[1][1:])
		if err != nil || i < 0 || i >= len(w.specs) {
			http.NotFound(rw, req)
			return
		}
		sp := w.specs[i]
		if sp.transport == "http-etag" {
			rw.Header().Set("ETag", fmt.Sprintf(`"rev-%d"`, i))
		}
		rw.Header().Set("Content-Length", strconv.Itoa(len(sp.archive)))
		if req.Method == http.MethodHead {
			return
		}
		_, _ = rw.Write(sp.archive)
	}))
	return w, nil
}

func (w *reposWorld) close() {
	w.srv.Close()
	os.RemoveAll(w.dir)
}

// location of repository i in history h (every history has its own names, so the
// process-wide cache never carries anything from one history into another)
func (w *reposWorld) loc(h, i int) (string, error) {
	sp := w.specs[i]
	if sp.transport == "local" {
		d := filepath.Join(w.dir, fmt.Sprintf("h%d", h), fmt.Sprintf("r%d", i))
		f := filepath.Join(d, "x86_64", "APKINDEX.tar.gz")
		if _, err := os.Stat(f); err != nil {
			if err := os.MkdirAll(filepath.Dir(f), 0o755); err != nil {
				return "", err
			}
			if err := os.WriteFile(f, sp.archive, 0o644); err != nil {
				return "", err
			}
		}
		return d, nil
	}
	return fmt.Sprintf("%s/h%d/r%d", w.srv.URL, h, i), nil
}

func (w *reposWorld) run(h int, c *repoCall) error {
	var locs []string
	for _, i := range c.Repos {
		l, err := w.loc(h, i)
		if err != nil {
			return err
		}
		locs = append(locs, l)
	}
	keys := map[string][]byte{}
	for _, k := range c.Keys {
		keys[w.keys[k].Name] = w.keys[k].Pub
	}
	opts := []apk.IndexOption{apk.WithHTTPClient(w.srv.Client())}
	if c.Ignore {
		opts = append(opts, apk.WithIgnoreSignatures(true))
	}
	var ex []string
	for _, i := range c.Exempt {
		l, err := w.loc(h, i)
		if err != nil {
			return err
		}
		ex = append(ex, l)
	}
	if len(ex) > 0 {
		opts = append(opts, apk.WithIgnoreSignatureForIndexes(ex...))
	}
	var ixs []apk.NamedIndex
	var err error
	func() {
		defer func() {
			if x := recover(); x != nil {
				err = fmt.Errorf("panic: %v", x)
				fmt.Printf("IMPL-VIOLATION tag=panic-GetRepositoryIndexes {\"history\":%d,\"panic\":%q}\n", h, fmt.Sprint(x))
			}
		}()
		ixs, err = apk.GetRepositoryIndexes(context.Background(), locs, keys, "x86_64", opts...)
	}()
	c.Err = err != nil
	c.Got = []int{}
	if err != nil {
		c.ErrMsg = err.Error()
		if len(c.ErrMsg) > 160 {
			c.ErrMsg = c.ErrMsg[:160]
		}
		return nil
	}
	seen := map[int]bool{}
	for _, ix := range ixs {
		for _, p := range ix.Packages() {
			if strings.HasPrefix(p.Name, "from-r") {
				if n, e := strconv.Atoi(strings.TrimPrefix(p.Name, "from-r")); e == nil && !seen[n] {
					seen[n] = true
					c.Got = append(c.Got, n)
				}
			}
		}
	}
	sort.Ints(c.Got)
	return nil
}

func galNats(xs []int) string {
	var s []string
	for _, x := range xs {
		s = append(s, gal.Nat(x))
	}
	return gal.List(s)
}

func (w *reposWorld) caseOf(h int, calls []*repoCall, class, note string) (gal.Case, error) {
	for _, c := range calls {
		if err := w.run(h, c); err != nil {
			return gal.Case{}, err
		}
	}
	var signers, locs, cs []string
	for i, sp := range w.specs {
		signers = append(signers, gal.Opt(sp.signer != "", gal.Str(sp.signer)))
		locs = append(locs, gal.Str(fmt.Sprintf("repo%d", i)))
	}
	for _, c := range calls {
		cs = append(cs, fmt.Sprintf("{| rc_repos := %s; rc_keys := %s; rc_ignore := %s; rc_exempt := %s; o_err := %s; o_got := %s |}",
			galNats(c.Repos), gal.StrList(c.Keys), gal.Bool(c.Ignore), galNats(c.Exempt), gal.Bool(c.Err), galNats(c.Got)))
	}
	term := fmt.Sprintf("{| rp_signer := %s; rp_locs := %s; rp_arch := \"x86_64\"%%string; rp_calls := %s |}", gal.List(signers), gal.List(locs), gal.List(cs))
	type rdesc struct {
		Kind, Signer, Transport string
	}
	var world []rdesc
	for _, sp := range w.specs {
		world = append(world, rdesc{sp.kind, sp.signer, sp.transport})
	}
	return gal.Case{Term: term, Class: class, Desc: map[string]any{"note": note, "world": world, "calls": calls}, Trivial: len(calls) < 2 && len(calls[0].Repos) < 2}, nil
}

func reposStage(dir string, seed uint64, tier string) error {
	w, err := newReposWorld()
	if err != nil {
		return err
	}
	defer w.close()
	r := gal.NewRand(seed ^ 0xC04)
	wr := &gal.Writer{Dir: dir, Require: "From Apko Require Import Corr.C04.", Type: "repos_case", Check: "check_repos", Shard: 200}
	A, B, A2 := "alice.rsa.pub", "bob.rsa.pub", "alice.rsa.pub#2"
	h := 0
	add := func(calls []*repoCall, class, note string) error {
		c, err := w.caseOf(h, calls, class, note)
		h++
		if err != nil {
			return err
		}
		wr.Add(c)
		return nil
	}
	// ---- corpus -----------------------------------------------------------------
	corpus := []struct {
		note  string
		calls []*repoCall
	}{
		{"C04-F3 (fixed): unverified index cached by an ignore-signatures call, then requested with verification (local)", []*repoCall{{Repos: []int{1}, Ignore: true}, {Repos: []int{1}, Keys: []string{A}}}},
		{"C04-F3 (fixed): same over HTTP with an ETag", []*repoCall{{Repos: []int{3}, Ignore: true}, {Repos: []int{3}, Keys: []string{A, B}}}},
		{"C04-F3 (fixed): verified under bob's key, then requested trusting only alice", []*repoCall{{Repos: []int{1}, Keys: []string{B}}, {Repos: []int{1}, Keys: []string{A}}}},
		{"C04-F3 (fixed): exempted first, then requested with verification", []*repoCall{{Repos: []int{2}, Keys: []string{A}, Exempt: []int{2}}, {Repos: []int{2}, Keys: []string{A}}}},
		{"exempt local repository next to an unsigned remote one, both orders", []*repoCall{{Repos: []int{2, 3}, Keys: []string{A}, Exempt: []int{2}}, {Repos: []int{3, 2}, Keys: []string{A}, Exempt: []int{2}}}},
		{"spliced signature: rejected, then genuine accepted, then spliced again", []*repoCall{{Repos: []int{7}, Keys: []string{A}}, {Repos: []int{0}, Keys: []string{A}}, {Repos: []int{7}, Keys: []string{A}}, {Repos: []int{4}, Keys: []string{A}}}},
		{"everything trusted", []*repoCall{{Repos: []int{0, 1, 5, 6}, Keys: []string{A, B}}}},
		{"no keys configured", []*repoCall{{Repos: []int{0}}}},
		{"verification off", []*repoCall{{Repos: []int{0, 2, 4, 7}, Ignore: true}}},
		// the verification context is the key MATERIAL, not the key file names (seeded change C04-4)
		{"verified under alice's key, then requested with another key stored under alice's file name (local)", []*repoCall{{Repos: []int{0}, Keys: []string{A}}, {Repos: []int{0}, Keys: []string{A2}}, {Repos: []int{0}, Keys: []string{A}}}},
		{"same over HTTP with an ETag, and the other way round", []*repoCall{{Repos: []int{5}, Keys: []string{A, B}}, {Repos: []int{5}, Keys: []string{A2, B}}, {Repos: []int{9}, Keys: []string{A2}}, {Repos: []int{9}, Keys: []string{A}}}},
		{"rejected under the other key first, then accepted under the right one", []*repoCall{{Repos: []int{8}, Keys: []string{A}}, {Repos: []int{8}, Keys: []string{A2}}, {Repos: []int{0, 8}, Keys: []string{A2}}}},
	}
	for _, c := range corpus {
		for rep := 0; rep < 3; rep++ { // goroutine order varies between repetitions
			var cp []*repoCall
			for _, x := range c.calls {
				y := *x
				cp = append(cp, &y)
			}
			if err := add(cp, "corpus", c.note); err != nil {
				return err
			}
		}
	}
	// ---- generated histories ----------------------------------------------------
	n := 150
	if tier == "thorough" {
		n = 2500
	}
	gen := func() []*repoCall {
		var calls []*repoCall
		nc := 1 + r.Intn(5)
		// most histories keep coming back to a small set of repositories, so that the cache is exercised
		pool := []int{0, 1, 2, 3, 4, 5, 6, 7, 8, 9}
		for k := len(pool) - 1; k > 0; k-- {
			l := r.Intn(k + 1)
			pool[k], pool[l] = pool[l], pool[k]
		}
		if r.Chance(2, 3) {
			pool = pool[:2+r.Intn(3)]
		}
		for j := 0; j < nc; j++ {
			c := &repoCall{}
			perm := append([]int{}, pool...)
			for k := len(perm) - 1; k > 0; k-- {
				l := r.Intn(k + 1)
				perm[k], perm[l] = perm[l], perm[k]
			}
			nr := 1 + r.Intn(3)
			if nr > len(perm) {
				nr = len(perm)
			}
			c.Repos = perm[:nr]
			if r.Chance(2, 3) {
				if r.Chance(1, 3) {
					c.Keys = append(c.Keys, A2)
				} else {
					c.Keys = append(c.Keys, A)
				}
			}
			if r.Chance(1, 2) {
				c.Keys = append(c.Keys, B)
			}
			c.Ignore = r.Chance(1, 6)
			for _, x := range c.Repos {
				if r.Chance(1, 4) {
					c.Exempt = append(c.Exempt, x)
				}
			}
			if r.Chance(1, 10) { // an exemption for a repository that is not part of the call
				c.Exempt = append(c.Exempt, perm[len(perm)-1])
			}
			calls = append(calls, c)
		}
		return calls
	}
	hist := map[string]int{}
	runGen := func(calls []*repoCall, label string) error {
		for _, f := range w.historyFeatures(calls) {
			hist[f]++
		}
		return add(calls, fmt.Sprintf("generated/%d-calls", len(calls)), label)
	}
	for i := 0; i < n; i++ {
		if err := runGen(gen(), ""); err != nil {
			return err
		}
	}
	// every kind of context change on a cached repository occurs among the generated histories of every run
	var missing []string
	for _, f := range requiredHistoryFeatures {
		for tries := 0; hist[f] == 0 && tries < 20000; tries++ {
			calls := gen()
			for _, g := range w.historyFeatures(calls) {
				if g == f {
					if err := runGen(calls, "directed: "+f); err != nil {
						return err
					}
					break
				}
			}
		}
		if hist[f] == 0 {
			missing = append(missing, f)
		}
	}
	wr.Extra = map[string]any{"history_histogram_generated": hist, "required_history_shapes_missing": missing}
	if len(missing) > 0 {
		return fmt.Errorf("generator cannot produce the history shapes %v", missing)
	}
	return wr.Flush()
}

// what a history exercises: for every repository that a later call asks for again, how the verification context of the
// request changed between the two calls, on which kind of repository and transport; plus per-call shapes
func (w *reposWorld) historyFeatures(calls []*repoCall) []string {
	seen := map[string]bool{}
	var fs []string
	add := func(f string) {
		if !seen[f] {
			seen[f] = true
			fs = append(fs, f)
		}
	}
	ctx := func(c *repoCall, x int) string {
		if c.Ignore {
			return "unverified"
		}
		for _, e := range c.Exempt {
			if e == x {
				return "unverified"
			}
		}
		ks := append([]string{}, c.Keys...)
		sort.Strings(ks)
		return "keys:" + strings.Join(ks, ",")
	}
	authorised := func(c *repoCall, x int) bool {
		if ctx(c, x) == "unverified" {
			return true
		}
		for _, k := range c.Keys {
			if k == w.specs[x].signer {
				return true
			}
		}
		return false
	}
	last := map[int]*repoCall{}
	for _, c := range calls {
		add(fmt.Sprintf("repos-in-call=%d", len(c.Repos)))
		add(fmt.Sprintf("keys-in-call=%d", len(c.Keys)))
		for _, x := range c.Repos {
			sp := w.specs[x]
			add("repo=" + sp.kind + "/" + sp.transport)
			if p, ok := last[x]; ok {
				a, b := ctx(p, x), ctx(c, x)
				var ch string
				switch {
				case a == b:
					ch = "same-context"
				case a == "unverified":
					ch = "unverified-then-verified"
				case b == "unverified":
					ch = "verified-then-unverified"
				default:
					ch = "other-keys"
					pa, pb := strings.Contains(a, "alice.rsa.pub#2"), strings.Contains(b, "alice.rsa.pub#2")
					qa, qb := strings.Contains(strings.ReplaceAll(a, "alice.rsa.pub#2", ""), "alice.rsa.pub"), strings.Contains(strings.ReplaceAll(b, "alice.rsa.pub#2", ""), "alice.rsa.pub")
					if (pa && qb) || (qa && pb) {
						add("again:same-key-name-other-bytes")
					}
				}
				cached := "cached"
				if sp.transport == "http-noetag" {
					cached = "uncached"
				}
				add("again:" + ch)
				add("again:" + ch + "/" + cached)
				if authorised(p, x) && !authorised(c, x) {
					add("again:authorised-then-not/" + cached)
				}
				if !authorised(p, x) && authorised(c, x) {
					add("again:refused-then-authorised/" + cached)
				}
			}
			last[x] = c
		}
	}
	return fs
}

var requiredHistoryFeatures = []string{
	"again:same-context/cached", "again:unverified-then-verified/cached", "again:verified-then-unverified/cached", "again:other-keys/cached",
	"again:same-key-name-other-bytes", "again:authorised-then-not/cached", "again:refused-then-authorised/cached",
	"again:unverified-then-verified/uncached", "again:authorised-then-not/uncached",
	"repo=signed/local", "repo=signed/http-etag", "repo=signed/http-noetag", "repo=unsigned/local", "repo=unsigned/http-etag",
	"repo=spliced/local", "repo=spliced/http-noetag", "keys-in-call=0", "keys-in-call=1", "keys-in-call=2", "repos-in-call=1", "repos-in-call=3",
}
