package main

// sweep stage: byte-level mutation of validly signed archives, run through the real
// parseRepositoryIndex. Every mutant is described as PIECES — slices of the base
// archives and literal bytes — and handed to the mutant-oracle validator in Coq
// (Spec/IndexBytesSpec.v: mutant_tags, proved against MutantHolds and against the
// byte-level model of parseRepositoryIndex): the verdict must be "rejected" or
// "accepted with the package list of a signed byte string that the mutant ends with".
// For an accepted mutant the harness claims the cut (len(mutant) - len(longest signed
// region that is a suffix)); the validator gets the pieces of the mutant after that cut
// and decides itself whether they render to a signed byte string. Rejected mutants are
// batched into one case per (base, kind of mutation).

import (
	"bytes"
	"compress/gzip"
	"context"
	"encoding/json"
	"fmt"
	"io"
	"sort"
	"strings"

	"chainguard.dev/apko/pkg/apk/apk"
	"verifharness/gal"
	"verifharness/synthrepo"
)

type signedArchive struct {
	label  string
	whole  []byte
	region []byte // the signed bytes (suffix of whole)
	keys   map[string][]byte
	pkgs   []string
}

func mustIndexPkgs(region []byte) []string {
	idx, err := apk.IndexFromArchive(io.NopCloser(bytes.NewReader(region)))
	if err != nil {
		panic(err)
	}
	return pkgList(idx)
}

// what the first gzip member's tar stream ends with
func firstMemberEnding(b []byte) string {
	zr, err := gzip.NewReader(bytes.NewReader(b))
	if err != nil {
		return ""
	}
	zr.Multistream(false)
	raw, _ := io.ReadAll(zr)
	pos, zeros, last := 0, 0, ""
	for pos+512 <= len(raw) {
		blk := raw[pos : pos+512]
		if bytes.Equal(blk, make([]byte, 512)) {
			zeros++
			pos += 512
			continue
		}
		zeros = 0
		var size int64
		fmt.Sscanf(strings.TrimRight(string(blk[124:136]), " \x00"), "%o", &size)
		last = string(blk[156:157])
		pos += 512 + int((size+511)/512*512)
	}
	switch {
	case zeros >= 2:
		return "end-of-archive-in-signature-member"
	case zeros == 1:
		return "zero-block-in-signature-member"
	case last == "x" || last == "L" || last == "K" || last == "g":
		return "pending-meta-header"
	}
	return ""
}

// a piece of a mutant: bytes [from, to) of base archive `base`, or literal bytes (base < 0)
type piece struct {
	base, from, to int
	lit            []byte
}

func sl(base, from, to int) piece { return piece{base: base, from: from, to: to} }
func lt(b ...byte) piece          { return piece{base: -1, lit: b} }

func (p piece) size() int {
	if p.base < 0 {
		return len(p.lit)
	}
	return p.to - p.from
}

func galPieces(ps []piece) string {
	var out []string
	for _, p := range ps {
		if p.size() == 0 {
			continue
		}
		if p.base < 0 {
			out = append(out, "PLit "+gal.Bytes(p.lit))
		} else {
			out = append(out, fmt.Sprintf("PSlice %s %s %s", gal.Nat(p.base), gal.N(uint64(p.from)), gal.N(uint64(p.to))))
		}
	}
	return gal.List(out)
}

// the pieces of the mutant after its first cut bytes
func dropPrefix(ps []piece, cut int) []piece {
	var out []piece
	for _, p := range ps {
		n := p.size()
		if cut >= n {
			cut -= n
			continue
		}
		if cut > 0 {
			if p.base < 0 {
				p = piece{base: -1, lit: p.lit[cut:]}
			} else {
				p.from += cut
			}
			cut = 0
		}
		out = append(out, p)
	}
	return out
}

type sweeper struct {
	bases     []signedArchive // every byte string that was genuinely signed
	total     int
	accepted  int
	identical int
	viol      map[string]int
	byKind    map[string][2]int // kind of mutation -> (mutants, accepted)
	reported  map[string]bool
	rejected  map[string]int // base|kind -> count
	rejOrder  []string
	cases     []gal.Case
	pkTable   map[string]int // package list (joined) -> index of its Definition
	pkLists   [][]string
	// accepted mutants that end with no signed byte string, beyond the first few per (base, kind)
	unsignedSeen  map[string]int
	unsignedBatch map[string]int
	unsignedPk    map[string]string
	unsignedOrder []string
}

func (s *sweeper) render(ps []piece) []byte {
	var out []byte
	for _, p := range ps {
		if p.base < 0 {
			out = append(out, p.lit...)
		} else {
			out = append(out, s.bases[p.base].whole[p.from:p.to]...)
		}
	}
	return out
}

func (s *sweeper) pkName(pk []string) string {
	k := strings.Join(pk, "\x00")
	i, ok := s.pkTable[k]
	if !ok {
		i = len(s.pkLists)
		s.pkTable[k] = i
		s.pkLists = append(s.pkLists, pk)
	}
	return fmt.Sprintf("pk_%d", i)
}

func kindClass(kind string) string {
	if i := strings.IndexByte(kind, ':'); i >= 0 {
		return kind[:i]
	}
	return kind
}

// run one mutant through the real code and record it as a case for the validator
func (s *sweeper) try(bi int, kind string, pos int, ps []piece) {
	base := &s.bases[bi]
	mutant := s.render(ps)
	s.total++
	kc := kindClass(kind)
	bk := s.byKind[kc]
	bk[0]++
	var idx *apk.APKIndex
	var err error
	func() {
		defer func() {
			if r := recover(); r != nil {
				err = fmt.Errorf("panic: %v", r)
				s.report("parse-repository-index-panics", base, kind, pos, mutant)
			}
		}()
		idx, err = apk.VerifC04ParseRepositoryIndex(context.Background(), "https://repo.example/os/x86_64/APKINDEX.tar.gz", base.keys, "x86_64", mutant)
	}()
	if err != nil || idx == nil {
		s.byKind[kc] = bk
		k := base.label + "|" + kc
		if _, ok := s.rejected[k]; !ok {
			s.rejOrder = append(s.rejOrder, k)
		}
		s.rejected[k]++
		return
	}
	bk[1]++
	s.byKind[kc] = bk
	s.accepted++
	// the longest signed region the mutant ends with: the claimed cut
	var match *signedArchive
	for i := range s.bases {
		sa := &s.bases[i]
		if bytes.HasSuffix(mutant, sa.region) && len(sa.region) > 0 && sameKeys(sa, base) {
			if match == nil || len(sa.region) > len(match.region) {
				match = sa
			}
		}
	}
	cut, ending := 0, ""
	got := pkgList(idx)
	if match != nil {
		s.identical++
		cut = len(mutant) - len(match.region)
		if strings.Join(got, " ") != strings.Join(match.pkgs, " ") {
			if e := firstMemberEnding(mutant); e != "" {
				ending = "/" + e
			}
		}
	}
	if match == nil {
		// accepted although no signed byte string is a suffix: a violation. The first few per (base, kind) are cases with all
		// their bytes; the rest are batched (an implementation that accepts everything would otherwise produce gigabytes of cases)
		k := base.label + "|" + kc
		s.unsignedSeen[k]++
		if s.unsignedSeen[k] > 8 {
			if _, ok := s.unsignedBatch[k]; !ok {
				s.unsignedOrder = append(s.unsignedOrder, k)
			}
			s.unsignedBatch[k]++
			s.unsignedPk[k] = s.pkName(got)
			return
		}
	}
	suffix := dropPrefix(ps, cut)
	if !bytes.Equal(s.render(suffix), mutant[cut:]) {
		panic("c04 sweep: the piece description does not render to the mutant")
	}
	term := fmt.Sprintf("{| sw_suffix := %s; sw_ending := %s; sw_count := 1%%N; sw_verdict := Some %s |}", galPieces(suffix), gal.Str(ending), s.pkName(got))
	s.cases = append(s.cases, gal.Case{Term: term, Class: "accepted/" + kc,
		Desc: map[string]any{"base": base.label, "mutation": kind, "at": pos, "len": len(mutant), "claimed_cut": cut, "accepted_packages": got},
		Key:  fmt.Sprintf("%s|%s|%d|%d", base.label, kind, pos, len(mutant))})
}

func sameKeys(a, b *signedArchive) bool {
	for k := range a.keys {
		if _, ok := b.keys[k]; ok {
			return true
		}
	}
	return false
}

func (s *sweeper) report(tag string, base *signedArchive, kind string, pos int, mutant []byte) {
	s.viol[tag]++
	key := tag + "|" + base.label + "|" + kind
	if s.reported[key] {
		return
	}
	s.reported[key] = true
	d, _ := json.Marshal(map[string]any{"base": base.label, "mutation": kind, "at": pos, "len": len(mutant)})
	fmt.Printf("IMPL-VIOLATION tag=%s %s\n", tag, d)
}

func sweepStage(dir string, seed uint64, tier string) error {
	w := &world{keys: map[string]*synthrepo.Key{}}
	sw := &sweeper{viol: map[string]int{}, reported: map[string]bool{}, byKind: map[string][2]int{}, rejected: map[string]int{}, pkTable: map[string]int{},
		unsignedSeen: map[string]int{}, unsignedBatch: map[string]int{}, unsignedPk: map[string]string{}}
	short := "C:Q1AAAAAAAAAAAAAAAAAAAAAAAAAAA=\nP:a\nV:1.0-r0\n\nC:Q1AAAAAAAAAAAAAAAAAAAAAAAAAAA=\nP:b\nV:2.0-r1\nD:a\n\n"
	other := "C:Q1AAAAAAAAAAAAAAAAAAAAAAAAAAA=\nP:evil\nV:6.6-r6\n\n"
	long := fixedText(12)
	mk := func(label string, rest []member, alg string, stored bool) signedArchive {
		region := concatGz(rest)
		d := "SHA256"
		if alg == "RSA" {
			d = "SHA1"
		}
		first := member{Entries: []entry{{Name: ".SIGN." + alg + "." + k1, Body: sign(w.key(k1), d, region)}}, Stored: stored}
		return signedArchive{label: label, whole: append(first.gz(), region...), region: region,
			keys: map[string][]byte{k1: w.key(k1).Pub}, pkgs: mustIndexPkgs(region)}
	}
	st := func(ms []member) []member {
		for i := range ms {
			ms[i].Stored = true
		}
		return ms
	}
	bases := []signedArchive{
		mk("D-first RSA256", restDFirst(short), "RSA256", false),
		mk("A-first RSA", restAFirst(short), "RSA", false),
		mk("A-first RSA256 stored", st(restAFirst(short)), "RSA256", true),
		mk("A-first long RSA256", restAFirst(long), "RSA256", false),
		mk("other content RSA256", restDFirst(other), "RSA256", false),
	}
	sw.bases = bases
	firstLen := func(i int) int { return len(bases[i].whole) - len(bases[i].region) }
	whole := func(i int) piece { return sl(i, 0, len(bases[i].whole)) }
	sigOf := func(i int) piece { return sl(i, 0, firstLen(i)) }
	regionOf := func(i int) piece { return sl(i, firstLen(i), len(bases[i].whole)) }

	for bi := range bases {
		b := &bases[bi]
		// sanity: the base itself is accepted
		before := sw.accepted
		sw.try(bi, "none", -1, []piece{whole(bi)})
		if sw.accepted != before+1 {
			return fmt.Errorf("base archive %q is not accepted", b.label)
		}
		n := len(b.whole)
		// every truncation point
		for cut := 0; cut < n; cut++ {
			sw.try(bi, "truncate", cut, []piece{sl(bi, 0, cut)})
		}
		// single-byte alterations
		allValues := tier == "thorough" && bi < 3
		step := 1
		if tier != "thorough" && bi >= 2 {
			step = 7
		}
		for pos := 0; pos < n; pos += step {
			with := func(kind string, v byte) {
				sw.try(bi, kind, pos, []piece{sl(bi, 0, pos), lt(v), sl(bi, pos+1, n)})
			}
			if allValues {
				for v := 1; v < 256; v++ {
					with("byte", b.whole[pos]^byte(v))
				}
				continue
			}
			for bit := 0; bit < 8; bit++ {
				if tier != "thorough" && bit != pos%8 && bit != (pos+3)%8 {
					continue
				}
				with("bit", b.whole[pos]^(1<<bit))
			}
			with("invert", ^b.whole[pos])
			if b.whole[pos] != 0 {
				with("zero", 0)
			}
		}
		// single-byte deletions and insertions at a spread of positions
		dstep := 5
		if tier == "thorough" {
			dstep = 1
		}
		for pos := 0; pos < n; pos += dstep {
			sw.try(bi, "delete", pos, []piece{sl(bi, 0, pos), sl(bi, pos+1, n)})
			sw.try(bi, "insert", pos, []piece{sl(bi, 0, pos), lt(0x41), sl(bi, pos, n)})
		}
		// appended bytes
		sw.try(bi, "append-byte", n, []piece{whole(bi), lt(0)})
		sw.try(bi, "append-member", n, []piece{whole(bi), regionOf(4)})
	}
	// splices between signed archives: signature member of X in front of the content of Y
	for xi := range bases {
		for yi := range bases {
			if xi == yi {
				continue
			}
			y := &bases[yi]
			sw.try(xi, "splice:sig(X)+content(Y):"+y.label, 0, []piece{sigOf(xi), regionOf(yi)})
			sw.try(xi, "splice:X+content(Y):"+y.label, 0, []piece{whole(xi), regionOf(yi)})
			sw.try(xi, "splice:sig(X)+content(Y)+content(X):"+y.label, 0, []piece{sigOf(xi), regionOf(yi), regionOf(xi)})
			sw.try(xi, "splice:content(Y)+X:"+y.label, 0, []piece{regionOf(yi), whole(xi)})
			sw.try(xi, "splice:sig(Y)+X:"+y.label, 0, []piece{sigOf(yi), whole(xi)})
			// byte-level cross-over at a spread of cut points
			for cut := 0; cut < len(bases[xi].whole) && cut < len(y.whole); cut += 13 {
				sw.try(xi, "crossover:"+y.label, cut, []piece{sl(xi, 0, cut), sl(yi, cut, len(y.whole))})
			}
		}
	}
	// what the signature member may leave behind for the parse pass: the genuine
	// signature entry followed by hand-made tar blocks
	for bi := range bases {
		b := &bases[bi]
		sigRaw := func() []byte {
			zr, _ := gzip.NewReader(bytes.NewReader(b.whole))
			zr.Multistream(false)
			raw, _ := io.ReadAll(zr)
			return raw
		}()
		withTail := func(kind string, at int, tailBlocks []byte, stored bool) {
			raw := append(append([]byte{}, sigRaw...), tailBlocks...)
			var seg []byte
			if stored {
				seg = synthrepo.GzStored(raw)
			} else {
				seg, _ = synthrepo.Gz(raw)
			}
			sw.try(bi, kind, at, []piece{lt(seg...), regionOf(bi)})
		}
		// PAX size records 0..3000: every value in the thorough tier; in the quick tier every value near a
		// 512-byte block boundary or the entry's own size (where the reader's behaviour changes) and a spread of the rest
		maxSize := 3000
		entrySize := 0
		if zr, err := gzip.NewReader(bytes.NewReader(b.region)); err == nil {
			if raw, _ := io.ReadAll(zr); len(raw) >= 512 {
				fmt.Sscanf(strings.TrimRight(string(raw[124:136]), " \x00"), "%o", &entrySize)
			}
		}
		for k := 0; k <= maxSize; k++ {
			near := k <= 16 || k%512 <= 3 || k%512 >= 509 || (k >= entrySize-3 && k <= entrySize+3)
			if tier != "thorough" && !near && k%17 != 0 {
				continue
			}
			withTail("pending-pax-size", k, synthrepo.PaxMeta(map[string]string{"size": fmt.Sprint(k)}), k%2 == 0)
		}
		for _, nm := range []string{".SIGN.x", "APKINDEX", "DESCRIPTION", "other", ".SIGN.RSA256." + k1} {
			withTail("pending-pax-path:"+nm, 0, synthrepo.PaxMeta(map[string]string{"path": nm}), false)
			withTail("pending-gnu-longname:"+nm, 0, synthrepo.GnuLongName(nm), false)
			withTail("pending-gnu-longlink:"+nm, 0, synthrepo.GnuLongLink(nm), false)
			for _, k := range []int{0, 1, 100, 511, 512, 513} {
				withTail("pending-pax-path+size:"+nm, k, synthrepo.PaxMeta(map[string]string{"path": nm, "size": fmt.Sprint(k)}), false)
			}
		}
		withTail("pax-global", 0, synthrepo.PaxGlobal(".SIGN.RSA256.unknown.rsa.pub", map[string]string{"path": "APKINDEX", "size": "10"}), false)
		for z := 1; z <= 4; z++ {
			withTail("zero-blocks", z, make([]byte, 512*z), false)
		}
		withTail("eoa-then-evil-index", 0, append(make([]byte, 1024), synthrepo.RawEntry("APKINDEX", []byte(other), '0')...), false)
		withTail("evil-index-entry", 0, synthrepo.RawEntry("APKINDEX", []byte(other), '0'), false)
		withTail("evil-index-entry-as-.SIGN", 0, synthrepo.RawEntry(".SIGN.RSA256.unknown.rsa.pub", []byte(other), '0'), false)
		withTail("pending-pax-then-pax", 0, append(synthrepo.PaxMeta(map[string]string{"size": "10"}), synthrepo.PaxMeta(map[string]string{"path": ".SIGN.x"})...), false)
	}

	// ---- the cases ------------------------------------------------------------------------
	// rejected mutants: one case per (base, kind)
	for _, k := range sw.rejOrder {
		parts := strings.SplitN(k, "|", 2)
		sw.cases = append(sw.cases, gal.Case{
			Term:  fmt.Sprintf("{| sw_suffix := []; sw_ending := \"\"%%string; sw_count := %s; sw_verdict := None |}", gal.N(uint64(sw.rejected[k]))),
			Class: "rejected/" + parts[1], Key: k,
			Desc: map[string]any{"base": parts[0], "mutation": parts[1], "rejected_mutants": sw.rejected[k]}})
	}
	for _, k := range sw.unsignedOrder {
		parts := strings.SplitN(k, "|", 2)
		sw.cases = append(sw.cases, gal.Case{
			Term:  fmt.Sprintf("{| sw_suffix := []; sw_ending := \"\"%%string; sw_count := %s; sw_verdict := Some %s |}", gal.N(uint64(sw.unsignedBatch[k])), sw.unsignedPk[k]),
			Class: "accepted-unsigned-batch/" + parts[1], Key: "unsigned|" + k,
			Desc: map[string]any{"base": parts[0], "mutation": parts[1], "further_accepted_mutants_ending_with_no_signed_byte_string": sw.unsignedBatch[k]}})
	}
	// per-file preamble: the base archives once, the signed byte strings as slices of them, the package lists by name
	var pre strings.Builder
	pre.WriteString("From Apko Require Import Corr.C04.\nOpen Scope string_scope.\n")
	var bs, sg []string
	for i := range bases {
		bs = append(bs, gal.Bytes(bases[i].whole))
	}
	// every package list that occurs, signed ones first
	for i := range bases {
		sw.pkName(bases[i].pkgs)
	}
	for i, pk := range sw.pkLists {
		fmt.Fprintf(&pre, "Definition pk_%d : list string := %s.\n", i, gal.StrList(pk))
	}
	for i := range bases {
		sg = append(sg, fmt.Sprintf("(%s, %s)", galPieces([]piece{regionOf(i)}), sw.pkName(bases[i].pkgs)))
	}
	fmt.Fprintf(&pre, "Definition sweep_bases : list (list N) := %s.\n", gal.List(bs))
	fmt.Fprintf(&pre, "Definition sweep_signed : list (list piece * list string) := %s.\n", gal.List(sg))
	wr := &gal.Writer{Dir: dir, Require: pre.String(), Type: "sweep_case", Check: "(check_sweep sweep_bases sweep_signed)", Shard: 2000}
	for _, c := range sw.cases {
		wr.Add(c)
	}
	kinds := map[string]any{}
	ks := make([]string, 0, len(sw.byKind))
	for k := range sw.byKind {
		ks = append(ks, k)
	}
	sort.Strings(ks)
	for _, k := range ks {
		kinds[k] = map[string]int{"mutants": sw.byKind[k][0], "accepted": sw.byKind[k][1]}
	}
	st2, _ := json.Marshal(map[string]any{"sweep_mutants": sw.total, "sweep_accepted": sw.accepted, "sweep_accepted_with_signed_region_intact": sw.identical,
		"sweep_violations_by_tag": sw.viol, "sweep_by_kind_of_mutation": kinds,
		"sweep_note": "every accepted mutant is a case of the mutant-oracle validator (Coq); rejected mutants are batched per (base, kind)"})
	fmt.Printf("STAT %s\n", st2)
	return wr.Flush()
}
