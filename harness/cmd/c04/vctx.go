package main

// vctx stage: the real verificationContext (the part of the index-cache key that
// names the verification context of a request) on PAIRS of requests for the same
// index: each request has its own ignore flag, exemption list and key map
// (name -> key bytes). For each request the harness computes the hash input its own
// way (length-prefixed name and key bytes, names sorted) with its SHA-256 and hands
// both to Coq, where the model (Model/IndexVctx.v, interpreting the statements
// goextract read from the source) must build the same input and the same string,
// and the validator demands that equal strings mean equal contexts.

import (
	"crypto/sha256"
	"encoding/hex"
	"fmt"
	"sort"

	"chainguard.dev/apko/pkg/apk/apk"
	"verifharness/gal"
	"verifharness/synthrepo"
)

type vreq struct {
	Ignore bool              `json:"ignore_signatures"`
	Listed []string          `json:"no_signature_indexes,omitempty"`
	Keys   map[string]string `json:"-"`
	Order  []string          `json:"key_names"` // the order in which the term lists the keys
	Hex    map[string]string `json:"key_bytes_hex"`
	Ctx    string            `json:"context"`
}

func (q *vreq) term(url, arch string) string {
	keys := map[string][]byte{}
	q.Hex = map[string]string{}
	for n, k := range q.Keys {
		keys[n] = []byte(k)
		if len(k) <= 64 {
			q.Hex[n] = hex.EncodeToString([]byte(k))
		} else {
			q.Hex[n] = fmt.Sprintf("(%d bytes)", len(k))
		}
	}
	opts := []apk.IndexOption{apk.WithIgnoreSignatures(q.Ignore)}
	if len(q.Listed) > 0 {
		opts = append(opts, apk.WithIgnoreSignatureForIndexes(q.Listed...))
	}
	func() {
		defer func() {
			if r := recover(); r != nil {
				q.Ctx = fmt.Sprintf("panic: %v", r)
				fmt.Printf("IMPL-VIOLATION tag=verification-context-panics %q\n", q.Ctx)
			}
		}()
		q.Ctx = apk.VerifC04VerificationContext(url, keys, arch, opts...)
	}()
	// the harness's own rendering of the hash input
	names := make([]string, 0, len(q.Keys))
	for n := range q.Keys {
		names = append(names, n)
	}
	sort.Strings(names)
	var pre []byte
	for _, n := range names {
		pre = append(pre, fmt.Sprintf("%d:%s%d:", len(n), n, len(q.Keys[n]))...)
		pre = append(pre, q.Keys[n]...)
	}
	d := sha256.Sum256(pre)
	var ks []string
	for _, n := range q.Order {
		ks = append(ks, gal.Pair(gal.Str(n), gal.Str(q.Keys[n])))
	}
	return fmt.Sprintf("{| vq_ignore := %s; vq_listed := %s; vq_keys := %s; vq_hash := [%s]; o_ctx := %s |}",
		gal.Bool(q.Ignore), gal.StrList(q.Listed), gal.List(ks), gal.Pair(gal.Str(string(pre)), gal.Str(string(d[:]))), gal.Str(q.Ctx))
}

func mkReq(ignore bool, listed []string, kv ...string) *vreq {
	q := &vreq{Ignore: ignore, Listed: listed, Keys: map[string]string{}}
	for i := 0; i+1 < len(kv); i += 2 {
		if _, dup := q.Keys[kv[i]]; !dup {
			q.Order = append(q.Order, kv[i])
		}
		q.Keys[kv[i]] = kv[i+1]
	}
	return q
}

func vctxStage(dir string, seed uint64, tier string) error {
	r := gal.NewRand(seed ^ 0x7c7)
	wr := &gal.Writer{Dir: dir, Require: "From Apko Require Import Corr.C04.", Type: "vctx_case", Check: "check_vctx", Shard: 60}
	url, arch := "https://repo.example/os/x86_64/APKINDEX.tar.gz", "x86_64"
	add := func(note, class string, a, b *vreq) {
		ta, tb := a.term(url, arch), b.term(url, arch)
		wr.Add(gal.Case{Term: fmt.Sprintf("{| vc_url := %s; vc_arch := %s; vc_a := %s; vc_b := %s |}", gal.Str(url), gal.Str(arch), ta, tb),
			Class: class, Desc: map[string]any{"note": note, "a": a, "b": b}, Trivial: len(a.Keys)+len(b.Keys) == 0})
	}
	ka, err := synthrepo.NewKey("alice.rsa.pub")
	if err != nil {
		return err
	}
	kb, err := synthrepo.NewKey("alice.rsa.pub")
	if err != nil {
		return err
	}
	here := []string{"https://repo.example/os"}
	// ---- corpus ----------------------------------------------------------------------------
	add("same key name, different key bytes (seeded change C04-4)", "corpus", mkReq(false, nil, "k.rsa.pub", "AAAA"), mkReq(false, nil, "k.rsa.pub", "BBBB"))
	add("same name, real PEM keys of two different key pairs", "corpus", mkReq(false, nil, "alice.rsa.pub", string(ka.Pub)), mkReq(false, nil, "alice.rsa.pub", string(kb.Pub)))
	add("same pairs listed in another order", "corpus", mkReq(false, nil, "a.rsa.pub", "x", "b.rsa.pub", "y"), mkReq(false, nil, "b.rsa.pub", "y", "a.rsa.pub", "x"))
	add("key bytes swapped between two names", "corpus", mkReq(false, nil, "a.rsa.pub", "x", "b.rsa.pub", "y"), mkReq(false, nil, "a.rsa.pub", "y", "b.rsa.pub", "x"))
	add("one key vs the same key and another with empty bytes", "corpus", mkReq(false, nil, "a", "x"), mkReq(false, nil, "a", "x", "b", ""))
	add("no keys vs one key with an empty name and empty bytes", "corpus", mkReq(false, nil), mkReq(false, nil, "", ""))
	add("framing: {ab: ''} vs {a: b}", "corpus", mkReq(false, nil, "ab", ""), mkReq(false, nil, "a", "b"))
	add("framing: {a: '1:b1:c'} vs {a: '', b: c}-like split", "corpus", mkReq(false, nil, "a", "1:b1:c"), mkReq(false, nil, "a", "", "b", "c"))
	add("framing: name that looks like a length prefix", "corpus", mkReq(false, nil, "1:a", "x"), mkReq(false, nil, "1", "a1:x"))
	add("framing: two short keys vs one long key holding their rendering", "corpus", mkReq(false, nil, "a", "x", "b", "y"), mkReq(false, nil, "a", "x1:b1:y"))
	// pairs that collide under plausible sloppier encodings (no length prefixes, a separator only, names only, bytes only)
	add("framing: {a: x, b: y} vs {a: 'xb:y'} (name:bytes joined without lengths)", "corpus", mkReq(false, nil, "a", "x", "b", "y"), mkReq(false, nil, "a", "xb:y"))
	add("framing: {a: x, b: y} vs {a: xby} (plain concatenation)", "corpus", mkReq(false, nil, "a", "x", "b", "y"), mkReq(false, nil, "a", "xby"))
	add("framing: {ab: c} vs {a: bc} (plain concatenation)", "corpus", mkReq(false, nil, "ab", "c"), mkReq(false, nil, "a", "bc"))
	add("framing: {a: 'x\\nb=y'} vs {a: x, b: y} (line per key)", "corpus", mkReq(false, nil, "a", "x\nb=y"), mkReq(false, nil, "a", "x", "b", "y"))
	add("bytes attached to the other name: {a: x, b: y} vs {a: y, b: x} with equal multiset of bytes", "corpus", mkReq(false, nil, "a", "x", "b", "y"), mkReq(false, nil, "b", "x", "a", "y"))
	add("same bytes under another name", "corpus", mkReq(false, nil, "a.rsa.pub", "KEY"), mkReq(false, nil, "b.rsa.pub", "KEY"))
	add("framing: ten-byte key (two-digit length)", "corpus", mkReq(false, nil, "a", "0123456789"), mkReq(false, nil, "a", "012345678"))
	add("bytes outside ASCII, newline in a name", "corpus", mkReq(false, nil, "k\n.rsa.pub", "\x00\xff\xfe"), mkReq(false, nil, "k\n.rsa.pub", "\x00\xff\xfd"))
	add("names that sort differently as bytes and as text", "corpus", mkReq(false, nil, "B", "1", "a", "2", "\xc3\xa9", "3"), mkReq(false, nil, "a", "2", "B", "1", "\xc3\xa9", "3"))
	add("verification off in both: keys do not matter", "corpus", mkReq(true, nil, "a", "x"), mkReq(true, nil, "b", "y"))
	add("verification off vs on", "corpus", mkReq(true, nil, "a", "x"), mkReq(false, nil, "a", "x"))
	add("exempted vs not exempted", "corpus", mkReq(false, here, "a", "x"), mkReq(false, nil, "a", "x"))
	add("exempted vs verification off: both unverified", "corpus", mkReq(false, here), mkReq(true, nil, "a", "x"))
	add("another repository exempted: still verified", "corpus", mkReq(false, []string{"https://repo.example/os/"}, "a", "x"), mkReq(false, []string{"https://repo.example"}, "a", "x"))
	add("no keys, verification on, twice", "corpus", mkReq(false, nil), mkReq(false, nil))
	// ---- generated ----------------------------------------------------------------------------
	n := 120
	if tier == "thorough" {
		n = 1500
	}
	names := []string{"a", "b", "ab", "1", "1:a", "a1", "k.rsa.pub", ""}
	mats := []string{"", "x", "y", "1:", "a", "xa1:", "1:b1:y", "0123456789", "x\n", "\x00"}
	gen := func() *vreq {
		q := &vreq{Keys: map[string]string{}, Ignore: r.Chance(1, 8)}
		if r.Chance(1, 6) {
			q.Listed = [][]string{here, {"https://repo.example/os/"}, {"https://other.example/x", "https://repo.example/os"}}[r.Intn(3)]
		}
		nk := 1 + r.Intn(3)
		if r.Chance(1, 12) {
			nk = 0
		}
		for j := nk; j > 0; j-- {
			nm := gal.Pick(r, names)
			if _, dup := q.Keys[nm]; !dup {
				q.Order = append(q.Order, nm)
			}
			q.Keys[nm] = gal.Pick(r, mats)
		}
		return q
	}
	for i := 0; i < n; i++ {
		a := gen()
		var b *vreq
		switch r.Intn(3) {
		case 0: // an unrelated request
			b = gen()
		case 1: // the same pairs, shuffled, sometimes one byte string changed
			b = &vreq{Keys: map[string]string{}, Ignore: a.Ignore, Listed: a.Listed}
			for j := len(a.Order) - 1; j >= 0; j-- {
				b.Order = append(b.Order, a.Order[j])
				b.Keys[a.Order[j]] = a.Keys[a.Order[j]]
			}
			if len(b.Order) > 0 && r.Bool() {
				b.Keys[b.Order[0]] = gal.Pick(r, mats)
			}
		default: // the same names with other bytes
			b = &vreq{Keys: map[string]string{}, Ignore: a.Ignore, Listed: a.Listed, Order: a.Order}
			for _, nm := range a.Order {
				b.Keys[nm] = gal.Pick(r, mats)
			}
		}
		add("", fmt.Sprintf("generated/%d+%d-keys", len(a.Keys), len(b.Keys)), a, b)
	}
	return wr.Flush()
}
