package main

// wiring stage (wave 3): who verifies the indexes that reach resolution through the
// multi-architecture wiring. A case is a small build: one APK context per
// architecture (own key ring, ignore flag, exemption list), wired through ByArch —
// by hand (apk.New on an in-memory filesystem, ByArch assigned) or by the real
// build.NewMultiArch — over one or two repositories whose per-architecture indexes
// are signed by a configured key, signed by an unknown key, unsigned, spliced or
// tampered, and list a subset of the versions of one package. Observed: for every
// context, ResolveWorld's error or the version it chose. The validator (Coq) demands
// that whenever ResolveWorld of a context succeeds, every index of that context AND
// of every sibling context was authorised (verification off for the request,
// repository exempted in its context, or signed by a key configured there); the
// model (Model/IndexWiring.v, the ignore arguments read from the source) must agree
// on success/failure and on the chosen version (a sibling's content steers it).

import (
	"context"
	"fmt"
	"os"
	"path/filepath"
	"sort"
	"strings"

	"chainguard.dev/apko/pkg/apk/apk"
	apkfs "chainguard.dev/apko/pkg/apk/fs"
	"chainguard.dev/apko/pkg/build"
	"chainguard.dev/apko/pkg/build/types"

	"verifharness/gal"
	"verifharness/synthrepo"
)

type wIndex struct {
	Kind     string `json:"kind"`             // signed | unsigned | spliced | tampered
	Signer   string `json:"signer,omitempty"` // key that made the (valid) signature
	Versions []int  `json:"versions"`
}

type wCtx struct {
	Arch    string   `json:"arch"`
	Keys    []string `json:"keys"`
	Ignore  bool     `json:"ignore_signatures"`
	Exempt  []int    `json:"exempt"`
	ByArch  []int    `json:"by_arch"`
	Err     string   `json:"error,omitempty"`
	Version int      `json:"chosen_version,omitempty"`
}

type wCase struct {
	Note    string      `json:"note,omitempty"`
	Wiring  string      `json:"wiring"` // by-hand | NewMultiArch
	Ctxs    []wCtx      `json:"contexts"`
	Indexes [][]wIndex  `json:"indexes"` // context j, repository r
}

type wiringWorld struct {
	keys map[string]*synthrepo.Key
	tmp  string
	n    int
}

func wText(arch string, versions []int) string {
	var t strings.Builder
	for _, v := range versions {
		fmt.Fprintf(&t, "C:Q1AAAAAAAAAAAAAAAAAAAAAAAAAAA=\nP:foo\nV:%d.0.0-r0\nA:%s\nS:1\nI:1\nT:foo\nU:u\nL:l\no:foo\nt:1700000000\nc:0\n\n", v, arch)
	}
	return t.String()
}

func (w *wiringWorld) archive(arch string, ix wIndex) ([]byte, error) {
	text := wText(arch, ix.Versions)
	switch ix.Kind {
	case "signed":
		whole, _, err := synthrepo.IndexArchive(text, w.keys[ix.Signer], "RSA256")
		return whole, err
	case "unsigned":
		whole, _, err := synthrepo.IndexArchive(text, nil, "")
		return whole, err
	case "spliced": // alice's genuine signature over other content, in front of this content
		_, other, err := synthrepo.IndexArchive(wText(arch, []int{9}), nil, "")
		if err != nil {
			return nil, err
		}
		seg, err := synthrepo.SignatureSegment(other, w.keys["alice.rsa.pub"], "RSA256")
		if err != nil {
			return nil, err
		}
		_, mine, err := synthrepo.IndexArchive(text, nil, "")
		if err != nil {
			return nil, err
		}
		return append(append([]byte{}, seg...), mine...), nil
	case "tampered": // validly signed by alice, then the signed text changed (one version more) and compressed again
		_, signedOriginal, err := synthrepo.IndexArchive(wText(arch, append(append([]int{}, ix.Versions...), 7)), nil, "")
		if err != nil {
			return nil, err
		}
		seg, err := synthrepo.SignatureSegment(signedOriginal, w.keys["alice.rsa.pub"], "RSA256")
		if err != nil {
			return nil, err
		}
		_, mine, err := synthrepo.IndexArchive(text, nil, "")
		if err != nil {
			return nil, err
		}
		return append(append([]byte{}, seg...), mine...), nil
	}
	return nil, fmt.Errorf("unknown kind %q", ix.Kind)
}

func (w *wiringWorld) run(c *wCase) error {
	w.n++
	dir := filepath.Join(w.tmp, fmt.Sprintf("w%d", w.n))
	nrepos := len(c.Indexes[0])
	var repos []string
	for k := 0; k < nrepos; k++ {
		repos = append(repos, filepath.Join(dir, fmt.Sprintf("repo%d", k)))
	}
	for j, cx := range c.Ctxs {
		for k, ix := range c.Indexes[j] {
			b, err := w.archive(cx.Arch, ix)
			if err != nil {
				return err
			}
			d := filepath.Join(repos[k], cx.Arch)
			if err := os.MkdirAll(d, 0o755); err != nil {
				return err
			}
			if err := os.WriteFile(filepath.Join(d, "APKINDEX.tar.gz"), b, 0o644); err != nil {
				return err
			}
		}
	}
	ctx := context.Background()
	apks := make([]*apk.APK, len(c.Ctxs))
	if c.Wiring == "NewMultiArch" {
		// the real wiring: all contexts share key ring, flag and repositories
		keyDir := filepath.Join(dir, "keys")
		if err := os.MkdirAll(keyDir, 0o755); err != nil {
			return err
		}
		var keyring []string
		for _, k := range c.Ctxs[0].Keys {
			p := filepath.Join(keyDir, k)
			if err := os.WriteFile(p, w.keys[k].Pub, 0o644); err != nil {
				return err
			}
			keyring = append(keyring, p)
		}
		var archs []types.Architecture
		for _, cx := range c.Ctxs {
			archs = append(archs, types.ParseArchitecture(cx.Arch))
		}
		ic := types.ImageConfiguration{Contents: types.ImageContents{RuntimeRepositories: repos, Keyring: keyring, Packages: []string{"foo"}}, Archs: archs}
		mc, err := build.NewMultiArch(ctx, archs, build.WithImageConfiguration(ic), build.WithIgnoreSignatures(c.Ctxs[0].Ignore))
		if err != nil {
			return fmt.Errorf("NewMultiArch: %w", err)
		}
		for j, a := range archs {
			bc := mc.Contexts[a]
			if bc == nil {
				return fmt.Errorf("NewMultiArch: no context for %s", a)
			}
			apks[j] = bc.APK()
		}
		// ByArch as the build wired it, in the case's numbering
		for j := range c.Ctxs {
			var by []int
			for _, other := range apks[j].ByArch {
				for i := range apks {
					if apks[i] == other {
						by = append(by, i)
					}
				}
			}
			sort.Ints(by)
			c.Ctxs[j].ByArch = by
		}
	} else {
		for j, cx := range c.Ctxs {
			fs := apkfs.NewMemFS()
			if err := fs.MkdirAll("etc/apk/keys", 0o755); err != nil {
				return err
			}
			for _, k := range cx.Keys {
				if err := fs.WriteFile(filepath.Join("etc/apk/keys", k), w.keys[k].Pub, 0o644); err != nil {
					return err
				}
			}
			for p, content := range map[string]string{"etc/apk/arch": cx.Arch + "\n", "etc/apk/repositories": strings.Join(repos, "\n") + "\n", "etc/apk/world": "foo\n"} {
				if err := fs.WriteFile(p, []byte(content), 0o644); err != nil {
					return err
				}
			}
			var ex []string
			for _, k := range cx.Exempt {
				ex = append(ex, repos[k])
			}
			a, err := apk.New(apk.WithFS(fs), apk.WithArch(cx.Arch), apk.WithIgnoreIndexSignatures(cx.Ignore), apk.WithNoSignatureIndexes(ex...))
			if err != nil {
				return err
			}
			apks[j] = a
		}
		for j, cx := range c.Ctxs {
			if len(cx.ByArch) == 0 {
				continue
			}
			m := map[string]*apk.APK{}
			for _, o := range cx.ByArch {
				m[c.Ctxs[o].Arch] = apks[o]
			}
			apks[j].ByArch = m
		}
	}
	for j := range c.Ctxs {
		func() {
			defer func() {
				if x := recover(); x != nil {
					c.Ctxs[j].Err = fmt.Sprintf("panic: %v", x)
					fmt.Printf("IMPL-VIOLATION tag=panic-ResolveWorld {\"case\":%d,\"panic\":%q}\n", w.n, fmt.Sprint(x))
				}
			}()
			l, _, err := apks[j].ResolveWorld(ctx)
			if err != nil {
				e := err.Error()
				if len(e) > 200 {
					e = e[:200]
				}
				c.Ctxs[j].Err = e
				return
			}
			for _, p := range l {
				if p.Name == "foo" {
					fmt.Sscanf(p.Version, "%d.", &c.Ctxs[j].Version)
				}
			}
			if c.Ctxs[j].Version == 0 {
				c.Ctxs[j].Err = "foo not in the solution"
			}
		}()
	}
	return nil
}

func (c *wCase) term() string {
	var cx, sg, vs, obs []string
	for j, x := range c.Ctxs {
		cx = append(cx, fmt.Sprintf("{| wx_keys := %s; wx_ignore := %s; wx_exempt := %s; wx_nrepos := %s; wx_byarch := %s |}",
			gal.StrList(x.Keys), gal.Bool(x.Ignore), galNats(x.Exempt), gal.Nat(len(c.Indexes[j])), galNats(x.ByArch)))
		var s1, v1 []string
		for _, ix := range c.Indexes[j] {
			s1 = append(s1, gal.Opt(ix.Kind == "signed", gal.Str(ix.Signer)))
			var ns []string
			for _, v := range ix.Versions {
				ns = append(ns, gal.N(uint64(v)))
			}
			v1 = append(v1, gal.List(ns))
		}
		sg = append(sg, gal.List(s1))
		vs = append(vs, gal.List(v1))
		obs = append(obs, gal.Opt(x.Err == "", gal.N(uint64(x.Version))))
	}
	return fmt.Sprintf("{| wc_ctxs := %s; wc_signer := %s; wc_versions := %s; wc_obs := %s |}", gal.List(cx), gal.List(sg), gal.List(vs), gal.List(obs))
}

func wiringStage(dir string, seed uint64, tier string) error {
	r := gal.NewRand(seed ^ 0x31a)
	tmp, err := os.MkdirTemp("", "c04wiring")
	if err != nil {
		return err
	}
	defer os.RemoveAll(tmp)
	w := &wiringWorld{keys: map[string]*synthrepo.Key{}, tmp: tmp}
	A, B, M := "alice.rsa.pub", "bob.rsa.pub", "mallory.rsa.pub"
	for _, n := range []string{A, B, M} {
		k, err := synthrepo.NewKey(n)
		if err != nil {
			return err
		}
		w.keys[n] = k
	}
	wr := &gal.Writer{Dir: dir, Require: "From Apko Require Import Corr.C04.", Type: "wiring_case", Check: "check_wiring", Shard: 100}
	hist := map[string]int{}
	add := func(c *wCase, class string) error {
		if err := w.run(c); err != nil {
			return err
		}
		for _, f := range c.features() {
			hist[f]++
		}
		wr.Add(gal.Case{Term: c.term(), Desc: c, Class: class, Trivial: len(c.Ctxs) < 2})
		return nil
	}
	good := func(vs ...int) wIndex { return wIndex{Kind: "signed", Signer: A, Versions: vs} }
	two := func(ign bool, keys []string, x, y wIndex) *wCase {
		return &wCase{Wiring: "by-hand", Ctxs: []wCtx{{Arch: "x86_64", Keys: keys, Ignore: ign, ByArch: []int{0, 1}}, {Arch: "aarch64", Keys: keys, Ignore: ign, ByArch: []int{0, 1}}},
			Indexes: [][]wIndex{{x}, {y}}}
	}
	// ---- corpus --------------------------------------------------------------------------------
	corpus := []struct {
		note string
		c    *wCase
	}{
		{"both architectures signed by the configured key; the sibling lists fewer versions", two(false, []string{A}, good(1, 2), good(1))},
		{"sibling index signed by a key that is not configured", two(false, []string{A}, good(1, 2), wIndex{Kind: "signed", Signer: M, Versions: []int{1}})},
		{"sibling index unsigned", two(false, []string{A}, good(1, 2), wIndex{Kind: "unsigned", Versions: []int{1}})},
		{"sibling index spliced", two(false, []string{A}, good(1, 2), wIndex{Kind: "spliced", Versions: []int{1}})},
		{"sibling index tampered", two(false, []string{A}, good(1, 2), wIndex{Kind: "tampered", Versions: []int{1, 2}})},
		{"own index unsigned, sibling fine", two(false, []string{A}, wIndex{Kind: "unsigned", Versions: []int{1, 2}}, good(1, 2))},
		{"verification switched off in both contexts", two(true, []string{A}, wIndex{Kind: "unsigned", Versions: []int{1, 2}}, wIndex{Kind: "unsigned", Versions: []int{2}})},
		{"sibling lists nothing in common", two(false, []string{A}, good(1), good(2))},
	}
	for _, x := range corpus {
		x.c.Note = x.note
		if err := add(x.c, "corpus"); err != nil {
			return err
		}
	}
	// contexts that differ: the request's flag vs the sibling's, exemptions and key rings per context
	c := two(false, []string{A}, good(1, 2), wIndex{Kind: "unsigned", Versions: []int{1}})
	c.Note = "the sibling context itself ignores signatures, the requesting one does not"
	c.Ctxs[1].Ignore = true
	if err := add(c, "corpus"); err != nil {
		return err
	}
	c = two(false, []string{A}, good(1, 2), wIndex{Kind: "unsigned", Versions: []int{1}})
	c.Note = "the repository is exempted in the sibling context only"
	c.Ctxs[1].Exempt = []int{0}
	if err := add(c, "corpus"); err != nil {
		return err
	}
	c = two(false, []string{A}, good(1, 2), wIndex{Kind: "signed", Signer: B, Versions: []int{1}})
	c.Note = "the sibling context has its own key ring (bob), which signed its index"
	c.Ctxs[1].Keys = []string{B}
	if err := add(c, "corpus"); err != nil {
		return err
	}
	c = two(false, []string{A}, good(1, 2), wIndex{Kind: "unsigned", Versions: []int{1}})
	c.Note = "ByArch of the requesting context does not list the sibling"
	c.Ctxs[0].ByArch = []int{0}
	if err := add(c, "corpus"); err != nil {
		return err
	}
	c = two(false, []string{A}, good(1, 2), good(1))
	c.Note = "ByArch lists only the sibling, not the context itself"
	c.Ctxs[0].ByArch = []int{1}
	if err := add(c, "corpus"); err != nil {
		return err
	}
	for _, bad := range []wIndex{{Kind: "unsigned", Versions: []int{1}}, {Kind: "signed", Signer: M, Versions: []int{1}}, good(1)} {
		c = &wCase{Wiring: "NewMultiArch", Note: "the real build.NewMultiArch wiring, sibling index " + bad.Kind + " " + bad.Signer,
			Ctxs: []wCtx{{Arch: "x86_64", Keys: []string{A}}, {Arch: "aarch64", Keys: []string{A}}}, Indexes: [][]wIndex{{good(1, 2)}, {bad}}}
		if err := add(c, "corpus"); err != nil {
			return err
		}
	}
	// ---- generated -------------------------------------------------------------------------------
	n := 60
	if tier == "thorough" {
		n = 800
	}
	archs := []string{"x86_64", "aarch64", "armv7", "riscv64"}
	gen := func() *wCase {
		nc := 2 + r.Intn(2)
		if r.Chance(1, 10) {
			nc = 1
		}
		nr := 1 + r.Intn(2)
		c := &wCase{Wiring: "by-hand"}
		if r.Chance(1, 8) {
			c.Wiring = "NewMultiArch"
		}
		keys := [][]string{{A}, {A, B}, {B}, {}}[r.Intn(4)]
		ign := r.Chance(1, 8)
		for j := 0; j < nc; j++ {
			cx := wCtx{Arch: archs[j], Keys: keys, Ignore: ign}
			if c.Wiring == "by-hand" {
				if r.Chance(1, 6) {
					cx.Keys = [][]string{{A}, {B}, {A, B}}[r.Intn(3)]
				}
				if r.Chance(1, 8) {
					cx.Ignore = !ign
				}
				for k := 0; k < nr; k++ {
					if r.Chance(1, 6) {
						cx.Exempt = append(cx.Exempt, k)
					}
				}
				for o := 0; o < nc; o++ {
					if !r.Chance(1, 8) {
						cx.ByArch = append(cx.ByArch, o)
					}
				}
			}
			c.Ctxs = append(c.Ctxs, cx)
			var ixs []wIndex
			for k := 0; k < nr; k++ {
				ix := wIndex{}
				switch r.Intn(10) {
				case 0:
					ix.Kind = "unsigned"
				case 1:
					ix.Kind, ix.Signer = "signed", M
				case 2:
					ix.Kind = gal.Pick(r, []string{"spliced", "tampered"})
				case 3:
					ix.Kind, ix.Signer = "signed", B
				default:
					ix.Kind, ix.Signer = "signed", A
				}
				for v := 1; v <= 3; v++ {
					if r.Chance(2, 3) {
						ix.Versions = append(ix.Versions, v)
					}
				}
				ixs = append(ixs, ix)
			}
			c.Indexes = append(c.Indexes, ixs)
		}
		return c
	}
	for i := 0; i < n; i++ {
		c := gen()
		if err := add(c, fmt.Sprintf("generated/%s/%d-contexts", c.Wiring, len(c.Ctxs))); err != nil {
			return err
		}
	}
	// every required shape among the cases of every run
	var missing []string
	for _, f := range requiredWiringFeatures {
		for tries := 0; hist[f] == 0 && tries < 3000; tries++ {
			c := gen()
			if c.Wiring != "by-hand" {
				continue
			}
			for _, g := range c.featuresBefore() {
				if g == f {
					c.Note = "directed: " + f
					if err := add(c, "generated/directed"); err != nil {
						return err
					}
					break
				}
			}
		}
		if hist[f] == 0 {
			missing = append(missing, f)
		}
	}
	wr.Extra = map[string]any{"wiring_histogram": hist, "required_wiring_shapes_missing": missing}
	if len(missing) > 0 {
		return fmt.Errorf("generator cannot produce the wiring shapes %v", missing)
	}
	return wr.Flush()
}

// shapes that do not depend on the outcome
func (c *wCase) featuresBefore() []string {
	seen := map[string]bool{}
	var fs []string
	add := func(f string) {
		if !seen[f] {
			seen[f] = true
			fs = append(fs, f)
		}
	}
	auth := func(ign bool, j, k int) bool {
		if ign {
			return true
		}
		for _, e := range c.Ctxs[j].Exempt {
			if e == k {
				return true
			}
		}
		ix := c.Indexes[j][k]
		if ix.Kind != "signed" {
			return false
		}
		for _, key := range c.Ctxs[j].Keys {
			if key == ix.Signer {
				return true
			}
		}
		return false
	}
	add(fmt.Sprintf("contexts=%d", len(c.Ctxs)))
	add("wiring=" + c.Wiring)
	for a, cx := range c.Ctxs {
		ownOK := true
		for k := range c.Indexes[a] {
			ownOK = ownOK && auth(cx.Ignore, a, k)
		}
		sibBad := false
		for _, o := range cx.ByArch {
			if o == a {
				continue
			}
			for k, ix := range c.Indexes[o] {
				if !auth(cx.Ignore, o, k) {
					sibBad = true
					add("sibling-index=" + ix.Kind + "-not-authorised")
				}
				if auth(cx.Ignore, o, k) && !auth(c.Ctxs[o].Ignore, o, k) {
					add("sibling-authorised-by-the-requests-flag-only")
				}
				if !auth(cx.Ignore, o, k) && auth(c.Ctxs[o].Ignore, o, k) {
					add("sibling-authorised-by-its-own-flag-only")
				}
			}
		}
		switch {
		case ownOK && sibBad:
			add("request=own-fine/sibling-bad")
		case !ownOK:
			add("request=own-bad")
		default:
			add("request=all-fine")
		}
	}
	return fs
}

func (c *wCase) features() []string {
	fs := c.featuresBefore()
	for _, cx := range c.Ctxs {
		if cx.Err == "" {
			fs = append(fs, "outcome=resolved")
		} else {
			fs = append(fs, "outcome=error")
		}
	}
	return fs
}

var requiredWiringFeatures = []string{
	"contexts=2", "contexts=3", "request=own-fine/sibling-bad", "request=own-bad", "request=all-fine",
	"sibling-index=unsigned-not-authorised", "sibling-index=signed-not-authorised", "sibling-index=spliced-not-authorised", "sibling-index=tampered-not-authorised",
	"sibling-authorised-by-the-requests-flag-only", "sibling-authorised-by-its-own-flag-only",
}
