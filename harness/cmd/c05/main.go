// c05 harness: installs through the real public API (apk.New + InitDB +
// InstallPackages, the entry point of both the resolver-driven and the
// lock-file-driven build) against an origin whose bytes the harness controls:
// for each generated package every substitution of the property's statement,
// with the cache disabled / cold / warm, lazily (tarfs) and streaming (memfs),
// within one process (the URL-keyed memo of expanded packages is live) or
// across processes (memo reset through the verif hook).
package main

import (
	"archive/tar"
	"bytes"
	"compress/gzip"
	"context"
	"crypto/sha1" //nolint:gosec
	"crypto/sha256"
	"encoding/base64"
	"encoding/hex"
	"encoding/json"
	"flag"
	"fmt"
	"io"
	"log/slog"
	"os"
	"path/filepath"
	"sort"
	"strings"

	"chainguard.dev/apko/pkg/apk/apk"
	apkfs "chainguard.dev/apko/pkg/apk/fs"
	"chainguard.dev/apko/pkg/tarfs"
	"verifharness/gal"
	"verifharness/synthrepo"
)

type handle struct{ url, name, chk string }

func (h handle) URL() string            { return h.url }
func (h handle) PackageName() string    { return h.name }
func (h handle) ChecksumString() string { return h.chk }

// ---- what the origin can serve ------------------------------------------------

// part of an .apk: the control member of one build, the data member of one build
type apkfile struct {
	Label   string           `json:"label"`
	ctlOf   *synthrepo.Built // signature + control come from here
	datOf   *synthrepo.Built // data comes from here
	garbage []byte
}

func (a *apkfile) bytes() []byte {
	if a.garbage != nil {
		return a.garbage
	}
	return append(append(append([]byte{}, a.ctlOf.Sig...), a.ctlOf.Control...), a.datOf.Data...)
}

func datahashValues(control []byte) []string {
	zr, err := gzip.NewReader(bytes.NewReader(control))
	if err != nil {
		panic(err)
	}
	tr := tar.NewReader(zr)
	for {
		h, err := tr.Next()
		if err != nil {
			panic("no .PKGINFO in synthetic control")
		}
		if h.Name != ".PKGINFO" {
			continue
		}
		b, _ := io.ReadAll(tr)
		var out []string
		for _, line := range strings.Split(string(b), "\n") {
			parts := strings.Split(line, "=")
			if len(parts) != 2 || strings.TrimSpace(parts[0]) != "datahash" {
				continue
			}
			out = append(out, strings.TrimSpace(parts[1]))
		}
		return out
	}
}

// tables of digests handed to the model
type tables struct {
	sha1   map[string][]byte
	sha256 map[string][]byte
	ids    map[string][]byte // raw member bytes -> short id
}

func (t *tables) id(raw []byte) []byte {
	if v, ok := t.ids[string(raw)]; ok {
		return v
	}
	v := []byte{255, 0, byte(len(t.ids) + 1)}
	t.ids[string(raw)] = v
	return v
}

func galSum(f *synthrepo.File) string {
	if f.NoChecksum {
		return "SumNone"
	}
	if f.RawChecksum != "" {
		v := f.RawChecksum
		var d []byte
		var err error
		if strings.HasPrefix(v, "Q1") {
			d, err = base64.StdEncoding.DecodeString(strings.TrimPrefix(v, "Q1"))
		} else {
			d, err = hex.DecodeString(v)
		}
		if err != nil {
			return "SumBad"
		}
		return "(SumSome " + gal.Bytes(d) + ")"
	}
	body := f.Content
	if f.Type == tar.TypeSymlink {
		body = []byte(f.Linkname)
	}
	s := sha1.Sum(body) //nolint:gosec
	if f.BadChecksum {
		s[0] ^= 0xff
	}
	return "(SumSome " + gal.Bytes(s[:]) + ")"
}

func (t *tables) galApk(a *apkfile) string {
	cid := t.id(a.ctlOf.Control)
	s1 := sha1.Sum(a.ctlOf.Control) //nolint:gosec
	t.sha1[string(cid)] = s1[:]
	did := t.id(a.datOf.Data)
	s2 := sha256.Sum256(a.datOf.Data)
	t.sha256[string(did)] = s2[:]
	var fs []string
	for i := range a.datOf.Pkg.Files {
		f := &a.datOf.Pkg.Files[i]
		kind := "FReg"
		body := f.Content
		switch f.Type {
		case tar.TypeDir:
			kind = "FDir"
		case tar.TypeSymlink:
			kind = "FSym"
			body = nil
		}
		if kind == "FReg" {
			s := sha1.Sum(body) //nolint:gosec
			t.sha1[string(body)] = s[:]
		}
		name := f.Name
		if f.Type == tar.TypeDir && !strings.HasSuffix(name, "/") {
			name += "/"
		}
		fs = append(fs, fmt.Sprintf("{| f_name := %s; f_kind := %s; f_body := %s; f_sum := %s |}", gal.Str(name), kind, gal.Bytes(body), galSum(f)))
	}
	dhs := datahashValues(a.ctlOf.Control)
	return fmt.Sprintf("{| a_ctl := {| c_raw := %s; c_desc := %s; c_datahash := %s |}; a_dat := {| d_raw := %s; d_files := %s |} |}",
		gal.Bytes(cid), gal.Str(a.ctlOf.Pkg.Description), gal.StrList(dhs), gal.Bytes(did), gal.List(fs))
}

func galTable(m map[string][]byte) string {
	keys := make([]string, 0, len(m))
	for k := range m {
		keys = append(keys, k)
	}
	sort.Strings(keys)
	var rows []string
	for _, k := range keys {
		rows = append(rows, gal.Pair(gal.Bytes([]byte(k)), gal.Bytes(m[k])))
	}
	return gal.List(rows)
}

// ---- steps ----------------------------------------------------------------------

type step struct {
	NewProcess bool     `json:"new_process"`
	Cache      int      `json:"cache"` // -1 none, else directory number
	Lazy       bool     `json:"lazy"`
	Checksum   string   `json:"checksum"`
	Serve      *apkfile `json:"serve"` // nil = nothing under the URL
	Dir        string   `json:"dir,omitempty"` // repository directory name under the case root (default "repo")
	RawURL     string   `json:"raw_url,omitempty"` // the handle's URL is <case root>/<RawURL>, nothing is served
}

type seqCase struct {
	Label string `json:"label"`
	Steps []step `json:"steps"`
	// index-driven mode: a signed APKINDEX describing this build is written next to
	// the package and the install goes InitKeyring / SetRepositories / SetWorld /
	// FixateWorld (the handle is the resolver's RepositoryPackage)
	ViaIndex bool             `json:"via_index,omitempty"`
	indexed  *synthrepo.Built
	key      *synthrepo.Key
}

type observed struct {
	ok    bool
	desc  string
	files [][2]string
	err   string
}

func galHandle(url, chk string) string {
	return fmt.Sprintf("{| h_url := %s; h_chk := %s |}", gal.Str(url), gal.Str(chk))
}

// base64.StdEncoding.DecodeString on what remains after one leading "Q1"
func b64Row(chk string) string {
	t := strings.TrimPrefix(chk, "Q1")
	d, err := base64.StdEncoding.DecodeString(t)
	r := "None"
	if err == nil {
		r = "(Some " + gal.Bytes(d) + ")"
	}
	return gal.Pair(gal.Str(t), r)
}

func runCase(root string, n int, sc *seqCase) gal.Case {
	dir := filepath.Join(root, fmt.Sprintf("case%d", n))
	url := filepath.Join(dir, "repo", "x86_64", "pkg-1.0-r0.apk")
	if err := os.MkdirAll(filepath.Dir(url), 0o755); err != nil {
		panic(err)
	}
	defer os.RemoveAll(dir)
	t := &tables{sha1: map[string][]byte{}, sha256: map[string][]byte{}, ids: map[string][]byte{}}
	// every regular-file name any served package has
	nameSet := map[string]bool{}
	for _, s := range sc.Steps {
		if s.Serve != nil && s.Serve.garbage == nil {
			for _, f := range s.Serve.datOf.Pkg.Files {
				if f.Type == 0 || f.Type == tar.TypeReg {
					nameSet[f.Name] = true
				}
			}
		}
	}
	names := make([]string, 0, len(nameSet))
	for k := range nameSet {
		names = append(names, k)
	}
	// package order of the generators: ascending names, top-level dot files (when a package ships them late) after everything else
	sort.Slice(names, func(i, j int) bool {
		di, dj := strings.HasPrefix(names[i], "."), strings.HasPrefix(names[j], ".")
		if di != dj {
			return dj
		}
		return names[i] < names[j]
	})

	var steps []string
	var b64rows []string
	b64seen := map[string]bool{}
	class := ""
	apk.VerifC05ResetProcessCaches()
	for _, s := range sc.Steps {
		if s.NewProcess {
			apk.VerifC05ResetProcessCaches()
		}
		url := url
		if s.Dir != "" {
			url = filepath.Join(dir, s.Dir, "x86_64", "pkg-1.0-r0.apk")
			if err := os.MkdirAll(filepath.Dir(url), 0o755); err != nil {
				panic(err)
			}
		}
		if s.RawURL != "" {
			url = filepath.Join(dir, s.RawURL)
		}
		os.Remove(url)
		if s.Serve != nil && s.RawURL == "" {
			if err := os.WriteFile(url, s.Serve.bytes(), 0o644); err != nil {
				panic(err)
			}
		}
		var fsys apkfs.FullFS
		if s.Lazy {
			fsys = tarfs.New()
		} else {
			fsys = apkfs.NewMemFS()
		}
		opts := []apk.Option{apk.WithFS(fsys), apk.WithArch("x86_64"), apk.WithIgnoreMknodErrors(true)}
		if s.Cache >= 0 {
			opts = append(opts, apk.WithCache(filepath.Join(dir, fmt.Sprintf("cache%d", s.Cache)), false, apk.NewCache(false)))
		}
		var o observed
		func() {
			defer func() {
				if r := recover(); r != nil {
					o = observed{err: fmt.Sprintf("panic: %v", r)}
					d, _ := json.Marshal(sc)
					fmt.Printf("IMPL-VIOLATION tag=install-panics %s\n", d)
				}
			}()
			a, err := apk.New(opts...)
			if err != nil {
				panic(err)
			}
			ctx := context.Background()
			if err := a.InitDB(ctx); err != nil {
				panic(err)
			}
			var pk []*apk.Package
			if sc.ViaIndex {
				repoDir := filepath.Dir(filepath.Dir(url))
				whole, _, ierr := synthrepo.IndexArchive(synthrepo.IndexEntry(sc.indexed), sc.key, "RSA256")
				if ierr != nil {
					panic(ierr)
				}
				ixp := filepath.Join(filepath.Dir(url), "APKINDEX.tar.gz")
				if old, rerr := os.ReadFile(ixp); rerr != nil || !bytes.Equal(old, whole) {
					if werr := os.WriteFile(ixp, whole, 0o644); werr != nil {
						panic(werr)
					}
				}
				keyPath := filepath.Join(dir, sc.key.Name)
				if werr := os.WriteFile(keyPath, sc.key.Pub, 0o644); werr != nil {
					panic(werr)
				}
				if err = a.InitKeyring(ctx, []string{keyPath}, nil); err == nil {
					if err = a.SetRepositories(ctx, []string{repoDir}); err == nil {
						if err = a.SetWorld(ctx, []string{"pkg"}); err == nil {
							pk, err = a.FixateWorld(ctx, nil)
						}
					}
				}
			} else {
				pk, err = a.InstallPackages(ctx, nil, []apk.InstallablePackage{handle{url, "pkg", s.Checksum}})
			}
			if err != nil {
				o = observed{err: err.Error()}
				return
			}
			o.ok = true
			if len(pk) == 1 && pk[0] != nil {
				o.desc = pk[0].Description
			}
			for _, nm := range names {
				if b, err := fsys.ReadFile(nm); err == nil {
					o.files = append(o.files, [2]string{nm, string(b)})
				}
			}
		}()
		out := "None"
		if o.ok {
			var fl []string
			for _, f := range o.files {
				fl = append(fl, gal.Pair(gal.Str(f[0]), gal.Bytes([]byte(f[1]))))
			}
			out = "(Some " + gal.Pair(gal.Str(o.desc), gal.List(fl)) + ")"
			class += "I"
		} else {
			class += "E"
		}
		served := "None"
		if s.Serve != nil && s.RawURL == "" {
			if s.Serve.garbage != nil {
				panic("garbage origins are not part of the modelled envelope")
			}
			served = "(Some " + t.galApk(s.Serve) + ")"
		}
		cache := "None"
		if s.Cache >= 0 {
			cache = fmt.Sprintf("(Some %d%%nat)", s.Cache)
		}
		if !b64seen[s.Checksum] {
			b64seen[s.Checksum] = true
			b64rows = append(b64rows, b64Row(s.Checksum))
		}
		steps = append(steps, fmt.Sprintf("{| s_new_process := %s; s_cache := %s; s_lazy := %s; s_handle := %s; s_served := %s; o_out := %s |}",
			gal.Bool(s.NewProcess), cache, gal.Bool(s.Lazy), galHandle(url, s.Checksum), served, out))
	}
	term := fmt.Sprintf("{| q_sha1 := %s; q_sha256 := %s; q_b64 := %s; q_steps := %s |}", galTable(t.sha1), galTable(t.sha256), gal.List(b64rows), gal.List(steps))
	// replay description without temp names
	return gal.Case{Term: term, Desc: sc, Class: class, Key: sc.Label + "|" + class}
}

// ---- generators -------------------------------------------------------------------

type gen struct {
	key *synthrepo.Key
	n   int
}

func (g *gen) build(p *synthrepo.Pkg) *synthrepo.Built {
	p.Name, p.Version = "pkg", "1.0-r0"
	b, err := p.Build(g.key)
	if err != nil {
		panic(err)
	}
	return b
}

// files of a package; marker makes every data section distinct; regular files
// are in ascending name order
func files(marker string, extra ...synthrepo.File) []synthrepo.File {
	fs := []synthrepo.File{
		{Name: "etc", Type: tar.TypeDir, Mode: 0o755},
		{Name: "etc/marker", Mode: 0o644, Content: []byte(marker)},
		{Name: "usr", Type: tar.TypeDir, Mode: 0o755},
		{Name: "usr/tool", Mode: 0o755, Content: []byte("#!/bin/sh\necho " + marker + "\n")},
	}
	return append(fs, extra...)
}

type variant struct {
	name  string
	index *synthrepo.Built // what the index entry describes
	chk   string           // checksum string of the handle ("" = index.Checksum())
	serve *apkfile         // what the origin serves instead
}

func (g *gen) variants(tag string) []variant {
	mk := func(desc, marker string, mod func(*synthrepo.Pkg)) *synthrepo.Built {
		p := &synthrepo.Pkg{Description: desc + "/" + tag, Files: files(marker + "/" + tag)}
		if mod != nil {
			mod(p)
		}
		return g.build(p)
	}
	G := mk("genuine", "G", nil)
	whole := func(label string, b *synthrepo.Built) *apkfile { return &apkfile{Label: label, ctlOf: b, datOf: b} }
	var vs []variant
	add := func(name string, index *synthrepo.Built, chk string, serve *apkfile) {
		vs = append(vs, variant{name, index, chk, serve})
	}
	add("genuine", G, "", whole("genuine", G))
	// same files, other control bytes
	Gc := mk("other-control", "G", nil)
	add("swapped control", G, "", &apkfile{Label: "control of another build + genuine data", ctlOf: Gc, datOf: G})
	X := mk("evil", "X", nil)
	add("swapped data", G, "", &apkfile{Label: "genuine control + data of another package", ctlOf: G, datOf: X})
	add("different package under the URL", G, "", whole("another, internally consistent package", X))
	// a file body altered, recorded checksum left alone
	Mb := mk("rebuilt-body", "G", func(p *synthrepo.Pkg) {
		p.Files[3].Content = []byte("#!/bin/sh\necho tampered\n")
		p.Files[3].RawChecksum = hex.EncodeToString(sha1sum([]byte("#!/bin/sh\necho G/" + tag + "\n")))
	})
	add("modified file body", G, "", &apkfile{Label: "genuine control + data with one body altered", ctlOf: G, datOf: Mb})
	add("modified file body, whole package rebuilt", G, "", whole("package rebuilt around an altered body", Mb))
	// two regular files of one length: genuinely identical copies (fine), and a second
	// file whose header BORROWS the recorded checksum of the first while its body differs
	// (a per-package "already verified this digest" shortcut would let it through)
	Dup := mk("twin-files", "G", func(p *synthrepo.Pkg) {
		p.Files = append(p.Files, synthrepo.File{Name: "usr/tool.copy", Mode: 0o755, Content: []byte("#!/bin/sh\necho G/" + tag + "\n")})
	})
	add("indexed package ships two identical files", Dup, "", whole("as indexed", Dup))
	Bor := mk("borrowed-sum", "G", func(p *synthrepo.Pkg) {
		body := []byte("#!/bin/sh\necho G/" + tag + "\n")
		alt := append([]byte{}, body...)
		alt[len(alt)-2] ^= 1
		p.Files = append(p.Files, synthrepo.File{Name: "usr/tool.copy", Mode: 0o755, Content: alt, RawChecksum: hex.EncodeToString(sha1sum(body))})
	})
	add("second file borrows the recorded checksum of an earlier file of the same length", Dup, "", &apkfile{Label: "genuine control + data whose second copy is altered under the first copy's checksum", ctlOf: Dup, datOf: Bor})
	add("indexed package: second file borrows the checksum of an earlier one", Bor, "", whole("as indexed", Bor))
	Mc := mk("bad-sum", "G", func(p *synthrepo.Pkg) { p.Files[3].BadChecksum = true })
	add("modified per-file checksum", G, "", &apkfile{Label: "genuine control + data with one recorded checksum altered", ctlOf: G, datOf: Mc})
	Nc := mk("no-sum", "G", func(p *synthrepo.Pkg) { p.Files[3].NoChecksum = true })
	add("missing per-file checksum", G, "", &apkfile{Label: "genuine control + data with one checksum record removed", ctlOf: G, datOf: Nc})
	// the index itself describes such packages
	add("indexed package has a wrong per-file checksum", Mc, "", whole("as indexed", Mc))
	add("indexed package lacks a per-file checksum", Nc, "", whole("as indexed", Nc))
	Uc := mk("undecodable-sum", "U", func(p *synthrepo.Pkg) { p.Files[3].RawChecksum = "zz" })
	add("indexed package has an undecodable per-file checksum", Uc, "", whole("as indexed", Uc))
	Q1 := mk("q1-sum", "Q", func(p *synthrepo.Pkg) { p.Files[3].Q1Checksum = true })
	add("indexed package records per-file checksums as Q1+base64", Q1, "", whole("as indexed", Q1))
	Sy := mk("symlinks", "S", func(p *synthrepo.Pkg) {
		p.Files = append(p.Files, synthrepo.File{Name: "usr/zlink", Type: tar.TypeSymlink, Linkname: "tool", Mode: 0o777},
			synthrepo.File{Name: "usr/zlink2", Type: tar.TypeSymlink, Linkname: "tool", Mode: 0o777, NoChecksum: true})
	})
	add("indexed package has a symlink without checksum", Sy, "", whole("as indexed", Sy))
	Wd := mk("wrong-datahash", "W", func(p *synthrepo.Pkg) { p.WrongDatahash = true })
	add("indexed package records a wrong datahash", Wd, "", whole("as indexed", Wd))
	Nd := mk("no-datahash", "N", func(p *synthrepo.Pkg) { p.NoDatahash = true })
	add("indexed package records no datahash", Nd, "", whole("as indexed", Nd))
	add("no datahash recorded, data swapped", Nd, "", &apkfile{Label: "control without datahash + data of another package", ctlOf: Nd, datOf: X})
	Ed := mk("empty-datahash", "E", func(p *synthrepo.Pkg) { p.NoDatahash = true; p.PkginfoExtra = "datahash = \n" })
	add("indexed package records an empty datahash", Ed, "", whole("as indexed", Ed))
	add("empty datahash recorded, data swapped", Ed, "", &apkfile{Label: "control with empty datahash + data of another package", ctlOf: Ed, datOf: X})
	Td := mk("two-datahash", "T", func(p *synthrepo.Pkg) { p.PkginfoExtra = "datahash = " + strings.Repeat("00", 32) + "\n" })
	add("indexed package records two datahash values, one wrong", Td, "", whole("as indexed", Td))
	Hd := mk("hidden-first", "H", func(p *synthrepo.Pkg) {
		p.Files = append([]synthrepo.File{{Name: ".hidden", Mode: 0o644, Content: []byte("h")}}, p.Files...)
	})
	add("indexed package starts with a hidden top-level file", Hd, "", whole("as indexed", Hd))
	// a top-level dot file AFTER other entries is an ordinary packaged file (only the leading run of such names is skipped by the
	// installer): installed, and its body is held to its recorded checksum like any other (seeded change C05-4)
	Hl := mk("hidden-later", "L", func(p *synthrepo.Pkg) {
		p.Files = append(p.Files, synthrepo.File{Name: ".profile", Mode: 0o644, Content: []byte("export L=1\n")})
	})
	add("indexed package ends with a top-level dot file", Hl, "", whole("as indexed", Hl))
	HlBad := mk("hidden-later-altered", "L", func(p *synthrepo.Pkg) {
		p.Files = append(p.Files, synthrepo.File{Name: ".profile", Mode: 0o644, Content: []byte("export L=2\n"), RawChecksum: hex.EncodeToString(sha1sum([]byte("export L=1\n")))})
	})
	add("late top-level dot file altered under its recorded checksum, data swapped in", Hl, "", &apkfile{Label: "genuine control + data whose late dot file is altered", ctlOf: Hl, datOf: HlBad})
	add("indexed package: late top-level dot file does not match its recorded checksum", HlBad, "", whole("as indexed", HlBad))
	HlNd := mk("hidden-later-altered-no-datahash", "L", func(p *synthrepo.Pkg) {
		p.NoDatahash = true
		p.Files = append(p.Files, synthrepo.File{Name: ".profile", Mode: 0o644, Content: []byte("export L=3\n"), RawChecksum: hex.EncodeToString(sha1sum([]byte("export L=1\n")))})
	})
	add("indexed package without datahash: late dot file does not match its recorded checksum", HlNd, "", whole("as indexed", HlNd))
	// handle checksum shapes
	add("handle checksum without the Q1 prefix", G, strings.TrimPrefix(G.Checksum(), "Q1"), whole("genuine", G))
	add("handle checksum without Q1, different package served", G, strings.TrimPrefix(G.Checksum(), "Q1"), whole("another package", X))
	add("handle checksum is not base64", G, "Q1!!!not-base64!!!", whole("genuine", G))
	add("handle checksum with a doubled Q1 prefix", G, "Q1"+G.Checksum(), whole("genuine", G))
	add("handle checksum empty", G, "<empty>", whole("genuine", G))
	add("handle checksum of another package (index updated), genuine served", X, "", whole("genuine", G))
	add("nothing under the URL", G, "", nil)
	return vs
}

func sha1sum(b []byte) []byte { s := sha1.Sum(b); return s[:] } //nolint:gosec

func (v *variant) checksum() string {
	switch v.chk {
	case "":
		return v.index.Checksum()
	case "<empty>":
		return ""
	}
	return v.chk
}

func main() {
	out := flag.String("out", "", "cases dir")
	seed := flag.Uint64("seed", 1, "seed")
	tier := flag.String("tier", "quick", "tier")
	flag.String("replay", "", "unused")
	flag.Parse()
	slog.SetDefault(slog.New(slog.NewTextHandler(io.Discard, nil)))
	key, err := synthrepo.NewKey("c05@verif-1.rsa.pub")
	if err != nil {
		panic(err)
	}
	root, err := os.MkdirTemp("", "c05")
	if err != nil {
		panic(err)
	}
	defer os.RemoveAll(root)
	g := &gen{key: key}
	r := gal.NewRand(*seed)
	wr := &gal.Writer{Dir: *out, Require: "From Apko Require Import Corr.C05.", Type: "seq_case", Check: "check_seq", Shard: 60}
	n := 0
	run := func(sc *seqCase) {
		wr.Add(runCase(root, n, sc))
		n++
	}
	vs := g.variants("corpus")
	genuine := vs[0]
	for _, lazy := range []bool{true, false} {
		lz := map[bool]string{true: "lazy", false: "streaming"}[lazy]
		for vi := range vs {
			v := &vs[vi]
			st := func(newp bool, cache int, chk string, serve *apkfile) step {
				return step{NewProcess: newp, Cache: cache, Lazy: lazy, Checksum: chk, Serve: serve}
			}
			// cache disabled
			run(&seqCase{Label: v.name + " / no cache / " + lz, Steps: []step{st(true, -1, v.checksum(), v.serve)}})
			// cold cache, then the same request again in a new process (warm or still cold)
			run(&seqCase{Label: v.name + " / cold, then again in a new process / " + lz, Steps: []step{
				st(true, 0, v.checksum(), v.serve), st(true, 0, v.checksum(), v.serve)}})
			// warm: a previous process cached what the index describes; now the origin serves the variant
			idx := &apkfile{Label: "as indexed", ctlOf: v.index, datOf: v.index}
			run(&seqCase{Label: v.name + " / warm cache from an earlier process / " + lz, Steps: []step{
				st(true, 0, v.checksum(), idx), st(true, 0, v.checksum(), v.serve), st(true, -1, v.checksum(), v.serve)}})
			// substituted bytes first (must not poison the cache), then the origin is repaired, new process
			run(&seqCase{Label: v.name + " / variant first, origin repaired, new process / " + lz, Steps: []step{
				st(true, 0, v.checksum(), v.serve), st(true, 0, v.checksum(), idx)}})
			// same process: second request for the same URL (memo)
			run(&seqCase{Label: v.name + " / same request twice in one process / " + lz, Steps: []step{
				st(true, 0, v.checksum(), v.serve), st(false, 0, v.checksum(), idx)}})
		}
		// C05-F1: one process, the URL is republished: index and origin both move to another build
		other := vs[3] // "different package under the URL": serve = X whole
		xIdx := other.serve
		run(&seqCase{Label: "fixed C05-F1 replay: URL republished within one process (fresh cache dir) / " + lz, Steps: []step{
			{NewProcess: true, Cache: 0, Lazy: lazy, Checksum: genuine.checksum(), Serve: genuine.serve},
			{NewProcess: false, Cache: 1, Lazy: lazy, Checksum: xIdx.ctlOf.Checksum(), Serve: xIdx}}})
		// C05-F2: the memo key URL+"@"+checksum is ambiguous when either part contains '@'
		run(&seqCase{Label: "fixed C05-F2 replay: memo key ambiguity: (dir 'r@x', Q1<G>) then (dir 'r', 'x/x86_64/pkg-1.0-r0.apk@Q1<G>') / " + lz, Steps: []step{
			{NewProcess: true, Cache: 0, Lazy: lazy, Checksum: genuine.checksum(), Serve: genuine.serve, Dir: "r@x"},
			{NewProcess: false, Cache: 0, Lazy: lazy, Checksum: "x/x86_64/pkg-1.0-r0.apk@" + genuine.checksum(), RawURL: "r"}}})
		run(&seqCase{Label: "URL republished, new process / " + lz, Steps: []step{
			{NewProcess: true, Cache: 0, Lazy: lazy, Checksum: genuine.checksum(), Serve: genuine.serve},
			{NewProcess: true, Cache: 0, Lazy: lazy, Checksum: xIdx.ctlOf.Checksum(), Serve: xIdx}}})
		run(&seqCase{Label: "URL republished within one process, cache disabled / " + lz, Steps: []step{
			{NewProcess: true, Cache: -1, Lazy: lazy, Checksum: genuine.checksum(), Serve: genuine.serve},
			{NewProcess: false, Cache: -1, Lazy: lazy, Checksum: xIdx.ctlOf.Checksum(), Serve: xIdx}}})
	}
	// the same substitutions behind a real signed index, through the resolver
	for _, lazy := range []bool{true, false} {
		lz := map[bool]string{true: "lazy", false: "streaming"}[lazy]
		for vi := range vs {
			v := &vs[vi]
			if v.chk != "" {
				continue // the checksum string is whatever the index parser produces
			}
			chk := v.index.Checksum()
			idx := &apkfile{Label: "as indexed", ctlOf: v.index, datOf: v.index}
			run(&seqCase{Label: v.name + " / via signed index, no cache / " + lz, ViaIndex: true, indexed: v.index, key: key,
				Steps: []step{{NewProcess: true, Cache: -1, Lazy: lazy, Checksum: chk, Serve: v.serve}}})
			run(&seqCase{Label: v.name + " / via signed index, warm cache from an earlier process / " + lz, ViaIndex: true, indexed: v.index, key: key,
				Steps: []step{{NewProcess: true, Cache: 0, Lazy: lazy, Checksum: chk, Serve: idx}, {NewProcess: true, Cache: 0, Lazy: lazy, Checksum: chk, Serve: v.serve}}})
		}
	}
	// generated sequences over fresh builds
	rounds := 25
	if *tier == "thorough" {
		rounds = 300
	}
	for i := 0; i < rounds; i++ {
		vs := g.variants(fmt.Sprintf("r%d", i))
		v := &vs[r.Intn(len(vs))]
		lazy := r.Bool()
		idx := &apkfile{Label: "as indexed", ctlOf: v.index, datOf: v.index}
		var steps []step
		for j, ns := 0, 2+r.Intn(3); j < ns; j++ {
			s := step{NewProcess: j == 0 || r.Bool(), Cache: r.Intn(3) - 1, Lazy: lazy, Checksum: v.checksum()}
			switch r.Intn(4) {
			case 0:
				s.Serve = idx
			case 1, 2:
				s.Serve = v.serve
			case 3:
				w := &vs[r.Intn(len(vs))]
				s.Serve = w.serve
			}
			if r.Chance(1, 6) {
				w := &vs[r.Intn(len(vs))]
				s.Checksum = w.checksum()
			}
			if r.Chance(1, 8) {
				lazy = !lazy
				s.Lazy = lazy
			}
			steps = append(steps, s)
		}
		run(&seqCase{Label: fmt.Sprintf("generated %d around %q", i, v.name), Steps: steps})
	}
	if err := wr.Flush(); err != nil {
		fmt.Fprintln(os.Stderr, "c05:", err)
		os.Exit(2)
	}
}
