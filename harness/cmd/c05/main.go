// c05 harness: installs through the real public API (apk.New + InitDB +
// InstallPackages, the entry point of both the resolver-driven and the
// lock-file-driven build) against an origin whose bytes the harness controls:
// for each generated package every substitution of the property's statement and
// every shape of the served byte stream (which gzip members, in which order,
// what follows them), with the cache disabled / cold / warm / warm without the
// uncompressed tar, lazily (tarfs) and streaming (memfs), within one process
// (the memo of expanded packages is live) or across processes (memo reset
// through the verif hook).
package main

import (
	"archive/tar"
	"bytes"
	"compress/gzip"
	"context"
	"crypto/sha1" //nolint:gosec
	"crypto/sha256"
	"encoding/base64"
	"encoding/hex"
	"encoding/json"
	"flag"
	"fmt"
	"io"
	"log/slog"
	"net/http"
	"net/http/httptest"
	neturl "net/url"
	"os"
	"path/filepath"
	"sort"
	"strings"
	"sync"

	"chainguard.dev/apko/pkg/apk/apk"
	apkfs "chainguard.dev/apko/pkg/apk/fs"
	"chainguard.dev/apko/pkg/tarfs"
	"verifharness/gal"
	"verifharness/synthrepo"
)

type handle struct{ url, name, chk string }

func (h handle) URL() string            { return h.url }
func (h handle) PackageName() string    { return h.name }
func (h handle) ChecksumString() string { return h.chk }

// ---- what the origin can serve ------------------------------------------------

// a served byte stream: complete gzip members in order, then whatever is not one
type served struct {
	Label   string `json:"label"`
	Shape   string `json:"shape"` // number of members / trailing bytes, for the replay description
	members [][]byte
	trail   []byte
}

func stream(label string, members ...[]byte) *served {
	var ms [][]byte
	for _, m := range members {
		if m != nil {
			ms = append(ms, m)
		}
	}
	return &served{Label: label, Shape: fmt.Sprintf("%d members", len(ms)), members: ms}
}

func (s *served) withTrail(t []byte) *served {
	return &served{Label: s.Label, Shape: fmt.Sprintf("%d members + %d trailing bytes", len(s.members), len(t)), members: s.members, trail: t}
}

func (s *served) bytes() []byte {
	var out []byte
	for _, m := range s.members {
		out = append(out, m...)
	}
	return append(out, s.trail...)
}

// control member of one build, data member of another
func mix(label string, ctlOf, datOf *synthrepo.Built) *served {
	return stream(label, ctlOf.Sig, ctlOf.Control, datOf.Data)
}
func whole(label string, b *synthrepo.Built) *served { return mix(label, b, b) }

// ---- the decoders handed to the model as tables (stdlib gzip / tar, the .PKGINFO line format) ----

func gunzipAll(b []byte) ([]byte, bool) {
	zr, err := gzip.NewReader(bytes.NewReader(b))
	if err != nil {
		return nil, false
	}
	out, err := io.ReadAll(zr)
	if err != nil {
		return nil, false
	}
	return out, true
}

func firstName(member []byte) (string, bool) {
	t, ok := gunzipAll(member)
	if !ok {
		return "", false
	}
	h, err := tar.NewReader(bytes.NewReader(t)).Next()
	if err != nil {
		return "", false
	}
	return h.Name, true
}

// the first .PKGINFO of a member read as control section: pkgdesc (as go-ini reads it for the package
// information: the value of a pkgdesc line) and the text itself — the datahash values are extracted in Coq
func ctlView(member []byte) (desc string, text []byte, ok bool) {
	t, ok := gunzipAll(member)
	if !ok {
		return "", nil, false
	}
	tr := tar.NewReader(bytes.NewReader(t))
	for {
		h, err := tr.Next()
		if err != nil {
			return "", nil, false
		}
		if h.Name != ".PKGINFO" {
			continue
		}
		b, err := io.ReadAll(tr)
		if err != nil {
			return "", nil, false
		}
		for _, line := range strings.Split(string(b), "\n") {
			if k, v, found := strings.Cut(line, "="); found && strings.TrimSpace(k) == "pkgdesc" {
				desc = strings.TrimSpace(v)
			}
		}
		// the whole archive must be readable (tarfs.New indexes all of it)
		for {
			if _, err := tr.Next(); err == io.EOF {
				break
			} else if err != nil {
				return "", nil, false
			}
		}
		return desc, b, true
	}
}

// a text as pieces for Corr/C05.txt: printable runs as literals, every other byte and every long run of one byte as (R n c)
func galText(b []byte) string {
	var segs []string
	lit := []byte{}
	flush := func() {
		if len(lit) > 0 {
			segs = append(segs, `L "`+strings.ReplaceAll(string(lit), `"`, `""`)+`"`)
			lit = lit[:0]
		}
	}
	for i := 0; i < len(b); {
		j := i
		for j < len(b) && b[j] == b[i] {
			j++
		}
		printable := b[i] >= 0x20 && b[i] <= 0x7e
		if j-i >= 32 || !printable {
			flush()
			segs = append(segs, fmt.Sprintf(`R %d "%03d"`, j-i, b[i]))
		} else {
			lit = append(lit, b[i:j]...)
		}
		i = j
	}
	flush()
	return "(txt " + gal.List(segs) + ")"
}

type entry struct {
	sparse           bool // archive/tar expanded it from a GNU / PAX sparse representation
	name, kind, link string
	body             []byte
	pax              map[string]string // header.PAXRecords verbatim: the recorded checksum is decoded by the model
}

// byte strings are printed as one hex literal decoded in Coq (Corr/C05.hx): far cheaper to parse than a list of numerals
func hb(b []byte) string {
	if len(b) == 0 {
		return "[]"
	}
	return `(hx "` + hex.EncodeToString(b) + `")`
}

func untar(t []byte) ([]entry, bool) {
	tr := tar.NewReader(bytes.NewReader(t))
	var out []entry
	for {
		h, err := tr.Next()
		if err == io.EOF {
			return out, true
		}
		if err != nil {
			return nil, false
		}
		e := entry{name: h.Name, pax: h.PAXRecords, sparse: h.Typeflag == tar.TypeGNUSparse}
		for k := range h.PAXRecords {
			if strings.HasPrefix(k, "GNU.sparse.") {
				e.sparse = true
			}
		}
		// whatever content the entry carries (nothing for the header-only types)
		b, err := io.ReadAll(tr)
		if err != nil {
			return nil, false
		}
		e.body = b
		switch h.Typeflag {
		case tar.TypeReg: // archive/tar reports the old '\x00' flag as TypeReg too
			e.kind = "FReg"
		case tar.TypeDir:
			e.kind = "FDir"
		case tar.TypeSymlink:
			e.kind = "FSym"
		case tar.TypeLink:
			e.kind = "FLink"
			e.link = h.Linkname
		default:
			e.kind = "FOther"
		}
		out = append(out, e)
	}
}

// tables of digests and decodings handed to the model; member bytes and tar bytes are
// replaced by short ids of fixed length, so a concatenation of members is the
// concatenation of their ids
type tables struct {
	sha1, sha256 map[string][]byte
	first        map[string]string // id -> term
	ctl          map[string]string
	gunzip       map[string]string
	untar        map[string]string
	ids          map[string][]byte // member bytes -> id
	tarIDs       map[string][]byte
	names        map[string]bool // names of regular files and hard links of everything served
	bodies       map[string][]byte // file content -> id (contents are abstract for the model)
	b64          map[string]bool   // strings the model asks base64 for (per-file records in the Q1 form)
}

func newTables() *tables {
	return &tables{sha1: map[string][]byte{}, sha256: map[string][]byte{}, first: map[string]string{}, ctl: map[string]string{},
		gunzip: map[string]string{}, untar: map[string]string{}, ids: map[string][]byte{}, tarIDs: map[string][]byte{}, names: map[string]bool{}, bodies: map[string][]byte{}, b64: map[string]bool{}}
}

// the id of a file content; the SHA-1 row of a content is keyed by its id
func (t *tables) body(b []byte) []byte {
	if len(b) == 0 {
		return nil
	}
	if v, ok := t.bodies[string(b)]; ok {
		return v
	}
	v := []byte{253, byte(len(t.bodies) / 250), byte(len(t.bodies)%250 + 1)}
	t.bodies[string(b)] = v
	s := sha1.Sum(b) //nolint:gosec
	t.sha1[string(v)] = s[:]
	return v
}

func (t *tables) id(raw []byte) []byte {
	if v, ok := t.ids[string(raw)]; ok {
		return v
	}
	v := []byte{255, 0, byte(len(t.ids) + 1)}
	if len(t.ids) >= 250 {
		panic("too many members in one case")
	}
	t.ids[string(raw)] = v
	// per-member rows
	s1 := sha1.Sum(raw) //nolint:gosec
	t.sha1[string(v)] = s1[:]
	if n, ok := firstName(raw); ok {
		t.first[string(v)] = "(Some " + gal.Str(n) + ")"
	} else {
		t.first[string(v)] = "None"
	}
	if d, text, ok := ctlView(raw); ok {
		t.ctl[string(v)] = "(Some " + gal.Pair(gal.Str(d), galText(text)) + ")"
	} else {
		t.ctl[string(v)] = "None"
	}
	return v
}

// rows for a byte string that may be taken as data section (a suffix of the member list)
func (t *tables) data(members [][]byte) {
	var key, raw []byte
	for _, m := range members {
		key = append(key, t.id(m)...)
		raw = append(raw, m...)
	}
	if _, ok := t.gunzip[string(key)]; ok {
		return
	}
	s2 := sha256.Sum256(raw)
	t.sha256[string(key)] = s2[:]
	tb, ok := gunzipAll(raw)
	if !ok {
		t.gunzip[string(key)] = "None"
		return
	}
	tid, seen := t.tarIDs[string(tb)]
	if !seen {
		tid = []byte{254, 0, byte(len(t.tarIDs) + 1)}
		t.tarIDs[string(tb)] = tid
		es, ok := untar(tb)
		if !ok {
			t.untar[string(tid)] = "None"
		} else {
			var fs []string
			for _, e := range es {
				if e.kind == "FReg" && len(e.body) == 0 {
					s := sha1.Sum(nil) //nolint:gosec
					t.sha1[""] = s[:]
				}
				if e.kind == "FReg" || e.kind == "FLink" || e.kind == "FOther" {
					t.names[e.name] = true
				}
				keys := make([]string, 0, len(e.pax))
				for k := range e.pax {
					keys = append(keys, k)
				}
				sort.Strings(keys)
				var recs []string
				for _, k := range keys {
					recs = append(recs, gal.Pair(gal.Str(k), gal.Str(e.pax[k])))
					// base64.StdEncoding.DecodeString on what follows a "Q1" prefix, for the model's oracle
					if v := e.pax[k]; strings.HasPrefix(v, "Q1") {
						t.b64[v[2:]] = true
					}
				}
				fs = append(fs, fmt.Sprintf("{| r_name := %s; r_kind := %s; r_body := %s; r_pax := %s; r_link := %s; r_sparse := %s |}",
					gal.Str(e.name), e.kind, hb(t.body(e.body)), gal.List(recs), gal.Str(e.link), gal.Bool(e.sparse)))
			}
			t.untar[string(tid)] = "(Some " + gal.List(fs) + ")"
		}
	}
	t.gunzip[string(key)] = "(Some " + hb(tid) + ")"
}

func (t *tables) galStream(s *served) string {
	var ms []string
	for _, m := range s.members {
		ms = append(ms, hb(t.id(m)))
	}
	// the suffix ExpandApk takes as data section: everything after the control member, which is the second member
	// behind a signature member (a first member starting with a .SIGN.* entry); for exactly two such members also the
	// second one alone (what the cut took before fix 3bc1979)
	if len(s.members) >= 2 {
		signed := false
		if n, ok := firstName(s.members[0]); ok && strings.HasPrefix(n, ".SIGN.") {
			signed = true
		}
		switch {
		case !signed || len(s.members) == 2:
			t.data(s.members[1:])
		default:
			t.data(s.members[2:])
		}
	}
	trail := "[]"
	if len(s.trail) > 0 {
		trail = "[0%N]" // only emptiness matters
	}
	return fmt.Sprintf("{| s_members := %s; s_trail := %s |}", gal.List(ms), trail)
}

func galBytesTable(m map[string][]byte) string {
	keys := make([]string, 0, len(m))
	for k := range m {
		keys = append(keys, k)
	}
	sort.Strings(keys)
	var rows []string
	for _, k := range keys {
		rows = append(rows, gal.Pair(hb([]byte(k)), hb(m[k])))
	}
	return gal.List(rows)
}

func galTermTable(m map[string]string) string {
	keys := make([]string, 0, len(m))
	for k := range m {
		keys = append(keys, k)
	}
	sort.Strings(keys)
	var rows []string
	for _, k := range keys {
		rows = append(rows, gal.Pair(hb([]byte(k)), m[k]))
	}
	return gal.List(rows)
}

// ---- steps ----------------------------------------------------------------------

// the http origin: what is under each URL path right now
var origin = struct {
	sync.Mutex
	files map[string][]byte
	srv   *httptest.Server
}{files: map[string][]byte{}}

func startOrigin() {
	origin.srv = httptest.NewServer(http.HandlerFunc(func(w http.ResponseWriter, r *http.Request) {
		origin.Lock()
		b, ok := origin.files[r.URL.Path]
		origin.Unlock()
		if !ok {
			http.NotFound(w, r)
			return
		}
		w.Header().Set("Content-Length", fmt.Sprint(len(b)))
		_, _ = w.Write(b)
	}))
}

type step struct {
	NewProcess bool    `json:"new_process"`
	Http       bool    `json:"http,omitempty"`    // the package URL is http:// (served by the harness's origin; through the cache transport when a cache is configured)
	Offline    bool    `json:"offline,omitempty"` // the cache is configured offline
	Whole      *served `json:"whole,omitempty"`   // the whole .apk pre-populated under the URL-derived name in the cache directory (nil: no such file)
	Cache      int     `json:"cache"`              // -1 none, else directory number
	DropTar    bool    `json:"drop_tar,omitempty"` // before the step every *.dat.tar of that cache directory is removed (a cache written before apko kept the uncompressed copy)
	Lazy       bool    `json:"lazy"`
	Checksum   string  `json:"checksum"`
	Serve      *served `json:"serve"`             // nil = nothing under the URL
	Dir        string  `json:"dir,omitempty"`     // repository directory name under the case root (default "repo")
	RawURL     string  `json:"raw_url,omitempty"` // the handle's URL is <case root>/<RawURL>, nothing is served
}

type seqCase struct {
	Label string `json:"label"`
	Steps []step `json:"steps"`
	// index-driven mode: a signed APKINDEX describing this build is written next to
	// the package and the install goes InitKeyring / SetRepositories / SetWorld /
	// FixateWorld (the handle is the resolver's RepositoryPackage)
	ViaIndex bool `json:"via_index,omitempty"`
	indexed  *synthrepo.Built
	key      *synthrepo.Key
	cell     string // variant family / history / install path, for the distribution
}

type observed struct {
	ok    bool
	desc  string
	files [][2]string
	err   string
}

func sortedKeys(m map[string]bool) []string {
	ks := make([]string, 0, len(m))
	for k := range m {
		ks = append(ks, k)
	}
	sort.Strings(ks)
	return ks
}

func galHandle(url, chk string) string {
	return fmt.Sprintf("{| h_url := %s; h_chk := %s |}", gal.Str(url), gal.Str(chk))
}

// base64.StdEncoding.DecodeString on what remains after one leading "Q1"
func b64Row(chk string) string {
	t := strings.TrimPrefix(chk, "Q1")
	d, err := base64.StdEncoding.DecodeString(t)
	r := "None"
	if err == nil {
		r = "(Some " + hb(d) + ")"
	}
	return gal.Pair(gal.Str(t), r)
}

func runCase(root string, n int, sc *seqCase) gal.Case {
	dir := filepath.Join(root, fmt.Sprintf("case%d", n))
	url := filepath.Join(dir, "repo", "x86_64", "pkg-1.0-r0.apk")
	if err := os.MkdirAll(filepath.Dir(url), 0o755); err != nil {
		panic(err)
	}
	defer os.RemoveAll(dir)
	t := newTables()
	// the model's view of every served stream (fills the tables, among them the names to read back)
	galServed := map[*served]string{}
	for _, s := range sc.Steps {
		for _, sv := range []*served{s.Serve, s.Whole} {
			if sv != nil && s.RawURL == "" {
				if _, ok := galServed[sv]; !ok {
					galServed[sv] = t.galStream(sv)
				}
			}
		}
	}
	names := make([]string, 0, len(t.names))
	for k := range t.names {
		names = append(names, k)
	}
	sort.Strings(names)

	var steps []string
	var b64rows []string
	b64seen := map[string]bool{}
	class := ""
	apk.VerifC05ResetProcessCaches()
	for _, s := range sc.Steps {
		if s.NewProcess {
			apk.VerifC05ResetProcessCaches()
		}
		url := url
		if s.Dir != "" {
			url = filepath.Join(dir, s.Dir, "x86_64", "pkg-1.0-r0.apk")
			if err := os.MkdirAll(filepath.Dir(url), 0o755); err != nil {
				panic(err)
			}
		}
		if s.RawURL != "" {
			url = filepath.Join(dir, s.RawURL)
		}
		os.Remove(url)
		termURL := strings.TrimPrefix(url, dir+"/")
		if s.Http {
			repoName := "repo"
			if s.Dir != "" {
				repoName = s.Dir
			}
			path := fmt.Sprintf("/case%d/%s/x86_64/pkg-1.0-r0.apk", n, repoName)
			url = origin.srv.URL + path
			termURL = "http://origin/" + repoName + "/x86_64/pkg-1.0-r0.apk"
			origin.Lock()
			if s.Serve != nil {
				origin.files[path] = s.Serve.bytes()
			} else {
				delete(origin.files, path)
			}
			origin.Unlock()
			if s.Cache >= 0 {
				// the file the cache transport looks for: <cache>/<escaped repository URL>/<arch>/<file>
				wp := filepath.Join(dir, fmt.Sprintf("cache%d", s.Cache), neturl.QueryEscape(fmt.Sprintf("%s/case%d/%s", origin.srv.URL, n, repoName)), "x86_64", "pkg-1.0-r0.apk")
				os.Remove(wp)
				if s.Whole != nil {
					if err := os.MkdirAll(filepath.Dir(wp), 0o755); err != nil {
						panic(err)
					}
					if err := os.WriteFile(wp, s.Whole.bytes(), 0o644); err != nil {
						panic(err)
					}
				}
			}
		} else if s.Serve != nil && s.RawURL == "" {
			if err := os.WriteFile(url, s.Serve.bytes(), 0o644); err != nil {
				panic(err)
			}
		}
		if s.DropTar && s.Cache >= 0 {
			_ = filepath.Walk(filepath.Join(dir, fmt.Sprintf("cache%d", s.Cache)), func(p string, fi os.FileInfo, err error) error {
				if err == nil && strings.HasSuffix(p, ".dat.tar") {
					os.Remove(p)
				}
				return nil
			})
		}
		var fsys apkfs.FullFS
		if s.Lazy {
			fsys = tarfs.New()
		} else {
			fsys = apkfs.NewMemFS()
		}
		opts := []apk.Option{apk.WithFS(fsys), apk.WithArch("x86_64"), apk.WithIgnoreMknodErrors(true)}
		if s.Cache >= 0 {
			opts = append(opts, apk.WithCache(filepath.Join(dir, fmt.Sprintf("cache%d", s.Cache)), s.Offline, apk.NewCache(false)))
		}
		var o observed
		func() {
			defer func() {
				if r := recover(); r != nil {
					o = observed{err: fmt.Sprintf("panic: %v", r)}
					d, _ := json.Marshal(sc)
					fmt.Printf("IMPL-VIOLATION tag=install-panics %s\n", d)
				}
			}()
			a, err := apk.New(opts...)
			if err != nil {
				panic(err)
			}
			ctx := context.Background()
			if err := a.InitDB(ctx); err != nil {
				panic(err)
			}
			var pk []*apk.Package
			if sc.ViaIndex {
				repoDir := filepath.Dir(filepath.Dir(url))
				whole, _, ierr := synthrepo.IndexArchive(synthrepo.IndexEntry(sc.indexed), sc.key, "RSA256")
				if ierr != nil {
					panic(ierr)
				}
				ixp := filepath.Join(filepath.Dir(url), "APKINDEX.tar.gz")
				if old, rerr := os.ReadFile(ixp); rerr != nil || !bytes.Equal(old, whole) {
					if werr := os.WriteFile(ixp, whole, 0o644); werr != nil {
						panic(werr)
					}
				}
				keyPath := filepath.Join(dir, sc.key.Name)
				if werr := os.WriteFile(keyPath, sc.key.Pub, 0o644); werr != nil {
					panic(werr)
				}
				if err = a.InitKeyring(ctx, []string{keyPath}, nil); err == nil {
					if err = a.SetRepositories(ctx, []string{repoDir}); err == nil {
						if err = a.SetWorld(ctx, []string{"pkg"}); err == nil {
							pk, err = a.FixateWorld(ctx, nil)
						}
					}
				}
			} else {
				pk, err = a.InstallPackages(ctx, nil, []apk.InstallablePackage{handle{url, "pkg", s.Checksum}})
			}
			if err != nil {
				o = observed{err: err.Error()}
				return
			}
			o.ok = true
			if len(pk) == 1 && pk[0] != nil {
				o.desc = pk[0].Description
			}
			for _, nm := range names {
				if _, err := fsys.Readlink(nm); err == nil {
					continue // a symbolic link under a name that is a file in another package of this case: not a file of this install
				}
				if b, err := fsys.ReadFile(nm); err == nil {
					o.files = append(o.files, [2]string{nm, string(b)})
				}
			}
		}()
		out := "None"
		if o.ok {
			var fl []string
			for _, f := range o.files {
				fl = append(fl, gal.Pair(gal.Str(f[0]), hb(t.body([]byte(f[1])))))
			}
			out = "(Some " + gal.Pair(gal.Str(o.desc), gal.List(fl)) + ")"
			class += "I"
		} else {
			class += "E"
		}
		srv := "None"
		if s.Serve != nil && s.RawURL == "" {
			srv = "(Some " + galServed[s.Serve] + ")"
		}
		cache := "None"
		if s.Cache >= 0 {
			cache = fmt.Sprintf("(Some %d%%nat)", s.Cache)
		}
		if !b64seen[s.Checksum] {
			b64seen[s.Checksum] = true
			b64rows = append(b64rows, b64Row(s.Checksum))
		}
		whole := "None"
		if s.Whole != nil && s.Http && s.Cache >= 0 {
			whole = "(Some " + galServed[s.Whole] + ")"
		}
		steps = append(steps, fmt.Sprintf("{| s_new_process := %s; s_cache := %s; s_drop_tar := %s; s_lazy := %s; s_http := %s; s_offline := %s; s_handle := %s; s_whole := %s; s_served := %s; o_out := %s |}",
			gal.Bool(s.NewProcess), cache, gal.Bool(s.DropTar), gal.Bool(s.Lazy), gal.Bool(s.Http), gal.Bool(s.Offline && s.Cache >= 0), galHandle(termURL, s.Checksum), whole, srv, out))
	}
	for _, k := range sortedKeys(t.b64) {
		d, err := base64.StdEncoding.DecodeString(k)
		r := "None"
		if err == nil {
			r = "(Some " + hb(d) + ")"
		}
		b64rows = append(b64rows, gal.Pair(gal.Str(k), r))
	}
	term := fmt.Sprintf("{| q_sha1 := %s; q_sha256 := %s; q_b64 := %s; q_first := %s; q_ctl := %s; q_gunzip := %s; q_untar := %s; q_steps := %s |}",
		galBytesTable(t.sha1), galBytesTable(t.sha256), gal.List(b64rows), galTermTable(t.first), galTermTable(t.ctl),
		galTermTable(t.gunzip), galTermTable(t.untar), gal.List(steps))
	// replay description without temp names
	cls := class
	if sc.cell != "" {
		cls = sc.cell + ":" + class
	}
	return gal.Case{Term: term, Desc: sc, Class: cls, Key: sc.Label + "|" + class}
}

// ---- generators -------------------------------------------------------------------

type gen struct {
	key      *synthrepo.Key
	n        int
	thorough bool
}

func (g *gen) build(p *synthrepo.Pkg) *synthrepo.Built {
	p.Name, p.Version = "pkg", "1.0-r0"
	b, err := p.Build(g.key)
	if err != nil {
		panic(err)
	}
	return b
}

func seg(entries []synthrepo.File, withEOA, pax bool) []byte {
	b, err := synthrepo.Segment(entries, withEOA, pax)
	if err != nil {
		panic(err)
	}
	return b
}

// files of a package; marker makes every data section distinct; regular files
// are in ascending name order
func files(marker string, extra ...synthrepo.File) []synthrepo.File {
	fs := []synthrepo.File{
		{Name: "etc", Type: tar.TypeDir, Mode: 0o755},
		{Name: "etc/marker", Mode: 0o644, Content: []byte(marker)},
		{Name: "usr", Type: tar.TypeDir, Mode: 0o755},
		{Name: "usr/tool", Mode: 0o755, Content: []byte("#!/bin/sh\necho " + marker + "\n")},
	}
	return append(fs, extra...)
}

type variant struct {
	family string           // what kind of alteration (distribution)
	name   string
	index  *synthrepo.Built // what the index entry describes (nil: no well-formed build does; not usable behind a real index)
	idx    *served          // the stream a genuine origin serves for this index entry
	chk    string           // checksum string of the handle
	serve  *served          // what the origin serves instead
}

func sha1sum(b []byte) []byte { s := sha1.Sum(b); return s[:] } //nolint:gosec
func q1(member []byte) string { return "Q1" + base64.StdEncoding.EncodeToString(sha1sum(member)) }
func hex256(bs ...[]byte) string {
	h := sha256.New()
	for _, b := range bs {
		h.Write(b)
	}
	return hex.EncodeToString(h.Sum(nil))
}

func (g *gen) variants(tag string) []variant {
	mk := func(desc, marker string, mod func(*synthrepo.Pkg)) *synthrepo.Built {
		p := &synthrepo.Pkg{Description: desc + "/" + tag, Files: files(marker + "/" + tag)}
		if mod != nil {
			mod(p)
		}
		return g.build(p)
	}
	G := mk("genuine", "G", nil)
	var vs []variant
	// a substitution relative to a well-formed indexed build
	add := func(family, name string, index *synthrepo.Built, chk string, serve *served) {
		if chk == "" {
			chk = index.Checksum()
		} else if chk == "<empty>" {
			chk = ""
		}
		vs = append(vs, variant{family, name, index, whole("as indexed", index), chk, serve})
	}
	// an arbitrary stream behind an arbitrary checksum string
	addS := func(family, name string, idx *served, chk string, serve *served) {
		vs = append(vs, variant{family, name, nil, idx, chk, serve})
	}
	add("genuine", "genuine", G, "", whole("genuine", G))
	// same files, other control bytes
	Gc := mk("other-control", "G", nil)
	add("swap", "swapped control", G, "", mix("control of another build + genuine data", Gc, G))
	X := mk("evil", "X", nil)
	add("swap", "swapped data", G, "", mix("genuine control + data of another package", G, X))
	add("swap", "different package under the URL", G, "", whole("another, internally consistent package", X))
	// a file body altered, recorded checksum left alone
	Mb := mk("rebuilt-body", "G", func(p *synthrepo.Pkg) {
		p.Files[3].Content = []byte("#!/bin/sh\necho tampered\n")
		p.Files[3].RawChecksum = hex.EncodeToString(sha1sum([]byte("#!/bin/sh\necho G/" + tag + "\n")))
	})
	add("file", "modified file body", G, "", mix("genuine control + data with one body altered", G, Mb))
	add("file", "modified file body, whole package rebuilt", G, "", whole("package rebuilt around an altered body", Mb))
	// two regular files of one length: genuinely identical copies (fine), and a second
	// file whose header BORROWS the recorded checksum of the first while its body differs
	// (a per-package "already verified this digest" shortcut would let it through)
	Dup := mk("twin-files", "G", func(p *synthrepo.Pkg) {
		p.Files = append(p.Files, synthrepo.File{Name: "usr/tool.copy", Mode: 0o755, Content: []byte("#!/bin/sh\necho G/" + tag + "\n")})
	})
	add("file", "indexed package ships two identical files", Dup, "", whole("as indexed", Dup))
	Bor := mk("borrowed-sum", "G", func(p *synthrepo.Pkg) {
		body := []byte("#!/bin/sh\necho G/" + tag + "\n")
		alt := append([]byte{}, body...)
		alt[len(alt)-2] ^= 1
		p.Files = append(p.Files, synthrepo.File{Name: "usr/tool.copy", Mode: 0o755, Content: alt, RawChecksum: hex.EncodeToString(sha1sum(body))})
	})
	add("file", "second file borrows the recorded checksum of an earlier file of the same length", Dup, "", mix("genuine control + data whose second copy is altered under the first copy's checksum", Dup, Bor))
	add("file", "indexed package: second file borrows the checksum of an earlier one", Bor, "", whole("as indexed", Bor))
	Mc := mk("bad-sum", "G", func(p *synthrepo.Pkg) { p.Files[3].BadChecksum = true })
	add("file", "modified per-file checksum", G, "", mix("genuine control + data with one recorded checksum altered", G, Mc))
	Nc := mk("no-sum", "G", func(p *synthrepo.Pkg) { p.Files[3].NoChecksum = true })
	add("file", "missing per-file checksum", G, "", mix("genuine control + data with one checksum record removed", G, Nc))
	// the index itself describes such packages
	add("file", "indexed package has a wrong per-file checksum", Mc, "", whole("as indexed", Mc))
	add("file", "indexed package lacks a per-file checksum", Nc, "", whole("as indexed", Nc))
	Uc := mk("undecodable-sum", "U", func(p *synthrepo.Pkg) { p.Files[3].RawChecksum = "zz" })
	add("file", "indexed package has an undecodable per-file checksum", Uc, "", whole("as indexed", Uc))
	Q1 := mk("q1-sum", "Q", func(p *synthrepo.Pkg) { p.Files[3].Q1Checksum = true })
	add("file", "indexed package records per-file checksums as Q1+base64", Q1, "", whole("as indexed", Q1))
	// the forms of the record itself (checksumFromHeader): hex of either case, "Q1" + base64, undecodable values
	UcHex := mk("upper-case-hex-sum", "UH", func(p *synthrepo.Pkg) {
		p.Files[3].RawChecksum = strings.ToUpper(hex.EncodeToString(sha1sum(p.Files[3].Content)))
	})
	add("file", "indexed package records a per-file checksum in upper-case hex", UcHex, "", whole("as indexed", UcHex))
	BadB64 := mk("q1-not-base64-sum", "QB", func(p *synthrepo.Pkg) { p.Files[3].RawChecksum = "Q1!!!" })
	add("file", "indexed package records a Q1 per-file checksum that is not base64", BadB64, "", whole("as indexed", BadB64))
	OddHex := mk("odd-length-hex-sum", "OH", func(p *synthrepo.Pkg) {
		h := hex.EncodeToString(sha1sum(p.Files[3].Content))
		p.Files[3].RawChecksum = h[:len(h)-1]
	})
	add("file", "indexed package records a per-file checksum of odd hex length", OddHex, "", whole("as indexed", OddHex))
	Q1Wrong := mk("q1-sum-of-other-bytes", "QW", func(p *synthrepo.Pkg) {
		p.Files[3].RawChecksum = "Q1" + base64.StdEncoding.EncodeToString(sha1sum([]byte("other bytes")))
	})
	add("file", "indexed package records a Q1 per-file checksum of other bytes", Q1Wrong, "", whole("as indexed", Q1Wrong))
	Sy := mk("symlinks", "S", func(p *synthrepo.Pkg) {
		p.Files = append(p.Files, synthrepo.File{Name: "usr/zlink", Type: tar.TypeSymlink, Linkname: "tool", Mode: 0o777},
			synthrepo.File{Name: "usr/zlink2", Type: tar.TypeSymlink, Linkname: "tool", Mode: 0o777, NoChecksum: true})
	})
	add("links", "indexed package has a symlink without checksum", Sy, "", whole("as indexed", Sy))
	// hard links: both install paths link the new name to whatever the target name holds; no checksum is involved,
	// the link's target name is covered by the data hash only
	Hk := mk("hardlink", "K", func(p *synthrepo.Pkg) {
		p.Files = append(p.Files, synthrepo.File{Name: "usr/tool.ln", Type: tar.TypeLink, Linkname: "usr/tool", Mode: 0o755},
			synthrepo.File{Name: "usr/tool.ln2", Type: tar.TypeLink, Linkname: "usr/tool.ln", Mode: 0o755})
	})
	add("links", "indexed package has hard links (to a file, to a link)", Hk, "", whole("as indexed", Hk))
	HkR := mk("hardlink-retargeted", "K", func(p *synthrepo.Pkg) {
		p.Files = append(p.Files, synthrepo.File{Name: "usr/tool.ln", Type: tar.TypeLink, Linkname: "etc/marker", Mode: 0o755},
			synthrepo.File{Name: "usr/tool.ln2", Type: tar.TypeLink, Linkname: "usr/tool.ln", Mode: 0o755})
	})
	add("links", "hard link retargeted, data swapped in", Hk, "", mix("genuine control + data whose hard link points at another file", Hk, HkR))
	HkNd := mk("hardlink-no-datahash", "K", func(p *synthrepo.Pkg) {
		p.NoDatahash = true
		p.Files = append(p.Files, synthrepo.File{Name: "usr/tool.ln", Type: tar.TypeLink, Linkname: "usr/tool", Mode: 0o755},
			synthrepo.File{Name: "usr/tool.ln2", Type: tar.TypeLink, Linkname: "usr/tool.ln", Mode: 0o755})
	})
	add("links", "no datahash recorded, hard link retargeted", HkNd, "", mix("control without datahash + data whose hard link points at another file", HkNd, HkR))
	HkM := mk("hardlink-missing-target", "K", func(p *synthrepo.Pkg) {
		p.Files = append(p.Files, synthrepo.File{Name: "usr/tool.ln", Type: tar.TypeLink, Linkname: "usr/absent", Mode: 0o755})
	})
	add("links", "indexed package has a hard link to a name it does not ship", HkM, "", whole("as indexed", HkM))
	HkF := mk("hardlink-before-target", "K", func(p *synthrepo.Pkg) {
		p.Files = append(p.Files[:3:3], append([]synthrepo.File{{Name: "usr/a.ln", Type: tar.TypeLink, Linkname: "usr/tool", Mode: 0o755}}, p.Files[3:]...)...)
	})
	add("links", "indexed package has a hard link that precedes its target", HkF, "", whole("as indexed", HkF))
	// a regular file AFTER a hard link is held to its recorded checksum like any other
	mid := func(desc string, alter bool) *synthrepo.Built {
		return mk(desc, "K", func(p *synthrepo.Pkg) {
			tool := p.Files[3]
			if alter {
				tool.RawChecksum = hex.EncodeToString(sha1sum(tool.Content))
				tool.Content = []byte("#!/bin/sh\necho altered after the link\n")
			}
			p.Files = append(p.Files[:3:3], synthrepo.File{Name: "usr/a", Mode: 0o644, Content: []byte("a/" + tag)},
				synthrepo.File{Name: "usr/a.ln", Type: tar.TypeLink, Linkname: "usr/a", Mode: 0o644}, tool)
		})
	}
	HkMid, HkMidBad := mid("hardlink-in-the-middle", false), mid("hardlink-in-the-middle-altered", true)
	add("links", "indexed package has a hard link between regular files", HkMid, "", whole("as indexed", HkMid))
	add("links", "file after a hard link altered under its recorded checksum, data swapped in", HkMid, "", mix("genuine control + data whose file after the hard link is altered", HkMid, HkMidBad))
	add("links", "indexed package: file after a hard link does not match its recorded checksum", HkMidBad, "", whole("as indexed", HkMidBad))
	Dv := mk("device", "D", func(p *synthrepo.Pkg) {
		p.Files = append(p.Files, synthrepo.File{Name: "usr/null", Type: tar.TypeChar, Devmajor: 1, Devminor: 3, Mode: 0o666})
	})
	add("links", "indexed package ships a character device", Dv, "", whole("as indexed", Dv))
	Wd := mk("wrong-datahash", "W", func(p *synthrepo.Pkg) { p.WrongDatahash = true })
	add("datahash", "indexed package records a wrong datahash", Wd, "", whole("as indexed", Wd))
	Nd := mk("no-datahash", "N", func(p *synthrepo.Pkg) { p.NoDatahash = true })
	add("datahash", "indexed package records no datahash", Nd, "", whole("as indexed", Nd))
	add("datahash", "no datahash recorded, data swapped", Nd, "", mix("control without datahash + data of another package", Nd, X))
	Ed := mk("empty-datahash", "E", func(p *synthrepo.Pkg) { p.NoDatahash = true; p.PkginfoExtra = "datahash = \n" })
	add("datahash", "indexed package records an empty datahash", Ed, "", whole("as indexed", Ed))
	add("datahash", "empty datahash recorded, data swapped", Ed, "", mix("control with empty datahash + data of another package", Ed, X))
	Td := mk("two-datahash", "T", func(p *synthrepo.Pkg) { p.PkginfoExtra = "datahash = " + strings.Repeat("00", 32) + "\n" })
	add("datahash", "indexed package records two datahash values, one wrong", Td, "", whole("as indexed", Td))
	Ud := mk("uppercase-datahash", "UD", func(p *synthrepo.Pkg) { p.NoDatahash = true })
	{ // the right digest in upper case: compared as text with the lower-case hex of the computed one
		p := *Ud.Pkg
		p.PkginfoExtra = "datahash = " + strings.ToUpper(hex.EncodeToString(Ud.DataSHA256)) + "\n"
		c := seg([]synthrepo.File{{Name: ".PKGINFO", Mode: 0o644, Content: p.Pkginfo("", Ud.InstalledSize)}}, false, false)
		addS("datahash", "datahash in upper-case hex", stream("as indexed", c, Ud.Data), q1(c), stream("as indexed", c, Ud.Data))
	}
	Hd := mk("hidden-first", "H", func(p *synthrepo.Pkg) {
		p.Files = append([]synthrepo.File{{Name: ".hidden", Mode: 0o644, Content: []byte("h")}}, p.Files...)
	})
	add("hidden", "indexed package starts with a hidden top-level file", Hd, "", whole("as indexed", Hd))
	// a top-level dot file AFTER other entries is an ordinary packaged file (only the leading run of such names is skipped by the
	// installer): installed, and its body is held to its recorded checksum like any other (seeded change C05-4)
	Hl := mk("hidden-later", "L", func(p *synthrepo.Pkg) {
		p.Files = append(p.Files, synthrepo.File{Name: ".profile", Mode: 0o644, Content: []byte("export L=1\n")})
	})
	add("hidden", "indexed package ends with a top-level dot file", Hl, "", whole("as indexed", Hl))
	HlBad := mk("hidden-later-altered", "L", func(p *synthrepo.Pkg) {
		p.Files = append(p.Files, synthrepo.File{Name: ".profile", Mode: 0o644, Content: []byte("export L=2\n"), RawChecksum: hex.EncodeToString(sha1sum([]byte("export L=1\n")))})
	})
	add("hidden", "late top-level dot file altered under its recorded checksum, data swapped in", Hl, "", mix("genuine control + data whose late dot file is altered", Hl, HlBad))
	add("hidden", "indexed package: late top-level dot file does not match its recorded checksum", HlBad, "", whole("as indexed", HlBad))
	HlNd := mk("hidden-later-altered-no-datahash", "L", func(p *synthrepo.Pkg) {
		p.NoDatahash = true
		p.Files = append(p.Files, synthrepo.File{Name: ".profile", Mode: 0o644, Content: []byte("export L=3\n"), RawChecksum: hex.EncodeToString(sha1sum([]byte("export L=1\n")))})
	})
	add("hidden", "indexed package without datahash: late dot file does not match its recorded checksum", HlNd, "", whole("as indexed", HlNd))
	// handle checksum shapes
	add("handle", "handle checksum without the Q1 prefix", G, strings.TrimPrefix(G.Checksum(), "Q1"), whole("genuine", G))
	add("handle", "handle checksum without Q1, different package served", G, strings.TrimPrefix(G.Checksum(), "Q1"), whole("another package", X))
	add("handle", "handle checksum is not base64", G, "Q1!!!not-base64!!!", whole("genuine", G))
	add("handle", "handle checksum with a doubled Q1 prefix", G, "Q1"+G.Checksum(), whole("genuine", G))
	add("handle", "handle checksum empty", G, "<empty>", whole("genuine", G))
	add("handle", "handle checksum of another package (index updated), genuine served", X, "", whole("genuine", G))
	add("handle", "nothing under the URL", G, "", nil)

	// ---- the shape of the served stream: which gzip members, what follows them ------------------------
	gw := whole("genuine", G)
	addS("stream", "unsigned: control and data member only", gw, G.Checksum(), stream("genuine without signature member", G.Control, G.Data))
	addS("stream", "unsigned, data of another package", gw, G.Checksum(), stream("genuine control + data of another package, no signature member", G.Control, X.Data))
	addS("stream", "512 zero bytes after the data member", gw, G.Checksum(), gw.withTrail(make([]byte, 512)))
	addS("stream", "one byte after the data member", gw, G.Checksum(), gw.withTrail([]byte{0}))
	addS("stream", "text after the data member", gw, G.Checksum(), gw.withTrail([]byte("trailing bytes that are no gzip member")))
	addS("stream", "truncated gzip member after the data member", gw, G.Checksum(), gw.withTrail(X.Data[:len(X.Data)/2]))
	addS("stream", "truncated: signature and control member only", gw, G.Checksum(), stream("genuine without data member", G.Sig, G.Control))
	addS("stream", "truncated: signature and control member only, handle records the signature member", stream("genuine without data member", G.Sig, G.Control), q1(G.Sig), stream("genuine without data member", G.Sig, G.Control))
	addS("stream", "control member only", gw, G.Checksum(), stream("control member alone", G.Control))
	addS("stream", "signature member only", gw, G.Checksum(), stream("signature member alone", G.Sig))
	addS("stream", "empty file", gw, G.Checksum(), stream("no bytes"))
	addS("stream", "no gzip member at all", gw, G.Checksum(), stream("text").withTrail([]byte("this is not an apk")))
	addS("stream", "two signature members", gw, G.Checksum(), stream("signature twice, control, data", G.Sig, G.Sig, G.Control, G.Data))
	addS("stream", "data member of another package appended", gw, G.Checksum(), stream("genuine + one more data member", G.Sig, G.Control, G.Data, X.Data))
	addS("stream", "empty gzip member appended", gw, G.Checksum(), stream("genuine + an empty gzip member", G.Sig, G.Control, G.Data, seg(nil, false, false)))
	addS("stream", "data member doubled", gw, G.Checksum(), stream("genuine with the data member twice", G.Sig, G.Control, G.Data, G.Data))
	addS("stream", "control member doubled", gw, G.Checksum(), stream("signature, control, control, data", G.Sig, G.Control, G.Control, G.Data))
	{ // a data section split over two members (first without end-of-archive marker), datahash over both
		p := &synthrepo.Pkg{Name: "pkg", Version: "1.0-r0", Arch: "x86_64", Description: "split-data/" + tag}
		fs := files("P/" + tag)
		d1, d2 := seg(fs[:2], false, true), seg(fs[2:], true, true)
		c := seg([]synthrepo.File{{Name: ".PKGINFO", Mode: 0o644, Content: p.Pkginfo(hex256(d1, d2), 0)}}, false, false)
		split := stream("control + data section in two members", c, d1, d2)
		addS("stream", "indexed package: data section split over two members", split, q1(c), split)
		addS("stream", "split data section, second half missing", split, q1(c), stream("control + first half of the data section", c, d1))
		addS("stream", "split data section, halves swapped", split, q1(c), stream("control + second half, first half", c, d2, d1))
		addS("stream", "split data section behind a signature member", split, q1(c), stream("signature + control + data section in two members", G.Sig, c, d1, d2))
		// a member after the end-of-archive marker: hashed (the datahash covers it), never read as entries
		after := seg([]synthrepo.File{{Name: "usr/after", Mode: 0o644, Content: []byte("after the end-of-archive marker")}}, true, true)
		c2 := seg([]synthrepo.File{{Name: ".PKGINFO", Mode: 0o644, Content: p.Pkginfo(hex256(d1, d2, after), 0)}}, false, false)
		three := stream("control + data section in two members + a member after the end-of-archive marker", c2, d1, d2, after)
		addS("stream", "indexed package: a member after the end-of-archive marker", three, q1(c2), three)
		// control section whose first entry is a script, .PKGINFO second
		c3 := seg([]synthrepo.File{{Name: ".pre-install", Mode: 0o755, Content: []byte("#!/bin/sh\n")}, {Name: ".PKGINFO", Mode: 0o644, Content: p.Pkginfo(hex256(d1, d2), 0)}}, false, false)
		scr := stream("control starting with a script", c3, d1, d2)
		addS("stream", "indexed package: control section starts with a script", scr, q1(c3), scr)
		// control section without .PKGINFO, control member that is an empty tar, data section that is no tar
		c4 := seg([]synthrepo.File{{Name: ".pre-install", Mode: 0o755, Content: []byte("#!/bin/sh\n")}}, false, false)
		addS("stream", "control section without .PKGINFO", stream("as indexed", c4, d1, d2), q1(c4), stream("as indexed", c4, d1, d2))
		c5 := seg(nil, false, false)
		addS("stream", "control member is an empty archive", stream("as indexed", c5, d1, d2), q1(c5), stream("as indexed", c5, d1, d2))
		junk, err := synthrepo.Gz([]byte(strings.Repeat("not a tar archive ", 64)))
		if err != nil {
			panic(err)
		}
		c6 := seg([]synthrepo.File{{Name: ".PKGINFO", Mode: 0o644, Content: p.Pkginfo(hex256(junk), 0)}}, false, false)
		addS("stream", "data section is not a tar archive", stream("as indexed", c6, junk), q1(c6), stream("as indexed", c6, junk))
	}
	// ---- the .PKGINFO text: long lines, line endings, white space, several datahash lines -------------------------------
	{
		base := &synthrepo.Pkg{Name: "pkg", Version: "1.0-r0", Arch: "x86_64", Description: "pkginfo-text/" + tag, NoDatahash: true}
		dh := hex.EncodeToString(G.DataSHA256)
		head := string(base.Pkginfo("", G.InstalledSize)) // every line but the datahash one
		texts := []struct{ name, text string }{
			{"datahash=<digest> without blanks", head + "datahash=" + dh + "\n"},
			{"tabs, blanks and a no-break space around key and value", head + "\t datahash \t=\t " + dh + " \u00a0\n"},
			{"CR LF line ends", strings.ReplaceAll(head+"datahash = "+dh+"\n", "\n", "\r\n")},
			{"no newline after the datahash line", head + "datahash = " + dh},
			{"the datahash line comes first", "datahash = " + dh + "\n" + head},
			{"empty lines and a comment around the datahash line", head + "\n\n# datahash follows\ndatahash = " + dh + "\n\n"},
			{"the right datahash twice", head + "datahash = " + dh + "\ndatahash = " + dh + "\n"},
			{"a line of 65535 bytes before the datahash line", head + "provides = " + strings.Repeat("x", 65535-11) + "\ndatahash = " + dh + "\n"},
			{"a line of 65536 bytes before the datahash line", head + "provides = " + strings.Repeat("x", 65536-11) + "\ndatahash = " + dh + "\n"},
			{"a line of 70000 bytes before the datahash line", head + "provides = " + strings.Repeat("x", 70000-11) + "\ndatahash = " + dh + "\n"},
			{"a line of 70000 bytes after the datahash line", head + "datahash = " + dh + "\nprovides = " + strings.Repeat("y", 70000-11) + "\n"},
			{"a comment of 70000 bytes without '=' before the datahash line", head + "# " + strings.Repeat("z", 70000-2) + "\ndatahash = " + dh + "\n"},
		}
		if g.thorough {
			texts = append(texts, struct{ name, text string }{"a line of 1 MiB before the datahash line", head + "provides = " + strings.Repeat("x", 1<<20) + "\ndatahash = " + dh + "\n"})
		}
		for _, t := range texts {
			c := seg([]synthrepo.File{{Name: ".PKGINFO", Mode: 0o644, Content: []byte(t.text)}}, false, false)
			ok := stream(".PKGINFO: "+t.name, G.Sig, c, G.Data)
			addS("pkginfo", "indexed package, .PKGINFO: "+t.name, ok, q1(c), ok)
			addS("pkginfo", ".PKGINFO: "+t.name+"; data swapped", ok, q1(c), stream("that control + data of another package", G.Sig, c, X.Data))
		}
		// a datahash line with two '=' is no key=value line: such a control section records NO datahash
		c := seg([]synthrepo.File{{Name: ".PKGINFO", Mode: 0o644, Content: []byte(head + "datahash = " + dh + " = x\n")}}, false, false)
		two := stream(".PKGINFO: datahash line with two '='", G.Sig, c, G.Data)
		addS("pkginfo", "indexed package, .PKGINFO: datahash line with two '=' (records nothing)", two, q1(c), two)
		addS("pkginfo", ".PKGINFO: datahash line with two '=' (records nothing); data swapped", two, q1(c), stream("that control + data of another package", G.Sig, c, X.Data))
	}
	// ---- data-section entries of every tar type flag, carrying a body and a checksum record where the format allows one ------------
	{
		p := &synthrepo.Pkg{Name: "pkg", Version: "1.0-r0", Arch: "x86_64"}
		rec := func(of []byte) []byte {
			return synthrepo.PaxMeta(map[string]string{"APK-TOOLS.checksum.SHA1": hex.EncodeToString(sha1sum(of))})
		}
		reg := func(name string, body []byte) []byte { return append(rec(body), synthrepo.RawEntry(name, body, '0')...) }
		pkg := func(desc string, nodh bool, odd ...[]byte) *served {
			raw := append([]byte{}, synthrepo.RawHeader("etc/", 0, '5', 0o755)...)
			raw = append(raw, reg("etc/marker", []byte("T/"+tag))...)
			raw = append(raw, synthrepo.RawHeader("usr/", 0, '5', 0o755)...)
			raw = append(raw, reg("usr/tool", []byte("#!/bin/sh\necho T/"+tag+"\n"))...)
			for _, o := range odd {
				raw = append(raw, o...)
			}
			raw = append(raw, reg("usr/zlast", []byte("last/"+tag))...)
			raw = append(raw, synthrepo.EOA()...)
			dat, err := synthrepo.Gz(raw)
			if err != nil {
				panic(err)
			}
			pp := *p
			pp.Description = desc + "/" + tag
			pp.NoDatahash = nodh
			c := seg([]synthrepo.File{{Name: ".PKGINFO", Mode: 0o644, Content: pp.Pkginfo(hex256(dat), 0)}}, false, false)
			return stream(desc, G.Sig, c, dat)
		}
		ctlOf := func(s *served) []byte { return s.members[1] }
		body, other := []byte("odd body/"+tag), []byte("other bytes/"+tag)
		for _, fl := range []struct {
			flag byte
			name string
		}{{0, "the old regular-file flag NUL"}, {'7', "a contiguous file '7'"}, {'Z', "an unknown flag 'Z'"}} {
			gen := pkg("entry-"+fl.name, false, append(rec(body), synthrepo.RawEntry("usr/odd", body, fl.flag)...))
			alt := pkg("entry-altered-"+fl.name, false, append(rec(other), synthrepo.RawEntry("usr/odd", body, fl.flag)...))
			addS("types", "indexed package has "+fl.name+" with a body and its checksum record", gen, q1(ctlOf(gen)), gen)
			addS("types", "indexed package has "+fl.name+" whose body disagrees with its checksum record", alt, q1(ctlOf(alt)), alt)
		}
		for _, fl := range []struct {
			flag byte
			name string
		}{{'3', "a character device '3'"}, {'4', "a block device '4'"}, {'6', "a fifo '6'"}} {
			gen := pkg("entry-"+fl.name, false, append(rec(nil), synthrepo.RawHeader("usr/odd", 0, fl.flag, 0o644)...))
			addS("types", "indexed package has "+fl.name+" with a checksum record", gen, q1(ctlOf(gen)), gen)
		}
		// a record under another spelling of the key is not the record: the file has NO checksum (and its body is altered)
		lk := pkg("entry-record-under-lower-case-key", false, append(synthrepo.PaxMeta(map[string]string{"apk-tools.checksum.sha1": hex.EncodeToString(sha1sum(other))}), synthrepo.RawEntry("usr/odd", body, '0')...))
		addS("types", "indexed package has a regular file whose record sits under a lower-case key", lk, q1(ctlOf(lk)), lk)
		sl := pkg("entry-symlink-wrong-record", false, append(rec(other), synthrepo.RawHeaderLink("usr/odd", "tool", '2', 0o777)...))
		addS("types", "indexed package has a symlink whose checksum record is not that of its target name", sl, q1(ctlOf(sl)), sl)
		hl := pkg("entry-hardlink-with-record", false, append(rec(other), synthrepo.RawHeaderLink("usr/odd", "usr/tool", '1', 0o755)...))
		addS("types", "indexed package has a hard link carrying a checksum record of other bytes", hl, q1(ctlOf(hl)), hl)
		// a PAX sparse regular entry: archive/tar yields its LOGICAL content ("ABCD", 8 zero bytes, "WXYZ"), the record is over that;
		// stored are the two fragments "ABCDWXYZ" and then whatever fills the block
		logical := append(append([]byte("ABCD"), make([]byte, 8)...), []byte("WXYZ")...)
		sparse := func(after []byte) []byte {
			return append(synthrepo.PaxMeta(map[string]string{"APK-TOOLS.checksum.SHA1": hex.EncodeToString(sha1sum(logical)), "GNU.sparse.major": "0", "GNU.sparse.minor": "1",
				"GNU.sparse.name": "usr/sparse", "GNU.sparse.size": "16", "GNU.sparse.numblocks": "2", "GNU.sparse.map": "0,4,12,4"}),
				synthrepo.RawEntryAfter("usr/GNUSparseFile.0/sparse", []byte("ABCDWXYZ"), '0', after)...)
		}
		sp := pkg("entry-sparse", false, sparse(nil))
		addS("sparse", "fixed C05-F4 replay: indexed package has a sparse regular file (PAX 0.1) with the checksum record of its logical content", sp, q1(ctlOf(sp)), sp)
		spNd := pkg("entry-sparse-no-datahash", true, sparse(nil))
		spEvil := pkg("entry-sparse-altered-fill", true, sparse([]byte("EVILEVIL")))
		addS("sparse", "fixed C05-F4 replay: sparse regular file, no datahash recorded, the bytes stored behind its fragments altered", spNd, q1(ctlOf(spNd)), stream("that control + data whose block fill behind the sparse fragments is altered", G.Sig, ctlOf(spNd), spEvil.members[2]))
	}
	// ---- fixed C05-F3 replays: exactly two members, the first starting with a .SIGN.* entry (refused since fix 3bc1979;
	// before, the first member was taken for the control section, the second — SHA-1, no per-file check — for the data section)
	for _, bad := range []bool{false, true} {
		fs := files("F3/" + tag)
		what := "files as recorded"
		if bad {
			fs[3].BadChecksum = true
			what = "one body disagrees with its recorded checksum"
		}
		dat := seg(fs, true, true)
		for _, dhk := range []string{"sha1", "sha256", "none"} {
			p := &synthrepo.Pkg{Name: "pkg", Version: "1.0-r0", Arch: "x86_64", Description: "sign-first-" + dhk + "/" + tag}
			dh := ""
			switch dhk {
			case "sha1":
				dh = hex.EncodeToString(sha1sum(dat))
			case "sha256":
				dh = hex256(dat)
			case "none":
				p.NoDatahash = true
			}
			c := seg([]synthrepo.File{{Name: ".SIGN.RSA.nobody.rsa.pub", Mode: 0o644, Content: []byte("no signature")},
				{Name: ".PKGINFO", Mode: 0o644, Content: p.Pkginfo(dh, 0)}}, false, false)
			s2 := stream("control member starting with a .SIGN.* entry + data member", c, dat)
			addS("sign-first", "fixed C05-F3 replay: two members, the first starts with a .SIGN.* entry; datahash "+dhk+"; "+what, s2, q1(c), s2)
			if dhk == "sha256" {
				// the same two members behind a real signature member are an ordinary package
				s3 := stream("signature + control member starting with a .SIGN.* entry + data member", G.Sig, c, dat)
				addS("sign-first", "control member starting with a .SIGN.* entry behind a signature member; "+what, s3, q1(c), s3)
			}
		}
	}
	return vs
}

func main() {
	out := flag.String("out", "", "cases dir")
	seed := flag.Uint64("seed", 1, "seed")
	tier := flag.String("tier", "quick", "tier")
	flag.String("replay", "", "unused")
	flag.Parse()
	slog.SetDefault(slog.New(slog.NewTextHandler(io.Discard, nil)))
	key, err := synthrepo.NewKey("c05@verif-1.rsa.pub")
	if err != nil {
		panic(err)
	}
	root, err := os.MkdirTemp("", "c05")
	if err != nil {
		panic(err)
	}
	defer os.RemoveAll(root)
	startOrigin()
	defer origin.srv.Close()
	g := &gen{key: key, thorough: *tier == "thorough"}
	r := gal.NewRand(*seed)
	wr := &gal.Writer{Dir: *out, Require: "From Apko Require Import Corr.C05.", Type: "seq_case", Check: "check_seq", Shard: 60}
	n := 0
	cells := map[string]int{}
	run := func(sc *seqCase) {
		wr.Add(runCase(root, n, sc))
		n++
	}
	vs := g.variants("corpus")
	genuine := vs[0]
	families := map[string]bool{}
	for _, lazy := range []bool{true, false} {
		lz := map[bool]string{true: "lazy", false: "streaming"}[lazy]
		for vi := range vs {
			v := &vs[vi]
			families[v.family] = true
			st := func(newp bool, cache int, serve *served) step {
				return step{NewProcess: newp, Cache: cache, Lazy: lazy, Checksum: v.chk, Serve: serve}
			}
			cell := func(history string, steps ...step) {
				c := v.family + "/" + history + "/" + lz
				cells[v.name+"/"+history+"/"+lz]++
				run(&seqCase{Label: v.name + " / " + history + " / " + lz, Steps: steps, cell: c})
			}
			// ---- the cache modes, for every variant: disabled / cold / warm / offline ----
			cell("no cache", st(true, -1, v.serve))
			// cold cache, then the same request again in a new process (warm or still cold)
			cell("cold, then again in a new process", st(true, 0, v.serve), st(true, 0, v.serve))
			// warm: a previous process cached what the index describes; now the origin serves the variant
			cell("warm cache from an earlier process", st(true, 0, v.idx), st(true, 0, v.serve))
			// offline: the cache directory was pre-populated with a whole .apk under the URL-derived name (nothing ever
			// verified it); the build never asks the origin. Then again offline (content-addressed entries, if any were made)
			off := step{NewProcess: true, Cache: 0, Lazy: lazy, Http: true, Offline: true, Checksum: v.chk, Whole: v.serve}
			cell("offline, whole .apk pre-populated, then again", off, off)
			// ---- further histories: all of them in the thorough tier, one per variant (rotating with the seed) in the quick tier ----
			extras := []func(){
				func() {
					// warm, but the cache holds no uncompressed tar (written by an older apko, or pruned): rebuilt from the .dat.tar.gz
					dropped := st(true, 0, v.serve)
					dropped.DropTar = true
					cell("warm cache without the uncompressed tar", st(true, 0, v.idx), dropped, st(true, 0, v.serve))
				},
				func() {
					// substituted bytes first (must not poison the cache), then the origin is repaired, new process
					cell("variant first, origin repaired, new process", st(true, 0, v.serve), st(true, 0, v.idx))
				},
				func() {
					// same process: second request for the same URL (memo)
					cell("same request twice in one process", st(true, 0, v.serve), st(false, 0, v.idx))
				},
				func() {
					// online over http with a cache: a whole .apk under the URL-derived name beats the origin; then offline without it
					cell("online over http, pre-populated whole .apk beats the origin, then offline without it",
						step{NewProcess: true, Cache: 0, Lazy: lazy, Http: true, Checksum: v.chk, Whole: v.serve, Serve: v.idx},
						step{NewProcess: true, Cache: 0, Lazy: lazy, Http: true, Offline: true, Checksum: v.chk})
				},
				func() {
					// online over http: no cache, then cold, then offline from what the cold build stored
					cell("online over http: no cache, cold, then offline",
						step{NewProcess: true, Cache: -1, Lazy: lazy, Http: true, Checksum: v.chk, Serve: v.serve},
						step{NewProcess: true, Cache: 0, Lazy: lazy, Http: true, Checksum: v.chk, Serve: v.serve},
						step{NewProcess: true, Cache: 0, Lazy: lazy, Http: true, Offline: true, Checksum: v.chk})
				},
			}
			for ei, e := range extras {
				if *tier == "thorough" || (vi+int(*seed))%len(extras) == ei {
					e()
				}
			}
		}
		// C05-F1: one process, the URL is republished: index and origin both move to another build
		other := vs[3] // "different package under the URL": serve = X whole
		xIdx := other.serve
		xChk := q1(xIdx.members[1])
		run(&seqCase{Label: "fixed C05-F1 replay: URL republished within one process (fresh cache dir) / " + lz, cell: "memo/republished/" + lz, Steps: []step{
			{NewProcess: true, Cache: 0, Lazy: lazy, Checksum: genuine.chk, Serve: genuine.serve},
			{NewProcess: false, Cache: 1, Lazy: lazy, Checksum: xChk, Serve: xIdx}}})
		// C05-F2: the memo key URL+"@"+checksum is ambiguous when either part contains '@'
		run(&seqCase{Label: "fixed C05-F2 replay: memo key ambiguity: (dir 'r@x', Q1<G>) then (dir 'r', 'x/x86_64/pkg-1.0-r0.apk@Q1<G>') / " + lz, cell: "memo/key-ambiguity/" + lz, Steps: []step{
			{NewProcess: true, Cache: 0, Lazy: lazy, Checksum: genuine.chk, Serve: genuine.serve, Dir: "r@x"},
			{NewProcess: false, Cache: 0, Lazy: lazy, Checksum: "x/x86_64/pkg-1.0-r0.apk@" + genuine.chk, RawURL: "r"}}})
		run(&seqCase{Label: "URL republished, new process / " + lz, cell: "memo/republished/" + lz, Steps: []step{
			{NewProcess: true, Cache: 0, Lazy: lazy, Checksum: genuine.chk, Serve: genuine.serve},
			{NewProcess: true, Cache: 0, Lazy: lazy, Checksum: xChk, Serve: xIdx}}})
		run(&seqCase{Label: "URL republished within one process, cache disabled / " + lz, cell: "memo/republished/" + lz, Steps: []step{
			{NewProcess: true, Cache: -1, Lazy: lazy, Checksum: genuine.chk, Serve: genuine.serve},
			{NewProcess: false, Cache: -1, Lazy: lazy, Checksum: xChk, Serve: xIdx}}})
	}
	// the same substitutions behind a real signed index, through the resolver
	for _, lazy := range []bool{true, false} {
		lz := map[bool]string{true: "lazy", false: "streaming"}[lazy]
		for vi := range vs {
			v := &vs[vi]
			if v.index == nil || v.chk != v.index.Checksum() {
				continue // the checksum string is whatever the index parser produces
			}
			run(&seqCase{Label: v.name + " / via signed index, no cache / " + lz, ViaIndex: true, indexed: v.index, key: key, cell: v.family + "/via signed index, no cache/" + lz,
				Steps: []step{{NewProcess: true, Cache: -1, Lazy: lazy, Checksum: v.chk, Serve: v.serve}}})
			run(&seqCase{Label: v.name + " / via signed index, warm cache from an earlier process / " + lz, ViaIndex: true, indexed: v.index, key: key, cell: v.family + "/via signed index, warm/" + lz,
				Steps: []step{{NewProcess: true, Cache: 0, Lazy: lazy, Checksum: v.chk, Serve: v.idx}, {NewProcess: true, Cache: 0, Lazy: lazy, Checksum: v.chk, Serve: v.serve}}})
		}
	}
	// generated sequences over fresh builds
	rounds := 30
	if *tier == "thorough" {
		rounds = 400
	}
	for i := 0; i < rounds; i++ {
		vs := g.variants(fmt.Sprintf("r%d", i))
		v := &vs[r.Intn(len(vs))]
		lazy := r.Bool()
		http := r.Chance(1, 3) // one URL per sequence: a local path or http
		var steps []step
		for j, ns := 0, 2+r.Intn(3); j < ns; j++ {
			s := step{NewProcess: j == 0 || r.Bool(), Cache: r.Intn(3) - 1, Lazy: lazy, Checksum: v.chk}
			switch r.Intn(4) {
			case 0:
				s.Serve = v.idx
			case 1, 2:
				s.Serve = v.serve
			case 3:
				w := &vs[r.Intn(len(vs))]
				s.Serve = w.serve
			}
			if r.Chance(1, 6) {
				w := &vs[r.Intn(len(vs))]
				s.Checksum = w.chk
			}
			if r.Chance(1, 8) {
				lazy = !lazy
				s.Lazy = lazy
			}
			if r.Chance(1, 6) {
				s.DropTar = true
			}
			if http {
				// through the cache transport: sometimes a whole .apk is pre-populated, sometimes the cache is offline
				s.Http = true
				if r.Chance(1, 3) {
					w := &vs[r.Intn(len(vs))]
					s.Whole = []*served{v.idx, v.serve, w.serve}[r.Intn(3)]
				}
				s.Offline = r.Chance(1, 3)
			}
			steps = append(steps, s)
		}
		run(&seqCase{Label: fmt.Sprintf("generated %d around %q", i, v.name), Steps: steps, cell: "generated/" + v.family})
	}
	minCell := -1
	for _, c := range cells {
		if minCell < 0 || c < minCell {
			minCell = c
		}
	}
	fams := make([]string, 0, len(families))
	for f := range families {
		fams = append(fams, f)
	}
	sort.Strings(fams)
	hist := 5 // the four cache modes + one rotating history
	if *tier == "thorough" {
		hist = 9
	}
	wr.Extra = map[string]any{"variants": len(vs), "variant_families": fams, "cache_modes": []string{"disabled", "cold", "warm", "offline pre-populated"},
		"further_histories": 5, "install_paths": 2, "cells": len(cells), "cells_expected": len(vs) * hist * 2, "min_cases_per_cell": minCell}
	// one wave of the 16 parallel coqc jobs
	if wr.Shard = (wr.Len() + 15) / 16; wr.Shard < 40 {
		wr.Shard = 40
	}
	if err := wr.Flush(); err != nil {
		fmt.Fprintln(os.Stderr, "c05:", err)
		os.Exit(2)
	}
}
